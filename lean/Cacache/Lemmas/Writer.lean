/-
Weakest-precondition facts about the content writer: the temp file always holds what was hashed,
and the content store stays valid at every kill point and under every fault.
-/
import Cacache.Lemmas.Content

namespace Cacache
open Prog

theorem spliceAt_plain (f d : Bytes) : spliceAt f f.length d = f ++ d := by
  simp [spliceAt]

theorem spliceAt_take (f d : Bytes) (pos : Nat) (h : pos + d.length ≤ f.length) :
    (spliceAt f pos d).take (pos + d.length) = f.take pos ++ d := by
  have hp : pos ≤ f.length := by omega
  simp only [spliceAt, hp, if_true]
  have hl : (List.take pos f ++ d).length = pos + d.length := by simp; omega
  rw [← hl, List.take_left']
  rfl

theorem spliceAt_length (f d : Bytes) (pos : Nat) (h : pos + d.length ≤ f.length) :
    (spliceAt f pos d).length = f.length := by
  have hp : pos ≤ f.length := by omega
  simp only [spliceAt, hp, if_true, List.length_append, List.length_take, List.length_drop]
  omega

variable (cfg : Cfg) (env : Env) (cache : Path)

/-- wp rule for a call that cannot touch a content file: validity holds before, in every torn
state and after every outcome; the continuation may assume it. -/
theorem wpD_safe {α : Type} {Post : α → FS → Prop} {c : Call} {k : Ret → Prog α} {fs : FS}
    (hq : ContentValid cfg cache fs) (hnot : ∀ q ∈ c.fileTargets fs, ¬ IsAddr cache q)
    (hk : ∀ fs' r, Step env fs c fs' r → ContentValid cfg cache fs' →
      wpD env (ContentValid cfg cache) Post (k r) fs') :
    wpD env (ContentValid cfg cache) Post (.sys c k) fs :=
  ⟨hq, fun t => torn_contentValid t hnot hq,
   fun fs' r hs => hk fs' r hs (step_contentValid hs hnot hq)⟩

theorem wpD_done {α : Type} {Post : α → FS → Prop} {a : α} {fs : FS}
    (hq : ContentValid cfg cache fs) (hp : Post a fs) :
    wpD env (ContentValid cfg cache) Post (.done a) fs := ⟨hq, hp⟩

theorem tmp_not_addr {tmp : Path} (h : ∃ n, tmp = (cache ++ [dTmp]) ++ [n]) : ¬ IsAddr cache tmp := by
  obtain ⟨n, rfl⟩ := h
  apply not_isAddr_of_length; simp

/-- Removing the temp file keeps the store valid, whatever happens. -/
theorem dropTmp_wp {fs : FS} (tmp : Path) (hq : ContentValid cfg cache fs) :
    wpD env (ContentValid cfg cache) (fun _ fs' => ContentValid cfg cache fs') (dropTmp tmp) fs := by
  unfold dropTmp
  simp only [bind_eq, pure_eq, call, bind_sys, bind_done]
  apply wpD_safe cfg env cache hq
  · intro q hq'; simp [Call.fileTargets] at hq'
  · intro fs' r _ hv; exact wpD_done cfg env cache hv hv

/-- The writer's private view: its temp file holds what was hashed (followed, while a mapping is
in use, by the not-yet-written rest of the pre-allocated area). -/
structure WInv (w : Writer) (fs : FS) : Prop where
  ok : w.Ok
  pos : w.pos = w.hashed.length
  file : ∃ f, fs.get w.tmp = some (.file f) ∧ f.take w.pos = w.hashed ∧
    (w.mmap = none → f.length = w.pos) ∧ (∀ n, w.mmap = some n → f.length = n ∧ w.pos ≤ n)

theorem not_err_of {r : Ret} (h : ∀ e, r = Ret.err e → False) : ¬ ∃ e, r = Ret.err e :=
  fun ⟨e, he⟩ => h e he

/-- What `wopen` promises about the writer it hands out. -/
def OpenPost (key : Option Bytes) (o : WriteOpts) (r : Res Writer) (fs' : FS) : Prop :=
  ∀ w, r = Except.ok w → w.cache = cache ∧ w.key = key ∧ w.opts = o ∧
    w.written = 0 ∧ w.hashed = [] ∧ w.algo = o.algo.getD .sha256 ∧ WInv w fs'

/-- Opening a writer: the store stays valid throughout, and a writer that is handed out satisfies
its invariant. -/
theorem wopen_wp (fl : Flavour) (key : Option Bytes) (o : WriteOpts) {fs : FS}
    (hq : ContentValid cfg cache fs) :
    wpD env (ContentValid cfg cache) (OpenPost cache key o) (wopen cfg fl cache key o) fs := by
  unfold wopen
  simp only [bind_eq, pure_eq, call, bind_sys, bind_done]
  apply wpD_safe cfg env cache hq
  · intro q hq'; simp [Call.fileTargets] at hq'
  intro fs1 r1 _ hv1
  split
  · exact wpD_done cfg env cache hv1 (fun w hw => by cases hw)
  · apply wpD_safe cfg env cache hv1
    · intro q hq'
      simp only [Call.fileTargets, List.mem_singleton] at hq'
      subst hq'
      apply not_isAddr_of_length; simp
    intro fs2 r2 hs2 hv2
    rcases step_mkTemp hs2 with ⟨e, rfl⟩ | ⟨rfl, hget⟩
    · exact wpD_done cfg env cache hv2 (fun w hw => by cases hw)
    · have hok : ∃ n, (cache ++ [dTmp]) ++ [tmpName fs1.next] = (cache ++ [dTmp]) ++ [n] := ⟨_, rfl⟩
      have base : ∀ (w : Writer) (fsx : FS), ContentValid cfg cache fsx →
          w.tmp = (cache ++ [dTmp]) ++ [tmpName fs1.next] → w.cache = cache → w.key = key →
          w.opts = o → w.written = 0 → w.hashed = [] → w.algo = o.algo.getD .sha256 → w.pos = 0 →
          w.mmap = none → fsx.get w.tmp = some (.file []) →
          wpD env (ContentValid cfg cache) (OpenPost cache key o) (.done (Except.ok w)) fsx := by
        intro w fsx hvx ht hc hk ho hw hh ha hp hm hgx
        refine wpD_done cfg env cache hvx ?_
        intro w' hw'; cases hw'
        refine ⟨hc, hk, ho, hw, hh, ha, ⟨?_, ?_, [], hgx, ?_, ?_, ?_⟩⟩
        · exact ⟨_, by rw [ht, hc]⟩
        · rw [hp, hh]; rfl
        · rw [hh]; simp
        · intro _; rw [hp]; rfl
        · intro n hn; rw [hm] at hn; cases hn
      dsimp only
      split
      · rename_i n hn
        split
        · rename_i hbound
          apply wpD_safe cfg env cache hv2
          · intro q hq'
            simp only [Call.fileTargets, List.mem_singleton] at hq'
            subst hq'; exact tmp_not_addr cache hok
          intro fs3 r3 hs3 hv3
          rcases step_fallocate hget hbound.1 hs3 with ⟨e, rfl⟩ | ⟨rfl, hg3⟩
          · dsimp only
            apply wpD_bind
            refine wpD_mono ?_ (dropTmp_wp cfg env cache _ hv3)
            intro _ fs4 hv4
            exact wpD_done cfg env cache hv4 (fun w hw => by cases hw)
          · refine wpD_done cfg env cache hv3 ?_
            intro w' hw'; cases hw'
            refine ⟨rfl, rfl, rfl, rfl, rfl, rfl, ⟨hok, rfl, _, hg3, ?_, ?_, ?_⟩⟩
            · simp
            · intro h; cases h
            · intro m hm; cases hm
              have : (0 : Nat) < n := hbound.1
              simp [zeros, this]
        · exact base _ fs2 hv2 rfl rfl rfl rfl rfl rfl rfl rfl rfl hget
      · exact base _ fs2 hv2 rfl rfl rfl rfl rfl rfl rfl rfl rfl hget

/-- What one `write` call promises. -/
def WritePost (w : Writer) (d : Bytes) (r : Except EK (Writer × Nat)) (fs' : FS) : Prop :=
  ∀ w' n, r = Except.ok (w', n) → n = d.length ∧ w.Same w' ∧ WInv w' fs' ∧
    w'.hashed = w.hashed ++ d ∧ w'.written = w.written + n ∧ w'.opts = w.opts ∧ w'.algo = w.algo

theorem WInv.tmp_not_addr {w : Writer} {fs : FS} (hi : WInv w fs) (hc : w.cache = cache) :
    ¬ IsAddr cache w.tmp := by
  obtain ⟨n, hn⟩ := hi.ok
  rw [hn, hc]; exact Cacache.tmp_not_addr cache ⟨n, rfl⟩

/-- A plain (unmapped) write at the end of the temp file. -/
theorem plainWrite_wp (w : Writer) (d : Bytes) {fs : FS} (hc : w.cache = cache)
    (hm : w.mmap = none) (hq : ContentValid cfg cache fs) (hi : WInv w fs)
    (Post : Except EK (Writer × Nat) → FS → Prop)
    (hpost : ∀ fs', ContentValid cfg cache fs' →
      fs'.get w.tmp = some (.file (w.hashed ++ d)) →
      Post (Except.ok ({ w with pos := w.pos + d.length, hashed := w.hashed ++ d.take d.length, written := w.written + d.length }, d.length)) fs')
    (herr : ∀ e fs', Post (Except.error e) fs') :
    wpD env (ContentValid cfg cache) Post (plainWrite w d) fs := by
  unfold plainWrite
  simp only [bind_eq, pure_eq, call, bind_sys, bind_done]
  obtain ⟨f, hf, htake, hlen, _⟩ := hi.file
  have hfl : f.length = w.pos := hlen hm
  have hfeq : f = w.hashed := by rw [← htake, ← hfl, List.take_length]
  apply wpD_safe cfg env cache hq
  · intro q hq'
    simp only [Call.fileTargets, List.mem_singleton] at hq'
    subst hq'; exact hi.tmp_not_addr cache hc
  intro fs1 r1 hs1 hv1
  rcases step_writeAt hf hs1 with ⟨e, rfl⟩ | ⟨rfl, hg1⟩
  · exact wpD_done cfg env cache hv1 (herr _ _)
  · refine wpD_done cfg env cache hv1 (hpost fs1 hv1 ?_)
    rw [hg1, ← hfl, spliceAt_plain, hfeq]

theorem wwrite_wp (w : Writer) (d : Bytes) {fs : FS} (hc : w.cache = cache)
    (hq : ContentValid cfg cache fs) (hi : WInv w fs) :
    wpD env (ContentValid cfg cache) (WritePost w d) (wwrite w d) fs := by
  obtain ⟨f, hf, htake, hlen0, hlenS⟩ := hi.file
  have hna := hi.tmp_not_addr cache hc
  unfold wwrite
  split
  · rename_i n hm
    obtain ⟨hfl, hpn⟩ := hlenS n hm
    split
    · rename_i hfit
      simp only [bind_eq, pure_eq, call, bind_sys, bind_done]
      apply wpD_safe cfg env cache hq
      · intro q hq'
        simp only [Call.fileTargets, List.mem_singleton] at hq'
        subst hq'; exact hna
      intro fs1 r1 hs1 hv1
      rcases step_writeAt hf hs1 with ⟨e, rfl⟩ | ⟨rfl, hg1⟩
      · exact wpD_done cfg env cache hv1 (fun w' n' h => by cases h)
      · refine wpD_done cfg env cache hv1 ?_
        intro w' n' h; cases h
        refine ⟨rfl, ⟨rfl, rfl, rfl⟩, ⟨hi.ok, ?_, _, hg1, ?_, ?_, ?_⟩, rfl, rfl, rfl, rfl⟩
        · simp [hi.pos]
        · show List.take (w.pos + d.length) _ = _
          rw [spliceAt_take f d w.pos (by omega), htake]
        · intro h; rw [hm] at h; cases h
        · intro m hm'
          rw [hm] at hm'; cases hm'
          exact ⟨by rw [spliceAt_length f d w.pos (by omega)]; exact hfl, hfit⟩
    · simp only [bind_eq, pure_eq, call, bind_sys, bind_done]
      apply wpD_safe cfg env cache hq
      · intro q hq'
        simp only [Call.fileTargets, List.mem_singleton] at hq'
        subst hq'; exact hna
      intro fs1 r1 hs1 hv1
      rcases step_truncate hf hs1 with ⟨e, rfl⟩ | ⟨rfl, hg1⟩
      · exact wpD_done cfg env cache hv1 (fun w' n' h => by cases h)
      · have hi1 : WInv { w with mmap := none } fs1 := by
          refine ⟨hi.ok, hi.pos, _, hg1, ?_, ?_, ?_⟩
          · show List.take w.pos (List.take w.pos f) = w.hashed
            rw [List.take_take, Nat.min_self, htake]
          · intro _; simp; omega
          · intro m hm'; cases hm'
        apply plainWrite_wp cfg env cache { w with mmap := none } d hc rfl hv1 hi1
        · intro fs2 hv2 hg2 w' n' h; cases h
          refine ⟨rfl, ⟨rfl, rfl, rfl⟩, ⟨hi.ok, ?_, _, hg2, ?_, ?_, ?_⟩, by simp, rfl, rfl, rfl⟩
          · simp [hi.pos]
          · simp only [hi.pos, List.take_length]
            rw [← List.length_append, List.take_length]
          · intro _; simp [hi.pos]
          · intro m hm'; cases hm'
        · intro e fs' w' n' h; cases h
  · rename_i hm
    apply plainWrite_wp cfg env cache w d hc hm hq hi
    · intro fs2 hv2 hg2 w' n' h; cases h
      refine ⟨rfl, ⟨rfl, rfl, rfl⟩, ⟨hi.ok, ?_, _, hg2, ?_, ?_, ?_⟩, by simp, rfl, rfl, rfl⟩
      · simp [hi.pos]
      · simp only [hi.pos, List.take_length]
        rw [← List.length_append, List.take_length]
      · intro _; simp [hi.pos]
      · intro m hm'; rw [hm] at hm'; cases hm'
    · intro e fs' w' n' h; cases h

/-- What feeding a list of chunks promises. -/
def WriteAllPost (w : Writer) (ds : List Bytes) (r : Except EK Writer) (fs' : FS) : Prop :=
  ∀ w', r = Except.ok w' → w.Same w' ∧ WInv w' fs' ∧ w'.hashed = w.hashed ++ ds.flatten ∧
    w'.written = w.written + ds.flatten.length ∧ w'.opts = w.opts ∧ w'.algo = w.algo

theorem wwriteAll_wp (w : Writer) (ds : List Bytes) {fs : FS} (hc : w.cache = cache)
    (hq : ContentValid cfg cache fs) (hi : WInv w fs) :
    wpD env (ContentValid cfg cache) (WriteAllPost w ds) (wwriteAll w ds) fs := by
  induction ds generalizing w fs with
  | nil =>
    unfold wwriteAll
    refine wpD_done cfg env cache hq ?_
    intro w' h; cases h
    exact ⟨⟨rfl, rfl, rfl⟩, hi, by simp, by simp, rfl, rfl⟩
  | cons d ds ih =>
    unfold wwriteAll
    split
    · rename_i hemp
      have hd : d = [] := by simpa using hemp
      refine wpD_mono ?_ (ih w hc hq hi)
      intro r fs' hp w' hw'
      obtain ⟨h1, h2, h3, h4, h5, h6⟩ := hp w' hw'
      exact ⟨h1, h2, by simp [h3, hd], by simp [h4, hd], h5, h6⟩
    · simp only [bind_eq, pure_eq]
      apply wpD_bind
      refine wpD_mono ?_ (wpD_withQ (wwrite_wp cfg env cache w d hc hq hi))
      intro r fs1 ⟨hv1, hp⟩
      split
      · exact wpD_done cfg env cache hv1 (fun w' h => by cases h)
      · rename_i w1 n
        obtain ⟨hn, hs, hi1, hh, hw, ho, ha⟩ := hp w1 n rfl
        refine wpD_mono ?_ (ih w1 (hs.1.trans hc) hv1 hi1)
        intro r2 fs2 hp2 w' hw'
        obtain ⟨h1, h2, h3, h4, h5, h6⟩ := hp2 w' hw'
        refine ⟨⟨h1.1.trans hs.1, h1.2.1.trans hs.2.1, h1.2.2.trans hs.2.2⟩, h2, ?_, ?_, h5.trans ho, h6.trans ha⟩
        · rw [h3, hh]; simp
        · rw [h4, hw, hn]; simp; omega

/-- After the failed-or-not publication attempt: drop the temp file, look whether the address
exists, answer. -/
theorem closeTail_wp {fs : FS} (tmp cpath : Path) (sri : Integrity) (e : EK)
    (hq : ContentValid cfg cache fs) (Post : Res Integrity → FS → Prop)
    (hok : ∀ fs', fs'.existsFollow cpath = true → Post (Except.ok sri) fs')
    (herr : ∀ fs', Post (Except.error (Err.io e)) fs') :
    wpD env (ContentValid cfg cache) Post
      (Prog.bind (dropTmp tmp) (fun _ => .sys (.existsF cpath) (fun r =>
        match r with
        | .bool true => .done (Except.ok sri)
        | _ => .done (Except.error (Err.io e))))) fs := by
  apply wpD_bind
  refine wpD_mono ?_ (dropTmp_wp cfg env cache tmp hq)
  intro _ fs1 hv1
  apply wpD_safe cfg env cache hv1
  · intro q hq'; simp [Call.fileTargets] at hq'
  intro fs2 r2 hs2 hv2
  cases hs2 with
  | fail e' short => exact wpD_done cfg env cache hv2 (herr _)
  | ok =>
    simp only [exec]
    split
    · rename_i heq
      have : fs1.existsFollow cpath = true := by
        injection heq
      exact wpD_done cfg env cache hv2 (hok _ this)
    · exact wpD_done cfg env cache hv2 (herr _)

/-- Closing a writer publishes the temp file under the address of what was hashed — and at every
kill point, under every fault, the content store stays valid. -/
theorem wclose_wp (w : Writer) {fs : FS} (hc : w.cache = cache)
    (hq : ContentValid cfg cache fs) (hi : WInv w fs) :
    wpD env (ContentValid cfg cache)
      (fun r fs' => ∀ sri, r = Except.ok sri → sri = Sri.compute cfg.H w.algo w.hashed ∧
        ∃ cpath, contentPath cache sri = some cpath ∧ fs'.existsFollow cpath = true)
      (wclose cfg w) fs := by
  obtain ⟨f, hf, htake, hlen0, hlenS⟩ := hi.file
  have hna := hi.tmp_not_addr cache hc
  unfold wclose
  dsimp only
  rw [contentPath_compute, hc]
  by_cases hlt : (Bytes.hex (cfg.H w.algo w.hashed)).length < 4
  · -- hex shorter than 4: the real code panics while slicing
    simp only [hlt, if_true, bind_eq, pure_eq]
    apply wpD_bind
    refine wpD_mono ?_ (dropTmp_wp cfg env cache _ hq)
    intro _ fs1 hv1
    exact wpD_done cfg env cache hv1 (fun sri h => by cases h)
  · simp only [hlt, if_false]
    have hl4 : 4 ≤ (Bytes.hex (cfg.H w.algo w.hashed)).length := Nat.le_of_not_lt hlt
    have hcp : contentPath cache (Sri.compute cfg.H w.algo w.hashed) =
        some (addrPath cache w.algo (Bytes.hex (cfg.H w.algo w.hashed))) := by
      rw [contentPath_compute]; simp [hlt]
    -- after the cut the temp file holds exactly what was hashed
    have publish : ∀ fsx, ContentValid cfg cache fsx → fsx.get w.tmp = some (.file w.hashed) →
        wpD env (ContentValid cfg cache)
          (fun r fs' => ∀ sri, r = Except.ok sri → sri = Sri.compute cfg.H w.algo w.hashed ∧
        ∃ cpath, contentPath cache sri = some cpath ∧ fs'.existsFollow cpath = true)
          (.sys (.mkdirP (FS.parent (addrPath cache w.algo (Bytes.hex (cfg.H w.algo w.hashed)))))
            (fun r => match r with
              | .err e => Prog.bind (dropTmp w.tmp) (fun _ => .done (Except.error (Err.io e)))
              | _ => .sys (.rename w.tmp (addrPath cache w.algo (Bytes.hex (cfg.H w.algo w.hashed))))
                  (fun r => match r with
                    | .err e => Prog.bind (dropTmp w.tmp) (fun _ => .sys (.existsF (addrPath cache w.algo (Bytes.hex (cfg.H w.algo w.hashed)))) (fun r =>
                        match r with
                        | .bool true => .done (Except.ok (Sri.compute cfg.H w.algo w.hashed))
                        | _ => .done (Except.error (Err.io e))))
                    | _ => .done (Except.ok (Sri.compute cfg.H w.algo w.hashed))))) fsx := by
      intro fsx hvx hgx
      apply wpD_safe cfg env cache hvx
      · intro q hq'; simp [Call.fileTargets] at hq'
      intro fs1 r1 hs1 hv1
      have hg1 := step_mkdirP_keeps hgx hs1
      split
      · apply wpD_bind
        refine wpD_mono ?_ (dropTmp_wp cfg env cache _ hv1)
        intro _ fs2 hv2
        exact wpD_done cfg env cache hv2 (fun sri h => by cases h)
      · refine wpD_call hv1 (fun t => by simpa [execTorn] using hv1) ?_
        intro fs2 r2 hs2
        rcases step_rename hg1 hs2 with ⟨⟨e, rfl⟩, rfl⟩ | ⟨rfl, rfl⟩
        · exact closeTail_wp cfg env cache _ _ _ e hv1 _
            (fun fsy hex sri h => by
              cases h
              refine ⟨rfl, _, hcp, hex⟩)
            (fun _ sri h => by cases h)
        · refine wpD_done cfg env cache (publish_contentValid w.tmp w.algo w.hashed hv1) ?_
          intro sri h; cases h
          refine ⟨rfl, _, hcp, ?_⟩
          simp [FS.existsFollow, FS.resolve, FS.resolveFuel]
    simp only [bind_eq, pure_eq, call, bind_sys, bind_done]
    split
    · rename_i n hm
      obtain ⟨hfl, hpn⟩ := hlenS n hm
      split
      · -- fewer bytes than declared: cut the file back
        simp only [bind_sys]
        apply wpD_safe cfg env cache hq
        · intro q hq'
          simp only [Call.fileTargets, List.mem_singleton] at hq'
          subst hq'; exact hna
        intro fs1 r1 hs1 hv1
        rcases step_truncate hf hs1 with ⟨e, rfl⟩ | ⟨rfl, hg1⟩
        · simp only [bind_done]
          apply wpD_bind
          refine wpD_mono ?_ (dropTmp_wp cfg env cache _ hv1)
          intro _ fs2 hv2
          exact wpD_done cfg env cache hv2 (fun sri h => by cases h)
        · simp only [bind_done]
          rw [htake] at hg1
          exact publish fs1 hv1 hg1
      · rename_i hnl
        simp only [bind_done]
        have : f = w.hashed := by
          have hp : w.pos = n := by omega
          rw [← htake, hp, ← hfl, List.take_length]
        rw [this] at hf
        exact publish fs hq hf
    · rename_i hm
      simp only [bind_done]
      have : f = w.hashed := by rw [← htake, ← hlen0 hm, List.take_length]
      rw [this] at hf
      exact publish fs hq hf

theorem bucket_not_addr (key : Bytes) : ¬ IsAddr cache (bucketPath cfg cache key) := by
  apply not_isAddr_of_length; simp [bucketPath]

/-- Index insertion never touches a content file: the store stays valid at every kill point and
under every fault. -/
theorem insert_wp (key : Bytes) (o : WriteOpts) {fs : FS} (hq : ContentValid cfg cache fs) :
    wpD env (ContentValid cfg cache) (fun r _ => ∀ s, r = Except.ok s → s = o.sri.getD defaultSri)
      (insert cfg cache key o) fs := by
  unfold insert getTime appendRec
  simp only [bind_eq, pure_eq, call, bind_sys, bind_done]
  have hb := bucket_not_addr cfg cache key
  have tail : ∀ fsx (r : Rec), ContentValid cfg cache fsx →
      wpD env (ContentValid cfg cache) (fun r _ => ∀ s, r = Except.ok s → s = o.sri.getD defaultSri)
        (.sys (.openAppend (bucketPath cfg cache key)) (fun r1 =>
          Prog.bind (match r1 with
            | .err e => .done (Except.error (Err.io e))
            | _ => .sys (.appendWrite (bucketPath cfg cache key) ((codec cfg).frame r)) (fun r2 =>
                match r2 with
                | .err e => .done (Except.error (Err.io e))
                | _ => .done (Except.ok ())))
            (fun a => match a with
              | Except.error e => .done (Except.error e)
              | Except.ok () => .done (Except.ok (o.sri.getD defaultSri))))) fsx := by
    intro fsx r hvx
    apply wpD_safe cfg env cache hvx
    · intro q hq'
      simp only [Call.fileTargets, List.mem_singleton] at hq'
      subst hq'; exact hb
    intro fs1 r1 _ hv1
    split
    · exact wpD_done cfg env cache hv1 (fun s h => by first | cases h | (cases h; rfl))
    · simp only [bind_sys]
      apply wpD_safe cfg env cache hv1
      · intro q hq'
        simp only [Call.fileTargets, List.mem_singleton] at hq'
        subst hq'; exact hb
      intro fs2 r2 _ hv2
      split <;> exact wpD_done cfg env cache hv2 (fun s h => by first | (cases h; rfl) | cases h)
  apply wpD_safe cfg env cache hq
  · intro q hq'; simp [Call.fileTargets] at hq'
  intro fs1 r1 _ hv1
  split
  · exact wpD_done cfg env cache hv1 (fun s h => by first | cases h | (cases h; rfl))
  · split
    · simp only [bind_done]
      exact tail fs1 _ hv1
    · simp only [bind_sys]
      apply wpD_safe cfg env cache hv1
      · intro q hq'; simp [Call.fileTargets] at hq'
      intro fs2 r2 _ hv2
      split
      · simp only [bind_done]; exact tail fs2 _ hv2
      · simp only [bind_done]; exact tail fs2 _ hv2

end Cacache
