/-
Known-answer tests for `Cacache/Sha.lean`, checked by the KERNEL (`decide +kernel`, no
`native_decide`, no compiler in the trusted base): FIPS 180-4 / NIST example messages "" , "abc"
and the 112-byte two-block message (one block is 64 bytes for SHA-1/256 and 128 for SHA-384/512,
so this message takes two blocks for all four), and the integrity string the compiled driver prints for
`write s c0 sha256 x6b x76` (data = the one byte "v").  Expected values from Python's `hashlib`.
-/
import Cacache.ShaCfg

namespace Cacache.ShaKat

theorem kat_sha1_empty :
    Bytes.hex (Sha.sha1 []) =
      "da39a3ee5e6b4b0d3255bfef95601890afd80709".toUTF8.toList := by
  decide +kernel

theorem kat_sha256_empty :
    Bytes.hex (Sha.sha256 []) =
      "e3b0c44298fc1c149afbf4c8996fb92427ae41e4649b934ca495991b7852b855".toUTF8.toList := by
  decide +kernel

theorem kat_sha384_empty :
    Bytes.hex (Sha.sha384 []) =
      "38b060a751ac96384cd9327eb1b1e36a21fdb71114be07434c0cc7bf63f6e1da274edebfe76f65fbd51ad2f14898b95b".toUTF8.toList := by
  decide +kernel

theorem kat_sha512_empty :
    Bytes.hex (Sha.sha512 []) =
      "cf83e1357eefb8bdf1542850d66d8007d620e4050b5715dc83f4a921d36ce9ce47d0d13c5d85f2b0ff8318d2877eec2f63b931bd47417a81a538327af927da3e".toUTF8.toList := by
  decide +kernel

theorem kat_sha1_abc :
    Bytes.hex (Sha.sha1 [97, 98, 99]) =
      "a9993e364706816aba3e25717850c26c9cd0d89d".toUTF8.toList := by
  decide +kernel

theorem kat_sha256_abc :
    Bytes.hex (Sha.sha256 [97, 98, 99]) =
      "ba7816bf8f01cfea414140de5dae2223b00361a396177a9cb410ff61f20015ad".toUTF8.toList := by
  decide +kernel

theorem kat_sha384_abc :
    Bytes.hex (Sha.sha384 [97, 98, 99]) =
      "cb00753f45a35e8bb5a03d699ac65007272c32ab0eded1631a8b605a43ff5bed8086072ba1e7cc2358baeca134c825a7".toUTF8.toList := by
  decide +kernel

theorem kat_sha512_abc :
    Bytes.hex (Sha.sha512 [97, 98, 99]) =
      "ddaf35a193617abacc417349ae20413112e6fa4e89a97ea20a9eeee64b55d39a2192992a274fc1a836ba3c23a3feebbd454d4423643ce80e2a9ac94fa54ca49f".toUTF8.toList := by
  decide +kernel

theorem kat_sha1_two_blocks :
    Bytes.hex (Sha.sha1 [97, 98, 99, 100, 101, 102, 103, 104, 98, 99, 100, 101, 102, 103, 104, 105, 99, 100, 101, 102, 103, 104, 105, 106, 100, 101, 102, 103, 104, 105, 106, 107, 101, 102, 103, 104, 105, 106, 107, 108, 102, 103, 104, 105, 106, 107, 108, 109, 103, 104, 105, 106, 107, 108, 109, 110, 104, 105, 106, 107, 108, 109, 110, 111, 105, 106, 107, 108, 109, 110, 111, 112, 106, 107, 108, 109, 110, 111, 112, 113, 107, 108, 109, 110, 111, 112, 113, 114, 108, 109, 110, 111, 112, 113, 114, 115, 109, 110, 111, 112, 113, 114, 115, 116, 110, 111, 112, 113, 114, 115, 116, 117]) =
      "a49b2446a02c645bf419f995b67091253a04a259".toUTF8.toList := by
  decide +kernel

theorem kat_sha256_two_blocks :
    Bytes.hex (Sha.sha256 [97, 98, 99, 100, 101, 102, 103, 104, 98, 99, 100, 101, 102, 103, 104, 105, 99, 100, 101, 102, 103, 104, 105, 106, 100, 101, 102, 103, 104, 105, 106, 107, 101, 102, 103, 104, 105, 106, 107, 108, 102, 103, 104, 105, 106, 107, 108, 109, 103, 104, 105, 106, 107, 108, 109, 110, 104, 105, 106, 107, 108, 109, 110, 111, 105, 106, 107, 108, 109, 110, 111, 112, 106, 107, 108, 109, 110, 111, 112, 113, 107, 108, 109, 110, 111, 112, 113, 114, 108, 109, 110, 111, 112, 113, 114, 115, 109, 110, 111, 112, 113, 114, 115, 116, 110, 111, 112, 113, 114, 115, 116, 117]) =
      "cf5b16a778af8380036ce59e7b0492370b249b11e8f07a51afac45037afee9d1".toUTF8.toList := by
  decide +kernel

theorem kat_sha384_two_blocks :
    Bytes.hex (Sha.sha384 [97, 98, 99, 100, 101, 102, 103, 104, 98, 99, 100, 101, 102, 103, 104, 105, 99, 100, 101, 102, 103, 104, 105, 106, 100, 101, 102, 103, 104, 105, 106, 107, 101, 102, 103, 104, 105, 106, 107, 108, 102, 103, 104, 105, 106, 107, 108, 109, 103, 104, 105, 106, 107, 108, 109, 110, 104, 105, 106, 107, 108, 109, 110, 111, 105, 106, 107, 108, 109, 110, 111, 112, 106, 107, 108, 109, 110, 111, 112, 113, 107, 108, 109, 110, 111, 112, 113, 114, 108, 109, 110, 111, 112, 113, 114, 115, 109, 110, 111, 112, 113, 114, 115, 116, 110, 111, 112, 113, 114, 115, 116, 117]) =
      "09330c33f71147e83d192fc782cd1b4753111b173b3b05d22fa08086e3b0f712fcc7c71a557e2db966c3e9fa91746039".toUTF8.toList := by
  decide +kernel

theorem kat_sha512_two_blocks :
    Bytes.hex (Sha.sha512 [97, 98, 99, 100, 101, 102, 103, 104, 98, 99, 100, 101, 102, 103, 104, 105, 99, 100, 101, 102, 103, 104, 105, 106, 100, 101, 102, 103, 104, 105, 106, 107, 101, 102, 103, 104, 105, 106, 107, 108, 102, 103, 104, 105, 106, 107, 108, 109, 103, 104, 105, 106, 107, 108, 109, 110, 104, 105, 106, 107, 108, 109, 110, 111, 105, 106, 107, 108, 109, 110, 111, 112, 106, 107, 108, 109, 110, 111, 112, 113, 107, 108, 109, 110, 111, 112, 113, 114, 108, 109, 110, 111, 112, 113, 114, 115, 109, 110, 111, 112, 113, 114, 115, 116, 110, 111, 112, 113, 114, 115, 116, 117]) =
      "8e959b75dae313da8cf4f72814fc143f8f7779c6eb9f7fa17299aeadb6889018501d289e4900f7e4331b99dec4b5433ac7d329eeb6dd26545e96e55b874be909".toUTF8.toList := by
  decide +kernel

/-- What the compiled driver answers to `write s c0 sha256 x6b x76`, as a kernel-checked fact about
the model at the driver's configuration. -/
theorem kat_driver_sri_sha256_v :
    Sri.print (Sri.compute (mkCfg []).H .sha256 [0x76]) =
      "sha256-TJRIXgwhrmxBzh3+e2v6zupato5AokdvUCCOUm9QYIA=".toUTF8.toList := by
  decide +kernel

end Cacache.ShaKat

namespace AxiomCheckShaKat
open Cacache.ShaKat
#print axioms kat_sha1_empty
#print axioms kat_sha256_empty
#print axioms kat_sha384_empty
#print axioms kat_sha512_empty
#print axioms kat_sha1_abc
#print axioms kat_sha256_abc
#print axioms kat_sha384_abc
#print axioms kat_sha512_abc
#print axioms kat_sha1_two_blocks
#print axioms kat_sha256_two_blocks
#print axioms kat_sha384_two_blocks
#print axioms kat_sha512_two_blocks
#print axioms kat_driver_sri_sha256_v
end AxiomCheckShaKat
