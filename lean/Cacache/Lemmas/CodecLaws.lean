/-
The concrete record codec (serde_json text + SHA-256 line checksum) satisfies `Codec.Laws` and
`Codec.TornLaws` for every well-formed record (`Rec.WF`) and EVERY hash function `H` — no
collision-freeness is assumed anywhere: a torn line fails to decode because a cut JSON object does
not parse, not because of its checksum.  Also: the records the library itself builds (`mkRec`) are
well-formed whenever the caller's options are what Rust's types allow (`OptsWF`).
-/
import Cacache.Lemmas.Record
import Cacache.Lemmas.Index
import Cacache.Ops

namespace Cacache
open Json

/-- **The codec laws, proved** (they were hypotheses of C02/C04/C05/C07/C09/C11/C17 before). -/
theorem Rec.codec_laws (H : Algo → Bytes → Bytes) : (Rec.codec H).Laws Rec.WF where
  dec_enc := fun r h => Rec.dec_enc H r h
  enc_no_nl := fun r _ => Rec.enc_no_nl H r
  enc_valid := fun r h => Rec.enc_valid H r h
  enc_ne_nil := fun r _ => Rec.enc_ne_nil H r
  enc_no_cr_end := fun r _ => Rec.enc_no_cr_end H r
  dec_nil := Rec.dec_nil H

theorem Rec.codec_tornLaws (H : Algo → Bytes → Bytes) : (Rec.codec H).TornLaws Rec.WF where
  toLaws := Rec.codec_laws H
  prefix_none := fun r h p hp hne => Rec.prefix_none H r h p hp hne
  enc_no_cr := fun r _ => Rec.enc_no_cr H r

theorem codec_laws (cfg : Cfg) : (codec cfg).Laws Rec.WF := Rec.codec_laws cfg.H
theorem codec_tornLaws (cfg : Cfg) : (codec cfg).TornLaws Rec.WF := Rec.codec_tornLaws cfg.H

/-! ### records built by the library are well-formed -/

/-- An integrity value as Rust holds it: every digest is a `String` (valid UTF-8). -/
def Sri.WF (sri : Integrity) : Prop := ∀ h ∈ sri, utf8Valid h.digest = true

theorem Algo.name_ascii (a : Algo) : ∀ b ∈ a.name, b < 128 := by
  cases a <;> decide

theorem Sri.printHash_utf8 (h : Hash) (hd : utf8Valid h.digest = true) (tl : Bytes)
    (ht : utf8Valid tl = true) : utf8Valid (Sri.printHash h ++ tl) = true := by
  unfold Sri.printHash
  rw [List.append_assoc, utf8Valid_ascii_append _ _ (Algo.name_ascii h.algo)]
  rw [List.cons_append, utf8Valid_cons1 _ (by decide)]
  exact utf8Valid_append tl ht h.digest hd

theorem Sri.print_utf8 : ∀ (sri : Integrity), Sri.WF sri → utf8Valid (Sri.print sri) = true
  | [], _ => rfl
  | [h], hw => by
    have := Sri.printHash_utf8 h (hw h (by simp)) [] rfl
    simpa [Sri.print] using this
  | h :: h2 :: rest, hw => by
    have ih := Sri.print_utf8 (h2 :: rest) (fun x hx => hw x (List.mem_cons_of_mem _ hx))
    have : utf8Valid ((32 : UInt8) :: Sri.print (h2 :: rest)) = true := by
      rw [utf8Valid_cons1 _ (by decide)]; exact ih
    exact Sri.printHash_utf8 h (hw h (by simp)) _ this

theorem B64.enc6_ascii (n : Nat) : B64.enc6 n < 128 := by
  unfold B64.enc6
  split
  · rw [UInt8.lt_iff_toNat_lt]; simp [Nat.toUInt8]; omega
  · split
    · rw [UInt8.lt_iff_toNat_lt]; simp [Nat.toUInt8]; omega
    · split
      · rw [UInt8.lt_iff_toNat_lt]; simp [Nat.toUInt8]; omega
      · split <;> decide

theorem B64.encode_ascii : ∀ (b : Bytes), ∀ c ∈ B64.encode b, c < 128
  | [], c, hc => by simp [B64.encode] at hc
  | [a], c, hc => by
    simp only [B64.encode, List.mem_cons, List.not_mem_nil, or_false] at hc
    rcases hc with rfl | rfl | rfl | rfl <;> first | exact B64.enc6_ascii _ | decide
  | [a, b], c, hc => by
    simp only [B64.encode, List.mem_cons, List.not_mem_nil, or_false] at hc
    rcases hc with rfl | rfl | rfl | rfl <;> first | exact B64.enc6_ascii _ | decide
  | a :: b :: c' :: rest, c, hc => by
    simp only [B64.encode, List.mem_cons] at hc
    rcases hc with rfl | rfl | rfl | rfl | h
    · exact B64.enc6_ascii _
    · exact B64.enc6_ascii _
    · exact B64.enc6_ascii _
    · exact B64.enc6_ascii _
    · exact B64.encode_ascii rest c h

/-- What the library computes itself is well-formed. -/
theorem Sri.compute_wf (H : Algo → Bytes → Bytes) (a : Algo) (data : Bytes) :
    Sri.WF (Sri.compute H a data) := by
  intro h hh
  simp only [Sri.compute, List.mem_singleton] at hh
  subst hh
  have := utf8Valid_ascii_append (B64.encode (H a data)) [] (B64.encode_ascii _)
  rw [List.append_nil] at this
  rw [this]; rfl

/-- The caller's options as Rust's types allow them: `&str` key, `u128` time, `usize` size,
`Integrity` of `String` digests, `serde_json::Value` metadata — plus the one real limit: JSON
nesting below serde_json's parse limit (the excluded point is known finding F9). -/
structure OptsWF (key : Bytes) (o : WriteOpts) : Prop where
  key : utf8Valid key = true
  time : ∀ t, o.time = some t → t ≤ timeMax
  size : ∀ n, o.size = some n → n ≤ Rec.u64Max
  sri : ∀ s, o.sri = some s → Sri.WF s
  md : ∀ m, o.metadata = some m → m.wf = true ∧ m.depth + 1 ≤ maxNesting

theorem mkRec_wf (key : Bytes) (o : WriteOpts) (tm : Nat) (h : OptsWF key o) (htm : tm ≤ timeMax) :
    (mkRec key o tm).WF := by
  refine ⟨h.key, ?_, ?_, ?_, ?_, ?_⟩
  · intro t ht
    simp only [mkRec, Option.map_eq_some_iff] at ht
    obtain ⟨s, hs, rfl⟩ := ht
    exact Sri.print_utf8 s (h.sri s hs)
  · show tm ≤ Rec.u128Max
    rw [timeMax_eq] at htm; exact htm
  · show o.size.getD 0 ≤ Rec.u64Max
    cases hs : o.size with
    | none => simp [Rec.u64Max]
    | some n => simpa using h.size n hs
  · show (o.metadata.getD .null).wf = true
    cases hm : o.metadata with
    | none => rfl
    | some m => simpa using (h.md m hm).1
  · show (o.metadata.getD .null).depth + 1 ≤ maxNesting
    cases hm : o.metadata with
    | none => decide
    | some m => simpa using (h.md m hm).2

/-- Replacing the declared integrity by a computed one, and the size by any `usize`, keeps the
options well-formed (this is what a commit records). -/
theorem OptsWF.with_computed {key : Bytes} {o : WriteOpts} (h : OptsWF key o) (H : Algo → Bytes → Bytes)
    (a : Algo) (data : Bytes) : OptsWF key { o with sri := some (Sri.compute H a data) } :=
  ⟨h.key, h.time, h.size, fun s hs => by cases hs; exact Sri.compute_wf H a data, h.md⟩

theorem OptsWF.with_size {key : Bytes} {o : WriteOpts} (h : OptsWF key o) (n : Nat) (hn : n ≤ Rec.u64Max) :
    OptsWF key { o with size := some n } :=
  ⟨h.key, h.time, fun m hm => by cases hm; exact hn, h.sri, h.md⟩

theorem optsWF_default {key : Bytes} (hk : utf8Valid key = true) : OptsWF key {} :=
  ⟨hk, by simp, by simp, by simp, by simp⟩

/-- Non-vacuity: the default options with an ASCII key are well-formed, and so is every record
built from them. -/
example : OptsWF [107, 101, 121] {} :=
  ⟨by decide, by simp, by simp, by simp, by simp⟩

end Cacache
