/-
The concrete index-record codec (`Cacache.Rec`): decode ∘ encode = id on well-formed records,
and the byte-level facts about encoded lines that the bucket-level theorems need.
`H : Algo → Bytes → Bytes` is arbitrary everywhere.

  * `Rec.WF`, `Rec.WF_mk`
  * `Rec.decJson_encJson`, `Rec.dec_enc`                    round trips (time up to `u128Max`)
  * `Rec.enc_no_nl`, `Rec.enc_no_cr`, `Rec.enc_no_tab_json`  for every record
  * `Rec.enc_valid`                                          the line is valid UTF-8
  * `Rec.enc_ne_nil`, `Rec.enc_no_cr_end`, `Rec.dec_nil`
  * `Rec.prefix_none`                                        no strict prefix of a line decodes
  * `Json.ext_all`, `Json.parse_prefix_none`                 a successful parse is stable under
                                                             appending input / raising fuel
-/
import Cacache.Record
import Cacache.Lemmas.JsonRT
import Cacache.Lemmas.Hex

namespace Cacache.Json

open Cacache

/-! ## Objects whose members are written in any order -/

/-- `text` is read back as `v` by `parseValue` (nesting budget `d`), whatever follows, as long as
what follows does not extend a number token. -/
def ParsesTo (d : Nat) (text : Bytes) (v : JVal) : Prop :=
  ∀ (f : Nat) (tl : Bytes), text.length ≤ f → numEnd tl →
    parseValue d f (text ++ tl) = some (v, tl)

theorem ParsesTo.render {d : Nat} {v : JVal} (hwf : v.wf = true) (hd : v.depth ≤ d) :
    ParsesTo d (render v) v :=
  fun f tl hf htl => parseValue_render_tl v d f tl hwf hd hf htl

/-- Members after the first: `,"k":text` … `}`. -/
def membersText : List (Bytes × Bytes × JVal) → Bytes
  | [] => [125]
  | (k, t, _) :: rest => 44 :: (renderStr k ++ 58 :: (t ++ membersText rest))

/-- The map built by inserting the members in document order. -/
def insertAll (acc : List (Bytes × JVal)) : List (Bytes × Bytes × JVal) → List (Bytes × JVal)
  | [] => acc
  | (k, _, v) :: rest => insertAll (insertKV k v acc) rest

theorem parseMembers_items : ∀ (items : List (Bytes × Bytes × JVal)) (k t : Bytes) (v : JVal)
    (d fuel : Nat) (acc : List (Bytes × JVal)) (tl : Bytes),
    ParsesTo d t v → (∀ it ∈ items, ParsesTo d it.2.1 it.2.2) →
    t.length + (membersText items).length + 1 ≤ fuel →
    parseMembers d fuel acc (renderStr k ++ 58 :: (t ++ membersText items) ++ tl)
      = some (.obj (insertAll (insertKV k v acc) items), tl)
  | [], k, t, v, d, fuel, acc, tl, hv, _, hf => by
    rw [membersText] at hf ⊢
    cases fuel with
    | zero => omega
    | succ f =>
      have h1 := hv f (125 :: tl) (by simp at hf; omega) (numEnd_125 tl)
      have h2 := parseMembers_step d f acc k v (t ++ 125 :: tl) tl 125 (by decide) h1
      simp only [List.append_assoc, List.cons_append, List.nil_append] at h2 ⊢
      rw [h2]
      simp only [if_true, insertAll]
  | (k', t', v') :: items, k, t, v, d, fuel, acc, tl, hv, hitems, hf => by
    rw [membersText] at hf ⊢
    simp only [List.length_cons, List.length_append] at hf
    cases fuel with
    | zero => omega
    | succ f =>
      have hne : numEnd (44 :: (renderStr k' ++ 58 :: (t' ++ membersText items) ++ tl)) :=
        ⟨by decide, by decide, by decide, by decide⟩
      have h1 := hv f _ (by omega) hne
      have h2 := parseMembers_step d f acc k v _ _ 44 (by decide) h1
      have ih := parseMembers_items items k' t' v' d f (insertKV k v acc) tl
        (hitems (k', t', v') (by simp)) (fun it hit => hitems it (by simp [hit])) (by omega)
      simp only [List.append_assoc, List.cons_append] at h2 ih ⊢
      rw [h2, if_neg (by decide)]
      simp only [if_true]
      rw [ih, insertAll]

/-- `{"k":text` … `}` -/
def objText (k t : Bytes) (items : List (Bytes × Bytes × JVal)) : Bytes :=
  123 :: (renderStr k ++ 58 :: (t ++ membersText items))

theorem parseValue_objText (k t : Bytes) (v : JVal) (items : List (Bytes × Bytes × JVal))
    (d fuel : Nat) (tl : Bytes) (hv : ParsesTo d t v)
    (hitems : ∀ it ∈ items, ParsesTo d it.2.1 it.2.2)
    (hf : (objText k t items).length ≤ fuel) :
    parseValue (d + 1) fuel (objText k t items ++ tl)
      = some (.obj (insertAll (insertKV k v []) items), tl) := by
  unfold objText at hf ⊢
  simp only [List.length_cons, List.length_append] at hf
  cases fuel with
  | zero => omega
  | succ f =>
    have h := parseMembers_items items k t v d f [] tl hv hitems (by omega)
    have h34 : startByte 34 = true := by decide
    simp only [renderStr, List.cons_append, List.append_assoc] at h ⊢
    rw [parseValue_obj_cons _ _ _ _ h34]
    exact h

theorem parse_objText (k t : Bytes) (v : JVal) (items : List (Bytes × Bytes × JVal))
    (hv : ParsesTo (maxNesting - 1) t v)
    (hitems : ∀ it ∈ items, ParsesTo (maxNesting - 1) it.2.1 it.2.2) :
    parse (objText k t items) = some (.obj (insertAll (insertKV k v []) items)) := by
  have h := parseValue_objText k t v items (maxNesting - 1) ((objText k t items).length + 1) []
    hv hitems (by omega)
  rw [List.append_nil] at h
  have hm : maxNesting - 1 + 1 = maxNesting := rfl
  rw [hm] at h
  simp [parse, h, skipWs]

/-! ## Unsigned integers of any size -/

theorem digitsToNat_append_zeros (a : Bytes) (z : Nat) :
    digitsToNat (a ++ List.replicate z 48) = digitsToNat a * 10 ^ z := by
  induction z with
  | zero => simp
  | succ z ih =>
    rw [List.replicate_succ', ← List.append_assoc, digitsToNat_append_single, ih, Nat.pow_succ]
    have : (48 : UInt8).toNat = 48 := rfl
    rw [this, Nat.mul_assoc]; omega

theorem takeWhile_all (p : UInt8 → Bool) : ∀ (l : Bytes), ∀ b ∈ l.takeWhile p, p b = true
  | [], b, hb => by simp at hb
  | x :: xs, b, hb => by
    rw [List.takeWhile_cons] at hb
    split at hb
    · rename_i hx
      rcases List.mem_cons.mp hb with h | h
      · rw [h]; exact hx
      · exact takeWhile_all p xs b h
    · simp at hb

/-- An integer literal too big for `u64` becomes an exact float `m · 10^z`. -/
theorem mkDec_value {n : Nat} {ds : Bytes} (hs : IsDigitsOf n ds) (hn : n ≠ 0) :
    ∃ m z : Nat, mkDec false ds 0 = .dec (m : Int) (z : Int) ∧ 0 < m ∧ m * 10 ^ z = n := by
  let p : UInt8 → Bool := fun c => decide (c = 48)
  have hsplit : ds.reverse = ds.reverse.takeWhile p ++ ds.reverse.dropWhile p :=
    (List.takeWhile_append_dropWhile (p := p) (l := ds.reverse)).symm
  have hz : ds.reverse.takeWhile p = List.replicate (ds.reverse.takeWhile p).length 48 := by
    rw [List.eq_replicate_iff]
    refine ⟨rfl, fun b hb => ?_⟩
    have := takeWhile_all p _ b hb
    simpa [p] using this
  generalize hzs : ds.reverse.takeWhile p = zs at hsplit hz
  generalize hrest : ds.reverse.dropWhile p = rest at hsplit
  have hdrop : ds.reverse.drop zs.length = rest := by
    rw [hsplit, List.drop_left]
  have hds : ds = rest.reverse ++ List.replicate zs.length 48 := by
    have := congrArg List.reverse hsplit
    rw [List.reverse_reverse, List.reverse_append, hz, List.reverse_replicate] at this
    exact this
  have hval : digitsToNat rest.reverse * 10 ^ zs.length = n := by
    rw [← digitsToNat_append_zeros, ← hds, hs.value]
  have hm0 : digitsToNat rest.reverse ≠ 0 := by
    intro h; rw [h] at hval; omega
  refine ⟨digitsToNat rest.reverse, zs.length, ?_, by omega, hval⟩
  unfold mkDec
  simp only []
  have hzs' : List.takeWhile (fun x => decide (x = 48)) ds.reverse = zs := hzs
  rw [hzs', hdrop]
  simp [hm0]

/-! ## Extension: a successful parse is stable under appending to the input

Used for "no strict prefix of a record line decodes". -/

theorem skipWs_ext {s r : Bytes} {c : UInt8} (x : Bytes) (h : skipWs s = c :: r) :
    skipWs (s ++ x) = c :: (r ++ x) := by
  induction s with
  | nil => simp [skipWs] at h
  | cons a s ih =>
    simp only [skipWs, List.cons_append] at h ⊢
    split
    · rename_i hw
      rw [if_pos hw] at h
      exact ih h
    · rename_i hw
      rw [if_neg hw] at h
      injection h with h1 h2
      rw [h1, h2]

theorem ne_nil_of_skipWs {s r : Bytes} {c : UInt8} (h : skipWs s = c :: r) : s ≠ [] := by
  intro e; subst e; simp [skipWs] at h

theorem stripPrefix_ext : ∀ (p s : Bytes) {r : Bytes} (x : Bytes), stripPrefix p s = some r →
    stripPrefix p (s ++ x) = some (r ++ x)
  | [], s, r, x, h => by
    simp only [stripPrefix, Option.some.injEq] at h ⊢
    rw [h]
  | _ :: _, [], r, x, h => by simp [stripPrefix] at h
  | a :: p, c :: s, r, x, h => by
    simp only [stripPrefix, List.cons_append] at h ⊢
    split
    · rename_i e
      rw [if_pos e] at h
      exact stripPrefix_ext p s x h
    · rename_i e
      rw [if_neg e] at h
      cases h

theorem spanDigits_ext : ∀ (s : Bytes) (x : Bytes), (spanDigits s).2 ≠ [] →
    spanDigits (s ++ x) = ((spanDigits s).1, (spanDigits s).2 ++ x)
  | [], x, h => by simp [spanDigits] at h
  | c :: s, x, h => by
    simp only [spanDigits, List.cons_append] at h ⊢
    split
    · rename_i hd
      rw [if_pos hd] at h
      simp only [] at h ⊢
      rw [spanDigits_ext s x h]
    · rfl

theorem hex4_ext {s rest : Bytes} {n : Nat} (x : Bytes) (h : hex4 s = some (n, rest)) :
    hex4 (s ++ x) = some (n, rest ++ x) := by
  match s, h with
  | a :: b :: c :: d :: r, h =>
    simp only [hex4, List.cons_append] at h ⊢
    split at h
    · rename_i x1 y1 z1 w1 ha hb hc hd
      simp only [Option.some.injEq, Prod.mk.injEq] at h
      simp only [h.1, h.2]
    · cases h
  | [], h => simp [hex4] at h
  | [_], h => simp [hex4] at h
  | [_, _], h => simp [hex4] at h
  | [_, _, _], h => simp [hex4] at h


theorem parseUnicodeEscape_ext {s rest bs : Bytes} (x : Bytes)
    (h : parseUnicodeEscape s = some (bs, rest)) :
    parseUnicodeEscape (s ++ x) = some (bs, rest ++ x) := by
  unfold parseUnicodeEscape at h ⊢
  cases hh : hex4 s with
  | none => rw [hh] at h; cases h
  | some p =>
    obtain ⟨n, r1⟩ := p
    rw [hh] at h
    rw [hex4_ext x hh]
    simp only [] at h ⊢
    by_cases c1 : 0xDC00 ≤ n ∧ n ≤ 0xDFFF
    · rw [if_pos c1] at h; cases h
    · rw [if_neg c1] at h ⊢
      by_cases c2 : 0xD800 ≤ n ∧ n ≤ 0xDBFF
      · rw [if_pos c2] at h ⊢
        match r1, h with
        | b1 :: b2 :: r2, h =>
          simp only [List.cons_append] at h ⊢
          by_cases c3 : b1 = 92 ∧ b2 = 117
          · rw [if_pos c3] at h ⊢
            cases hh2 : hex4 r2 with
            | none => rw [hh2] at h; cases h
            | some p2 =>
              obtain ⟨n2, r3⟩ := p2
              rw [hh2] at h
              rw [hex4_ext x hh2]
              simp only [] at h ⊢
              by_cases c4 : 0xDC00 ≤ n2 ∧ n2 ≤ 0xDFFF
              · rw [if_pos c4] at h ⊢
                simp only [Option.some.injEq, Prod.mk.injEq] at h ⊢
                exact ⟨h.1, by rw [h.2]⟩
              · rw [if_neg c4] at h; cases h
          · rw [if_neg c3] at h; cases h
        | [], h => cases h
        | [_], h => cases h
      · rw [if_neg c2] at h ⊢
        simp only [Option.some.injEq, Prod.mk.injEq] at h ⊢
        exact ⟨h.1, by rw [h.2]⟩

theorem some_pair_ext {α : Type} {a b : α} {r rest : Bytes} (x : Bytes)
    (h : some (a, r) = some (b, rest)) : some (a, r ++ x) = some (b, rest ++ x) := by
  cases h; rfl

theorem parseEscape_ext {s rest bs : Bytes} (x : Bytes) (h : parseEscape s = some (bs, rest)) :
    parseEscape (s ++ x) = some (bs, rest ++ x) := by
  cases s with
  | nil => cases h
  | cons c r =>
    simp only [parseEscape, List.cons_append] at h ⊢
    by_cases h0 : c = 34
    · rw [if_pos h0] at h ⊢; exact some_pair_ext x h
    rw [if_neg h0] at h ⊢
    by_cases h1 : c = 92
    · rw [if_pos h1] at h ⊢; exact some_pair_ext x h
    rw [if_neg h1] at h ⊢
    by_cases h2 : c = 47
    · rw [if_pos h2] at h ⊢; exact some_pair_ext x h
    rw [if_neg h2] at h ⊢
    by_cases h3 : c = 98
    · rw [if_pos h3] at h ⊢; exact some_pair_ext x h
    rw [if_neg h3] at h ⊢
    by_cases h4 : c = 102
    · rw [if_pos h4] at h ⊢; exact some_pair_ext x h
    rw [if_neg h4] at h ⊢
    by_cases h5 : c = 110
    · rw [if_pos h5] at h ⊢; exact some_pair_ext x h
    rw [if_neg h5] at h ⊢
    by_cases h6 : c = 114
    · rw [if_pos h6] at h ⊢; exact some_pair_ext x h
    rw [if_neg h6] at h ⊢
    by_cases h7 : c = 116
    · rw [if_pos h7] at h ⊢; exact some_pair_ext x h
    rw [if_neg h7] at h ⊢
    by_cases hu : c = 117
    · rw [if_pos hu] at h ⊢; exact parseUnicodeEscape_ext x h
    · rw [if_neg hu] at h; cases h

theorem parseStrAux_ext : ∀ (f : Nat) (acc s : Bytes) (res rest : Bytes),
    parseStrAux f acc s = some (res, rest) → ∀ (f' : Nat) (x : Bytes), f ≤ f' →
    parseStrAux f' acc (s ++ x) = some (res, rest ++ x)
  | 0, _, _, _, _, h, _, _, _ => by simp [parseStrAux] at h
  | f + 1, acc, s, res, rest, h, f', x, hf => by
    cases f' with
    | zero => omega
    | succ f' =>
      cases s with
      | nil => simp [parseStrAux] at h
      | cons c r =>
        simp only [parseStrAux, List.cons_append] at h ⊢
        by_cases h1 : c = 34
        · rw [if_pos h1] at h ⊢; exact some_pair_ext x h
        rw [if_neg h1] at h ⊢
        by_cases h2 : c = 92
        · rw [if_pos h2] at h ⊢
          cases he : parseEscape r with
          | none => rw [he] at h; cases h
          | some p =>
            obtain ⟨bs, r'⟩ := p
            rw [he] at h
            rw [parseEscape_ext x he]
            simp only [] at h ⊢
            exact parseStrAux_ext f _ r' res rest h f' x (by omega)
        rw [if_neg h2] at h ⊢
        by_cases h3 : c < 32
        · rw [if_pos h3] at h; cases h
        rw [if_neg h3] at h ⊢
        exact parseStrAux_ext f _ r res rest h f' x (by omega)

theorem parseStrLit_ext {r k r1 : Bytes} (x : Bytes)
    (h : parseStrLit (r.length + 1) r = some (k, r1)) :
    parseStrLit ((r ++ x).length + 1) (r ++ x) = some (k, r1 ++ x) := by
  unfold parseStrLit at h ⊢
  exact parseStrAux_ext _ _ _ _ _ h _ x (by simp)

/-! ### Numbers -/

theorem parseFrac_ext {s fs s2 : Bytes} (x : Bytes) (h : parseFrac s = some (fs, s2))
    (hne : s2 ≠ []) : parseFrac (s ++ x) = some (fs, s2 ++ x) := by
  cases s with
  | nil => simp [parseFrac] at h; exact absurd h.2 hne
  | cons c r =>
    simp only [parseFrac, List.cons_append] at h ⊢
    by_cases hc : c = 46
    · rw [if_pos hc] at h ⊢
      by_cases he : (spanDigits r).1 = []
      · rw [if_pos he] at h; cases h
      · rw [if_neg he] at h
        simp only [Option.some.injEq] at h
        have h2 : (spanDigits r).2 = s2 := by rw [h]
        have h1 : (spanDigits r).1 = fs := by rw [h]
        rw [spanDigits_ext r x (by rw [h2]; exact hne)]
        simp only [h1, h2]
        rw [if_neg (by rw [← h1]; exact he)]
    · rw [if_neg hc] at h ⊢
      cases h; rfl

theorem parseExp_ext {s s3 : Bytes} {ex : Option Int} (x : Bytes)
    (h : parseExp s = some (ex, s3)) (hne : s3 ≠ []) :
    parseExp (s ++ x) = some (ex, s3 ++ x) := by
  cases s with
  | nil => simp [parseExp] at h; exact absurd h.2 hne
  | cons c r =>
    simp only [parseExp, List.cons_append] at h ⊢
    by_cases hc : c = 101 ∨ c = 69
    · rw [if_pos hc] at h ⊢
      cases r with
      | nil => cases h
      | cons sg r' =>
        simp only [List.cons_append] at h ⊢
        have hin : (if sg = 43 ∨ sg = 45 then r' ++ x else sg :: (r' ++ x))
            = (if sg = 43 ∨ sg = 45 then r' else sg :: r') ++ x := by
          split <;> rfl
        rw [hin]
        generalize (if sg = 43 ∨ sg = 45 then r' else sg :: r') = inp at h ⊢
        by_cases he : (spanDigits inp).1 = []
        · rw [if_pos he] at h; cases h
        · rw [if_neg he] at h
          simp only [Option.some.injEq, Prod.mk.injEq] at h
          rw [spanDigits_ext inp x (by rw [h.2]; exact hne)]
          simp only []
          rw [if_neg he, h.1, h.2]
    · rw [if_neg hc] at h ⊢
      cases h; rfl

theorem parseFrac_in_ne {s fs s2 : Bytes} (h : parseFrac s = some (fs, s2)) (hne : s2 ≠ []) :
    s ≠ [] := by
  intro e; subst e; simp [parseFrac] at h; exact hne h.2

theorem parseExp_in_ne {s s3 : Bytes} {ex : Option Int} (h : parseExp s = some (ex, s3))
    (hne : s3 ≠ []) : s ≠ [] := by
  intro e; subst e; simp [parseExp] at h; exact hne h.2

theorem parseNumber_ext {s rest : Bytes} {v : JVal} (x : Bytes)
    (h : parseNumber s = some (v, rest)) (hne : rest ≠ []) :
    parseNumber (s ++ x) = some (v, rest ++ x) := by
  cases s with
  | nil => cases h
  | cons c r =>
    simp only [parseNumber, List.cons_append] at h ⊢
    have hin : (if c = 45 then r ++ x else c :: (r ++ x)) = (if c = 45 then r else c :: r) ++ x := by
      split <;> rfl
    rw [hin]
    generalize (if c = 45 then r else c :: r) = inp at h ⊢
    by_cases hbad : (spanDigits inp).1 = [] ∨
        ((spanDigits inp).1.head? = some 48 ∧ (spanDigits inp).1.length ≠ 1)
    · rw [if_pos hbad] at h; cases h
    · rw [if_neg hbad] at h
      cases hfr : parseFrac (spanDigits inp).2 with
      | none => rw [hfr] at h; cases h
      | some pf =>
        obtain ⟨fs, s2⟩ := pf
        rw [hfr] at h
        simp only [] at h
        cases hex : parseExp s2 with
        | none => rw [hex] at h; cases h
        | some pe =>
          obtain ⟨ex, s3⟩ := pe
          rw [hex] at h
          simp only [] at h
          have hs3 : s3 = rest := by
            split at h <;> · simp only [Option.some.injEq, Prod.mk.injEq] at h; exact h.2
          have hs3ne : s3 ≠ [] := by rw [hs3]; exact hne
          have hs2ne := parseExp_in_ne hex hs3ne
          have hs1ne := parseFrac_in_ne hfr hs2ne
          rw [spanDigits_ext inp x hs1ne]
          simp only []
          rw [if_neg hbad, parseFrac_ext x hfr hs2ne]
          simp only []
          rw [parseExp_ext x hex hs3ne]
          simp only []
          split at h
          · rename_i hc
            rw [if_pos hc]
            exact some_pair_ext x h
          · rename_i hc
            rw [if_neg hc]
            exact some_pair_ext x h


/-! ### Values -/

theorem parseElems_nil (d n : Nat) (acc : List JVal) : parseElems d n acc [] = none := by
  cases n with
  | zero => rw [parseElems]
  | succ n => rw [parseElems]; rfl

/-- The input of a successful `parseValue` is not a number token, or something follows it. -/
def Delimited (s rest : Bytes) : Prop :=
  rest ≠ [] ∨ ∀ (c : UInt8) (r : Bytes), skipWs s = c :: r → ¬ (c = 45 ∨ isDigit c = true)

structure Ext (n : Nat) : Prop where
  value : ∀ (d : Nat) (s : Bytes) (v : JVal) (rest : Bytes),
    parseValue d n s = some (v, rest) → Delimited s rest →
    ∀ (n' : Nat) (x : Bytes), n ≤ n' → parseValue d n' (s ++ x) = some (v, rest ++ x)
  elems : ∀ (d : Nat) (acc : List JVal) (s : Bytes) (v : JVal) (rest : Bytes),
    parseElems d n acc s = some (v, rest) →
    ∀ (n' : Nat) (x : Bytes), n ≤ n' → parseElems d n' acc (s ++ x) = some (v, rest ++ x)
  members : ∀ (d : Nat) (acc : List (Bytes × JVal)) (s : Bytes) (v : JVal) (rest : Bytes),
    parseMembers d n acc s = some (v, rest) →
    ∀ (n' : Nat) (x : Bytes), n ≤ n' → parseMembers d n' acc (s ++ x) = some (v, rest ++ x)

theorem map_pair_ext {p : Option Bytes} {v w : JVal} {rest : Bytes}
    (h : p.map (fun r => (w, r)) = some (v, rest)) : p = some rest ∧ w = v := by
  cases p with
  | none => cases h
  | some r => simp only [Option.map_some, Option.some.injEq, Prod.mk.injEq] at h; simp [h.1, h.2]

theorem ext_value_step (n : Nat) (ih : Ext n) (d : Nat) (s : Bytes) (v : JVal) (rest : Bytes)
    (h : parseValue d (n + 1) s = some (v, rest)) (hd : Delimited s rest)
    (n' : Nat) (x : Bytes) (hn : n + 1 ≤ n') :
    parseValue d n' (s ++ x) = some (v, rest ++ x) := by
  cases n' with
  | zero => omega
  | succ m =>
    have hm : n ≤ m := by omega
    rw [parseValue] at h ⊢
    cases hsk : skipWs s with
    | nil => rw [hsk] at h; cases h
    | cons c r =>
      rw [hsk] at h
      rw [skipWs_ext x hsk]
      simp only [] at h ⊢
      by_cases c1 : c = 110
      · rw [if_pos c1] at h ⊢
        obtain ⟨h1, h2⟩ := map_pair_ext h
        rw [stripPrefix_ext _ _ x h1, h2]; rfl
      rw [if_neg c1] at h ⊢
      by_cases c2 : c = 116
      · rw [if_pos c2] at h ⊢
        obtain ⟨h1, h2⟩ := map_pair_ext h
        rw [stripPrefix_ext _ _ x h1, h2]; rfl
      rw [if_neg c2] at h ⊢
      by_cases c3 : c = 102
      · rw [if_pos c3] at h ⊢
        obtain ⟨h1, h2⟩ := map_pair_ext h
        rw [stripPrefix_ext _ _ x h1, h2]; rfl
      rw [if_neg c3] at h ⊢
      by_cases c4 : c = 34
      · rw [if_pos c4] at h ⊢
        cases hs : parseStrLit (r.length + 1) r with
        | none => rw [hs] at h; cases h
        | some p =>
          obtain ⟨k, r1⟩ := p
          rw [hs] at h
          rw [parseStrLit_ext x hs]
          simp only [Option.some.injEq, Prod.mk.injEq] at h ⊢
          exact ⟨h.1, by rw [h.2]⟩
      rw [if_neg c4] at h ⊢
      by_cases c5 : c = 91
      · rw [if_pos c5] at h ⊢
        cases d with
        | zero => cases h
        | succ d =>
          simp only [] at h ⊢
          cases hsk2 : skipWs r with
          | nil => rw [hsk2] at h; cases h
          | cons c' r' =>
            rw [hsk2] at h
            rw [skipWs_ext x hsk2]
            simp only [] at h ⊢
            by_cases c6 : c' = 93
            · rw [if_pos c6] at h ⊢
              exact some_pair_ext x h
            · rw [if_neg c6] at h ⊢
              cases hv : parseValue d n (c' :: r') with
              | none => rw [hv] at h; cases h
              | some p =>
                obtain ⟨v1, r1⟩ := p
                rw [hv] at h
                simp only [] at h
                have hr1 : r1 ≠ [] := by
                  intro e; subst e; rw [parseElems_nil] at h; cases h
                have := ih.value d (c' :: r') v1 r1 hv (Or.inl hr1) m x hm
                rw [List.cons_append] at this
                rw [this]
                exact ih.elems d [v1] r1 v rest h m x hm
      rw [if_neg c5] at h ⊢
      by_cases c7 : c = 123
      · rw [if_pos c7] at h ⊢
        cases d with
        | zero => cases h
        | succ d =>
          simp only [] at h ⊢
          cases hsk2 : skipWs r with
          | nil => rw [hsk2] at h; cases h
          | cons c' r' =>
            rw [hsk2] at h
            rw [skipWs_ext x hsk2]
            simp only [] at h ⊢
            by_cases c6 : c' = 125
            · rw [if_pos c6] at h ⊢
              exact some_pair_ext x h
            · rw [if_neg c6] at h ⊢
              have := ih.members d [] (c' :: r') v rest h m x hm
              rw [List.cons_append] at this
              exact this
      rw [if_neg c7] at h ⊢
      by_cases c8 : c = 45 ∨ isDigit c = true
      · rw [if_pos c8] at h ⊢
        have hne : rest ≠ [] := by
          cases hd with
          | inl h' => exact h'
          | inr h' => exact absurd c8 (h' c r hsk)
        have := parseNumber_ext x h hne
        rw [List.cons_append] at this
        exact this
      · rw [if_neg c8] at h; cases h

theorem ext_elems_step (n : Nat) (ih : Ext n) (d : Nat) (acc : List JVal) (s : Bytes) (v : JVal)
    (rest : Bytes) (h : parseElems d (n + 1) acc s = some (v, rest))
    (n' : Nat) (x : Bytes) (hn : n + 1 ≤ n') :
    parseElems d n' acc (s ++ x) = some (v, rest ++ x) := by
  cases n' with
  | zero => omega
  | succ m =>
    have hm : n ≤ m := by omega
    rw [parseElems] at h ⊢
    cases hsk : skipWs s with
    | nil => rw [hsk] at h; cases h
    | cons c r =>
      rw [hsk] at h
      rw [skipWs_ext x hsk]
      simp only [] at h ⊢
      by_cases c1 : c = 93
      · rw [if_pos c1] at h ⊢
        exact some_pair_ext x h
      rw [if_neg c1] at h ⊢
      by_cases c2 : c = 44
      · rw [if_pos c2] at h ⊢
        cases hv : parseValue d n r with
        | none => rw [hv] at h; cases h
        | some p =>
          obtain ⟨v1, r1⟩ := p
          rw [hv] at h
          simp only [] at h
          have hr1 : r1 ≠ [] := by
            intro e; subst e; rw [parseElems_nil] at h; cases h
          rw [ih.value d r v1 r1 hv (Or.inl hr1) m x hm]
          exact ih.elems d (v1 :: acc) r1 v rest h m x hm
      · rw [if_neg c2] at h; cases h

theorem ext_members_step (n : Nat) (ih : Ext n) (d : Nat) (acc : List (Bytes × JVal)) (s : Bytes)
    (v : JVal) (rest : Bytes) (h : parseMembers d (n + 1) acc s = some (v, rest))
    (n' : Nat) (x : Bytes) (hn : n + 1 ≤ n') :
    parseMembers d n' acc (s ++ x) = some (v, rest ++ x) := by
  cases n' with
  | zero => omega
  | succ m =>
    have hm : n ≤ m := by omega
    rw [parseMembers] at h ⊢
    cases hsk : skipWs s with
    | nil => rw [hsk] at h; cases h
    | cons q r =>
      rw [hsk] at h
      rw [skipWs_ext x hsk]
      simp only [] at h ⊢
      by_cases c1 : q = 34
      · rw [if_pos c1] at h ⊢
        cases hs : parseStrLit (r.length + 1) r with
        | none => rw [hs] at h; cases h
        | some p =>
          obtain ⟨k, r1⟩ := p
          rw [hs] at h
          rw [parseStrLit_ext x hs]
          simp only [] at h ⊢
          cases hsk1 : skipWs r1 with
          | nil => rw [hsk1] at h; cases h
          | cons c r2 =>
            rw [hsk1] at h
            rw [skipWs_ext x hsk1]
            simp only [] at h ⊢
            by_cases c2 : c = 58
            · rw [if_pos c2] at h ⊢
              cases hv : parseValue d n r2 with
              | none => rw [hv] at h; cases h
              | some p =>
                obtain ⟨v1, r3⟩ := p
                rw [hv] at h
                simp only [] at h
                cases hsk3 : skipWs r3 with
                | nil => rw [hsk3] at h; cases h
                | cons c' r4 =>
                  rw [hsk3] at h
                  simp only [] at h
                  rw [ih.value d r2 v1 r3 hv (Or.inl (ne_nil_of_skipWs hsk3)) m x hm]
                  simp only []
                  rw [skipWs_ext x hsk3]
                  simp only []
                  by_cases c3 : c' = 125
                  · rw [if_pos c3] at h ⊢
                    exact some_pair_ext x h
                  rw [if_neg c3] at h ⊢
                  by_cases c4 : c' = 44
                  · rw [if_pos c4] at h ⊢
                    exact ih.members d _ r4 v rest h m x hm
                  · rw [if_neg c4] at h; cases h
            · rw [if_neg c2] at h; cases h
      · rw [if_neg c1] at h; cases h

theorem ext_all : ∀ n : Nat, Ext n
  | 0 => ⟨fun d s v rest h => (by rw [parseValue] at h; cases h),
          fun d acc s v rest h => (by rw [parseElems] at h; cases h),
          fun d acc s v rest h => (by rw [parseMembers] at h; cases h)⟩
  | n + 1 =>
    have ih := ext_all n
    ⟨ext_value_step n ih, ext_elems_step n ih, ext_members_step n ih⟩

/-- If the whole text parses as one value with nothing left, no strict prefix of it that starts a
container or a string (or is empty) parses. -/
theorem parse_prefix_none (j' x : Bytes) (v : JVal) (hx : x ≠ [])
    (hfull : parseValue maxNesting ((j' ++ x).length + 1) (j' ++ x) = some (v, []))
    (hstart : ∀ (c : UInt8) (r : Bytes), skipWs j' = c :: r → ¬ (c = 45 ∨ isDigit c = true)) :
    parse j' = none := by
  unfold parse
  cases hp : parseValue maxNesting (j'.length + 1) j' with
  | none => rfl
  | some p =>
    obtain ⟨v', rest'⟩ := p
    exfalso
    have := (ext_all _).value maxNesting j' v' rest' hp (Or.inr hstart)
      ((j' ++ x).length + 1) x (by simp)
    rw [hfull] at this
    simp only [Option.some.injEq, Prod.mk.injEq] at this
    have h2 := this.2
    have : x = [] := (List.append_eq_nil_iff.mp h2.symm).2
    exact hx this


end Cacache.Json

namespace Cacache.Rec

open Cacache Cacache.Json

/-- What Rust's types guarantee about a record the library itself builds (`String` is UTF-8,
`time : u128`, `size : u64`, `metadata : serde_json::Value`), plus the one real limit: the metadata
sits inside the record object, so it may use one nesting level less than a whole document. -/
def WF (r : Rec) : Prop :=
  utf8Valid r.key = true ∧ (∀ t, r.integrity = some t → utf8Valid t = true) ∧
  r.time ≤ u128Max ∧ r.size ≤ u64Max ∧ r.metadata.wf = true ∧
  r.metadata.depth + 1 ≤ maxNesting

theorem WF_mk {key : Bytes} {integ : Option Bytes} {time size : Nat} {md : JVal}
    {raw : Option Bytes} (hk : utf8Valid key = true)
    (hi : ∀ t, integ = some t → utf8Valid t = true) (ht : time ≤ u128Max) (hs : size ≤ u64Max)
    (hm : md.wf = true) (hd : md.depth + 1 ≤ maxNesting) :
    WF ⟨key, integ, time, size, md, raw⟩ :=
  ⟨hk, hi, ht, hs, hm, hd⟩

/-! ### The JSON values of the six fields -/

def optStrJ : Option Bytes → JVal
  | none => .null
  | some s => .str s

def byteJ (b : UInt8) : JVal := .int (b.toNat : Int)

def optRawJ : Option Bytes → JVal
  | none => .null
  | some b => .arr (b.map byteJ)

/-- What `renderNat n` is parsed to. -/
def natJ (n : Nat) : JVal :=
  if n ≤ u64Max then .int (n : Int) else mkDec false (renderNat n) 0

theorem render_int_nat (n : Nat) : render (.int (n : Int)) = renderNat n := by
  rw [render, renderInt]
  have : ¬ ((n : Int) < 0) := by omega
  simp [this]

theorem parsesTo_natJ (d n : Nat) : ParsesTo d (renderNat n) (natJ n) := by
  intro f tl hf htl
  have hs := renderNat_spec n
  obtain ⟨c, r, hcr, hc⟩ := renderNat_head n
  have hnum := parseNumber_digits n _ tl hs htl
  rw [hcr] at hf hnum ⊢
  cases f with
  | zero => simp at hf
  | succ f =>
    rw [List.cons_append, parseValue_number _ _ _ _ (Or.inr hc)]
    rw [List.cons_append] at hnum
    rw [hnum, ← hcr]
    unfold natJ mkInt u64Max
    simp only [hs.value, Bool.false_eq_true, if_false]
    by_cases h : n ≤ 18446744073709551615
    · have h' : n < 18446744073709551616 := by omega
      simp only [h, h', if_true]
    · have h' : ¬ n < 18446744073709551616 := by omega
      simp only [h, h', if_false]

theorem asNat_natJ (bound n : Nat) (hn : n ≤ bound) : asNat bound (natJ n) = some n := by
  unfold natJ
  by_cases h : n ≤ u64Max
  · simp only [h, if_true, asNat]
    have : (0 : Int) ≤ (n : Int) ∧ (n : Int).toNat ≤ bound := ⟨by omega, by simpa using hn⟩
    rw [if_pos this]
    simp
  · simp only [h, if_false]
    have hn0 : n ≠ 0 := by unfold u64Max at h; omega
    obtain ⟨m, z, hmk, hm, hv⟩ := mkDec_value (renderNat_spec n) hn0
    rw [hmk]
    have hlt : u64Max < n := by omega
    have hcond : (0 : Int) < (m : Int) ∧ (0 : Int) ≤ (z : Int) ∧
        (m : Int).toNat * 10 ^ (z : Int).toNat ≤ bound ∧
        u64Max < (m : Int).toNat * 10 ^ (z : Int).toNat := by
      simp only [Int.toNat_natCast, hv]
      exact ⟨by omega, by omega, hn, hlt⟩
    simp only [asNat]
    rw [if_pos hcond]
    simp only [Int.toNat_natCast, hv]

/-! ### The byte array -/

theorem render_byteJ (b : UInt8) : render (byteJ b) = renderNat b.toNat := render_int_nat _

theorem renderByteArr_elems : ∀ (b : UInt8) (rest : Bytes),
    renderByteArr (b :: rest) ++ [93] = renderNat b.toNat ++ renderElems (rest.map byteJ)
  | b, [] => by simp [renderByteArr, renderElems]
  | b, c :: rest => by
    have ih := renderByteArr_elems c rest
    simp only [renderByteArr, List.map_cons, renderElems, render_byteJ, List.append_assoc,
      List.cons_append]
    rw [ih]

theorem render_optRawJ (raw : Option Bytes) : render (optRawJ raw) = renderOptRaw raw := by
  cases raw with
  | none => simp [optRawJ, renderOptRaw, render, jNull]
  | some b =>
    cases b with
    | nil => simp [optRawJ, renderOptRaw, render, renderByteArr]
    | cons x xs =>
      simp only [optRawJ, renderOptRaw, List.map_cons, render, render_byteJ]
      rw [List.cons_append, renderByteArr_elems]

theorem byteJ_wf (b : UInt8) : (byteJ b).wf = true := by
  have := UInt8.toNat_lt b
  simp only [byteJ, JVal.wf, Bool.and_eq_true, decide_eq_true_eq]
  omega

theorem wfList_bytes : ∀ b : Bytes, wfList (b.map byteJ) = true
  | [] => rfl
  | x :: xs => by simp [wfList, byteJ_wf, wfList_bytes xs]

theorem depthList_bytes : ∀ b : Bytes, depthList (b.map byteJ) = 0
  | [] => rfl
  | x :: xs => by simp [depthList, byteJ, JVal.depth, depthList_bytes xs]

theorem optRawJ_wf (raw : Option Bytes) : (optRawJ raw).wf = true := by
  cases raw with
  | none => rfl
  | some b => simp [optRawJ, JVal.wf, wfList_bytes]

theorem optRawJ_depth (raw : Option Bytes) : (optRawJ raw).depth ≤ 1 := by
  cases raw with
  | none => simp [optRawJ, JVal.depth]
  | some b => simp [optRawJ, JVal.depth, depthList_bytes]

theorem asByte_byteJ (x : UInt8) : asByte (byteJ x) = some x := by
  have hx := UInt8.toNat_lt x
  have h1 : (0 : Int) ≤ (x.toNat : Int) ∧ (x.toNat : Int) ≤ 255 := by omega
  simp only [byteJ, asByte]
  rw [if_pos h1]
  simp

theorem allSome_bytes : ∀ b : Bytes, Sri.allSome (b.map (asByte ∘ byteJ)) = some b
  | [] => rfl
  | x :: xs => by
    simp only [List.map_cons, Function.comp_apply, asByte_byteJ, Sri.allSome, allSome_bytes xs,
      Option.map_some]

theorem asOptRaw_optRawJ (raw : Option Bytes) : asOptRaw (optRawJ raw) = some raw := by
  cases raw with
  | none => rfl
  | some b => simp [optRawJ, asOptRaw, allSome_bytes]

theorem render_optStrJ (o : Option Bytes) : render (optStrJ o) = renderOptStr o := by
  cases o <;> simp [optStrJ, renderOptStr, render, jNull]

theorem asOptStr_optStrJ (o : Option Bytes) : asOptStr (optStrJ o) = some o := by
  cases o <;> rfl

/-! ### `encJson` as an object text -/

def items (r : Rec) : List (Bytes × Bytes × JVal) :=
  [(fIntegrity, renderOptStr r.integrity, optStrJ r.integrity),
   (fTime, renderNat r.time, natJ r.time),
   (fSize, renderNat r.size, natJ r.size),
   (fMetadata, render r.metadata, r.metadata),
   (fRaw, renderOptRaw r.raw, optRawJ r.raw)]

theorem kKey_eq : kKey = 123 :: (renderStr fKey ++ [58]) := by decide
theorem kIntegrity_eq : kIntegrity = 44 :: (renderStr fIntegrity ++ [58]) := by decide
theorem kTime_eq : kTime = 44 :: (renderStr fTime ++ [58]) := by decide
theorem kSize_eq : kSize = 44 :: (renderStr fSize ++ [58]) := by decide
theorem kMetadata_eq : kMetadata = 44 :: (renderStr fMetadata ++ [58]) := by decide
theorem kRaw_eq : kRaw = 44 :: (renderStr fRaw ++ [58]) := by decide

theorem encJson_eq (r : Rec) : encJson r = objText fKey (renderStr r.key) (items r) := by
  unfold encJson objText items
  simp only [membersText, kKey_eq, kIntegrity_eq, kTime_eq, kSize_eq, kMetadata_eq, kRaw_eq,
    List.append_assoc, List.cons_append, List.nil_append]

theorem fields_parsesTo (r : Rec) (h : r.WF) :
    ParsesTo (maxNesting - 1) (renderStr r.key) (.str r.key) ∧
    ∀ it ∈ items r, ParsesTo (maxNesting - 1) it.2.1 it.2.2 := by
  obtain ⟨hk, hi, _, _, hmwf, hmd⟩ := h
  have hd : maxNesting - 1 = 126 := rfl
  refine ⟨?_, ?_⟩
  · have : ParsesTo (maxNesting - 1) (render (.str r.key)) (.str r.key) :=
      ParsesTo.render hk (by simp [JVal.depth])
    rwa [render] at this
  · intro it hit
    simp only [items, List.mem_cons, List.not_mem_nil, or_false] at hit
    rcases hit with e | e | e | e | e <;> subst e <;> simp only []
    · rw [← render_optStrJ]
      cases hint : r.integrity with
      | none => exact ParsesTo.render rfl (by simp [optStrJ, JVal.depth])
      | some t =>
        exact ParsesTo.render (by simp only [optStrJ, JVal.wf]; exact hi t hint)
          (by simp [optStrJ, JVal.depth])
    · exact parsesTo_natJ _ _
    · exact parsesTo_natJ _ _
    · exact ParsesTo.render hmwf (by rw [hd]; unfold maxNesting at hmd; omega)
    · rw [← render_optRawJ]
      exact ParsesTo.render (optRawJ_wf _) (by have := optRawJ_depth r.raw; rw [hd]; omega)

theorem parse_encJson (r : Rec) (h : r.WF) :
    Json.parse (encJson r) = some (.obj
      [(fIntegrity, optStrJ r.integrity), (fKey, .str r.key), (fMetadata, r.metadata),
       (fRaw, optRawJ r.raw), (fSize, natJ r.size), (fTime, natJ r.time)]) := by
  obtain ⟨h1, h2⟩ := fields_parsesTo r h
  rw [encJson_eq, parse_objText fKey (renderStr r.key) (.str r.key) (items r) h1 h2]
  rfl

/-- The whole JSON text is consumed by one `parseValue`. -/
theorem parseValue_encJson (r : Rec) (h : r.WF) :
    ∃ v, parseValue maxNesting ((encJson r).length + 1) (encJson r) = some (v, []) := by
  obtain ⟨h1, h2⟩ := fields_parsesTo r h
  have := parseValue_objText fKey (renderStr r.key) (.str r.key) (items r) (maxNesting - 1)
    ((objText fKey (renderStr r.key) (items r)).length + 1) [] h1 h2 (by omega)
  rw [List.append_nil] at this
  rw [encJson_eq]
  exact ⟨_, this⟩

/-- Item 1. -/
theorem decJson_encJson (r : Rec) (h : r.WF) : decJson (encJson r) = some r := by
  have hp := parse_encJson r h
  obtain ⟨_, _, ht, hsz, _, _⟩ := h
  unfold decJson
  rw [hp]
  have l1 : lookup [(fIntegrity, optStrJ r.integrity), (fKey, JVal.str r.key),
      (fMetadata, r.metadata), (fRaw, optRawJ r.raw), (fSize, natJ r.size),
      (fTime, natJ r.time)] fKey = some (.str r.key) := rfl
  have l2 : lookup [(fIntegrity, optStrJ r.integrity), (fKey, JVal.str r.key),
      (fMetadata, r.metadata), (fRaw, optRawJ r.raw), (fSize, natJ r.size),
      (fTime, natJ r.time)] fIntegrity = some (optStrJ r.integrity) := rfl
  have l3 : lookup [(fIntegrity, optStrJ r.integrity), (fKey, JVal.str r.key),
      (fMetadata, r.metadata), (fRaw, optRawJ r.raw), (fSize, natJ r.size),
      (fTime, natJ r.time)] fTime = some (natJ r.time) := rfl
  have l4 : lookup [(fIntegrity, optStrJ r.integrity), (fKey, JVal.str r.key),
      (fMetadata, r.metadata), (fRaw, optRawJ r.raw), (fSize, natJ r.size),
      (fTime, natJ r.time)] fSize = some (natJ r.size) := rfl
  have l5 : lookup [(fIntegrity, optStrJ r.integrity), (fKey, JVal.str r.key),
      (fMetadata, r.metadata), (fRaw, optRawJ r.raw), (fSize, natJ r.size),
      (fTime, natJ r.time)] fMetadata = some r.metadata := rfl
  have l6 : lookup [(fIntegrity, optStrJ r.integrity), (fKey, JVal.str r.key),
      (fMetadata, r.metadata), (fRaw, optRawJ r.raw), (fSize, natJ r.size),
      (fTime, natJ r.time)] fRaw = some (optRawJ r.raw) := rfl
  have a3 := asNat_natJ u128Max r.time ht
  have a4 := asNat_natJ u64Max r.size hsz
  simp only [Option.bind_some, ofJVal, l1, l2, l3, l4, l5, l6, asStr,
    asOptStr_optStrJ, a3, a4, asOptRaw_optRawJ, bind, pure]

/-! ### Bytes of an encoded line -/

theorem hexDigit_range (x : UInt8) :
    (48 : UInt8) ≤ Bytes.hexDigit (x >>> 4) ∧ Bytes.hexDigit (x >>> 4) < (128 : UInt8) ∧
    (48 : UInt8) ≤ Bytes.hexDigit (x &&& 15) ∧ Bytes.hexDigit (x &&& 15) < (128 : UInt8) :=
  byte_forall (P := fun x => (48 : UInt8) ≤ Bytes.hexDigit (x >>> 4) ∧
    Bytes.hexDigit (x >>> 4) < (128 : UInt8) ∧ (48 : UInt8) ≤ Bytes.hexDigit (x &&& 15) ∧
    Bytes.hexDigit (x &&& 15) < (128 : UInt8)) (by decide +kernel) x

theorem hex_range : ∀ (b : Bytes), ∀ c ∈ Bytes.hex b, 48 ≤ c ∧ c < 128
  | [], c, hc => by simp [Bytes.hex] at hc
  | x :: xs, c, hc => by
    have hr := hexDigit_range x
    simp only [Bytes.hex, List.mem_cons] at hc
    rcases hc with h | h | h
    · rw [h]; exact ⟨hr.1, hr.2.1⟩
    · rw [h]; exact ⟨hr.2.2.1, hr.2.2.2⟩
    · exact hex_range xs c h

theorem le_of_48 {c : UInt8} (h : 48 ≤ c) : 32 ≤ c := by
  simp only [UInt8.le_iff_toNat_le] at h ⊢
  have h1 : (48 : UInt8).toNat = 48 := rfl
  have h2 : (32 : UInt8).toNat = 32 := rfl
  omega

theorem membersText_all32 : ∀ (its : List (Bytes × Bytes × JVal)),
    (∀ it ∈ its, All32 it.2.1) → All32 (membersText its)
  | [], _ => by rw [membersText]; decide
  | (k, t, v) :: its, h => by
    rw [membersText]
    exact .cons (by decide) (.append (renderStr_all32 k) (.cons (by decide)
      (.append (h (k, t, v) (by simp))
        (membersText_all32 its (fun it hit => h it (by simp [hit]))))))

theorem renderOptStr_all32 (o : Option Bytes) : All32 (renderOptStr o) := by
  cases o with
  | none => simp only [renderOptStr, jNull]; decide
  | some s => exact renderStr_all32 s

theorem renderNat_all32 (n : Nat) : All32 (renderNat n) :=
  fun c hc => (numByte_range (renderNat_allNum n c hc)).1

theorem items_all32 (r : Rec) : ∀ it ∈ items r, All32 it.2.1 := by
  intro it hit
  simp only [items, List.mem_cons, List.not_mem_nil, or_false] at hit
  rcases hit with e | e | e | e | e <;> subst e <;> simp only []
  · exact renderOptStr_all32 _
  · exact renderNat_all32 _
  · exact renderNat_all32 _
  · exact render_ge32 _
  · rw [← render_optRawJ]; exact render_ge32 _

/-- Every byte of the JSON text of a record is `≥ 0x20` (any record). -/
theorem encJson_all32 (r : Rec) : All32 (encJson r) := by
  rw [encJson_eq, objText]
  exact .cons (by decide) (.append (renderStr_all32 _) (.cons (by decide)
    (.append (renderStr_all32 _) (membersText_all32 _ (items_all32 r)))))

variable (H : Algo → Bytes → Bytes)

theorem encLine_eq (r : Rec) : encLine H r = checksum H (encJson r) ++ TAB :: encJson r := rfl

theorem mem_encLine {r : Rec} {c : UInt8} (hc : c ∈ encLine H r) :
    48 ≤ c ∨ c = TAB ∨ 32 ≤ c := by
  rw [encLine_eq, List.mem_append, List.mem_cons] at hc
  rcases hc with h | h | h
  · exact Or.inl (hex_range _ c h).1
  · exact Or.inr (Or.inl h)
  · exact Or.inr (Or.inr (encJson_all32 r c h))

/-- Item 3. -/
theorem enc_no_tab_json (r : Rec) : TAB ∉ encJson r :=
  fun h => absurd (encJson_all32 r TAB h) (by decide)

theorem enc_no_nl (r : Rec) : NL ∉ encLine H r := by
  intro h
  rcases mem_encLine H h with h | h | h
  · exact absurd h (by decide)
  · exact absurd h (by decide)
  · exact absurd h (by decide)

theorem enc_no_cr (r : Rec) : CR ∉ encLine H r := by
  intro h
  rcases mem_encLine H h with h | h | h
  · exact absurd h (by decide)
  · exact absurd h (by decide)
  · exact absurd h (by decide)

theorem checksum_no_tab (j : Bytes) : ∀ c ∈ checksum H j, (c == TAB) = false := by
  intro c hc
  have := (hex_range _ c hc).1
  cases h : c == TAB with
  | false => rfl
  | true =>
    rw [beq_iff_eq] at h
    subst h
    exact absurd this (by decide)

theorem splitOn_none (sep : UInt8 → Bool) (s : Bytes) (h : ∀ c ∈ s, sep c = false) :
    Bytes.splitOn sep s = [s] := by
  unfold Bytes.splitOn
  induction s with
  | nil => rfl
  | cons c cs ih =>
    have hc : sep c = false := h c (by simp)
    have := ih (fun x hx => h x (by simp [hx]))
    simp only [List.foldr_cons, hc, Bool.false_eq_true, if_false, this]

theorem splitOn_ne_nil (sep : UInt8 → Bool) (s : Bytes) : Bytes.splitOn sep s ≠ [] := by
  unfold Bytes.splitOn
  induction s with
  | nil => simp
  | cons c cs ih =>
    simp only [List.foldr_cons]
    split
    · simp
    · split
      · simp
      · simp

/-- Splitting at the first separator. -/
theorem splitOn_first (sep : UInt8 → Bool) (a d : Bytes) (x : UInt8) (hx : sep x = true)
    (ha : ∀ c ∈ a, sep c = false) :
    Bytes.splitOn sep (a ++ x :: d) = a :: Bytes.splitOn sep d := by
  induction a with
  | nil =>
    unfold Bytes.splitOn
    simp [hx]
  | cons c cs ih =>
    have hc : sep c = false := ha c (by simp)
    have := ih (fun y hy => ha y (by simp [hy]))
    unfold Bytes.splitOn at this ⊢
    simp only [List.cons_append, List.foldr_cons, hc, Bool.false_eq_true, if_false, this]

theorem splitTab_encLine (r : Rec) :
    splitTab (encLine H r) = [checksum H (encJson r), encJson r] := by
  rw [encLine_eq, splitTab, splitOn_first _ _ _ TAB (by decide) (checksum_no_tab H _),
    splitOn_none]
  intro c hc
  cases h : c == TAB with
  | false => rfl
  | true =>
    rw [beq_iff_eq] at h
    subst h
    exact absurd hc (enc_no_tab_json r)

/-- Item 2. -/
theorem dec_enc (r : Rec) (h : r.WF) : decLine H (encLine H r) = some r := by
  unfold decLine
  rw [splitTab_encLine]
  simp only [beq_self_eq_true, if_true]
  exact decJson_encJson r h

/-! ### UTF-8 validity of an encoded line -/

theorem membersText_utf8 : ∀ (its : List (Bytes × Bytes × JVal)),
    (∀ it ∈ its, utf8Valid it.1 = true ∧ utf8Valid it.2.1 = true) →
    utf8Valid (membersText its) = true
  | [], _ => by rw [membersText]; decide
  | (k, t, v) :: its, h => by
    have hk := h (k, t, v) (by simp)
    rw [membersText, utf8Valid_cons1 _ (by decide)]
    refine utf8Valid_append _ ?_ _ (utf8Valid_renderStr k hk.1)
    rw [utf8Valid_cons1 _ (by decide)]
    exact utf8Valid_append _ (membersText_utf8 its (fun it hit => h it (by simp [hit]))) _ hk.2

theorem encJson_utf8 (r : Rec) (h : r.WF) : utf8Valid (encJson r) = true := by
  obtain ⟨hk, hi, _, _, hm, _⟩ := h
  rw [encJson_eq, objText, utf8Valid_cons1 _ (by decide)]
  refine utf8Valid_append _ ?_ _ (utf8Valid_renderStr fKey (by decide))
  rw [utf8Valid_cons1 _ (by decide)]
  refine utf8Valid_append _ ?_ _ (utf8Valid_renderStr r.key hk)
  apply membersText_utf8
  intro it hit
  simp only [items, List.mem_cons, List.not_mem_nil, or_false] at hit
  rcases hit with e | e | e | e | e <;> subst e <;> simp only []
  · refine ⟨by decide, ?_⟩
    cases hint : r.integrity with
    | none => simp only [renderOptStr, jNull]; decide
    | some t => exact utf8Valid_renderStr t (hi t hint)
  · exact ⟨by decide, utf8Valid_of_allNum (renderNat_allNum _)⟩
  · exact ⟨by decide, utf8Valid_of_allNum (renderNat_allNum _)⟩
  · exact ⟨by decide, render_utf8Valid _ hm⟩
  · refine ⟨by decide, ?_⟩
    rw [← render_optRawJ]
    exact render_utf8Valid _ (optRawJ_wf _)

/-- Item 4. -/
theorem enc_valid (r : Rec) (h : r.WF) : utf8Valid (encLine H r) = true := by
  rw [encLine_eq]
  unfold checksum
  rw [utf8Valid_ascii_append _ _ (fun b hb => (hex_range _ b hb).2),
    utf8Valid_cons1 _ (by decide)]
  exact encJson_utf8 r h

/-! ### Ends of a line -/

/-- Item 5. -/
theorem enc_ne_nil (r : Rec) : encLine H r ≠ [] := by
  rw [encLine_eq]; simp

theorem encLine_getLast (r : Rec) : (encLine H r).getLast? = some 125 := by
  rw [encLine_eq]
  unfold encJson
  generalize kKey ++ renderStr r.key ++ kIntegrity ++ renderOptStr r.integrity ++ kTime ++
    renderNat r.time ++ kSize ++ renderNat r.size ++ kMetadata ++ render r.metadata ++ kRaw ++
    renderOptRaw r.raw = X
  have : checksum H (X ++ [125]) ++ TAB :: (X ++ [125])
      = (checksum H (X ++ [125]) ++ TAB :: X) ++ [125] := by simp
  rw [this, List.getLast?_append]
  simp

theorem enc_no_cr_end (r : Rec) : (encLine H r).getLast? ≠ some CR := by
  rw [encLine_getLast]; decide

theorem dec_nil : decLine H [] = none := rfl


/-! ### No strict prefix of a line decodes (arbitrary hash function) -/

theorem decJson_prefix_none (r : Rec) (h : r.WF) (j' x : Bytes) (hj : encJson r = j' ++ x)
    (hx : x ≠ []) : decJson j' = none := by
  obtain ⟨v, hv⟩ := parseValue_encJson r h
  rw [hj] at hv
  have hp : Json.parse j' = none := by
    apply parse_prefix_none j' x v hx hv
    intro c rr hsk
    cases j' with
    | nil => simp [skipWs] at hsk
    | cons a t =>
      have ha : a = 123 := by
        have := hj
        rw [encJson_eq, objText, List.cons_append] at this
        injection this with h1 _
        exact h1.symm
      subst ha
      rw [skipWs_cons _ (by decide)] at hsk
      injection hsk with h1 _
      subst h1
      decide
  unfold decJson
  rw [hp]; rfl

theorem decLine_no_tab (p : Bytes) (h : ∀ c ∈ p, (c == TAB) = false) : decLine H p = none := by
  unfold decLine splitTab
  rw [splitOn_none _ _ h]

/-- Item 6. -/
theorem prefix_none (r : Rec) (h : r.WF) (p : Bytes) (hp : p <+: encLine H r)
    (hne : p ≠ encLine H r) : decLine H p = none := by
  obtain ⟨x, hx⟩ := hp
  have hxne : x ≠ [] := by
    intro e; subst e; rw [List.append_nil] at hx; exact hne hx
  rw [encLine_eq] at hx
  rcases List.append_eq_append_iff.mp hx with ⟨a', ha, _⟩ | ⟨c', hc, hb⟩
  · -- `p` ends inside the checksum
    apply decLine_no_tab
    intro c hcp
    exact checksum_no_tab H (encJson r) c (by rw [ha]; exact List.mem_append_left _ hcp)
  · cases c' with
    | nil =>
      rw [List.append_nil] at hc
      apply decLine_no_tab
      intro c hcp
      exact checksum_no_tab H (encJson r) c (by rw [← hc]; exact hcp)
    | cons t j' =>
      rw [List.cons_append] at hb
      injection hb with ht hj
      subst ht
      have hnotab : ∀ c ∈ j', (c == TAB) = false := by
        intro c hcj
        cases hceq : c == TAB with
        | false => rfl
        | true =>
          rw [beq_iff_eq] at hceq
          subst hceq
          exact absurd (by rw [hj]; exact List.mem_append_left _ hcj) (enc_no_tab_json r)
      have hd := decJson_prefix_none r h j' x hj hxne
      unfold decLine splitTab
      rw [hc, splitOn_first _ _ _ TAB (by decide) (checksum_no_tab H _), splitOn_none _ _ hnotab]
      simp only [hd]
      split <;> rfl


end Cacache.Rec
