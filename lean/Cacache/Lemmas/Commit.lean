/-
Commit: publish, check, index — with what a successful answer guarantees.
-/
import Cacache.Lemmas.Avoid

namespace Cacache
open Prog

variable (cfg : Cfg) (env : Env) (cache : Path)

/-- What a commit promises when it answers ok: the returned integrity is the declared one (the
computed one if none was declared), the computed one satisfies the declaration, the declared size
is the number of bytes written, and the content path of the computed integrity exists. -/
def CommitPost (w : Writer) (r : Res Integrity) (fs' : FS) : Prop :=
  ∀ sri, r = Except.ok sri →
    let wsri := Sri.compute cfg.H w.algo w.hashed
    sri = (if w.key.isSome then w.opts.sri.getD wsri else wsri) ∧ (w.opts.sri = none → sri = wsri) ∧
    (∀ s, w.opts.sri = some s → (Sri.declaredOk s wsri).isSome) ∧
    (∀ n, w.opts.size = some n → n = w.written) ∧
    ∃ cpath, contentPath cache wsri = some cpath ∧ (fs'.get cpath).isSome

theorem existsFollow_get {fs : FS} {p : Path} (hp : p ≠ []) (h : fs.existsFollow p = true) :
    (fs.get p).isSome := by
  unfold FS.existsFollow FS.resolveFuel at h
  cases hg : fs.get p with
  | some n => rfl
  | none =>
    simp [FS.resolve, hg, hp] at h

theorem commitChecks_ok {w : Writer} {wsri recorded : Integrity}
    (h : commitChecks w wsri = .ok recorded) :
    recorded = w.opts.sri.getD wsri ∧ (w.opts.sri = none → recorded = wsri) ∧
    (∀ s, w.opts.sri = some s → (Sri.declaredOk s wsri).isSome) ∧
    (∀ n, w.opts.size = some n → n = w.written) := by
  unfold commitChecks commitChecks.sizeCheck at h
  split at h
  · rename_i s hs
    split at h
    · cases h
    · rename_i hm
      have hm' : (Sri.declaredOk s wsri).isSome := by
        cases hx : Sri.declaredOk s wsri <;> simp [hx] at hm ⊢
      split at h
      · rename_i n hn
        split at h
        · cases h
        · rename_i hne
          cases h
          refine ⟨by rw [hs]; rfl, fun h0 => (by rw [hs] at h0; cases h0), ?_, ?_⟩
          · intro s' hs'; rw [hs] at hs'; cases hs'; exact hm'
          · intro n' hn'; rw [hn] at hn'; cases hn'; exact Decidable.of_not_not hne
      · rename_i hn
        cases h
        refine ⟨by rw [hs]; rfl, fun h0 => (by rw [hs] at h0; cases h0), ?_, ?_⟩
        · intro s' hs'; rw [hs] at hs'; cases hs'; exact hm'
        · intro n' hn'; rw [hn] at hn'; cases hn'
  · rename_i hs
    split at h
    · rename_i n hn
      split at h
      · cases h
      · rename_i hne
        cases h
        refine ⟨by rw [hs]; rfl, fun _ => rfl, ?_, ?_⟩
        · intro s' hs'; rw [hs] at hs'; cases hs'
        · intro n' hn'; rw [hn] at hn'; cases hn'; exact Decidable.of_not_not hne
    · rename_i hn
      cases h
      refine ⟨by rw [hs]; rfl, fun _ => rfl, ?_, ?_⟩
      · intro s' hs'; rw [hs] at hs'; cases hs'
      · intro n' hn'; rw [hn] at hn'; cases hn'

theorem wcommit_wp (w : Writer) {fs : FS} (hc : w.cache = cache)
    (hq : ContentValid cfg cache fs) (hi : WInv w fs) :
    wpD env (ContentValid cfg cache) (CommitPost cfg cache w) (wcommit cfg w) fs := by
  unfold wcommit wcommitCheck
  simp only [bind_eq, pure_eq]
  apply wpD_bind
  apply wpD_bind
  refine wpD_mono ?_ (wpD_withQ (wclose_wp cfg env cache w hc hq hi))
  intro r fs1 ⟨hv1, hcl⟩
  split
  · exact wpD_done cfg env cache hv1 (wpD_done cfg env cache hv1 (fun s h => by cases h))
  · rename_i wsri
    obtain ⟨hws, cpath, hcp, hex⟩ := hcl wsri rfl
    have hne : cpath ≠ [] := by
      obtain ⟨a, hx, rfl⟩ := contentPath_shape hcp; simp
    have hsome := existsFollow_get hne hex
    split
    · exact wpD_done cfg env cache hv1 (wpD_done cfg env cache hv1 (fun s h => by cases h))
    · rename_i recorded hchk
      refine wpD_done cfg env cache hv1 ?_
      have hck := commitChecks_ok hchk
      rw [hws] at hck hcp
      dsimp only
      unfold wcommitIndex
      split
      · rename_i k hk
        -- the index phase never touches the content path
        have hav : AllCalls (Call.avoids cpath) (insert cfg w.cache k
            { w.opts with sri := some recorded, size := some (w.opts.size.getD w.written) }) :=
          (insert_areas cfg w.cache k _).mono
            (fun c hcc => hcc.avoids (by rw [hc]; exact inArea_contentPath hcp) (by decide))
            (fun _ h => h)
        have h1 := insert_wp cfg env cache k
          { w.opts with sri := some recorded, size := some (w.opts.size.getD w.written) } hv1
        have h2 := AllCalls.wpD_frame hav env fs1 _ rfl
        rw [hc]
        rw [hc] at h2
        refine wpD_mono ?_ (wpD_weakenQ (fun s hs => hs.1) (wpD_and h1 h2))
        intro r2 fs2 ⟨hr2, hg2⟩ sri hsri
        have := hr2 sri hsri
        simp only [Option.getD_some] at this
        subst this
        exact ⟨by simp [hk, hck.1], hck.2.1, hck.2.2.1, hck.2.2.2, cpath, hcp, by rw [hg2]; exact hsome⟩
      · refine wpD_done cfg env cache hv1 ?_
        intro sri hsri; cases hsri
        rename_i hk
        exact ⟨by simp [hk, hws], fun _ => hws, hck.2.2.1, hck.2.2.2, cpath, hcp, hsome⟩

/-- A whole streamed write: open with any options, feed any chunks, commit (or clean up after a
failed chunk). -/
def writeStream (fl : Flavour) (key : Option Bytes) (o : WriteOpts) (chunks : List Bytes) :
    Prog (Res Integrity) := do
  match ← wopen cfg fl cache key o with
  | .error e => pure (.error e)
  | .ok w =>
    match ← wwriteAll w chunks with
    | .error e => do dropTmp w.tmp; pure (.error (.io e))
    | .ok w' => wcommit cfg w'

/-- What a whole write promises when it answers ok (under any faults): the returned integrity is
the declared one, or — when none was declared — the digest of all the bytes fed; the declaration
is satisfied by that digest; a declared size equals the byte count; and the content path of that
digest exists. -/
def StreamPost (key : Option Bytes) (o : WriteOpts) (chunks : List Bytes) (r : Res Integrity) (fs' : FS) : Prop :=
  ∀ sri, r = Except.ok sri →
    let wsri := Sri.compute cfg.H (o.algo.getD .sha256) chunks.flatten
    sri = (if key.isSome then o.sri.getD wsri else wsri) ∧ (o.sri = none → sri = wsri) ∧
    (∀ s, o.sri = some s → (Sri.declaredOk s wsri).isSome) ∧
    (∀ n, o.size = some n → n = chunks.flatten.length) ∧
    ∃ cpath, contentPath cache wsri = some cpath ∧ (fs'.get cpath).isSome

theorem writeStream_wp (fl : Flavour) (key : Option Bytes) (o : WriteOpts) (chunks : List Bytes)
    {fs : FS} (hq : ContentValid cfg cache fs) :
    wpD env (ContentValid cfg cache) (StreamPost cfg cache key o chunks)
      (writeStream cfg cache fl key o chunks) fs := by
  unfold writeStream
  simp only [bind_eq, pure_eq]
  apply wpD_bind
  refine wpD_mono ?_ (wpD_withQ (wopen_wp cfg env cache fl key o hq))
  intro r fs1 ⟨hv1, hp⟩
  split
  · exact wpD_done cfg env cache hv1 (fun s h => by cases h)
  · rename_i w
    obtain ⟨hc, hk0, ho, hw0, hh0, ha, hi⟩ := hp w rfl
    apply wpD_bind
    refine wpD_mono ?_ (wpD_withQ (wwriteAll_wp cfg env cache w chunks hc hv1 hi))
    intro r2 fs2 ⟨hv2, hp2⟩
    split
    · apply wpD_bind
      refine wpD_mono ?_ (dropTmp_wp cfg env cache _ hv2)
      intro _ fs3 hv3
      exact wpD_done cfg env cache hv3 (fun s h => by cases h)
    · rename_i w'
      obtain ⟨hs, hi', hh, hw, ho', ha'⟩ := hp2 w' rfl
      refine wpD_mono ?_ (wcommit_wp cfg env cache w' (hs.1.trans hc) hv2 hi')
      intro r3 fs3 hp3 sri hsri
      have := hp3 sri hsri
      rw [hh, hh0, List.nil_append, ha', ha, ho', ho, hw, hw0, Nat.zero_add, hs.2.2, hk0] at this
      exact this

theorem write_eq_stream (fl : Flavour) (algo : Algo) (key data : Bytes) :
    write cfg fl cache algo key data =
      writeStream cfg cache fl (some key)
        (match fl with
          | .async => { algo := some algo, size := some data.length }
          | .sync => { algo := some algo }) [data] := by
  unfold write writeStream; rfl

theorem writeHash_eq_stream (fl : Flavour) (algo : Algo) (data : Bytes) :
    writeHash cfg fl cache algo data =
      writeStream cfg cache fl none { algo := some algo, size := some data.length } [data] := by
  unfold writeHash writeStream; rfl

end Cacache
