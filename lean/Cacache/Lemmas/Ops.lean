/-
Facts about the operation programs that do not depend on the filesystem semantics:
which calls they can issue (`AllCalls`), path shapes.
-/
import Cacache.Ops
import Cacache.Lemmas.Prog

namespace Cacache
open Prog

/-- The paths a call is aimed at (for `create_dir_all` the directory asked for; the ancestors it
may create on the way are directories only). -/
def Call.targets : Call → List Path
  | .mkdirP p => [p]
  | .mkTemp dir | .mkTempLink dir _ => [dir]
  | .fallocate p _ | .writeAt p _ _ | .truncate p _ | .openAppend p | .appendWrite p _
  | .unlink p | .removeTree p => [p]
  | .rename s d | .renameLink s d => [s, d]
  | .hardLink _ d | .symlink _ d | .copyFile _ d | .reflink _ d => [d]
  | _ => []

/-- Every path the call is aimed at lies at or below one of `roots`. -/
def Call.within (roots : List Path) (c : Call) : Prop :=
  ∀ p ∈ c.targets, ∃ root ∈ roots, root <+: p

theorem Call.within_of_not_mutating (roots : List Path) (c : Call) (h : c.mutating = false) :
    c.within roots := by
  cases c <;> simp [Call.mutating] at h <;> intro p hp <;> simp [Call.targets] at hp

/-- Break an `AllCalls` goal about a `do`-block into one goal per call site. -/
syntax "ac_step" : tactic
macro_rules
  | `(tactic| ac_step) => `(tactic| first
      | exact trivial
      | (refine And.intro ?_ (fun _ _ => ?_))
      | (simp only [bind_eq, pure_eq, call, bind_sys, bind_done, allCallsR_sys, allCallsR_done])
      | (dsimp only)
      | split)

/-- Unfold the monad plumbing of a program so that `ac_step` sees `sys` / `done` / `bind`. -/
syntax "ac_norm" : tactic
macro_rules
  | `(tactic| ac_norm) => `(tactic| simp only [bind_eq, pure_eq, call, bind_sys, bind_done])

variable (cfg : Cfg)

/-! ### path shapes -/

theorem bucketPath_eq (cache : Path) (key : Bytes) :
    bucketPath cfg cache key =
      cache ++ [dIndex, (keyHex cfg key).take 2, ((keyHex cfg key).drop 2).take 2, (keyHex cfg key).drop 4] := rfl

theorem prefix_bucketPath (cache : Path) (key : Bytes) : cache <+: bucketPath cfg cache key :=
  List.prefix_append _ _

theorem prefix_parent_bucketPath (cache : Path) (key : Bytes) :
    cache <+: FS.parent (bucketPath cfg cache key) := by
  rw [bucketPath_eq]
  unfold FS.parent
  rw [List.dropLast_append_of_ne_nil (by simp)]
  exact List.prefix_append _ _

theorem contentPath_shape {cache : Path} {sri : Integrity} {p : Path}
    (h : contentPath cache sri = some p) :
    ∃ (a hex : Bytes), p = cache ++ [dContent, a, hex.take 2, (hex.drop 2).take 2, hex.drop 4] := by
  unfold contentPath at h
  split at h
  · cases h
  · split at h
    · cases h
    · cases h; exact ⟨_, _, rfl⟩

theorem prefix_contentPath {cache : Path} {sri : Integrity} {p : Path}
    (h : contentPath cache sri = some p) : cache <+: p := by
  obtain ⟨a, hex, rfl⟩ := contentPath_shape h
  exact List.prefix_append _ _

theorem prefix_parent_contentPath {cache : Path} {sri : Integrity} {p : Path}
    (h : contentPath cache sri = some p) : cache <+: FS.parent p := by
  obtain ⟨a, hex, rfl⟩ := contentPath_shape h
  unfold FS.parent
  rw [List.dropLast_append_of_ne_nil (by simp)]
  exact List.prefix_append _ _

theorem prefix_tmp (cache : Path) (n : Bytes) : cache <+: (cache ++ [dTmp]) ++ [n] := by
  rw [List.append_assoc]; exact List.prefix_append _ _

/-! ### confinement (`within`) of each operation -/

theorem within1 {roots : List Path} {root p : Path} (hr : root ∈ roots) (hp : root <+: p)
    (c : Call) (hc : c.targets = [p]) : c.within roots := by
  intro q hq; rw [hc] at hq; simp at hq; subst hq; exact ⟨root, hr, hp⟩

theorem within0 {roots : List Path} (c : Call) (hc : c.targets = []) : c.within roots := by
  intro q hq; rw [hc] at hq; cases hq

theorem getTime_within (roots : List Path) (o : WriteOpts) :
    AllCalls (Call.within roots) (getTime o) := by
  unfold getTime
  repeat' ac_step
  exact within0 _ rfl

theorem appendRec_within (cache bucket : Path) (r : Rec) (h : cache <+: bucket) :
    AllCalls (Call.within [cache]) (appendRec cfg bucket r) := by
  unfold appendRec
  repeat' ac_step
  all_goals exact within1 (by simp) h _ rfl

theorem insert_within (cache : Path) (key : Bytes) (o : WriteOpts) :
    AllCalls (Call.within [cache]) (insert cfg cache key o) := by
  unfold insert getTime appendRec
  repeat' ac_step
  all_goals first
    | exact within0 _ rfl
    | exact within1 (by simp) (prefix_parent_bucketPath cfg cache key) _ rfl
    | exact within1 (by simp) (prefix_bucketPath cfg cache key) _ rfl

theorem within2 {roots : List Path} {root p q : Path} (hr : root ∈ roots) (hp : root <+: p)
    (hq : root <+: q) (c : Call) (hc : c.targets = [p, q]) : c.within roots := by
  intro x hx; rw [hc] at hx; simp at hx
  rcases hx with rfl | rfl
  · exact ⟨root, hr, hp⟩
  · exact ⟨root, hr, hq⟩

theorem delete_within (cache : Path) (key : Bytes) :
    AllCalls (Call.within [cache]) (delete cfg cache key) := by
  unfold delete insert getTime appendRec
  repeat' ac_step
  all_goals first
    | exact within0 _ rfl
    | exact within1 (by simp) (prefix_parent_bucketPath cfg cache key) _ rfl
    | exact within1 (by simp) (prefix_bucketPath cfg cache key) _ rfl

/-- The writer's temp file lives in `<cache>/tmp`. -/
def Writer.Ok (w : Writer) : Prop := ∃ n, w.tmp = (w.cache ++ [dTmp]) ++ [n]

theorem Writer.Ok.prefix {w : Writer} (h : w.Ok) : w.cache <+: w.tmp := by
  obtain ⟨n, hn⟩ := h; rw [hn]; exact prefix_tmp _ _

theorem dropTmp_within (cache tmp : Path) (h : cache <+: tmp) :
    AllCalls (Call.within [cache]) (dropTmp tmp) := by
  unfold dropTmp
  repeat' ac_step
  exact within1 (by simp) h _ rfl

theorem tmp_of_answer {dir tmp : Path} (h : Answer (Call.mkTemp dir) (Ret.path tmp)) :
    ∃ n, tmp = dir ++ [n] := h

theorem tmpLink_of_answer {dir tmp : Path} {t : Target} (h : Answer (Call.mkTempLink dir t) (Ret.path tmp)) :
    ∃ n, tmp = dir ++ [n] := h

/-- Prove `root <+: p` from what is around. -/
syntax "ac_prefix" : tactic
macro_rules
  | `(tactic| ac_prefix) => `(tactic| first
      | assumption
      | exact List.prefix_append _ _
      | exact List.prefix_refl _
      | exact prefix_contentPath (by assumption)
      | exact prefix_parent_contentPath (by assumption)
      | (obtain ⟨n, hn⟩ := tmp_of_answer (by assumption); rw [hn]; exact prefix_tmp _ _)
      | (obtain ⟨n, hn⟩ := tmpLink_of_answer (by assumption); rw [hn]; exact prefix_tmp _ _))

/-- Close the per-call goals `ac_step` leaves behind. -/
syntax "ac_leaf" : tactic
macro_rules
  | `(tactic| ac_leaf) => `(tactic| first
      | exact trivial
      | exact within0 _ rfl
      | (refine within1 (List.mem_singleton.mpr rfl) ?_ _ rfl; ac_prefix)
      | (refine within2 (List.mem_singleton.mpr rfl) ?_ ?_ _ rfl <;> ac_prefix))


theorem wopen_within (fl : Flavour) (cache : Path) (key : Option Bytes) (o : WriteOpts) :
    AllCallsR (Call.within [cache]) (fun r => ∀ w, r = .ok w → w.cache = cache ∧ w.Ok)
      (wopen cfg fl cache key o) := by
  unfold wopen dropTmp
  repeat' ac_step
  all_goals first
    | ac_leaf
    | (intro w hw; cases hw; exact ⟨rfl, tmp_of_answer (by assumption)⟩)
    | (intro w hw; cases hw)

/-- A writer keeps its cache and temp file across writes. -/
def Writer.Same (w w' : Writer) : Prop := w'.cache = w.cache ∧ w'.tmp = w.tmp ∧ w'.key = w.key

theorem Writer.Same.ok {w w' : Writer} (h : w.Same w') (hw : w.Ok) : w'.Ok := by
  obtain ⟨n, hn⟩ := hw
  exact ⟨n, by rw [h.1, h.2.1, hn]⟩

theorem wwrite_within (w : Writer) (d : Bytes) (hw : w.Ok) :
    AllCallsR (Call.within [w.cache]) (fun r => ∀ w' n, r = .ok (w', n) → w.Same w')
      (wwrite w d) := by
  have hp := hw.prefix
  unfold wwrite plainWrite
  repeat' ac_step
  all_goals first
    | ac_leaf
    | (intro w' n h; cases h; exact ⟨rfl, rfl, rfl⟩)
    | (intro w' n h; cases h)

theorem wwriteAll_within (w : Writer) (ds : List Bytes) (hw : w.Ok) :
    AllCallsR (Call.within [w.cache]) (fun r => ∀ w', r = .ok w' → w.Same w')
      (wwriteAll w ds) := by
  induction ds generalizing w with
  | nil => unfold wwriteAll; intro w' h; cases h; exact ⟨rfl, rfl, rfl⟩
  | cons d ds ih =>
    unfold wwriteAll
    split
    · exact ih w hw
    · simp only [bind_eq, pure_eq]
      apply AllCallsR.bind (wwrite_within w d hw)
      intro r hr
      split
      · intro w' h; cases h
      · rename_i w1 n
        have hs := hr w1 n rfl
        have := ih w1 (hs.ok hw)
        rw [hs.1] at this
        refine this.mono (fun _ h => h) ?_
        intro a ha w' hw'
        have := ha w' hw'
        exact ⟨this.1.trans hs.1, this.2.1.trans hs.2.1, this.2.2.trans hs.2.2⟩

theorem wclose_within (w : Writer) (hw : w.Ok) :
    AllCalls (Call.within [w.cache]) (wclose cfg w) := by
  have hp := hw.prefix
  unfold wclose dropTmp
  repeat' ac_step
  all_goals ac_leaf

theorem wcommitCheck_within (w : Writer) (hw : w.Ok) :
    AllCalls (Call.within [w.cache]) (wcommitCheck cfg w) := by
  unfold wcommitCheck
  simp only [bind_eq, pure_eq]
  apply AllCallsR.bind (wclose_within cfg w hw)
  intro r _
  split
  · trivial
  · split <;> trivial

theorem wcommitIndex_within (w : Writer) (wsri recorded : Integrity) :
    AllCalls (Call.within [w.cache]) (wcommitIndex cfg w wsri recorded) := by
  unfold wcommitIndex
  split
  · exact insert_within cfg _ _ _
  · trivial

theorem wcommit_within (w : Writer) (hw : w.Ok) :
    AllCalls (Call.within [w.cache]) (wcommit cfg w) := by
  unfold wcommit
  simp only [bind_eq, pure_eq]
  apply AllCallsR.bind (wcommitCheck_within cfg w hw)
  intro r _
  split
  · trivial
  · exact wcommitIndex_within cfg w _ _

theorem write_within (fl : Flavour) (cache : Path) (algo : Algo) (key data : Bytes) :
    AllCalls (Call.within [cache]) (write cfg fl cache algo key data) := by
  unfold write
  simp only [bind_eq, pure_eq]
  apply AllCallsR.bind (wopen_within cfg fl cache (some key) _)
  intro r hr
  split
  · trivial
  · rename_i w
    obtain ⟨hc, hw⟩ := hr w rfl
    subst hc
    apply AllCallsR.bind (wwriteAll_within w [data] hw)
    intro r2 hr2
    split
    · apply AllCallsR.bind (dropTmp_within _ _ hw.prefix)
      intro _ _; trivial
    · rename_i w'
      have hs := hr2 w' rfl
      have := wcommit_within cfg w' (hs.ok hw)
      rw [hs.1] at this
      exact this

theorem writeHash_within (fl : Flavour) (cache : Path) (algo : Algo) (data : Bytes) :
    AllCalls (Call.within [cache]) (writeHash cfg fl cache algo data) := by
  unfold writeHash
  simp only [bind_eq, pure_eq]
  apply AllCallsR.bind (wopen_within cfg fl cache none _)
  intro r hr
  split
  · trivial
  · rename_i w
    obtain ⟨hc, hw⟩ := hr w rfl
    subst hc
    apply AllCallsR.bind (wwriteAll_within w [data] hw)
    intro r2 hr2
    split
    · apply AllCallsR.bind (dropTmp_within _ _ hw.prefix)
      intro _ _; trivial
    · rename_i w'
      have hs := hr2 w' rfl
      have := wcommit_within cfg w' (hs.ok hw)
      rw [hs.1] at this
      exact this

/-! ### read-only operations -/

/-- Close goals `c.mutating = false` / `Call.within _ c` for a non-mutating call. -/
syntax "ro_leaf" : tactic
macro_rules
  | `(tactic| ro_leaf) => `(tactic| first
      | exact trivial
      | rfl
      | exact within0 _ rfl)

def ReadOnly (c : Call) : Prop := c.mutating = false

theorem bucketEntries_ro (bucket : Path) : AllCalls ReadOnly (bucketEntries cfg bucket) := by
  unfold bucketEntries
  repeat' ac_step
  all_goals ro_leaf

theorem find_ro (cache : Path) (key : Bytes) : AllCalls ReadOnly (find cfg cache key) := by
  unfold find bucketEntries
  repeat' ac_step
  all_goals ro_leaf

theorem readHash_ro (cache : Path) (sri : Integrity) : AllCalls ReadOnly (readHash cfg cache sri) := by
  unfold readHash
  repeat' ac_step
  all_goals ro_leaf

theorem read_ro (cache : Path) (key : Bytes) : AllCalls ReadOnly (read cfg cache key) := by
  unfold read
  simp only [bind_eq, pure_eq]
  apply AllCallsR.bind (find_ro cfg cache key)
  intro r _
  repeat' ac_step
  exact readHash_ro cfg _ _

theorem ropenHash_ro (cache : Path) (sri : Integrity) : AllCalls ReadOnly (ropenHash cache sri) := by
  unfold ropenHash
  repeat' ac_step
  all_goals ro_leaf

theorem ropen_ro (cache : Path) (key : Bytes) : AllCalls ReadOnly (ropen cfg cache key) := by
  unfold ropen
  simp only [bind_eq, pure_eq]
  apply AllCallsR.bind (find_ro cfg cache key)
  intro r _
  repeat' ac_step
  exact ropenHash_ro _ _

theorem verify_ro (cache : Path) (sri : Integrity) : AllCalls ReadOnly (verify cfg cache sri) := by
  unfold verify
  simp only [bind_eq, pure_eq]
  apply AllCallsR.bind (ropenHash_ro cache sri)
  intro r _
  repeat' ac_step

theorem existsHash_ro (cache : Path) (sri : Integrity) : AllCalls ReadOnly (existsHash cache sri) := by
  unfold existsHash
  repeat' ac_step
  all_goals ro_leaf

theorem lsBuckets_ro (es : List (Path × Bool)) : AllCalls ReadOnly (lsBuckets cfg es) := by
  induction es with
  | nil => unfold lsBuckets; trivial
  | cons e es ih =>
    obtain ⟨p, d⟩ := e
    cases d
    · unfold lsBuckets
      simp only [bind_eq, pure_eq]
      apply AllCallsR.bind (bucketEntries_ro cfg p)
      intro r _
      apply AllCallsR.bind ih
      intro _ _; trivial
    · unfold lsBuckets; exact ih

theorem ls_ro (cache : Path) : AllCalls ReadOnly (ls cfg cache) := by
  unfold ls
  repeat' ac_step
  all_goals first
    | ro_leaf
    | exact lsBuckets_ro cfg _

/-- A read-only call does not change the filesystem. -/
theorem exec_readOnly (env : Env) (c : Call) (h : ReadOnly c) (fs : FS) : (exec env fs c).1 = fs := by
  cases c <;> simp [ReadOnly, Call.mutating] at h <;> simp only [exec] <;> (try split) <;> (try split) <;> rfl

/-! ### removal, extraction, link_to -/

theorem removeHash_within (cache : Path) (sri : Integrity) :
    AllCalls (Call.within [cache]) (removeHash cache sri) := by
  unfold removeHash
  repeat' ac_step
  all_goals ac_leaf

theorem find_within (roots : List Path) (cache : Path) (key : Bytes) :
    AllCalls (Call.within roots) (find cfg cache key) :=
  (find_ro cfg cache key).mono (fun c h => Call.within_of_not_mutating roots c h) (fun _ h => h)

theorem removeFully_within (cache : Path) (key : Bytes) :
    AllCalls (Call.within [cache]) (removeFully cfg cache key) := by
  unfold removeFully
  simp only [bind_eq, pure_eq]
  apply AllCallsR.bind (find_within cfg _ cache key)
  intro r _
  have := prefix_bucketPath cfg cache key
  split
  · trivial
  · split
    · apply AllCallsR.bind (removeHash_within _ _)
      intro a _
      repeat' ac_step
      all_goals ac_leaf
    · repeat' ac_step
      all_goals ac_leaf

theorem removeEach_within (cache : Path) (es : List (Path × Bool)) (h : ∀ e ∈ es, cache <+: e.1) :
    AllCalls (Call.within [cache]) (removeEach es) := by
  induction es with
  | nil => unfold removeEach; trivial
  | cons e es ih =>
    obtain ⟨p, d⟩ := e
    unfold removeEach
    have hp : cache <+: p := h (p, d) (by simp)
    simp only [bind_eq, pure_eq, call, bind_sys, bind_done, allCallsR_sys]
    refine ⟨within1 (by simp) hp _ rfl, fun r _ => ?_⟩
    split
    · trivial
    · exact ih (fun e he => h e (by simp [he]))

theorem clear_within (cache : Path) : AllCalls (Call.within [cache]) (clear cache) := by
  unfold clear
  simp only [bind_eq, pure_eq, call, bind_sys, bind_done, allCallsR_sys]
  refine ⟨within0 _ rfl, fun r hr => ?_⟩
  split
  · exact removeEach_within cache _ hr
  · trivial
  · trivial

theorem extractUnchecked_within (how : Extract) (cache : Path) (sri : Integrity) (dest : Path) :
    AllCalls (Call.within [dest]) (extractUnchecked how cache sri dest) := by
  unfold extractUnchecked
  cases how <;> (repeat' ac_step) <;> (first | ac_leaf)

theorem verify_within (roots : List Path) (cache : Path) (sri : Integrity) :
    AllCalls (Call.within roots) (verify cfg cache sri) :=
  (verify_ro cfg cache sri).mono (fun c h => Call.within_of_not_mutating roots c h) (fun _ h => h)

theorem extractHash_within (how : Extract) (cache : Path) (sri : Integrity) (dest : Path) :
    AllCalls (Call.within [dest]) (extractHash cfg how cache sri dest) := by
  unfold extractHash
  simp only [bind_eq, pure_eq]
  apply AllCallsR.bind (verify_within cfg _ cache sri)
  intro r _
  split
  · trivial
  · apply AllCallsR.bind (extractUnchecked_within how cache sri dest)
    intro a _; split <;> trivial

theorem extract_within (checked : Bool) (how : Extract) (cache : Path) (key : Bytes) (dest : Path) :
    AllCalls (Call.within [dest]) (extract cfg checked how cache key dest) := by
  unfold extract
  simp only [bind_eq, pure_eq]
  apply AllCallsR.bind (find_within cfg _ cache key)
  intro r _
  split
  · trivial
  · trivial
  · split
    · exact extractHash_within cfg how cache _ dest
    · exact extractUnchecked_within how cache _ dest

theorem lcommit_within (l : Linker) : AllCalls (Call.within [l.cache]) (lcommit cfg l) := by
  unfold lcommit dropTmp
  repeat' (first | exact insert_within cfg _ _ _ | ac_step)
  all_goals ac_leaf

end Cacache
