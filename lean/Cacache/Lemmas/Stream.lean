/-
The whole keyed write, both invariants at once: the content store stays valid and the key's
bucket only ever grows by a prefix of the one new record — at every kill point and under every
fault — and a successful answer means the content is there and the record is appended whole.
-/
import Cacache.Lemmas.Commit

namespace Cacache
open Prog

variable (cfg : Cfg) (env : Env) (cache : Path)

/-- The bucket of `key` is the old bytes plus a prefix of some record for `key`. -/
def GrowingAny (key : Bytes) (b0 : Bytes) (fs : FS) : Prop :=
  ∃ o tm k, BucketIs fs (bucketPath cfg cache key) (b0 ++ ((codec cfg).frame (mkRec key o tm)).take k)

/-- On success the bucket holds the old bytes followed by the whole new record, which carries the
returned integrity and the byte count. -/
def BucketPost (key : Bytes) (o : WriteOpts) (chunks : List Bytes) (b0 : Bytes)
    (r : Res Integrity) (fs' : FS) : Prop :=
  ∀ sri, r = Except.ok sri → ∃ tm, (∀ t, o.time = some t → tm = t) ∧
    fs'.get (bucketPath cfg cache key) = some (.file (b0 ++ (codec cfg).frame
      (mkRec key { o with sri := some sri, size := some (o.size.getD chunks.flatten.length) } tm))) ∧
    ((∀ t, o.time = some t → t ≤ timeMax) → tm ≤ timeMax)

theorem growing_of_bucketIs {key : Bytes} {b0 : Bytes} {fs : FS}
    (h : BucketIs fs (bucketPath cfg cache key) b0) : GrowingAny cfg cache key b0 fs :=
  ⟨{}, 0, 0, by simpa using h⟩

/-- The options a keyed commit of `data` hands to the index insertion: the caller's, with the
integrity to record (the declared one, else the digest of the data) and the size (the declared
one, else the byte count) filled in.  The one record a keyed write of `data` ever appends is
`mkRec key (recordedOpts cfg o data) tm`. -/
def recordedOpts (o : WriteOpts) (data : Bytes) : WriteOpts :=
  { o with sri := some (o.sri.getD (Sri.compute cfg.H (o.algo.getD .sha256) data)), size := some (o.size.getD data.length) }

/-- The precise invariant (`Growing` for the one record the write is going to append) implies the
coarse one (some record for the key). -/
theorem Growing.any {key : Bytes} {o : WriteOpts} {b0 : Bytes} {fs : FS}
    (h : Growing cfg cache key o b0 fs) : GrowingAny cfg cache key b0 fs := by
  obtain ⟨tm, k, hb, _⟩ := h
  exact ⟨o, tm, k, hb⟩

theorem bucketIs_of_get {fs fs' : FS} {bucket : Path} {b : Bytes} (h : BucketIs fs bucket b)
    (he : fs'.get bucket = fs.get bucket) : BucketIs fs' bucket b := h.frame he

/-- A phase that never aims at the index area, viewed in a combined invariant whose bucket half
`G` holds whenever the bucket still is the old bytes. -/
theorem phase_wp_of {α : Type} {Post : α → FS → Prop} {p : Prog α} {fs : FS} (key : Bytes) (b0 : Bytes)
    {G : FS → Prop} (hG : ∀ s, BucketIs s (bucketPath cfg cache key) b0 → G s)
    (hb : BucketIs fs (bucketPath cfg cache key) b0)
    (h1 : wpD env (ContentValid cfg cache) Post p fs)
    (hav : AllCalls (Call.avoids (bucketPath cfg cache key)) p) :
    wpD env (fun s => ContentValid cfg cache s ∧ G s)
      (fun a s => (ContentValid cfg cache s ∧ Post a s) ∧ BucketIs s (bucketPath cfg cache key) b0) p fs := by
  have h2 := AllCalls.wpD_frame hav env fs _ rfl
  refine wpD_weakenQ ?_ (wpD_mono ?_ (wpD_and (wpD_withQ h1) h2))
  · intro s ⟨hv, hg⟩; exact ⟨hv, hG s (hb.frame hg)⟩
  · intro a s ⟨hp, hg⟩; exact ⟨hp, hb.frame hg⟩

/-- A phase that never aims at the index area, viewed in the combined invariant. -/
theorem phase_wp {α : Type} {Post : α → FS → Prop} {p : Prog α} {fs : FS} (key : Bytes) (b0 : Bytes)
    (hb : BucketIs fs (bucketPath cfg cache key) b0)
    (h1 : wpD env (ContentValid cfg cache) Post p fs)
    (hav : AllCalls (Call.avoids (bucketPath cfg cache key)) p) :
    wpD env (fun s => ContentValid cfg cache s ∧ GrowingAny cfg cache key b0 s)
      (fun a s => (ContentValid cfg cache s ∧ Post a s) ∧ BucketIs s (bucketPath cfg cache key) b0) p fs :=
  phase_wp_of cfg env cache key b0 (fun _ h => growing_of_bucketIs cfg cache h) hb h1 hav

theorem avoids_bucket_of_areas {tops : List Bytes} {α : Type} {Ok : α → Prop} {p : Prog α}
    (key : Bytes) (h : AllCallsR (Call.inAreas cache tops) Ok p) (hn : dIndex ∉ tops) :
    AllCalls (Call.avoids (bucketPath cfg cache key)) p :=
  h.mono (fun c hc => hc.avoids (bucket_inIndex cfg cache key) hn) (fun _ _ => trivial)

/-- **The whole keyed write**, with the precise crash invariant: at every kill point and under
every fault the store is valid and the key's bucket is the old bytes plus a prefix of the frame of
the ONE record `mkRec key (recordedOpts cfg o chunks.flatten) tm` — the record a successful run
appends whole (`BucketPost`) — with `tm` the caller's time or an answer of the clock. -/
theorem writeStream_keyed_wp_rec (fl : Flavour) (key : Bytes) (o : WriteOpts) (chunks : List Bytes)
    (b0 : Bytes) {fs : FS} (hq : ContentValid cfg cache fs)
    (hb : BucketIs fs (bucketPath cfg cache key) b0) :
    wpD env (fun s => ContentValid cfg cache s ∧
        Growing cfg cache key (recordedOpts cfg o chunks.flatten) b0 s)
      (fun r s => StreamPost cfg cache (some key) o chunks r s ∧ BucketPost cfg cache key o chunks b0 r s)
      (writeStream cfg cache fl (some key) o chunks) fs := by
  have hG : ∀ s, BucketIs s (bucketPath cfg cache key) b0 →
      Growing cfg cache key (recordedOpts cfg o chunks.flatten) b0 s := fun _ h => growing_zero cfg cache h
  unfold writeStream
  simp only [bind_eq, pure_eq]
  apply wpD_bind
  refine wpD_mono ?_ (phase_wp_of cfg env cache key b0 hG hb (wopen_wp cfg env cache fl (some key) o hq)
    (avoids_bucket_of_areas cfg cache key (wopen_areas cfg fl cache (some key) o) (by decide)))
  intro r fs1 ⟨⟨hv1, hp⟩, hb1⟩
  have done_err : ∀ (e : Err) (fsx : FS), ContentValid cfg cache fsx →
      BucketIs fsx (bucketPath cfg cache key) b0 →
      wpD env (fun s => ContentValid cfg cache s ∧
          Growing cfg cache key (recordedOpts cfg o chunks.flatten) b0 s)
        (fun r s => StreamPost cfg cache (some key) o chunks r s ∧ BucketPost cfg cache key o chunks b0 r s)
        (.done (Except.error e)) fsx := by
    intro e fsx hvx hbx
    exact ⟨⟨hvx, hG _ hbx⟩, (fun s h => (by cases h)), (fun s h => (by cases h))⟩
  split
  · exact done_err _ _ hv1 hb1
  · rename_i w
    obtain ⟨hc, hk, ho, hw0, hh0, ha, hi⟩ := hp w rfl
    apply wpD_bind
    have hwa := wwriteAll_areas w chunks hi.ok
    rw [hc] at hwa
    refine wpD_mono ?_ (phase_wp_of cfg env cache key b0 hG hb1
      (wwriteAll_wp cfg env cache w chunks hc hv1 hi) (avoids_bucket_of_areas cfg cache key hwa (by decide)))
    intro r2 fs2 ⟨⟨hv2, hp2⟩, hb2⟩
    split
    · apply wpD_bind
      have hda := dropTmp_areas w.cache w.tmp hi.ok.inArea
      rw [hc] at hda
      refine wpD_mono ?_ (phase_wp_of cfg env cache key b0 hG hb2 (dropTmp_wp cfg env cache _ hv2)
        (avoids_bucket_of_areas cfg cache key hda (by decide)))
      intro _ fs3 ⟨⟨hv3, _⟩, hb3⟩
      exact done_err _ _ hv3 hb3
    · rename_i w'
      obtain ⟨hs, hi', hh, hw, ho', ha'⟩ := hp2 w' rfl
      have hc' : w'.cache = cache := hs.1.trans hc
      have hk' : w'.key = some key := hs.2.2.trans hk
      -- commit = check phase, then index phase
      unfold wcommit
      simp only [bind_eq, pure_eq]
      apply wpD_bind
      have hca := wcommitCheck_areas cfg w' hi'.ok
      rw [hc'] at hca
      have hcheck : wpD env (ContentValid cfg cache)
          (fun r s => ∀ wsri recorded, r = Except.ok (wsri, recorded) →
            wsri = Sri.compute cfg.H w'.algo w'.hashed ∧ commitChecks w' wsri = .ok recorded ∧
            ∃ cpath, contentPath cache wsri = some cpath ∧ (s.get cpath).isSome)
          (wcommitCheck cfg w') fs2 := by
        unfold wcommitCheck
        simp only [bind_eq, pure_eq]
        apply wpD_bind
        refine wpD_mono ?_ (wpD_withQ (wclose_wp cfg env cache w' hc' hv2 hi'))
        intro r fsx ⟨hvx, hcl⟩
        split
        · exact wpD_done cfg env cache hvx (fun _ _ h => by cases h)
        · rename_i wsri
          obtain ⟨hws, cpath, hcp, hex⟩ := hcl wsri rfl
          have hne : cpath ≠ [] := by
            obtain ⟨a, hx, rfl⟩ := contentPath_shape hcp; simp
          split
          · exact wpD_done cfg env cache hvx (fun _ _ h => by cases h)
          · rename_i recorded hchk
            refine wpD_done cfg env cache hvx ?_
            intro a b h; cases h
            exact ⟨hws, hchk, cpath, hcp, existsFollow_get hne hex⟩
      refine wpD_mono ?_ (phase_wp_of cfg env cache key b0 hG hb2 hcheck
        (avoids_bucket_of_areas cfg cache key hca (by decide)))
      intro r3 fs3 ⟨⟨hv3, hp3⟩, hb3⟩
      split
      · exact done_err _ _ hv3 hb3
      · rename_i wsri recorded
        obtain ⟨hws, hchk, cpath, hcp, hsome⟩ := hp3 wsri recorded rfl
        have hck := commitChecks_ok hchk
        have hdata : w'.hashed = chunks.flatten := by rw [hh, hh0]; rfl
        have hwritten : w'.written = chunks.flatten.length := by rw [hw, hw0]; simp
        have hopts : w'.opts = o := ho'.trans ho
        have halgo : w'.algo = o.algo.getD .sha256 := ha'.trans ha
        have hrec : ({ w'.opts with sri := some recorded, size := some (w'.opts.size.getD w'.written) } : WriteOpts) =
            recordedOpts cfg o chunks.flatten := by
          rw [hck.1, hws, hdata, halgo, hwritten, hopts]; rfl
        unfold wcommitIndex
        rw [hk', hc']
        dsimp only
        -- the index phase: valid store, content path untouched, bucket grows by the record
        have hav : AllCalls (Call.avoids cpath) (insert cfg cache key
            { w'.opts with sri := some recorded, size := some (w'.opts.size.getD w'.written) }) :=
          (insert_areas cfg cache key _).mono
            (fun c hcc => hcc.avoids (inArea_contentPath hcp) (by decide)) (fun _ h => h)
        have h1 := insert_wp cfg env cache key
          { w'.opts with sri := some recorded, size := some (w'.opts.size.getD w'.written) } hv3
        have h2 := AllCalls.wpD_frame hav env fs3 _ rfl
        have h3 := insert_bucket_wp cfg env cache key
          { w'.opts with sri := some recorded, size := some (w'.opts.size.getD w'.written) } b0 hb3
        refine wpD_weakenQ ?_ (wpD_mono ?_ (wpD_and (wpD_and h1 h2) h3))
        · intro s ⟨⟨hv, _⟩, hg⟩
          rw [hrec] at hg
          exact ⟨hv, hg⟩
        · intro r4 fs4 ⟨⟨hr4, hg4⟩, hb4⟩
          constructor
          · intro sri hsri
            have e := hr4 sri hsri
            simp only [Option.getD_some] at e
            subst e
            rw [hws, hdata, halgo] at hck hcp
            rw [hopts] at hck
            refine ⟨by simp [hck.1], hck.2.1, hck.2.2.1, ?_, cpath, hcp, by rw [hg4]; exact hsome⟩
            intro n hn; rw [hck.2.2.2 n hn, hwritten]
          · intro sri hsri
            have e := hr4 sri hsri
            simp only [Option.getD_some] at e
            subst e
            obtain ⟨tm, htm, hget, hle⟩ := hb4 _ hsri
            refine ⟨tm, ?_, ?_, ?_⟩
            · intro t ht; exact htm t (by rw [hopts]; exact ht)
            · rw [hget, hopts, hwritten]
            · intro hb; exact hle (fun t ht => hb t (by rw [hopts] at ht; exact ht))

/-- **The whole keyed write** (the coarse invariant: a prefix of some record for the key). -/
theorem writeStream_keyed_wp (fl : Flavour) (key : Bytes) (o : WriteOpts) (chunks : List Bytes)
    (b0 : Bytes) {fs : FS} (hq : ContentValid cfg cache fs)
    (hb : BucketIs fs (bucketPath cfg cache key) b0) :
    wpD env (fun s => ContentValid cfg cache s ∧ GrowingAny cfg cache key b0 s)
      (fun r s => StreamPost cfg cache (some key) o chunks r s ∧ BucketPost cfg cache key o chunks b0 r s)
      (writeStream cfg cache fl (some key) o chunks) fs :=
  wpD_weakenQ (fun _ h => ⟨h.1, h.2.any cfg cache⟩)
    (writeStream_keyed_wp_rec cfg env cache fl key o chunks b0 hq hb)

end Cacache
