/-
Base64: strict decoding inverts encoding (needed to relate an integrity value to the content
path it addresses).
-/
import Cacache.Sri

namespace Cacache.B64

theorem dec6_enc6 : ∀ n : Nat, n < 64 → dec6 (enc6 n) = some n := by decide

theorem enc6_ne_pad : ∀ n : Nat, n < 64 → enc6 n ≠ 61 := by decide

theorem toUInt8_toNat (a : UInt8) : a.toNat.toUInt8 = a := by
  cases a; simp [Nat.toUInt8, UInt8.toNat]

end Cacache.B64

namespace Cacache.B64

theorem byte_lt (a : UInt8) : a.toNat < 256 := UInt8.toNat_lt a

theorem decode_encode (b : Bytes) : decode (encode b) = some b := by
  fun_induction encode b with
  | case1 a b c rest n ih =>
    have ha := byte_lt a; have hb := byte_lt b; have hc := byte_lt c
    have h1 : n / 262144 < 64 := by omega
    have h2 : n / 4096 % 64 < 64 := by omega
    have h3 : n / 64 % 64 < 64 := by omega
    have h4 : n % 64 < 64 := by omega
    have p3 := enc6_ne_pad _ h3
    have p4 := enc6_ne_pad _ h4
    rw [decode]
    · simp only [dec6_enc6 _ h1, dec6_enc6 _ h2, dec6_enc6 _ h3, dec6_enc6 _ h4, ih]
      have e1 : n / 262144 * 4 + n / 4096 % 64 / 16 = a.toNat := by omega
      have e2 : n / 4096 % 64 % 16 * 16 + n / 64 % 64 / 4 = b.toNat := by omega
      have e3 : n / 64 % 64 % 4 * 64 + n % 64 = c.toNat := by omega
      rw [e1, e2, e3, toUInt8_toNat, toUInt8_toNat, toUInt8_toNat]
    · intro x; intros; exact p3 x
    · intro x; intros; exact p4 x
  | case2 a b n =>
    have ha := byte_lt a; have hb := byte_lt b
    have h1 : n / 262144 < 64 := by omega
    have h2 : n / 4096 % 64 < 64 := by omega
    have h3 : n / 64 % 64 < 64 := by omega
    have p3 := enc6_ne_pad _ h3
    rw [decode]
    · simp only [dec6_enc6 _ h1, dec6_enc6 _ h2, dec6_enc6 _ h3]
      have e0 : n / 64 % 64 % 4 = 0 := by omega
      have e1 : n / 262144 * 4 + n / 4096 % 64 / 16 = a.toNat := by omega
      have e2 : n / 4096 % 64 % 16 * 16 + n / 64 % 64 / 4 = b.toNat := by omega
      rw [e1, e2, toUInt8_toNat, toUInt8_toNat]; simp [e0]
    · intro x; intros; exact p3 x
  | case3 a n =>
    have ha := byte_lt a
    have h1 : n / 262144 < 64 := by omega
    have h2 : n / 4096 % 64 < 64 := by omega
    simp only [decode, dec6_enc6 _ h1, dec6_enc6 _ h2]
    have e0 : n / 4096 % 64 % 16 = 0 := by omega
    have e1 : n / 262144 * 4 + n / 4096 % 64 / 16 = a.toNat := by omega
    rw [e1, toUInt8_toNat]; simp [e0]
  | case4 => rfl

/-- Hence encoding is injective. -/
theorem encode_injective {x y : Bytes} (h : encode x = encode y) : x = y := by
  have := decode_encode x
  rw [h, decode_encode] at this
  exact (Option.some.inj this).symm

end Cacache.B64
