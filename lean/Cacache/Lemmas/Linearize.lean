/-
Linearizability of RESULTS: what an observer running concurrently with index writers returns.

The concurrency theorems of `Props/C07` are about the filesystem STATE under every schedule
(`conc_no_splice`: every bucket is at all times its initial bytes followed by whole framed records).
This file is about the RESULT a concurrent lookup returns, and about the results and final state of
all processes together:

* `interleave_config_invariant` — the induction principle over schedules for invariants that speak
  about the program states of the processes AND the filesystem (`interleave_invariant` of
  `Lemmas/Interleave` only tracks a filesystem invariant).
* `two_proc_linearizable` — generic: a process `W` next to a one-call read-only observer `R`.  If at
  every point where `W` still has a call to make the observer would answer as it does initially
  (`UntilDone`: the LAST call of `W` is its linearization point), then under every schedule the
  observer's result is its result run alone BEFORE `W` or run alone AFTER `W`, and `W`'s own result
  and the final filesystem are those of the sequential run.
* `lookup_linearizable_insert` / `lookup_linearizable_delete` — the instances for
  `insert` / `delete` next to `find` of ANY key (same or different bucket), literally
  `r = (run env R fs).1 ∨ r = (run env R (run env W fs).2.1).1`; `…_serial` packages result of the
  writer, result of the reader and final filesystem as one of the two serial executions `R;W` / `W;R`;
  `…_explicit` spells the two answers out over the records of the bucket.
* `lookup_snapshot` — ANY number of concurrent processes all of whose calls are whole-record for the
  reader's bucket (inserters, removers of any keys, other readers, listers, writers …): a finished
  lookup answered from a consistent snapshot `entries b0 ++ rs` of WHOLE well-formed records, and
  that snapshot is a prefix of the bucket's history at every later moment.  Needs nothing about the
  directories (an insertion may fail), only the shape of the calls.
* `linearizable_of_pending` — generic rely/guarantee soundness theorem for linearizability against
  an abstract specification: any number of processes, each `Pending` for its abstract operation
  (private knowledge stable under everybody's guarantee, the last call is the linearization point)
  ⟹ after every schedule a duplicate-free LEGAL SERIAL HISTORY of the abstract machine exists that
  contains exactly the finished processes, each with exactly the answer it returned, and leads to
  the abstraction of the current filesystem.
* `index_ops_linearizable` — the instance: ANY number of `insert` / `delete` / `find` processes of
  any keys on a healthy index linearize to the abstract map `key ↦ Option Meta` of
  `Lemmas/Refine` (`specStep`); `index_ops_serializable` composes it with `Refine.index_refines_map`:
  the answers of the finished processes are exactly those of the library's programs RUN ONE AFTER
  THE OTHER in one common order, and every lookup in the final filesystem answers as after that
  serial run.

Processes of different result types are put into one `interleave` list by post-composing each with
an injection into a common type (`Prog.mapRes`, e.g. `Sum.inl` / `Sum.inr`; `Refine.Out` for the
index operations); the theorems are stated for arbitrary injections and specialised to the sum type.

The clock: `Env.clock` is a parameter of the whole interleaved execution (`exec env _ .now` answers
`env.clock` whenever it is asked), so the serial executions the theorems compare with run in the
same `env` and stamp the same times — "after W" needs no existential over the record time
(`lookup_linearizable_insert_explicit` still phrases the new record as C04 does).

Scope / what is NOT claimed.  The observers here are `find` (ONE `readFile` call).  A LISTING
(`ls` = one `walk` followed by one `readFile` per bucket) is not an atomic observer and the sentence
"every result is that of some sequential ordering" is FALSE for it in this model as soon as there
are two listers (not formalised; the schedule: buckets A, B exist; both listers walk; lister 2 reads
A; an insertion appends to A; lister 1 reads A, then B; an insertion appends to B; lister 2 reads B
— lister 1 saw the A-insertion but not the B-insertion, lister 2 the reverse: no serial order of
the four operations explains both).  What does hold for a lister is per bucket: every bucket it
reads is a snapshot of whole records (`C07.conc_reads_whole_records_cacache`, and `lookup_snapshot`
with the lister among the other processes).  Multi-call readers (`read` = `find` + content read)
are likewise outside these theorems.
-/
import Cacache.Props.C07
import Cacache.Props.C04
import Cacache.Lemmas.Refine

namespace Cacache
open Prog

/-- Run `p` and convert its result (same calls, same effects): how programs of different result
types are put into one `interleave` list. -/
def Prog.mapRes {α β : Type} (f : α → β) (p : Prog α) : Prog β := Prog.bind p (fun a => .done (f a))

namespace Linearize

variable {α β : Type}

/-! ### generic: stepping, running, mapping -/

@[simp] theorem mapRes_done (f : α → β) (a : α) : (Prog.done a).mapRes f = .done (f a) := rfl
@[simp] theorem mapRes_sys (f : α → β) (c : Call) (k : Ret → Prog α) :
    (Prog.sys c k).mapRes f = .sys c (fun r => (k r).mapRes f) := rfl

theorem step_mapRes (env : Env) (f : α → β) (p : Prog α) (s : FS) :
    step env (p.mapRes f) s = ((step env p s).1.mapRes f, (step env p s).2) := by
  cases p <;> rfl

theorem run_mapRes (env : Env) (f : α → β) (p : Prog α) (s : FS) :
    (run env (p.mapRes f) s).1 = f (run env p s).1 ∧
    (run env (p.mapRes f) s).2.1 = (run env p s).2.1 := by
  unfold Prog.mapRes
  rw [run_bind]
  simp [run]

/-- One small step does not change what the rest of the run returns and leaves behind. -/
theorem run_step (env : Env) (p : Prog α) (s : FS) :
    (run env (step env p s).1 (step env p s).2).1 = (run env p s).1 ∧
    (run env (step env p s).1 (step env p s).2).2.1 = (run env p s).2.1 := by
  cases p <;> exact ⟨rfl, rfl⟩

/-- **Invariants over whole configurations survive every schedule**: `I` may speak about the
program state of every process and about the filesystem; it has to be preserved by one small step
of any one process. -/
theorem interleave_config_invariant (env : Env) (I : List (Prog α) → FS → Prop)
    (hstep : ∀ ps fs i p, ps[i]? = some p → I ps fs →
      I (ps.set i (step env p fs).1) (step env p fs).2)
    (ps : List (Prog α)) (fs : FS) (h : I ps fs) (sched : List Nat) :
    I (interleave env ps fs sched).1 (interleave env ps fs sched).2 := by
  induction sched generalizing ps fs with
  | nil => exact h
  | cons i sched ih =>
    simp only [interleave]
    split
    · exact ih ps fs h
    · rename_i p hget
      exact ih _ _ (hstep ps fs i p hget h)

/-- Process `i` of the interleaving of `ps` under `sched` has finished, with result `a`. -/
def FinishedWith (env : Env) (ps : List (Prog α)) (fs : FS) (sched : List Nat) (i : Nat) (a : α) : Prop :=
  (interleave env ps fs sched).1[i]? = some (.done a)

/-- A one-call observer: one small step finishes it, with the result of its run from that state,
and leaves the filesystem alone (a single read-only call followed by pure computation). -/
def OneShot (env : Env) (R : Prog α) : Prop := ∀ s, step env R s = (.done (run env R s).1, s)

theorem OneShot.mapRes {env : Env} {R : Prog α} (h : OneShot env R) (g : α → β) :
    OneShot env (R.mapRes g) := by
  intro s
  rw [step_mapRes, h s, (run_mapRes env g R s).1]
  rfl

/-- `obs` holds at every state of the solo run of the program from `s` in which the program still
has a call to make.  (So whatever `obs` protects can change only with the program's LAST call.) -/
def UntilDone (env : Env) (obs : FS → Prop) : Prog α → FS → Prop
  | .done _, _ => True
  | .sys c k, s => obs s ∧ UntilDone env obs (k (exec env s c).2) (exec env s c).1

@[simp] theorem untilDone_done (env : Env) (obs : FS → Prop) (a : α) (s : FS) :
    UntilDone env obs (.done a) s = True := rfl
@[simp] theorem untilDone_sys (env : Env) (obs : FS → Prop) (c : Call) (k : Ret → Prog α) (s : FS) :
    UntilDone env obs (.sys c k) s =
      (obs s ∧ UntilDone env obs (k (exec env s c).2) (exec env s c).1) := rfl

theorem UntilDone.step {env : Env} {obs : FS → Prop} {p : Prog α} {s : FS}
    (h : UntilDone env obs p s) : UntilDone env obs (step env p s).1 (step env p s).2 := by
  cases p with
  | done a => exact h
  | sys c k => exact h.2

theorem UntilDone.mono {env : Env} {obs obs' : FS → Prop} (hm : ∀ s, obs s → obs' s)
    {p : Prog α} {s : FS} (h : UntilDone env obs p s) : UntilDone env obs' p s := by
  induction p generalizing s with
  | done a => trivial
  | sys c k ih => exact ⟨hm _ h.1, ih _ h.2⟩

theorem UntilDone.mapRes {env : Env} {obs : FS → Prop} (f : α → β) {p : Prog α} {s : FS}
    (h : UntilDone env obs p s) : UntilDone env obs (p.mapRes f) s := by
  induction p generalizing s with
  | done a => trivial
  | sys c k ih => exact ⟨h.1, ih _ h.2⟩

theorem UntilDone.bind {env : Env} {obs : FS → Prop} {p : Prog α} {f : α → Prog β} {s : FS}
    (h : UntilDone env obs p s) (hf : ∀ a, ∃ b, f a = .done b) :
    UntilDone env obs (Prog.bind p f) s := by
  induction p generalizing s with
  | done a =>
    obtain ⟨b, hb⟩ := hf a
    simp only [bind_done, hb]
    trivial
  | sys c k ih => exact ⟨h.1, ih _ h.2⟩

/-! ### generic: one process next to a one-call observer -/

/-- **Two processes, generic.**  `W` is any program, `R` a one-call read-only observer; if at every
state of `W`'s solo run in which `W` is not finished yet the observer would answer what it answers
initially, then under EVERY schedule
* when `W` has finished, its result and the filesystem are those of `W` run alone;
* when `R` has finished, its result is that of `R` run alone before `W` or alone after `W`. -/
theorem two_proc_linearizable (env : Env) (W R : Prog α) (fs : FS) (hR : OneShot env R)
    (hW : UntilDone env (fun s => (run env R s).1 = (run env R fs).1) W fs) (sched : List Nat) :
    (∀ a, (interleave env [W, R] fs sched).1[0]? = some (.done a) →
      a = (run env W fs).1 ∧ (interleave env [W, R] fs sched).2 = (run env W fs).2.1) ∧
    (∀ b, (interleave env [W, R] fs sched).1[1]? = some (.done b) →
      b = (run env R fs).1 ∨ b = (run env R (run env W fs).2.1).1) := by
  let I : List (Prog α) → FS → Prop := fun ps s =>
    ∃ p x, ps = [p, x] ∧ (run env p s).1 = (run env W fs).1 ∧
      (run env p s).2.1 = (run env W fs).2.1 ∧
      UntilDone env (fun s => (run env R s).1 = (run env R fs).1) p s ∧
      (x = R ∨ ∃ b, x = .done b ∧
        (b = (run env R fs).1 ∨ b = (run env R (run env W fs).2.1).1))
  have hI : I (interleave env [W, R] fs sched).1 (interleave env [W, R] fs sched).2 := by
    apply interleave_config_invariant env I
    · rintro ps s i q hget ⟨p, x, rfl, h1, h2, h3, h4⟩
      match i, hget with
      | 0, hget =>
        simp only [List.getElem?_cons_zero, Option.some.injEq] at hget
        subst hget
        exact ⟨_, x, rfl, (run_step env p s).1.trans h1, (run_step env p s).2.trans h2, h3.step, h4⟩
      | 1, hget =>
        simp only [List.getElem?_cons_succ, List.getElem?_cons_zero, Option.some.injEq] at hget
        subst hget
        rcases h4 with rfl | ⟨b, rfl, hb⟩
        · rw [hR s]
          refine ⟨p, _, rfl, h1, h2, h3, Or.inr ⟨_, rfl, ?_⟩⟩
          cases p with
          | done a =>
            right
            have : s = (run env W fs).2.1 := h2
            rw [← this]
          | sys c k => exact Or.inl h3.1
        · exact ⟨p, _, rfl, h1, h2, h3, Or.inr ⟨b, rfl, hb⟩⟩
      | i + 2, hget => simp at hget
    · exact ⟨W, R, rfl, rfl, rfl, hW, Or.inl rfl⟩
  obtain ⟨p, x, hps, h1, h2, -, h4⟩ := hI
  rw [hps]
  constructor
  · intro a ha
    simp only [List.getElem?_cons_zero, Option.some.injEq] at ha
    subst ha
    exact ⟨h1, h2⟩
  · intro b hb
    simp only [List.getElem?_cons_succ, List.getElem?_cons_zero, Option.some.injEq] at hb
    rcases h4 with hx | ⟨b', hb', hor⟩
    · left
      have hR' : R = .done b := hx.symm.trans hb
      rw [hR']
      rfl
    · rw [hb] at hb'
      cases hb'
      exact hor

/-! ### `find` is a one-call observer; `insert` changes what it sees with its last call only -/

variable (cfg : Cfg) (env : Env) (cache : Path)

theorem find_oneShot (key' : Bytes) : OneShot env (find cfg cache key') := by
  intro s
  unfold find bucketEntries
  simp only [bind_eq, pure_eq, call, bind_sys, bind_done, step, run, exec]
  cases s.readFile (bucketPath cfg cache key') with
  | ok b => rfl
  | error e => cases e <;> rfl

/-- What a lookup run alone answers in a state whose bucket holds `b` (absent = empty). -/
theorem find_of_bucketIs (key' : Bytes) (s : FS) (b : Bytes)
    (h : BucketIs s (bucketPath cfg cache key') b) :
    (run env (find cfg cache key') s).1 = .ok ((codec cfg).findIn key' ((codec cfg).entries b)) := by
  rcases h with hf | ⟨rfl, hn⟩
  · exact find_of_bucket cfg env cache s key' b hf
  · unfold find bucketEntries
    simp only [bind_eq, pure_eq, call, bind_sys, bind_done, run, exec]
    rw [Refine.readFile_absent (Refine.bucket_ne_nil cfg cache key') hn]
    rfl

/-- Opening any path for appending leaves every bucket's bytes what they are (an absent bucket may
become an empty file). -/
theorem bucketIs_openAppend (p q : Path) (b : Bytes) (s : FS) (h : BucketIs s q b) :
    BucketIs (exec env s (.openAppend p)).1 q b := by
  by_cases hq : q = p
  · subst hq
    simp only [exec]
    rcases h with hf | ⟨rfl, hn⟩
    · simp only [hf]; exact Or.inl hf
    · simp only [hn]
      split
      · left; simp
      · exact Or.inr ⟨rfl, hn⟩
  · exact h.frame (step_frame env s _ (.openAppend p) _ .ok q (by simpa [Call.touches] using hq))

/-- **The last call of an index insertion is its linearization point**: seen from the bucket of
ANY key `key'` (the insertion's own bucket or another one), at every state of the insertion's solo
run in which it still has a call to make the bucket's bytes are what they were. -/
theorem insert_untilDone (key key' : Bytes) (o : WriteOpts) (b : Bytes) (fs : FS)
    (hb : BucketIs fs (bucketPath cfg cache key') b) :
    UntilDone env (fun s => BucketIs s (bucketPath cfg cache key') b) (insert cfg cache key o) fs := by
  have tail : ∀ s tm, BucketIs s (bucketPath cfg cache key') b →
      UntilDone env (fun s => BucketIs s (bucketPath cfg cache key') b)
        (Prog.bind (appendRec cfg (bucketPath cfg cache key) (mkRec key o tm)) (fun a =>
          match a with
          | Except.error e => .done (Except.error e)
          | Except.ok () => .done (Except.ok (o.sri.getD defaultSri)))) s := by
    intro s tm hs
    unfold appendRec
    simp only [bind_eq, pure_eq, call, bind_sys, bind_done, untilDone_sys]
    refine ⟨hs, ?_⟩
    have hs1 := bucketIs_openAppend env (bucketPath cfg cache key) _ b s hs
    split
    · trivial
    · simp only [bind_sys, untilDone_sys]
      refine ⟨hs1, ?_⟩
      split <;> trivial
  unfold insert getTime
  simp only [bind_eq, pure_eq, call, bind_sys, bind_done, untilDone_sys]
  refine ⟨hb, ?_⟩
  have hb1 : BucketIs (exec env fs (.mkdirP (FS.parent (bucketPath cfg cache key)))).1
      (bucketPath cfg cache key') b :=
    hb.frame (step_frame env fs _ _ _ .ok _ (Refine.bucket_not_prefix_parent cfg cache key key'))
  split
  · trivial
  · split
    · simp only [bind_done]
      exact tail _ _ hb1
    · simp only [bind_sys, untilDone_sys]
      refine ⟨hb1, ?_⟩
      have hb2 : BucketIs (exec env (exec env fs (.mkdirP (FS.parent (bucketPath cfg cache key)))).1 .now).1
          (bucketPath cfg cache key') b := hb1
      split
      · simp only [bind_done]; exact tail _ _ hb2
      · simp only [bind_done]; exact tail _ _ hb2

theorem delete_untilDone (key key' : Bytes) (b : Bytes) (fs : FS)
    (hb : BucketIs fs (bucketPath cfg cache key') b) :
    UntilDone env (fun s => BucketIs s (bucketPath cfg cache key') b) (delete cfg cache key) fs := by
  unfold delete
  simp only [bind_eq, pure_eq]
  apply (insert_untilDone cfg env cache key key' {} b fs hb).bind
  intro a
  cases a <;> exact ⟨_, rfl⟩

/-- An insertion into another bucket never touches this one. -/
theorem insert_avoids (key key' : Bytes) (o : WriteOpts)
    (hne : bucketPath cfg cache key' ≠ bucketPath cfg cache key) :
    AllCalls (Call.avoids (bucketPath cfg cache key')) (insert cfg cache key o) := by
  unfold insert getTime appendRec
  repeat' ac_step
  all_goals first
    | (intro fs ht; simp only [Call.touches] at ht; done)
    | (intro fs ht; simp only [Call.touches] at ht; exact hne ht)
    | (intro fs ht; simp only [Call.touches] at ht
       exact Refine.bucket_not_prefix_parent cfg cache key key' ht)

/-! ### generic instance with result injections -/

theorem OneShot.after {env : Env} {R : Prog α} (h : OneShot env R) (s : FS) :
    (run env R s).2.1 = s := by
  have hs := h s
  cases R with
  | done a => rfl
  | sys c k =>
    simp only [step] at hs
    simp only [run]
    have h1 : k (exec env s c).2 = .done (run env (.sys c k) s).1 := congrArg Prod.fst hs
    have h2 : (exec env s c).1 = s := congrArg Prod.snd hs
    rw [h1, h2]
    rfl

/-- `two_proc_linearizable` for a writer and an observer of different result types, embedded into
a common type `γ` by `f` and `g`. -/
theorem observer_linearizable {γ δ ε : Type} (env : Env) (W : Prog δ) (R : Prog ε) (f : δ → γ)
    (g : ε → γ) (fs : FS) (hR : OneShot env R)
    (hW : UntilDone env (fun s => (run env R s).1 = (run env R fs).1) W fs) (sched : List Nat) :
    (∀ c, FinishedWith env [W.mapRes f, R.mapRes g] fs sched 0 c →
      c = f (run env W fs).1 ∧
      (interleave env [W.mapRes f, R.mapRes g] fs sched).2 = (run env W fs).2.1) ∧
    (∀ c, FinishedWith env [W.mapRes f, R.mapRes g] fs sched 1 c →
      c = g (run env R fs).1 ∨ c = g (run env R (run env W fs).2.1).1) := by
  have h := two_proc_linearizable env (W.mapRes f) (R.mapRes g) fs (hR.mapRes g)
    ((hW.mapRes f).mono (fun s hs => by
      show (run env (R.mapRes g) s).1 = (run env (R.mapRes g) fs).1
      rw [(run_mapRes env g R s).1, (run_mapRes env g R fs).1, hs])) sched
  simp only [(run_mapRes env f W fs).1, (run_mapRes env f W fs).2, (run_mapRes env g R _).1] at h
  exact h

/-- The two serial executions of a writer and an observer: results of both and final state. -/
def serialWR {δ ε : Type} (env : Env) (W : Prog δ) (R : Prog ε) (fs : FS) : δ × ε × FS :=
  ((run env W fs).1, (run env R (run env W fs).2.1).1, (run env R (run env W fs).2.1).2.1)

def serialRW {δ ε : Type} (env : Env) (W : Prog δ) (R : Prog ε) (fs : FS) : δ × ε × FS :=
  ((run env W (run env R fs).2.1).1, (run env R fs).1, (run env W (run env R fs).2.1).2.1)

/-- When both have finished: the pair of results and the final filesystem are exactly those of
one of the two serial executions. -/
theorem observer_serial {γ δ ε : Type} (env : Env) (W : Prog δ) (R : Prog ε) (f : δ → γ)
    (g : ε → γ) (fs : FS) (hR : OneShot env R)
    (hW : UntilDone env (fun s => (run env R s).1 = (run env R fs).1) W fs) (sched : List Nat)
    (c0 c1 : γ) (h0 : FinishedWith env [W.mapRes f, R.mapRes g] fs sched 0 c0)
    (h1 : FinishedWith env [W.mapRes f, R.mapRes g] fs sched 1 c1) :
    (∃ x y, (x, y, (interleave env [W.mapRes f, R.mapRes g] fs sched).2) = serialRW env W R fs ∧
      c0 = f x ∧ c1 = g y) ∨
    (∃ x y, (x, y, (interleave env [W.mapRes f, R.mapRes g] fs sched).2) = serialWR env W R fs ∧
      c0 = f x ∧ c1 = g y) := by
  obtain ⟨hw, hr⟩ := observer_linearizable env W R f g fs hR hW sched
  obtain ⟨e0, efs⟩ := hw c0 h0
  rcases hr c1 h1 with e1 | e1
  · left
    refine ⟨_, _, ?_, e0, e1⟩
    unfold serialRW
    rw [hR.after fs, efs]
  · right
    refine ⟨_, _, ?_, e0, e1⟩
    unfold serialWR
    rw [hR.after, efs]

/-! ### the library's operations: one inserter / remover next to one lookup -/

/-- What the observer hypothesis of `observer_linearizable` needs, from the bucket-level fact. -/
theorem find_obs_of_bucketIs (key' : Bytes) (b : Bytes) (fs : FS)
    (hb : BucketIs fs (bucketPath cfg cache key') b) (s : FS)
    (hs : BucketIs s (bucketPath cfg cache key') b) :
    (run env (find cfg cache key') s).1 = (run env (find cfg cache key') fs).1 := by
  rw [find_of_bucketIs cfg env cache key' s b hs, find_of_bucketIs cfg env cache key' fs b hb]

/-- **A lookup concurrent with an index insertion is linearizable** (every schedule).

Process 0 runs `insert cfg cache key o`, process 1 runs `find cfg cache key'` for ANY key `key'`
(the same key, another key of the same bucket, or a key of another bucket).  The two have different
result types, so each is post-composed with an injection into a common type `γ` (`Prog.mapRes`;
take `Sum.inl` / `Sum.inr`, see `lookup_linearizable_insert_sum`).  The only hypothesis: the
reader's bucket is a regular file or absent (`BucketIs`; nothing is asked of its bytes, of the
options, of the directories above).  Then for EVERY schedule:
* if the lookup has finished, its result is LITERALLY its result run alone before the insertion
  (`run env R fs`) or its result run alone after the completed insertion
  (`run env R (run env W fs).2.1`) — in the same environment: the model's clock `env.clock` is a
  parameter of the whole execution, so the time stamp of the sequential insertion is the one the
  concurrent insertion used;
* if the insertion has finished, its result and the filesystem are those of the insertion run
  alone (the lookup changes nothing). -/
theorem lookup_linearizable_insert {γ : Type} (f : Res Integrity → γ) (g : Res (Option Meta) → γ)
    (key key' : Bytes) (o : WriteOpts) (b : Bytes) (fs : FS)
    (hb : BucketIs fs (bucketPath cfg cache key') b) (sched : List Nat) :
    (∀ c, FinishedWith env [(insert cfg cache key o).mapRes f, (find cfg cache key').mapRes g] fs sched 1 c →
      c = g (run env (find cfg cache key') fs).1 ∨
      c = g (run env (find cfg cache key') (run env (insert cfg cache key o) fs).2.1).1) ∧
    (∀ c, FinishedWith env [(insert cfg cache key o).mapRes f, (find cfg cache key').mapRes g] fs sched 0 c →
      c = f (run env (insert cfg cache key o) fs).1 ∧
      (interleave env [(insert cfg cache key o).mapRes f, (find cfg cache key').mapRes g] fs sched).2 =
        (run env (insert cfg cache key o) fs).2.1) :=
  (observer_linearizable env _ _ f g fs (find_oneShot cfg env cache key')
    ((insert_untilDone cfg env cache key key' o b fs hb).mono
      (fun s hs => find_obs_of_bucketIs cfg env cache key' b fs hb s hs)) sched).symm

/-- The same for a removal (`delete` = insertion of a tombstone). -/
theorem lookup_linearizable_delete {γ : Type} (f : Res Unit → γ) (g : Res (Option Meta) → γ)
    (key key' : Bytes) (b : Bytes) (fs : FS)
    (hb : BucketIs fs (bucketPath cfg cache key') b) (sched : List Nat) :
    (∀ c, FinishedWith env [(delete cfg cache key).mapRes f, (find cfg cache key').mapRes g] fs sched 1 c →
      c = g (run env (find cfg cache key') fs).1 ∨
      c = g (run env (find cfg cache key') (run env (delete cfg cache key) fs).2.1).1) ∧
    (∀ c, FinishedWith env [(delete cfg cache key).mapRes f, (find cfg cache key').mapRes g] fs sched 0 c →
      c = f (run env (delete cfg cache key) fs).1 ∧
      (interleave env [(delete cfg cache key).mapRes f, (find cfg cache key').mapRes g] fs sched).2 =
        (run env (delete cfg cache key) fs).2.1) :=
  (observer_linearizable env _ _ f g fs (find_oneShot cfg env cache key')
    ((delete_untilDone cfg env cache key key' b fs hb).mono
      (fun s hs => find_obs_of_bucketIs cfg env cache key' b fs hb s hs)) sched).symm

/-- The sum-type reading: `r` is the lookup's own result. -/
theorem lookup_linearizable_insert_sum (key key' : Bytes) (o : WriteOpts) (b : Bytes) (fs : FS)
    (hb : BucketIs fs (bucketPath cfg cache key') b) (sched : List Nat) (r : Res (Option Meta))
    (hfin : FinishedWith env [(insert cfg cache key o).mapRes Sum.inl,
      (find cfg cache key').mapRes (Sum.inr : _ → Res Integrity ⊕ Res (Option Meta))] fs sched 1 (.inr r)) :
    r = (run env (find cfg cache key') fs).1 ∨
    r = (run env (find cfg cache key') (run env (insert cfg cache key o) fs).2.1).1 := by
  rcases (lookup_linearizable_insert cfg env cache Sum.inl Sum.inr key key' o b fs hb sched).1 _ hfin
    with h | h
  · exact Or.inl (Sum.inr.inj h)
  · exact Or.inr (Sum.inr.inj h)

theorem lookup_linearizable_delete_sum (key key' : Bytes) (b : Bytes) (fs : FS)
    (hb : BucketIs fs (bucketPath cfg cache key') b) (sched : List Nat) (r : Res (Option Meta))
    (hfin : FinishedWith env [(delete cfg cache key).mapRes Sum.inl,
      (find cfg cache key').mapRes (Sum.inr : _ → Res Unit ⊕ Res (Option Meta))] fs sched 1 (.inr r)) :
    r = (run env (find cfg cache key') fs).1 ∨
    r = (run env (find cfg cache key') (run env (delete cfg cache key) fs).2.1).1 := by
  rcases (lookup_linearizable_delete cfg env cache Sum.inl Sum.inr key key' b fs hb sched).1 _ hfin
    with h | h
  · exact Or.inl (Sum.inr.inj h)
  · exact Or.inr (Sum.inr.inj h)

/-- **Results of both processes and the final filesystem are those of a serial execution**:
when both have finished, `(insert's result, lookup's result, filesystem)` is exactly what running
the lookup then the insertion (`serialRW`) or the insertion then the lookup (`serialWR`) gives. -/
theorem insert_find_serial {γ : Type} (f : Res Integrity → γ) (g : Res (Option Meta) → γ)
    (key key' : Bytes) (o : WriteOpts) (b : Bytes) (fs : FS)
    (hb : BucketIs fs (bucketPath cfg cache key') b) (sched : List Nat) (c0 c1 : γ)
    (h0 : FinishedWith env [(insert cfg cache key o).mapRes f, (find cfg cache key').mapRes g] fs sched 0 c0)
    (h1 : FinishedWith env [(insert cfg cache key o).mapRes f, (find cfg cache key').mapRes g] fs sched 1 c1) :
    (∃ x y, (x, y, (interleave env [(insert cfg cache key o).mapRes f, (find cfg cache key').mapRes g] fs sched).2) =
        serialRW env (insert cfg cache key o) (find cfg cache key') fs ∧ c0 = f x ∧ c1 = g y) ∨
    (∃ x y, (x, y, (interleave env [(insert cfg cache key o).mapRes f, (find cfg cache key').mapRes g] fs sched).2) =
        serialWR env (insert cfg cache key o) (find cfg cache key') fs ∧ c0 = f x ∧ c1 = g y) :=
  observer_serial env _ _ f g fs (find_oneShot cfg env cache key')
    ((insert_untilDone cfg env cache key key' o b fs hb).mono
      (fun s hs => find_obs_of_bucketIs cfg env cache key' b fs hb s hs)) sched c0 c1 h0 h1

theorem delete_find_serial {γ : Type} (f : Res Unit → γ) (g : Res (Option Meta) → γ)
    (key key' : Bytes) (b : Bytes) (fs : FS)
    (hb : BucketIs fs (bucketPath cfg cache key') b) (sched : List Nat) (c0 c1 : γ)
    (h0 : FinishedWith env [(delete cfg cache key).mapRes f, (find cfg cache key').mapRes g] fs sched 0 c0)
    (h1 : FinishedWith env [(delete cfg cache key).mapRes f, (find cfg cache key').mapRes g] fs sched 1 c1) :
    (∃ x y, (x, y, (interleave env [(delete cfg cache key).mapRes f, (find cfg cache key').mapRes g] fs sched).2) =
        serialRW env (delete cfg cache key) (find cfg cache key') fs ∧ c0 = f x ∧ c1 = g y) ∨
    (∃ x y, (x, y, (interleave env [(delete cfg cache key).mapRes f, (find cfg cache key').mapRes g] fs sched).2) =
        serialWR env (delete cfg cache key) (find cfg cache key') fs ∧ c0 = f x ∧ c1 = g y) :=
  observer_serial env _ _ f g fs (find_oneShot cfg env cache key')
    ((delete_untilDone cfg env cache key key' b fs hb).mono
      (fun s hs => find_obs_of_bucketIs cfg env cache key' b fs hb s hs)) sched c0 c1 h0 h1

/-! ### the two answers spelled out -/

/-- The filesystem a completed insertion leaves, seen through its own bucket: the old records, or
the old records followed by the one new record (C04's `OldOrNew`, here for the healthy run). -/
theorem insert_final_oldOrNew (key : Bytes) (o : WriteOpts) (ho : OptsWF key o) (b0 : Bytes)
    (hs : (codec cfg).Settled b0) (fs : FS) (hb : BucketIs fs (bucketPath cfg cache key) b0) :
    ∃ b', BucketIs (run env (insert cfg cache key o) fs).2.1 (bucketPath cfg cache key) b' ∧
      C04.OldOrNew cfg key o b0 b' :=
  C04.growing_oldOrNew cfg cache key o ho b0 hs _
    (wpD_run (insert_bucket_wp cfg env cache key o b0 hb)).1

/-- **The two possible answers, explicitly** (lookup in the insertion's own bucket, settled bytes
`b0`, well-formed options): the finished lookup answers from exactly the old records, or from
exactly the old records followed by the ONE new record `mkRec key o tm` — whose time is the
caller's if one was given and a `u128` in any case.  Never an error, never a partial record. -/
theorem lookup_linearizable_insert_explicit {γ : Type} (f : Res Integrity → γ)
    (g : Res (Option Meta) → γ) (key key' : Bytes) (o : WriteOpts) (ho : OptsWF key o)
    (hsame : bucketPath cfg cache key' = bucketPath cfg cache key) (b0 : Bytes)
    (hs : (codec cfg).Settled b0) (fs : FS) (hb : BucketIs fs (bucketPath cfg cache key) b0)
    (sched : List Nat) (c : γ)
    (hfin : FinishedWith env [(insert cfg cache key o).mapRes f, (find cfg cache key').mapRes g] fs sched 1 c) :
    c = g (.ok ((codec cfg).findIn key' ((codec cfg).entries b0))) ∨
    ∃ tm, tm ≤ timeMax ∧ (∀ t, o.time = some t → tm = t) ∧
      c = g (.ok ((codec cfg).findIn key' ((codec cfg).entries b0 ++ [mkRec key o tm]))) := by
  have hb' : BucketIs fs (bucketPath cfg cache key') b0 := by rw [hsame]; exact hb
  have hold := find_of_bucketIs cfg env cache key' fs b0 hb'
  obtain ⟨b', hbf, tm, hle, htm, hen⟩ := insert_final_oldOrNew cfg env cache key o ho b0 hs fs hb
  rw [← hsame] at hbf
  have hnew := find_of_bucketIs cfg env cache key' _ b' hbf
  rcases (lookup_linearizable_insert cfg env cache f g key key' o b0 fs hb' sched).1 c hfin with h | h
  · left; rw [h, hold]
  · rcases hen with e | e
    · left; rw [h, hnew, e]
    · right; exact ⟨tm, hle, htm, by rw [h, hnew, e]⟩

/-- The same for a removal: the finished lookup answers from the old records, or from the old
records followed by the one tombstone `mkRec key {} tm`. -/
theorem lookup_linearizable_delete_explicit {γ : Type} (f : Res Unit → γ)
    (g : Res (Option Meta) → γ) (key key' : Bytes) (hk : Json.utf8Valid key = true)
    (hsame : bucketPath cfg cache key' = bucketPath cfg cache key) (b0 : Bytes)
    (hs : (codec cfg).Settled b0) (fs : FS) (hb : BucketIs fs (bucketPath cfg cache key) b0)
    (sched : List Nat) (c : γ)
    (hfin : FinishedWith env [(delete cfg cache key).mapRes f, (find cfg cache key').mapRes g] fs sched 1 c) :
    c = g (.ok ((codec cfg).findIn key' ((codec cfg).entries b0))) ∨
    ∃ tm, tm ≤ timeMax ∧
      c = g (.ok ((codec cfg).findIn key' ((codec cfg).entries b0 ++ [mkRec key {} tm]))) := by
  have hb' : BucketIs fs (bucketPath cfg cache key') b0 := by rw [hsame]; exact hb
  have hold := find_of_bucketIs cfg env cache key' fs b0 hb'
  obtain ⟨b', hbf, tm, hle, -, hen⟩ :=
    insert_final_oldOrNew cfg env cache key {} (optsWF_default hk) b0 hs fs hb
  rw [← hsame, ← (Refine.run_delete cfg cache env key fs).1] at hbf
  have hnew := find_of_bucketIs cfg env cache key' _ b' hbf
  rcases (lookup_linearizable_delete cfg env cache f g key key' b0 fs hb' sched).1 c hfin with h | h
  · left; rw [h, hold]
  · rcases hen with e | e
    · left; rw [h, hnew, e]
    · right; exact ⟨tm, hle, by rw [h, hnew, e]⟩

/-- **Writes to one key never change what a concurrent lookup of another key returns** — be it a
key of another bucket or one sharing the bucket (SHA-1 collision of the keys): the finished lookup
answers exactly as run alone on the initial state. -/
theorem lookup_other_key_unaffected {γ : Type} (f : Res Integrity → γ)
    (g : Res (Option Meta) → γ) (key key' : Bytes) (hk : key' ≠ key) (o : WriteOpts)
    (ho : OptsWF key o) (b : Bytes) (hs : (codec cfg).Settled b) (fs : FS)
    (hb : BucketIs fs (bucketPath cfg cache key') b) (sched : List Nat) (c : γ)
    (hfin : FinishedWith env [(insert cfg cache key o).mapRes f, (find cfg cache key').mapRes g] fs sched 1 c) :
    c = g (run env (find cfg cache key') fs).1 ∧
    c = g (.ok ((codec cfg).findIn key' ((codec cfg).entries b))) := by
  have hold := find_of_bucketIs cfg env cache key' fs b hb
  suffices h : c = g (run env (find cfg cache key') fs).1 from ⟨h, by rw [h, hold]⟩
  rcases (lookup_linearizable_insert cfg env cache f g key key' o b fs hb sched).1 c hfin with h | h
  · exact h
  · rw [h, hold]
    by_cases hsame : bucketPath cfg cache key' = bucketPath cfg cache key
    · rw [hsame] at hb
      obtain ⟨b', hbf, hon⟩ := insert_final_oldOrNew cfg env cache key o ho b hs fs hb
      rw [← hsame] at hbf
      rw [find_of_bucketIs cfg env cache key' _ b' hbf]
      have := (hon.lookup cfg ho hs).2 key' hk
      unfold Codec.find at this
      rw [this]
    · have hget := AllCalls.frame_run (insert_avoids cfg cache key key' o hsame) env fs
      rw [find_of_bucketIs cfg env cache key' _ b (hb.frame hget)]

/-! ### any number of concurrent writers: the lookup answers from a snapshot of whole records -/

/-- `wholeRecords_step` (Lemmas/Interleave) keeping track of the history: a whole-record call
EXTENDS the list of appended records (by nothing or by one well-formed record). -/
theorem wholeRecords_step_ext {R M : Type} (cd : Codec R M) (W : R → Prop) (env : Env)
    (bucket : Path) (b0 : Bytes) (c : Call) (fs : FS) (hc : c.wholeRecords cd W bucket)
    (rs : List R) (hb : BucketIs fs bucket (cd.appendAll b0 rs)) :
    ∃ ext, (∀ r ∈ ext, W r) ∧ BucketIs (exec env fs c).1 bucket (cd.appendAll b0 (rs ++ ext)) := by
  rcases hc with h | rfl | ⟨r, hWr, rfl⟩
  · exact ⟨[], by simp, by
      rw [List.append_nil]; exact hb.frame (step_frame env fs _ c _ .ok bucket (h fs))⟩
  · exact ⟨[], by simp, by
      rw [List.append_nil]; exact bucketIs_openAppend env bucket bucket _ fs hb⟩
  · simp only [exec]
    rcases hb with hf | ⟨he, hn⟩
    · refine ⟨[r], by simpa using hWr, Or.inl ?_⟩
      simp [hf, Codec.appendAll_append, Codec.appendAll]
    · exact ⟨[], by simp, by simp only [hn, List.append_nil]; exact Or.inr ⟨he, hn⟩⟩

/-- Reading a bucket that holds a settled start followed by whole well-formed records. -/
theorem entries_appendAll_settled (b0 : Bytes) (hs : (codec cfg).Settled b0) (rs : List Rec)
    (hW : ∀ r ∈ rs, r.WF) :
    (codec cfg).entries ((codec cfg).appendAll b0 rs) = (codec cfg).entries b0 ++ rs := by
  have := (codec_laws cfg).settled_appendAll b0 rs hW hs
  rw [this, (codec_laws cfg).entriesT_appendAll _ _ hW, ← hs]

/-- **A lookup among any number of concurrent index writers answers from a consistent snapshot.**

`ps` is ANY list of processes; process `i` is the lookup `find cfg cache key'` (result embedded
into the common result type by `g`), every other process is a program all of whose calls are
whole-record for the lookup's bucket — `C07.insert_wholeRecords`: index insertions and removals of
any keys with well-formed options; `C07.wholeRecords_of_readOnly`: lookups, listings, reads;
`C07.wholeRecords_of_areas`: content writers.  The bucket initially holds settled bytes `b0`.
Then for EVERY schedule after which the lookup has finished with `c`, there are lists `rs`, `rs'`
of whole well-formed records such that
* `c` is the lookup of `key'` in `entries b0 ++ rs` — the records there initially followed by
  exactly the whole records appended up to the moment of the read, in append order: never an error,
  never a partial or spliced record;
* the bucket now holds `b0` followed by the frames of `rs ++ rs'`: the snapshot is a PREFIX of the
  bucket's history (nothing the lookup saw is ever taken back or reordered). -/
theorem lookup_snapshot {γ : Type} (g : Res (Option Meta) → γ) (key' : Bytes) (b0 : Bytes)
    (hs : (codec cfg).Settled b0) (ps : List (Prog γ)) (i : Nat)
    (hi : ps[i]? = some ((find cfg cache key').mapRes g))
    (hp : ∀ j p, j ≠ i → ps[j]? = some p →
      AllCalls (Call.wholeRecords (codec cfg) Rec.WF (bucketPath cfg cache key')) p)
    (fs : FS) (h0 : BucketIs fs (bucketPath cfg cache key') b0) (sched : List Nat) (c : γ)
    (hfin : FinishedWith env ps fs sched i c) :
    ∃ rs rs', (∀ r ∈ rs ++ rs', r.WF) ∧
      c = g (.ok ((codec cfg).findIn key' ((codec cfg).entries b0 ++ rs))) ∧
      BucketIs (interleave env ps fs sched).2 (bucketPath cfg cache key')
        ((codec cfg).appendAll b0 (rs ++ rs')) := by
  let I : List (Prog γ) → FS → Prop := fun qs s =>
    (∀ j p, j ≠ i → qs[j]? = some p →
      AllCalls (Call.wholeRecords (codec cfg) Rec.WF (bucketPath cfg cache key')) p) ∧
    ∃ rs, (∀ r ∈ rs, r.WF) ∧
      BucketIs s (bucketPath cfg cache key') ((codec cfg).appendAll b0 rs) ∧
      (qs[i]? = some ((find cfg cache key').mapRes g) ∨
        ∃ rs1 rs2, rs = rs1 ++ rs2 ∧
          qs[i]? = some (.done (g (.ok ((codec cfg).findIn key' ((codec cfg).entries b0 ++ rs1))))))
  have hI : I (interleave env ps fs sched).1 (interleave env ps fs sched).2 := by
    apply interleave_config_invariant env I
    · rintro qs s j p hget ⟨hall, rs, hW, hb, hrd⟩
      have hjlt : j < qs.length := by
        rcases Nat.lt_or_ge j qs.length with h | h
        · exact h
        · rw [List.getElem?_eq_none h] at hget; cases hget
      by_cases hji : j = i
      · -- the lookup moves
        subst hji
        refine ⟨fun j' p' hne hg => hall j' p' hne (by rwa [List.getElem?_set_ne (Ne.symm hne)] at hg), ?_⟩
        rcases hrd with hrd | ⟨rs1, rs2, e, hrd⟩
        · rw [hrd] at hget
          cases hget
          rw [(find_oneShot cfg env cache key').mapRes g s]
          refine ⟨rs, hW, hb, Or.inr ⟨rs, [], by simp, ?_⟩⟩
          rw [List.getElem?_set_self hjlt, (run_mapRes env g _ s).1,
            find_of_bucketIs cfg env cache key' s _ hb, entries_appendAll_settled cfg b0 hs rs hW]
        · rw [hrd] at hget
          cases hget
          refine ⟨rs, hW, hb, Or.inr ⟨rs1, rs2, e, ?_⟩⟩
          rw [List.getElem?_set_self hjlt]
          rfl
      · -- another process moves
        have hap := hall j p hji hget
        constructor
        · intro j' p' hne hg
          by_cases hjj : j = j'
          · subst hjj
            rw [List.getElem?_set_self hjlt] at hg
            cases hg
            exact hap.step env s
          · rw [List.getElem?_set_ne hjj] at hg
            exact hall j' p' hne hg
        · rw [List.getElem?_set_ne hji]
          cases p with
          | done a => exact ⟨rs, hW, hb, hrd⟩
          | sys cl k =>
            obtain ⟨ext, hWe, hbe⟩ := wholeRecords_step_ext (codec cfg) Rec.WF env
              (bucketPath cfg cache key') b0 cl s hap.1 rs hb
            refine ⟨rs ++ ext, ?_, hbe, ?_⟩
            · intro r hr
              rcases List.mem_append.mp hr with h | h
              · exact hW r h
              · exact hWe r h
            · rcases hrd with hrd | ⟨rs1, rs2, e, hrd⟩
              · exact Or.inl hrd
              · exact Or.inr ⟨rs1, rs2 ++ ext, by rw [e, List.append_assoc], hrd⟩
    · exact ⟨hp, [], by simp, by simpa [Codec.appendAll] using h0, Or.inl hi⟩
  obtain ⟨-, rs, hW, hb, hrd⟩ := hI
  rcases hrd with hrd | ⟨rs1, rs2, e, hrd⟩
  · unfold FinishedWith at hfin
    rw [hrd] at hfin
    unfold find bucketEntries at hfin
    simp [Prog.mapRes, call] at hfin
  · unfold FinishedWith at hfin
    rw [hrd] at hfin
    cases hfin
    exact ⟨rs1, rs2, by rw [← e]; exact hW, rfl, by rw [← e]; exact hb⟩

/-- The snapshot of `lookup_snapshot` is a serial state: the lookup run alone on ANY filesystem
whose bucket holds `b0` followed by the frames of `rs` (e.g. the one the appends of `rs`, executed
one after the other, leave) answers exactly that. -/
theorem snapshot_is_serial (key' : Bytes) (b0 : Bytes) (hs : (codec cfg).Settled b0)
    (rs : List Rec) (hW : ∀ r ∈ rs, r.WF) (env' : Env) (s : FS)
    (hb : BucketIs s (bucketPath cfg cache key') ((codec cfg).appendAll b0 rs)) :
    (run env' (find cfg cache key') s).1 =
      .ok ((codec cfg).findIn key' ((codec cfg).entries b0 ++ rs)) := by
  rw [find_of_bucketIs cfg env' cache key' s _ hb, entries_appendAll_settled cfg b0 hs rs hW]

theorem allCalls_mapRes {P : Call → Prop} {p : Prog α} (f : α → β) (h : AllCalls P p) :
    AllCalls P (p.mapRes f) :=
  AllCalls.bind h (fun _ => trivial)

/-! ### generic: linearizability against an abstract specification (rely/guarantee)

Any number of processes; each process `j` implements an abstract operation `specs j : σ → σ × γ`
(new abstract state, answer).  `S.abs` maps a filesystem to its abstract state, `S.Inv` is the
global invariant, `S.G` the guarantee every step of every process gives (and on which the others
rely: a process's private knowledge `π` has to be `Stable` under it). -/

section Generic

variable {σ γ : Type}

structure LinSys (σ : Type) where
  abs : FS → σ
  Inv : FS → Prop
  G : FS → FS → Prop

/-- Private knowledge that no step of anybody else destroys. -/
def Stable (S : LinSys σ) (π : FS → Prop) : Prop := ∀ a b, π a → S.G a b → π b

/-- The program has not taken effect yet and, knowing `π`, will do so with its LAST call: in every
state the others may have produced (invariant and `π` hold), its next call keeps the invariant,
obeys the guarantee, and either
* leaves the abstract state alone and establishes new stable knowledge from which the rest of the
  program is pending again, or
* is the linearization point: the abstract state becomes what `spec` says and the program is
  finished, answering what `spec` says. -/
def Pending (S : LinSys σ) (env : Env) (spec : σ → σ × γ) : Prog γ → (FS → Prop) → Prop
  | .done _, _ => False
  | .sys c k, π => ∀ s, S.Inv s → π s →
      S.Inv (exec env s c).1 ∧ S.G s (exec env s c).1 ∧
      ((S.abs (exec env s c).1 = S.abs s ∧
          ∃ π', Stable S π' ∧ π' (exec env s c).1 ∧ Pending S env spec (k (exec env s c).2) π') ∨
       (S.abs (exec env s c).1 = (spec (S.abs s)).1 ∧
          k (exec env s c).2 = .done (spec (S.abs s)).2))

theorem pending_sys (S : LinSys σ) (env : Env) (spec : σ → σ × γ) (c : Call) (k : Ret → Prog γ)
    (π : FS → Prop) :
    Pending S env spec (.sys c k) π = ∀ s, S.Inv s → π s →
      S.Inv (exec env s c).1 ∧ S.G s (exec env s c).1 ∧
      ((S.abs (exec env s c).1 = S.abs s ∧
          ∃ π', Stable S π' ∧ π' (exec env s c).1 ∧ Pending S env spec (k (exec env s c).2) π') ∨
       (S.abs (exec env s c).1 = (spec (S.abs s)).1 ∧
          k (exec env s c).2 = .done (spec (S.abs s)).2)) := rfl

/-- A serial history of the abstract machine: operations `j` applied one after the other from
`a0`, each answering `out`, ending in `a`. -/
def Legal (specs : Nat → σ → σ × γ) : List (Nat × γ) → σ → σ → Prop
  | [], a0, a => a = a0
  | (j, out) :: rest, a0, a => (specs j a0).2 = out ∧ Legal specs rest (specs j a0).1 a

theorem Legal.snoc {specs : Nat → σ → σ × γ} {h : List (Nat × γ)} {a0 a : σ}
    (hl : Legal specs h a0 a) (j : Nat) :
    Legal specs (h ++ [(j, (specs j a).2)]) a0 (specs j a).1 := by
  induction h generalizing a0 with
  | nil => cases hl; exact ⟨rfl, rfl⟩
  | cons x h ih =>
    obtain ⟨j', out'⟩ := x
    exact ⟨hl.1, ih hl.2⟩

theorem getElem?_set_same {α : Type} {l : List α} {j : Nat} {a : α} (h : l[j]? = some a)
    (j' : Nat) : (l.set j a)[j']? = l[j']? := by
  rw [List.getElem?_set]
  split
  · rename_i e
    subst e
    have hlt : j < l.length := by
      rcases Nat.lt_or_ge j l.length with h' | h'
      · exact h'
      · rw [List.getElem?_eq_none h'] at h; cases h
    rw [if_pos hlt, h]
  · rfl

/-- **Soundness: pending programs linearize.**  From a state satisfying the invariant, with every
process pending for its abstract operation: after EVERY schedule there is a duplicate-free serial
history `hist` of the abstract machine, leading from the abstraction of the initial state to the
abstraction of the current state, in which exactly the finished processes occur, each with exactly
the answer it returned. -/
theorem linearizable_of_pending (S : LinSys σ) (env : Env) (specs : Nat → σ → σ × γ)
    (ps : List (Prog γ)) (fs : FS) (h0 : S.Inv fs)
    (hp : ∀ j p, ps[j]? = some p → ∃ π, Stable S π ∧ π fs ∧ Pending S env (specs j) p π)
    (sched : List Nat) :
    S.Inv (interleave env ps fs sched).2 ∧
    ∃ hist : List (Nat × γ), (hist.map Prod.fst).Nodup ∧
      Legal specs hist (S.abs fs) (S.abs (interleave env ps fs sched).2) ∧
      ∀ j out, (j, out) ∈ hist ↔ (interleave env ps fs sched).1[j]? = some (.done out) := by
  let I : List (Prog γ) → FS → Prop := fun qs s =>
    S.Inv s ∧ ∃ hist : List (Nat × γ), (hist.map Prod.fst).Nodup ∧
      Legal specs hist (S.abs fs) (S.abs s) ∧
      (∀ j out, (j, out) ∈ hist → qs[j]? = some (.done out)) ∧
      (∀ j p, qs[j]? = some p → j ∉ hist.map Prod.fst →
        ∃ π, Stable S π ∧ π s ∧ Pending S env (specs j) p π)
  have hI : I (interleave env ps fs sched).1 (interleave env ps fs sched).2 := by
    apply interleave_config_invariant env I
    · rintro qs s j p hget ⟨hinv, hist, hnd, hleg, hdone, hpend⟩
      have hjlt : j < qs.length := by
        rcases Nat.lt_or_ge j qs.length with h | h
        · exact h
        · rw [List.getElem?_eq_none h] at hget; cases hget
      by_cases hj : j ∈ hist.map Prod.fst
      · -- already linearized: finished, the step is a no-op
        obtain ⟨⟨j', out⟩, hm, rfl⟩ := List.mem_map.mp hj
        have hd := hdone _ _ hm
        rw [hget] at hd
        cases hd
        have hset := getElem?_set_same hget
        refine ⟨hinv, hist, hnd, hleg, ?_, ?_⟩
        · intro j2 out2 hm2; show (qs.set j' (.done out))[j2]? = _; rw [hset]; exact hdone j2 out2 hm2
        · intro j2 p2 hg2; change (qs.set j' (.done out))[j2]? = _ at hg2; rw [hset] at hg2
          exact hpend j2 p2 hg2
      · obtain ⟨π, hst, hπ, hP⟩ := hpend j p hget hj
        cases p with
        | done a => exact absurd hP (by simp [Pending])
        | sys c k =>
          obtain ⟨hinv', hG, hcase⟩ := hP s hinv hπ
          refine ⟨hinv', ?_⟩
          rcases hcase with ⟨habs, π', hst', hπ', hP'⟩ | ⟨habs, hk⟩
          · refine ⟨hist, hnd, by show Legal specs hist (S.abs fs) (S.abs (exec env s c).1); rw [habs]; exact hleg, ?_, ?_⟩
            · intro j2 out2 hm2
              have hne : j ≠ j2 := fun e => hj (by subst e; exact List.mem_map.mpr ⟨_, hm2, rfl⟩)
              show (qs.set j _)[j2]? = _
              rw [List.getElem?_set_ne hne]
              exact hdone j2 out2 hm2
            · intro j2 p2 hg2 hn2
              change (qs.set j _)[j2]? = _ at hg2
              by_cases e : j = j2
              · subst e
                rw [List.getElem?_set_self hjlt] at hg2
                cases hg2
                exact ⟨π', hst', hπ', hP'⟩
              · rw [List.getElem?_set_ne e] at hg2
                obtain ⟨π2, hst2, hπ2, hP2⟩ := hpend j2 p2 hg2 hn2
                exact ⟨π2, hst2, hst2 _ _ hπ2 hG, hP2⟩
          · refine ⟨hist ++ [(j, (specs j (S.abs s)).2)], ?_, ?_, ?_, ?_⟩
            · rw [List.map_append, List.nodup_append]
              refine ⟨hnd, by simp, ?_⟩
              intro a ha b hb
              simp only [List.map_cons, List.map_nil, List.mem_singleton] at hb
              subst hb
              exact fun e => hj (e ▸ ha)
            · show Legal specs _ (S.abs fs) (S.abs (exec env s c).1)
              rw [habs]
              exact hleg.snoc j
            · intro j2 out2 hm2
              show (qs.set j _)[j2]? = _
              rcases List.mem_append.mp hm2 with hm2 | hm2
              · have hne : j ≠ j2 := fun e => hj (by subst e; exact List.mem_map.mpr ⟨_, hm2, rfl⟩)
                rw [List.getElem?_set_ne hne]
                exact hdone j2 out2 hm2
              · simp only [List.mem_singleton, Prod.mk.injEq] at hm2
                obtain ⟨rfl, rfl⟩ := hm2
                rw [List.getElem?_set_self hjlt]
                exact congrArg some hk
            · intro j2 p2 hg2 hn2
              change (qs.set j _)[j2]? = _ at hg2
              rw [List.map_append, List.mem_append] at hn2
              have hne : j ≠ j2 := fun e => hn2 (Or.inr (by simp [e]))
              rw [List.getElem?_set_ne hne] at hg2
              obtain ⟨π2, hst2, hπ2, hP2⟩ := hpend j2 p2 hg2 (fun h => hn2 (Or.inl h))
              exact ⟨π2, hst2, hst2 _ _ hπ2 hG, hP2⟩
    · exact ⟨h0, [], by simp, rfl, by simp, fun j p hg _ => hp j p hg⟩
  obtain ⟨hinv, hist, hnd, hleg, hdone, hpend⟩ := hI
  refine ⟨hinv, hist, hnd, hleg, fun j out => ⟨hdone j out, fun hfin => ?_⟩⟩
  by_cases hj : j ∈ hist.map Prod.fst
  · obtain ⟨⟨j', out'⟩, hm, rfl⟩ := List.mem_map.mp hj
    have := hdone _ _ hm
    rw [hfin] at this
    cases this
    exact hm
  · obtain ⟨π, -, -, hP⟩ := hpend j _ hfin hj
    exact absurd hP (by simp [Pending])

theorem mapRes_mapRes {α β γ' : Type} (f : α → β) (g : β → γ') (p : Prog α) :
    (p.mapRes f).mapRes g = p.mapRes (fun a => g (f a)) := by
  induction p with
  | done a => rfl
  | sys c k ih => simp only [mapRes_sys, ih]

/-- Post-composing the answer: pending for `spec` gives pending for the specification with the
converted answer. -/
theorem Pending.mapRes {γ' : Type} {S : LinSys σ} {env : Env} {spec : σ → σ × γ}
    {spec' : σ → σ × γ'} (f : γ → γ') (hs : ∀ a, spec' a = ((spec a).1, f (spec a).2))
    {p : Prog γ} {π : FS → Prop} (h : Pending S env spec p π) :
    Pending S env spec' (p.mapRes f) π := by
  induction p generalizing π with
  | done a => exact absurd h (by simp [Pending])
  | sys c k ih =>
    rw [mapRes_sys, pending_sys]
    intro s hI hπ
    obtain ⟨h1, h2, h3⟩ := h s hI hπ
    refine ⟨h1, h2, ?_⟩
    rcases h3 with ⟨ha, π', hst, hπ', hP⟩ | ⟨ha, hk⟩
    · exact Or.inl ⟨ha, π', hst, hπ', ih _ hP⟩
    · right
      rw [hs]
      exact ⟨ha, by rw [hk]; rfl⟩

end Generic

/-! ### the index operations linearize to the abstract map -/

section Index
open Refine

/-- What every step of an index operation guarantees to the others: directories stay directories,
regular files stay regular files (their bytes may change). -/
def Grow (s s' : FS) : Prop :=
  ∀ p, (s.get p = some .dir → s'.get p = some .dir) ∧
    (∀ b, s.get p = some (.file b) → ∃ b', s'.get p = some (.file b'))

theorem Grow.refl (s : FS) : Grow s s := fun _ => ⟨fun h => h, fun b h => ⟨b, h⟩⟩

/-- Abstraction = the map a lookup of each key answers (`Refine.absIndex`), invariant = the healthy
index (`Refine.HealthyIndex`), guarantee = `Grow`. -/
def idxSys : LinSys AbsIndex :=
  { abs := absIndex cfg cache, Inv := HealthyIndex cfg cache, G := Grow }

def outIns : Res Integrity → Out
  | .ok s => .inserted s
  | .error e => .failed e

def outDel : Res Unit → Out
  | .ok () => .deleted
  | .error e => .failed e

def outLook : Res (Option Meta) → Out
  | .ok m => .found m
  | .error e => .failed e

/-- An index operation as a process: the library's program, its answer in the common type `Out`. -/
def opProg : IOp → Prog Out
  | .ins key o => (insert cfg cache key o).mapRes outIns
  | .del key => (delete cfg cache key).mapRes outDel
  | .look key => (find cfg cache key).mapRes outLook

/-- Run alone, `opProg` is `Refine.runOp` (the serial semantics of `Refine.index_refines_map`). -/
theorem opProg_run (op : IOp) (fs : FS) :
    runOp cfg cache env op fs = ((run env (opProg cfg cache op) fs).1, (run env (opProg cfg cache op) fs).2.1) := by
  cases op with
  | ins key o =>
    simp only [runOp, opProg, (run_mapRes env outIns _ fs).1, (run_mapRes env outIns _ fs).2]
    cases (run env (insert cfg cache key o) fs).1 <;> rfl
  | del key =>
    simp only [runOp, opProg, (run_mapRes env outDel _ fs).1, (run_mapRes env outDel _ fs).2]
    cases (run env (delete cfg cache key) fs).1 <;> rfl
  | look key =>
    simp only [runOp, opProg, (run_mapRes env outLook _ fs).1, (run_mapRes env outLook _ fs).2]
    cases (run env (find cfg cache key) fs).1 <;> rfl

theorem absIndex_congr {s s' : FS}
    (h : ∀ k, s'.get (bucketPath cfg cache k) = s.get (bucketPath cfg cache k)) :
    absIndex cfg cache s' = absIndex cfg cache s := by
  funext k
  unfold absIndex
  rw [h k]

/-- A lookup is pending for the abstract lookup, knowing nothing. -/
theorem look_pending (key : Bytes) :
    Pending (idxSys cfg cache) env (fun m => specStep env m (.look key))
      (opProg cfg cache (.look key)) (fun _ => True) := by
  unfold opProg find bucketEntries
  simp only [Prog.mapRes, bind_eq, pure_eq, call, bind_sys, bind_done, pending_sys]
  intro s hI _
  simp only [exec]
  rcases hI.buckets key with hn | ⟨b, hb, _⟩
  · rw [readFile_absent (bucket_ne_nil cfg cache key) hn]
    refine ⟨hI, Grow.refl s, Or.inr ⟨rfl, ?_⟩⟩
    have ha : absIndex cfg cache s key = none := by unfold absIndex; rw [hn]
    simp only [specStep, idxSys, ha]
    rfl
  · rw [readFile_of_file (bucket_ne_nil cfg cache key) hb]
    refine ⟨hI, Grow.refl s, Or.inr ⟨rfl, ?_⟩⟩
    have ha : absIndex cfg cache s key = (codec cfg).find b key := by unfold absIndex; rw [hb]
    simp only [specStep, idxSys, ha]
    rfl

/-- `create_dir_all` of a bucket's directory in a healthy index: succeeds, keeps the index
healthy, only grows, changes no lookup, and the directory exists afterwards. -/
theorem healthy_mkdirP (key : Bytes) (s : FS) (h : HealthyIndex cfg cache s) :
    ∃ s1, s.mkdirP (FS.parent (bucketPath cfg cache key)) = .ok s1 ∧ HealthyIndex cfg cache s1 ∧
      Grow s s1 ∧ absIndex cfg cache s1 = absIndex cfg cache s ∧
      s1.get (FS.parent (bucketPath cfg cache key)) = some .dir := by
  obtain ⟨s1, hm, hdir, hframe, hget⟩ := mkdirP_ok s (FS.parent (bucketPath cfg cache key))
    (parent_ne_nil cfg cache key) (fun q hq hp => h.dirs key q hq hp)
  have hbk : ∀ k, s1.get (bucketPath cfg cache k) = s.get (bucketPath cfg cache k) :=
    fun k => hframe _ (Refine.bucket_not_prefix_parent cfg cache key k)
  refine ⟨s1, hm, ⟨?_, ?_⟩, ?_, absIndex_congr cfg cache hbk, hdir⟩
  · intro k q hq hpre
    rcases hget q with h1 | ⟨_, h2⟩
    · unfold NoneOrDir; rw [h1]; exact h.dirs k q hq hpre
    · exact Or.inr h2
  · intro k; rw [hbk k]; exact h.buckets k
  · intro p
    rcases hget p with h1 | ⟨h1, _⟩
    · rw [h1]; exact ⟨fun x => x, fun b x => ⟨b, x⟩⟩
    · rw [h1]; exact ⟨fun x => (nomatch x), fun _ x => (nomatch x)⟩

/-- Opening a bucket for appending in a healthy index whose bucket directory exists: succeeds,
keeps the index healthy, only grows, changes no lookup, and the bucket is a regular file
afterwards. -/
theorem healthy_openAppend (key : Bytes) (s : FS) (h : HealthyIndex cfg cache s)
    (hd : s.get (FS.parent (bucketPath cfg cache key)) = some .dir) :
    (exec env s (.openAppend (bucketPath cfg cache key))).2 = .unit ∧
    HealthyIndex cfg cache (exec env s (.openAppend (bucketPath cfg cache key))).1 ∧
    Grow s (exec env s (.openAppend (bucketPath cfg cache key))).1 ∧
    absIndex cfg cache (exec env s (.openAppend (bucketPath cfg cache key))).1 = absIndex cfg cache s ∧
    ∃ b, (exec env s (.openAppend (bucketPath cfg cache key))).1.get (bucketPath cfg cache key) =
      some (.file b) := by
  rcases h.buckets key with hn | ⟨b, hb, _⟩
  · have hdir : s.isDir (FS.parent (bucketPath cfg cache key)) = true := isDir_of_get hd
    simp only [exec, hn, hdir, if_true]
    refine ⟨trivial, ⟨?_, ?_⟩, ?_, ?_, ⟨[], by simp⟩⟩
    · intro k q hq hpre
      have hne : q ≠ bucketPath cfg cache key := by
        intro e; subst e; exact Refine.bucket_not_prefix_parent cfg cache k key hpre
      unfold NoneOrDir
      rw [FS.get_put_ne _ _ hne]
      exact h.dirs k q hq hpre
    · intro k
      by_cases e : bucketPath cfg cache k = bucketPath cfg cache key
      · rw [e]; exact Or.inr ⟨[], FS.get_put_same _ _ _, (codec_laws cfg).settled_nil⟩
      · rw [FS.get_put_ne _ _ e]; exact h.buckets k
    · intro p
      by_cases e : p = bucketPath cfg cache key
      · subst e; rw [hn]; exact ⟨fun x => (nomatch x), fun _ x => (nomatch x)⟩
      · rw [FS.get_put_ne _ _ e]; exact ⟨fun x => x, fun b x => ⟨b, x⟩⟩
    · funext k
      unfold absIndex
      by_cases e : bucketPath cfg cache k = bucketPath cfg cache key
      · rw [e, hn]; simp; rfl
      · rw [FS.get_put_ne _ _ e]
  · simp only [exec, hb]
    exact ⟨trivial, h, Grow.refl s, trivial, b, rfl⟩

/-- The one `write` of an insertion, on a bucket that is a regular file of a healthy index: the
index stays healthy, only grows, and the abstract map is updated exactly at the key — the
linearization point. -/
theorem healthy_appendWrite (key : Bytes) (o : WriteOpts) (hw : OptsWF key o) (hsri : SriOK cfg o)
    (s : FS) (h : HealthyIndex cfg cache s) (b : Bytes)
    (hb : s.get (bucketPath cfg cache key) = some (.file b)) :
    (∃ n, (exec env s (.appendWrite (bucketPath cfg cache key)
      ((codec cfg).frame (mkRec key o (stamp env o))))).2 = .nat n) ∧
    HealthyIndex cfg cache (exec env s (.appendWrite (bucketPath cfg cache key)
      ((codec cfg).frame (mkRec key o (stamp env o))))).1 ∧
    Grow s (exec env s (.appendWrite (bucketPath cfg cache key)
      ((codec cfg).frame (mkRec key o (stamp env o))))).1 ∧
    absIndex cfg cache (exec env s (.appendWrite (bucketPath cfg cache key)
      ((codec cfg).frame (mkRec key o (stamp env o))))).1 =
      fun k => if k = key then insEntry env key o else absIndex cfg cache s k := by
  have hwf : (mkRec key o (stamp env o)).WF := mkRec_wf key o _ hw (stamp_le env o hw.time)
  have hset : (codec cfg).Settled b := by
    rcases h.buckets key with hn | ⟨b', hb', hs'⟩
    · rw [hn] at hb; cases hb
    · rw [hb'] at hb; cases hb; exact hs'
  simp only [exec, hb]
  refine ⟨⟨_, rfl⟩, ⟨?_, ?_⟩, ?_, ?_⟩
  · intro k q hq hpre
    have hne : q ≠ bucketPath cfg cache key := by
      intro e; subst e; exact Refine.bucket_not_prefix_parent cfg cache k key hpre
    unfold NoneOrDir
    rw [FS.get_put_ne _ _ hne]
    exact h.dirs k q hq hpre
  · intro k
    by_cases e : bucketPath cfg cache k = bucketPath cfg cache key
    · rw [e]; exact Or.inr ⟨_, FS.get_put_same _ _ _, (codec_laws cfg).settled_frame _ _ hwf⟩
    · rw [FS.get_put_ne _ _ e]; exact h.buckets k
  · intro p
    by_cases e : p = bucketPath cfg cache key
    · subst e; simp [hb]
    · rw [FS.get_put_ne _ _ e]; exact ⟨fun x => x, fun b x => ⟨b, x⟩⟩
  · funext k
    by_cases e : bucketPath cfg cache k = bucketPath cfg cache key
    · have h1 : absIndex cfg cache (s.put (bucketPath cfg cache key)
          (.file (b ++ (codec cfg).frame (mkRec key o (stamp env o))))) k =
          (codec cfg).find (b ++ (codec cfg).frame (mkRec key o (stamp env o))) k := by
        unfold absIndex; rw [e]; simp
      have h2 : absIndex cfg cache s k = (codec cfg).find b k := by
        unfold absIndex; rw [e, hb]
      rw [h1, find_append_frame cfg _ hset _ hwf, findStep_mkRec cfg key o _ hsri, ← h2]
      rfl
    · have hk : k ≠ key := fun x => e (by rw [x])
      rw [if_neg hk]
      unfold absIndex
      rw [FS.get_put_ne _ _ e]

/-- An insertion (well-formed options, integrity absent or computed by the library) is pending
for the abstract map update, knowing nothing; its linearization point is its one `write`. -/
theorem ins_pending (key : Bytes) (o : WriteOpts) (hw : OptsWF key o) (hsri : SriOK cfg o) :
    Pending (idxSys cfg cache) env (fun m => specStep env m (.ins key o))
      (opProg cfg cache (.ins key o)) (fun _ => True) := by
  have tail : Pending (idxSys cfg cache) env (fun m => specStep env m (.ins key o))
      ((Prog.bind (appendRec cfg (bucketPath cfg cache key) (mkRec key o (stamp env o))) (fun a =>
          match a with
          | Except.error e => .done (Except.error e)
          | Except.ok () => .done (Except.ok (o.sri.getD defaultSri)))).mapRes outIns)
      (fun s => s.get (FS.parent (bucketPath cfg cache key)) = some .dir) := by
    unfold appendRec
    simp only [bind_eq, pure_eq, call, bind_sys, bind_done, mapRes_sys, pending_sys]
    intro s hI hd
    obtain ⟨hr, hI2, hG, habs, b, hb⟩ := healthy_openAppend cfg env cache key s hI hd
    refine ⟨hI2, hG, Or.inl ⟨habs, fun s => ∃ b, s.get (bucketPath cfg cache key) = some (.file b),
      ?_, ⟨b, hb⟩, ?_⟩⟩
    · rintro a b' ⟨x, hx⟩ hg
      exact (hg _).2 x hx
    · rw [hr]
      simp only [bind_sys, mapRes_sys, pending_sys]
      intro s' hI' hb'
      obtain ⟨b', hb'⟩ := hb'
      obtain ⟨⟨n, hn⟩, hI3, hG3, habs3⟩ := healthy_appendWrite cfg env cache key o hw hsri s' hI' b' hb'
      refine ⟨hI3, hG3, Or.inr ⟨habs3, ?_⟩⟩
      rw [hn]
      rfl
  unfold opProg insert getTime
  simp only [bind_eq, pure_eq, call, bind_sys, bind_done, mapRes_sys, pending_sys]
  intro s hI _
  obtain ⟨s1, hm, hI1, hG1, habs1, hd1⟩ := healthy_mkdirP cfg cache key s hI
  simp only [exec, hm]
  refine ⟨hI1, hG1, Or.inl ⟨habs1, fun s => s.get (FS.parent (bucketPath cfg cache key)) = some .dir,
    ?_, hd1, ?_⟩⟩
  · intro a b ha hg
    exact (hg _).1 ha
  · cases ht : o.time with
    | some t =>
      have hst : stamp env o = t := by simp [stamp, ht]
      rw [hst] at tail
      simp only [bind_done]
      exact tail
    | none =>
      have hst : stamp env o = env.clock % (timeMax + 1) := by simp [stamp, ht]
      rw [hst] at tail
      simp only [bind_sys, mapRes_sys, pending_sys]
      intro s2 hI2 hd2
      simp only [exec]
      refine ⟨hI2, Grow.refl s2, Or.inl ⟨trivial,
        fun s => s.get (FS.parent (bucketPath cfg cache key)) = some .dir, ?_, hd2, ?_⟩⟩
      · intro a b ha hg
        exact (hg _).1 ha
      · simp only [bind_done]
        exact tail

theorem delete_eq_mapRes (key : Bytes) :
    delete cfg cache key = (insert cfg cache key {}).mapRes
      (fun a => match a with | .ok _ => .ok () | .error e => .error e) := by
  unfold delete Prog.mapRes
  simp only [bind_eq, pure_eq]
  congr 1
  funext a
  cases a <;> rfl

/-- A removal (valid UTF-8 key) is pending for the abstract removal. -/
theorem del_pending (key : Bytes) (hk : Json.utf8Valid key = true) :
    Pending (idxSys cfg cache) env (fun m => specStep env m (.del key))
      (opProg cfg cache (.del key)) (fun _ => True) := by
  have h := ins_pending cfg env cache key {} (optsWF_default hk) (sriOK_default cfg)
  have h2 := Pending.mapRes (spec' := fun m => specStep env m (.del key))
    (fun out : Out => match out with | .inserted _ => Out.deleted | x => x) (fun a => rfl) h
  have e : (opProg cfg cache (.ins key {})).mapRes
      (fun out : Out => match out with | .inserted _ => Out.deleted | x => x) =
      opProg cfg cache (.del key) := by
    show ((insert cfg cache key {}).mapRes outIns).mapRes _ = (delete cfg cache key).mapRes outDel
    rw [delete_eq_mapRes, mapRes_mapRes, mapRes_mapRes]
    congr 1
    funext a
    cases a <;> rfl
  rw [e] at h2
  exact h2

/-- Every well-formed index operation is pending for its abstract counterpart. -/
theorem op_pending (op : IOp) (hop : OpWF cfg op) :
    Pending (idxSys cfg cache) env (fun m => specStep env m op) (opProg cfg cache op)
      (fun _ => True) := by
  cases op with
  | ins key o => exact ins_pending cfg env cache key o hop.1 hop.2
  | del key => exact del_pending cfg env cache key hop
  | look key => exact look_pending cfg env cache key

/-- The abstract operation of process `j` of the list `ops` (out of range: a harmless lookup). -/
def specAt (ops : List IOp) (j : Nat) (m : AbsIndex) : AbsIndex × Out :=
  specStep env m (ops.getD j (.look []))

/-- **Any number of concurrent index operations linearize to the abstract map** — every schedule.

Process `j` runs the library's program of `ops[j]` — `insert`, `delete` or `find`, of any keys, in
any mix and number (`opProg`; well-formed arguments `OpWF`: options as Rust's types allow them, an
integrity that is absent or computed by the library, `&str` keys) — from a healthy index
(`Refine.HealthyIndex`; the empty cache is one).  After EVERY schedule:
* the index is healthy again;
* there is a duplicate-free serial history `hist` of the ABSTRACT MAP `key ↦ Option Meta`
  (`Refine.specStep`: insert = update, delete = erase, lookup = read) from the abstraction of the
  initial state to the abstraction of the current state (`Legal`), in which
* exactly the finished processes occur, each with exactly the answer it returned.
So every finished operation's result — writers, removers, readers — is the one it has in ONE
common serial order, and the state every later lookup sees is the one that order produces.
(An unfinished process either has not taken effect or — never, here — has: the linearization
point of every operation is its last call.) -/
theorem index_ops_linearizable (ops : List IOp) (hops : ∀ op ∈ ops, OpWF cfg op) (fs : FS)
    (h : HealthyIndex cfg cache fs) (sched : List Nat) :
    HealthyIndex cfg cache (interleave env (ops.map (opProg cfg cache)) fs sched).2 ∧
    ∃ hist : List (Nat × Out), (hist.map Prod.fst).Nodup ∧
      Legal (specAt env ops) hist (absIndex cfg cache fs)
        (absIndex cfg cache (interleave env (ops.map (opProg cfg cache)) fs sched).2) ∧
      ∀ j out, (j, out) ∈ hist ↔
        FinishedWith env (ops.map (opProg cfg cache)) fs sched j out := by
  refine linearizable_of_pending (idxSys cfg cache) env (specAt env ops) _ fs h ?_ sched
  intro j p hget
  rw [List.getElem?_map] at hget
  cases hj : ops[j]? with
  | none => rw [hj] at hget; cases hget
  | some op =>
    rw [hj] at hget
    cases hget
    refine ⟨fun _ => True, fun _ _ _ _ => trivial, trivial, ?_⟩
    have hm : op ∈ ops := List.mem_of_getElem? hj
    have hsp : specAt env ops j = fun m => specStep env m op := by
      funext m
      unfold specAt
      rw [List.getD_eq_getElem?_getD, hj]
      rfl
    rw [hsp]
    exact op_pending cfg env cache op (hops op hm)

/-- A legal history of the abstract map is a run of `Refine.specRun`. -/
theorem legal_specRun (ops : List IOp) (hist : List (Nat × Out)) (a0 a : AbsIndex)
    (hl : Legal (specAt env ops) hist a0 a) :
    specRun (hist.map (fun x => (env, ops.getD x.1 (.look [])))) a0 = (hist.map Prod.snd, a) := by
  induction hist generalizing a0 with
  | nil => cases hl; rfl
  | cons x hist ih =>
    obtain ⟨j, out⟩ := x
    obtain ⟨h1, h2⟩ := hl
    have := ih _ h2
    simp only [List.map_cons, specRun]
    unfold specAt at h1 this
    rw [this, h1]

/-- **… and to the real programs run one after the other.**  With the hypotheses of
`index_ops_linearizable`, after every schedule there is an order `hist` of exactly the finished
processes (each once, with the answer it returned) such that RUNNING THE LIBRARY'S PROGRAMS SERIALLY
in that order from the initial filesystem (`Refine.runOps`) returns exactly those answers, and
leaves a healthy index in which every lookup of every key answers as in the filesystem the
concurrent execution left. -/
theorem index_ops_serializable (ops : List IOp) (hops : ∀ op ∈ ops, OpWF cfg op) (fs : FS)
    (h : HealthyIndex cfg cache fs) (sched : List Nat) :
    ∃ hist : List (Nat × Out), (hist.map Prod.fst).Nodup ∧
      (∀ j out, (j, out) ∈ hist ↔ FinishedWith env (ops.map (opProg cfg cache)) fs sched j out) ∧
      (runOps cfg cache (hist.map (fun x => (env, ops.getD x.1 (.look [])))) fs).1 =
        hist.map Prod.snd ∧
      (∀ key env', (run env' (find cfg cache key)
          (runOps cfg cache (hist.map (fun x => (env, ops.getD x.1 (.look [])))) fs).2).1 =
        (run env' (find cfg cache key) (interleave env (ops.map (opProg cfg cache)) fs sched).2).1) := by
  obtain ⟨hH, hist, hnd, hleg, hfin⟩ := index_ops_linearizable cfg env cache ops hops fs h sched
  refine ⟨hist, hnd, hfin, ?_⟩
  have hwf : ∀ x ∈ hist.map (fun x => (env, ops.getD x.1 (.look []))), OpWF cfg x.2 := by
    intro x hx
    obtain ⟨y, _, rfl⟩ := List.mem_map.mp hx
    show OpWF cfg (ops.getD y.1 (.look []))
    rw [List.getD_eq_getElem?_getD]
    cases hj : ops[y.1]? with
    | none => trivial
    | some op => exact hops op (List.mem_of_getElem? hj)
  obtain ⟨r1, r2, r3⟩ := index_refines_map cfg cache _ fs h hwf
  have hs := legal_specRun env ops hist _ _ hleg
  rw [hs] at r1 r2
  refine ⟨r1, fun key env' => ?_⟩
  rw [(run_find cfg cache env' key _ r3).1, (run_find cfg cache env' key _ hH).1, r2]

end Index

/-! ### non-vacuity -/

/-- The hypothesis of `lookup_linearizable_insert` holds in the empty filesystem (absent bucket),
for all keys and options … -/
example (key key' : Bytes) (o : WriteOpts) (sched : List Nat) (r : Res (Option Meta))
    (hfin : FinishedWith env [(insert cfg cache key o).mapRes Sum.inl,
      (find cfg cache key').mapRes (Sum.inr : _ → Res Integrity ⊕ Res (Option Meta))] FS.empty sched 1 (.inr r)) :
    r = (run env (find cfg cache key') FS.empty).1 ∨
    r = (run env (find cfg cache key') (run env (insert cfg cache key o) FS.empty).2.1).1 :=
  lookup_linearizable_insert_sum cfg env cache key key' o [] FS.empty (Or.inr ⟨rfl, rfl⟩) sched r hfin

/-- … and `FinishedWith` is satisfiable: under the schedule `[1]` the lookup has finished. -/
example {γ : Type} (f : Res Integrity → γ) (g : Res (Option Meta) → γ) (key key' : Bytes)
    (o : WriteOpts) (fs : FS) :
    FinishedWith env [(insert cfg cache key o).mapRes f, (find cfg cache key').mapRes g] fs [1] 1
      (g (run env (find cfg cache key') fs).1) := by
  unfold FinishedWith
  simp only [interleave, List.getElem?_cons_succ, List.getElem?_cons_zero,
    (find_oneShot cfg env cache key').mapRes g fs, (run_mapRes env g _ fs).1]
  rfl

/-- `lookup_linearizable_insert_explicit`: the empty bucket is settled, the default options with
an ASCII key are well-formed. -/
example (sched : List Nat) (key' : Bytes)
    (hsame : bucketPath cfg cache key' = bucketPath cfg cache [107, 101, 121])
    (c : Res Integrity ⊕ Res (Option Meta))
    (hfin : FinishedWith env [(insert cfg cache [107, 101, 121] {}).mapRes Sum.inl,
      (find cfg cache key').mapRes Sum.inr] FS.empty sched 1 c) :
    c = .inr (.ok ((codec cfg).findIn key' ((codec cfg).entries []))) ∨
    ∃ tm, tm ≤ timeMax ∧ (∀ t, ({} : WriteOpts).time = some t → tm = t) ∧
      c = .inr (.ok ((codec cfg).findIn key' ((codec cfg).entries [] ++ [mkRec [107, 101, 121] {} tm]))) :=
  lookup_linearizable_insert_explicit cfg env cache Sum.inl Sum.inr [107, 101, 121] key' {}
    (optsWF_default (by decide)) hsame [] (codec_laws cfg).settled_nil FS.empty (Or.inr ⟨rfl, rfl⟩)
    sched c hfin

/-- Five processes of three different result types in one list. -/
abbrev exProcs (k1 k2 k3 k4 key' : Bytes) (o1 o2 : WriteOpts) :
    List (Prog ((Res Integrity ⊕ Res Unit) ⊕ Res (Option Meta))) :=
  [(insert cfg cache k1 o1).mapRes (fun x => Sum.inl (Sum.inl x)),
   (insert cfg cache k2 o2).mapRes (fun x => Sum.inl (Sum.inl x)),
   (delete cfg cache k3).mapRes (fun x => Sum.inl (Sum.inr x)),
   (find cfg cache k4).mapRes Sum.inr,
   (find cfg cache key').mapRes Sum.inr]

/-- `lookup_snapshot`: two inserters, a remover and a second reader next to the lookup, any keys,
well-formed options, starting from the empty filesystem. -/
example (k1 k2 k3 k4 key' : Bytes) (o1 o2 : WriteOpts) (h1 : OptsWF k1 o1) (h2 : OptsWF k2 o2)
    (h3 : Json.utf8Valid k3 = true) (sched : List Nat)
    (c : (Res Integrity ⊕ Res Unit) ⊕ Res (Option Meta))
    (hfin : FinishedWith env (exProcs cfg cache k1 k2 k3 k4 key' o1 o2) FS.empty sched 4 c) :
    ∃ rs rs', (∀ r ∈ rs ++ rs', r.WF) ∧
      c = .inr (.ok ((codec cfg).findIn key' ((codec cfg).entries [] ++ rs))) ∧
      BucketIs (interleave env (exProcs cfg cache k1 k2 k3 k4 key' o1 o2) FS.empty sched).2
        (bucketPath cfg cache key') ((codec cfg).appendAll [] (rs ++ rs')) := by
  refine lookup_snapshot cfg env cache _ key' [] (codec_laws cfg).settled_nil _ 4 rfl ?_ FS.empty
    (Or.inr ⟨rfl, rfl⟩) sched c hfin
  have hq := C07.bucket_isBucket cfg cache key'
  intro j p hj hget
  match j, hj, hget with
  | 0, _, hget =>
    cases hget
    exact allCalls_mapRes _ (C07.insert_wholeRecords cfg cache Rec.WF k1 o1 (C07.optsOk_of_wf k1 o1 h1) _ hq)
  | 1, _, hget =>
    cases hget
    exact allCalls_mapRes _ (C07.insert_wholeRecords cfg cache Rec.WF k2 o2 (C07.optsOk_of_wf k2 o2 h2) _ hq)
  | 2, _, hget =>
    cases hget
    apply allCalls_mapRes
    unfold delete
    simp only [bind_eq, pure_eq]
    refine AllCalls.bind (C07.insert_wholeRecords cfg cache Rec.WF k3 {}
      (C07.optsOk_of_wf k3 {} (optsWF_default h3)) _ hq) (fun a => ?_)
    cases a <;> trivial
  | 3, _, hget =>
    cases hget
    exact allCalls_mapRes _ (C07.wholeRecords_of_readOnly cfg Rec.WF (find_ro cfg cache k4) _)
  | 4, hj, _ => exact absurd rfl hj
  | j + 5, _, hget => simp at hget

/-- `index_ops_linearizable` / `index_ops_serializable`: the empty filesystem is a healthy index
for every cache path; four processes — an insertion with a computed integrity, a removal, two
lookups — with well-formed arguments. -/
example (k1 k2 k3 : Bytes) (h1 : Json.utf8Valid k1 = true) (h2 : Json.utf8Valid k2 = true)
    (a : Algo) (data : Bytes) (sched : List Nat) :
    let ops : List Refine.IOp :=
      [.ins k1 { sri := some (Sri.compute cfg.H a data) }, .del k2, .look k3, .look k1]
    ∃ hist : List (Nat × Refine.Out), (hist.map Prod.fst).Nodup ∧
      (∀ j out, (j, out) ∈ hist ↔ FinishedWith env (ops.map (opProg cfg cache)) FS.empty sched j out) ∧
      (Refine.runOps cfg cache (hist.map (fun x => (env, ops.getD x.1 (.look [])))) FS.empty).1 =
        hist.map Prod.snd ∧
      (∀ key env', (run env' (find cfg cache key)
          (Refine.runOps cfg cache (hist.map (fun x => (env, ops.getD x.1 (.look [])))) FS.empty).2).1 =
        (run env' (find cfg cache key) (interleave env (ops.map (opProg cfg cache)) FS.empty sched).2).1) := by
  intro ops
  refine index_ops_serializable cfg env cache ops ?_ FS.empty
    (Refine.healthy_of_empty_cache cfg cache FS.empty (fun _ _ _ => Or.inl rfl) (fun _ _ _ => rfl)) sched
  intro op hop
  simp only [ops, List.mem_cons, List.not_mem_nil, or_false] at hop
  rcases hop with rfl | rfl | rfl | rfl
  · exact ⟨(optsWF_default h1).with_computed cfg.H a data, Or.inr ⟨a, data, rfl⟩⟩
  · exact h2
  · trivial
  · trivial

/-- … and processes do finish: under the schedule `[1]` the lookup (process 1) has. -/
example (key key' : Bytes) (o : WriteOpts) (fs : FS) :
    FinishedWith env ([Refine.IOp.ins key o, .look key'].map (opProg cfg cache)) fs [1] 1
      (outLook (run env (find cfg cache key') fs).1) := by
  unfold FinishedWith
  simp only [List.map_cons, List.map_nil, opProg, interleave, List.getElem?_cons_succ,
    List.getElem?_cons_zero, (find_oneShot cfg env cache key').mapRes outLook fs,
    (run_mapRes env outLook _ fs).1]
  rfl

end Linearize
end Cacache

#print axioms Cacache.Linearize.interleave_config_invariant
#print axioms Cacache.Linearize.two_proc_linearizable
#print axioms Cacache.Linearize.observer_linearizable
#print axioms Cacache.Linearize.observer_serial
#print axioms Cacache.Linearize.lookup_linearizable_insert
#print axioms Cacache.Linearize.lookup_linearizable_delete
#print axioms Cacache.Linearize.lookup_linearizable_insert_sum
#print axioms Cacache.Linearize.lookup_linearizable_delete_sum
#print axioms Cacache.Linearize.insert_find_serial
#print axioms Cacache.Linearize.delete_find_serial
#print axioms Cacache.Linearize.lookup_linearizable_insert_explicit
#print axioms Cacache.Linearize.lookup_linearizable_delete_explicit
#print axioms Cacache.Linearize.lookup_other_key_unaffected
#print axioms Cacache.Linearize.lookup_snapshot
#print axioms Cacache.Linearize.snapshot_is_serial
#print axioms Cacache.Linearize.linearizable_of_pending
#print axioms Cacache.Linearize.op_pending
#print axioms Cacache.Linearize.index_ops_linearizable
#print axioms Cacache.Linearize.index_ops_serializable
