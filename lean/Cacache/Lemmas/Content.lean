/-
The content-store invariant and what preserves it.
-/
import Cacache.Ops
import Cacache.Lemmas.FS
import Cacache.Lemmas.B64
import Cacache.Lemmas.Ops

namespace Cacache
open Prog

/-- `<cache>/content-v2/<algo>/<hex[0..2]>/<hex[2..4]>/<hex[4..]>`. -/
def addrPath (cache : Path) (a : Algo) (hexd : Bytes) : Path :=
  cache ++ [dContent, a.name, hexd.take 2, (hexd.drop 2).take 2, hexd.drop 4]

def IsAddr (cache : Path) (q : Path) : Prop :=
  ∃ a hexd, 4 ≤ hexd.length ∧ q = addrPath cache a hexd

/-- **Every regular file in the content area holds data whose digest is its address.** -/
def ContentValid (cfg : Cfg) (cache : Path) (fs : FS) : Prop :=
  ∀ a hexd b, 4 ≤ hexd.length → fs.get (addrPath cache a hexd) = some (.file b) →
    hexd = Bytes.hex (cfg.H a b)

theorem addrPath_length (cache : Path) (a : Algo) (h : Bytes) :
    (addrPath cache a h).length = cache.length + 5 := by simp [addrPath]

theorem not_isAddr_of_length {cache q : Path} (h : q.length ≠ cache.length + 5) : ¬ IsAddr cache q := by
  rintro ⟨a, hexd, _, rfl⟩; exact h (addrPath_length _ _ _)

theorem Algo.name_injective {a b : Algo} (h : a.name = b.name) : a = b := by
  cases a <;> cases b <;> first | rfl | (simp [Algo.name] at h)

theorem recombine (h : Bytes) : h.take 2 ++ ((h.drop 2).take 2 ++ h.drop 4) = h := by
  have : h.drop 4 = (h.drop 2).drop 2 := by simp
  rw [this, List.take_append_drop, List.take_append_drop]

theorem addrPath_injective {cache : Path} {a a' : Algo} {h h' : Bytes}
    (he : addrPath cache a h = addrPath cache a' h') : a = a' ∧ h = h' := by
  unfold addrPath at he
  have he' := List.append_cancel_left he
  simp only [List.cons.injEq, and_true] at he'
  obtain ⟨_, hn, h1, h2, h3⟩ := he'
  refine ⟨Algo.name_injective hn, ?_⟩
  rw [← recombine h, ← recombine h', h1, h2, h3]

/-- What `content_path` computes for the integrity of some data. -/
theorem contentPath_compute (cfg : Cfg) (cache : Path) (a : Algo) (data : Bytes) :
    contentPath cache (Sri.compute cfg.H a data) =
      if (Bytes.hex (cfg.H a data)).length < 4 then none
      else some (addrPath cache a (Bytes.hex (cfg.H a data))) := by
  unfold contentPath Sri.compute Sri.toHex
  simp [B64.decode_encode, addrPath]

/-- Files only: if every content-area file of `fs'` was already there in `fs`, validity carries
over. -/
theorem ContentValid.of_files {cfg : Cfg} {cache : Path} {fs fs' : FS}
    (hv : ContentValid cfg cache fs)
    (h : ∀ q b, IsAddr cache q → fs'.get q = some (.file b) → fs.get q = some (.file b)) :
    ContentValid cfg cache fs' := by
  intro a hexd b hl hg
  exact hv a hexd b hl (h _ b ⟨a, hexd, hl, rfl⟩ hg)

/-- A call none of whose file targets is a content address preserves validity — whether it
succeeds, fails half-way, or is torn by a kill. -/
theorem step_contentValid {cfg : Cfg} {cache : Path} {env : Env} {fs fs' : FS} {c : Call} {r : Ret}
    (hs : Step env fs c fs' r) (hnot : ∀ q ∈ c.fileTargets fs, ¬ IsAddr cache q)
    (hv : ContentValid cfg cache fs) : ContentValid cfg cache fs' := by
  apply hv.of_files
  intro q b hq hg
  rcases step_files env fs fs' c r hs q b hg with h | h
  · exact h
  · exact absurd hq (hnot q h)

theorem torn_contentValid {cfg : Cfg} {cache : Path} {env : Env} {fs : FS} {c : Call} (t : Nat)
    (hnot : ∀ q ∈ c.fileTargets fs, ¬ IsAddr cache q)
    (hv : ContentValid cfg cache fs) : ContentValid cfg cache (execTorn env fs t c) := by
  apply hv.of_files
  intro q b hq hg
  rcases torn_files env fs t c q b hg with h | h
  · exact h
  · exact absurd hq (hnot q h)

/-- The one call that *does* create a content file: publishing a temp file whose bytes hash to
the address it is renamed to. -/
theorem rename_contentValid {cfg : Cfg} {cache : Path} {env : Env} {fs : FS} {tmp : Path}
    {a : Algo} {f : Bytes} (hv : ContentValid cfg cache fs)
    (hl : 4 ≤ (Bytes.hex (cfg.H a f)).length) (ht : fs.get tmp = some (.file f)) :
    ContentValid cfg cache (exec env fs (.rename tmp (addrPath cache a (Bytes.hex (cfg.H a f))))).1 := by
  simp only [exec, ht]
  split
  · exact hv
  · split
    · exact hv
    · intro a' hexd' b' hl' hg
      rw [FS.get_put] at hg
      split at hg
      · rename_i heq
        obtain ⟨rfl, rfl⟩ := addrPath_injective heq
        cases hg; rfl
      · rw [FS.get_del] at hg
        split at hg
        · cases hg
        · exact hv a' hexd' b' hl' hg

/-- The state after a successful publication is valid. -/
theorem publish_contentValid {cfg : Cfg} {cache : Path} {fs : FS} (tmp : Path)
    (a : Algo) (f : Bytes) (hv : ContentValid cfg cache fs) :
    ContentValid cfg cache ((fs.del tmp).put (addrPath cache a (Bytes.hex (cfg.H a f))) (.file f)) := by
  intro a' hexd' b' hl' hg
  rw [FS.get_put] at hg
  split at hg
  · rename_i heq
    obtain ⟨rfl, rfl⟩ := addrPath_injective heq
    cases hg; rfl
  · rw [FS.get_del] at hg
    split at hg
    · cases hg
    · exact hv a' hexd' b' hl' hg

end Cacache
