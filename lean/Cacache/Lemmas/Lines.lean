/-
Helper lemmas about line splitting: the cut lemma and its consequences.
-/
import Cacache.Lines

namespace Cacache

theorem splitNL_ne_nil (b : Bytes) : splitNL b ≠ [] := by
  induction b with
  | nil => simp [splitNL]
  | cons x xs ih =>
    unfold splitNL
    split
    · simp
    · split <;> simp

theorem splitNL_cons_nl (bs : Bytes) : splitNL (NL :: bs) = [] :: splitNL bs := by
  simp [splitNL]

theorem splitNL_cons_ne (b : UInt8) (bs : Bytes) (h : b ≠ NL) (l : Bytes) (ls : List Bytes)
    (hs : splitNL bs = l :: ls) : splitNL (b :: bs) = (b :: l) :: ls := by
  rw [splitNL]; simp [h, hs]

/-- A byte string without newline is a single segment. -/
theorem splitNL_no_nl (a : Bytes) (h : NL ∉ a) : splitNL a = [a] := by
  induction a with
  | nil => rfl
  | cons x xs ih =>
    have hx : x ≠ NL := fun e => h (by simp [e])
    have hxs : NL ∉ xs := fun m => h (by simp [m])
    exact splitNL_cons_ne _ _ hx _ _ (ih hxs)

/-- **Cut lemma**: a newline cuts the file into two independently split halves. -/
theorem splitNL_append_nl (a c : Bytes) :
    splitNL (a ++ NL :: c) = splitNL a ++ splitNL c := by
  induction a with
  | nil => simp [splitNL]
  | cons x xs ih =>
    by_cases hx : x = NL
    · subst hx
      simp only [List.cons_append, splitNL_cons_nl, ih]
    · cases h : splitNL xs with
      | nil => exact absurd h (splitNL_ne_nil xs)
      | cons l ls =>
        rw [splitNL_cons_ne _ _ hx _ _ h]
        simp only [List.cons_append]
        rw [splitNL_cons_ne x (xs ++ NL :: c) hx l (ls ++ splitNL c) (by rw [ih, h]; rfl)]

/-- General form: appending newline-free bytes extends the last segment. -/
theorem splitNL_append_no_nl (a x : Bytes) (h : NL ∉ x) :
    ∃ init last, splitNL a = init ++ [last] ∧ splitNL (a ++ x) = init ++ [last ++ x] := by
  induction a with
  | nil => exact ⟨[], [], by simp [splitNL], by simp [splitNL_no_nl x h]⟩
  | cons y ys ih =>
    obtain ⟨init, last, h1, h2⟩ := ih
    by_cases hy : y = NL
    · subst hy
      refine ⟨[] :: init, last, ?_, ?_⟩
      · simp [splitNL_cons_nl, h1]
      · simp [splitNL_cons_nl, h2]
    · cases init with
      | nil =>
        refine ⟨[], y :: last, ?_, ?_⟩
        · exact splitNL_cons_ne _ _ hy _ _ (by simpa using h1)
        · exact splitNL_cons_ne _ _ hy _ _ (by simpa using h2)
      | cons i is =>
        refine ⟨(y :: i) :: is, last, ?_, ?_⟩
        · exact splitNL_cons_ne _ _ hy _ _ (by simpa using h1)
        · exact splitNL_cons_ne _ _ hy _ _ (by simpa using h2)

variable (valid : Bytes → Bool)

theorem linesOfSegs_append_last (segs : List Bytes) (s : Bytes) :
    linesOfSegs valid (segs ++ [s]) = linesT valid segs ++ lineU valid s := by
  induction segs with
  | nil => simp [linesOfSegs, linesT]
  | cons x xs ih =>
    cases hxs : xs ++ [s] with
    | nil => simp at hxs
    | cons y ys =>
      simp only [List.cons_append, hxs, linesOfSegs]
      rw [← hxs, ih]
      simp [linesT]

theorem linesOfSegs_append (segs segs' : List Bytes) (h : segs' ≠ []) :
    linesOfSegs valid (segs ++ segs') = linesT valid segs ++ linesOfSegs valid segs' := by
  induction segs with
  | nil => simp [linesT]
  | cons x xs ih =>
    cases hxs : xs ++ segs' with
    | nil => simp [h] at hxs
    | cons y ys =>
      simp only [List.cons_append, hxs, linesOfSegs]
      rw [← hxs, ih]
      simp [linesT]

/-- Lines of `a ++ "\n" ++ c`: every segment of `a` becomes a terminated line. -/
theorem lines_append_nl (a c : Bytes) :
    lines valid (a ++ NL :: c) = linesT valid (splitNL a) ++ lines valid c := by
  unfold lines
  rw [splitNL_append_nl, linesOfSegs_append _ _ _ (splitNL_ne_nil c)]

/-- Lines of a non-empty newline-free tail. -/
theorem lines_no_nl (x : Bytes) (h : NL ∉ x) : lines valid x = lineU valid x := by
  unfold lines; rw [splitNL_no_nl x h]; rfl

end Cacache
