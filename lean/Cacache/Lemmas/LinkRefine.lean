/-
Total correctness of the link commit (`lcommit`, the model of `link_to`'s `commit`) in the healthy
semantics `Prog.run`, for linkers without declared size / integrity (`l.opts.size = none`,
`l.opts.sri = none`), by address (`l.key = none`) and keyed (`l.key = some k`).

The cases of what lives at the content address of the target's bytes:
* `relink_replaces_old_link` (+ `_keyed`) — an earlier link that does NOT already lead to the
  target's file (`NotSameFile`: stale, dangling, pointing elsewhere; checkable forms
  `notSameFile_of_dangling` — a dangling occupant, whatever the new target — and
  `notSameFile_of_ne`): the commit succeeds and the address is re-pointed at `l.target` through the
  temp link `cache/tmp/#<next>` + `rename`; `relink_tmp_clean`: nothing is left in `cache/tmp`;
  `relink_keeps_existing`: every other existing node is unchanged.
* `relink_same_file_kept` (+ `_keyed`) — an earlier link that already leads to the target's file
  (`SameFile`, what the `sameFile` call answers `true` on; checkable form `sameFile_of_eq`): the
  commit succeeds, the link is kept as it is, `cache/tmp` is not touched (no `ht` needed, the temp
  counter does not move).
* `link_fresh_address` (+ `_keyed`) — nothing: the commit succeeds, the address links to `l.target`.
* `link_keeps_regular_content` (+ `_keyed`) — a regular file: the commit succeeds, the file stays.
Reading back, for an earlier link of EITHER kind (no `SameFile` / `NotSameFile` hypothesis: with
the target a regular file the two cases are exhaustive, `same_or_not`):
`relinked_address_reads_target` (`open` of the address), `relinked_address_readHash` (the library's
verified `read_hash`), `relinked_key_reads_target` (keyed: `read` of the key).

`NotSameFile fs p t` is stated on the filesystem BEFORE the commit although `sameFile` is called
after `create_dir_all` of the address's directory: directories created on the way change no link
(`resolve_linkEq`), so both paths resolve alike; the only thing that can change is that a common,
absent destination comes into existence as one of those directories — hence the clause
`¬ a <+: FS.parent p` (a link at the address that points at an absent ancestor directory of the
address, with the new target naming the same path: not a situation `link_to` can be in, the target
having just been read as a file, but the model does not know that).

Hypotheses, all explicit: `hcp` — the address exists (`content_path` does not panic: ≥ 4 hex
digits); `hd` — every ancestor of the address is absent or a directory; `ht` (relink only) — so are
`cache/tmp` and its ancestors (`Refine.mkdirP_ok` needs exactly this for `create_dir_all`; the
filesystem model has no global well-formedness invariant from which it would follow, not even from
"a link lives at the address"); keyed: `hI` — `Refine.HealthyIndex` (ancestors of buckets creatable,
buckets absent or settled files).  The frame is stated with `Grow` / `Grow2` / `Grow3`: a path keeps
its node or turns from absent into a directory on the way to one of the directories the commit
creates (address's directory, `cache/tmp`, bucket's directory).

One remark on the frame of the relink: the temp name is `cache/tmp/#<fs.next>` and the model's
`mkTempLink` (like `mkTemp`) writes it without looking; so that one path is `none` afterwards even if
a stale node had been seeded under exactly that name — it is excluded from the frame and covered by
`get … = none` instead (as in `CacheRefine.PutFrame` / `TmpClean` for writers).  With
`fs.get (cache/tmp/#<fs.next>) = none` (the name is fresh) the path is simply unchanged.
-/
import Cacache.Lemmas.CacheRefine

namespace Cacache.LinkRefine
open Prog Refine CacheRefine

variable (cfg : Cfg) (env : Env)

/-! ### shapes -/

/-- A content path of a computed integrity is the address path of its algorithm and hex digest. -/
theorem cpath_eq {cache : Path} {a : Algo} {d : Bytes} {cpath : Path}
    (h : contentPath cache (Sri.compute cfg.H a d) = some cpath) :
    cpath = addrPath cache a (Bytes.hex (cfg.H a d)) := by
  rw [contentPath_compute] at h
  split at h
  · cases h
  · cases h; rfl

/-- What follows the link phase of a link commit without declared size / integrity: the index
insertion of a keyed linker, nothing for a by-address linker. -/
def indexTail (l : Linker) (sri : Integrity) : Prog (Res Integrity) :=
  match l.key with
  | some k => insert cfg l.cache k { l.opts with sri := some sri, size := some l.data.length }
  | none => pure (.ok sri)

/-- **Link phase, free address.** -/
theorem fresh_phase (l : Linker) (fs : FS) (cpath : Path)
    (hcp : contentPath l.cache (Sri.compute cfg.H l.algo l.data) = some cpath)
    (hs : l.opts.sri = none) (hz : l.opts.size = none)
    (hd : ∀ q, q ≠ [] → q <+: FS.parent cpath → NoneOrDir fs q)
    (hfree : fs.get cpath = none) :
    ∃ fsL, fsL.get cpath = some (.link l.target) ∧
      (∀ q, q ≠ cpath → Grow fs fsL q (FS.parent cpath)) ∧ fsL.next = fs.next ∧
      (run env (lcommit cfg l) fs).1 =
        (run env (indexTail cfg l (Sri.compute cfg.H l.algo l.data)) fsL).1 ∧
      (run env (lcommit cfg l) fs).2.1 =
        (run env (indexTail cfg l (Sri.compute cfg.H l.algo l.data)) fsL).2.1 := by
  have hc := cpath_eq cfg hcp
  obtain ⟨fs1, hm, hdir, hframe, hget⟩ := mkdirP_ok fs (FS.parent cpath)
    (by rw [hc]; exact parent_addr_ne_nil _ _ _) hd
  have h1c : fs1.get cpath = none := by
    rw [hframe _ (by rw [hc]; exact addr_not_prefix_parent _ _ _ _ _)]; exact hfree
  have hisd : fs1.isDir (FS.parent cpath) = true := isDir_of_get hdir
  refine ⟨fs1.put cpath (.link l.target), FS.get_put_same _ _ _, ?_, ?_, ?_⟩
  · intro q hq
    unfold Grow
    rw [FS.get_put_ne _ _ hq]
    rcases hget q with h1 | ⟨h1, h2⟩
    · exact Or.inl h1
    · refine Or.inr ⟨h1, h2, ?_⟩
      apply Classical.byContradiction
      intro hn
      rw [hframe q hn, h1] at h2
      cases h2
  · exact mkdirLevels_next fs fs1 _ _ hm
  · unfold lcommit indexTail
    simp only [hcp, bind_eq, pure_eq, call, bind_sys, bind_done, run_sys_res, run_sys_fs, exec, hm,
      h1c, hisd, hs, hz, Option.isSome_none, Bool.false_eq_true, if_false, Bool.not_true,
      Option.getD_none]
    exact ⟨rfl, rfl⟩

/-! ### the calls of the relink leg -/

/-- The filesystem after `mkTempLink`: a link to `t` under the fresh name, the counter advanced. -/
def withTmpLink (fs : FS) (dir : Path) (t : Target) : FS :=
  { (fs.put (dir ++ [tmpName fs.next]) (.link t)) with next := fs.next + 1 }

theorem get_withTmpLink (fs : FS) (dir : Path) (t : Target) (q : Path) :
    (withTmpLink fs dir t).get q = if q = dir ++ [tmpName fs.next] then some (.link t) else fs.get q := by
  simp [withTmpLink, FS.put]

theorem exec_mkTempLink_ok (fs : FS) (dir : Path) (t : Target) (h : fs.isDir dir = true) :
    exec env fs (.mkTempLink dir t) = (withTmpLink fs dir t, .path (dir ++ [tmpName fs.next])) := by
  simp [exec, h, withTmpLink]

theorem exec_renameLink_ok (fs : FS) (src dst : Path) (t : Target)
    (hs : fs.get src = some (.link t)) (hp : fs.isDir (FS.parent dst) = true)
    (hd : fs.get dst ≠ some .dir) :
    exec env fs (.renameLink src dst) = ((fs.del src).put dst (.link t), .unit) := by
  have : (fs.get dst == some Node.dir) = false := by
    cases hx : fs.get dst with
    | none => rfl
    | some n =>
      cases n with
      | dir => rw [hx] at hd; exact absurd rfl hd
      | file _ => rfl
      | link _ => rfl
  simp [exec, hs, hp, this]

/-- `q` keeps its node or turns from absent into a directory on the way to `d1` or to `d2`. -/
def Grow2 (fs fs' : FS) (q d1 d2 : Path) : Prop :=
  fs'.get q = fs.get q ∨ (fs.get q = none ∧ fs'.get q = some .dir ∧ (q <+: d1 ∨ q <+: d2))

/-! ### `sameFile`: does the occupant of the address already lead to the file being linked? -/

theorem resolve_succ_link {fs : FS} {p : Path} {t : Target} (n : Nat)
    (h : fs.get p = some (.link t)) :
    FS.resolve fs (n + 1) p = FS.resolve fs n (FS.targetPath p t) := by
  simp only [FS.resolve, h]

theorem resolve_succ_nonlink {fs : FS} {p : Path} (n : Nat) (h : ∀ t, fs.get p ≠ some (.link t)) :
    FS.resolve fs (n + 1) p = some p := by
  -- the equation of the non-link case has the side condition `h`, which `simp` discharges
  simp only [FS.resolve]

/-- Two filesystems with the same symbolic links (at the same paths, with the same text) resolve
every path alike. -/
theorem resolve_linkEq {fs fs' : FS}
    (h : ∀ q t, fs'.get q = some (.link t) ↔ fs.get q = some (.link t)) :
    ∀ n p, FS.resolve fs' n p = FS.resolve fs n p := by
  intro n
  induction n with
  | zero => intro p; rfl
  | succ n ih =>
    intro p
    by_cases hl : ∃ t, fs.get p = some (.link t)
    · obtain ⟨t, ht⟩ := hl
      rw [resolve_succ_link n ht, resolve_succ_link n ((h p t).mpr ht)]
      exact ih _
    · rw [resolve_succ_nonlink n (fun t ht => hl ⟨t, ht⟩),
        resolve_succ_nonlink n (fun t ht => hl ⟨t, (h p t).mp ht⟩)]

/-- Paths that keep their node or turn from absent into a directory keep the links. -/
theorem linkEq_of_grow {fs fs' : FS}
    (h : ∀ q, fs'.get q = fs.get q ∨ (fs.get q = none ∧ fs'.get q = some .dir)) :
    ∀ q t, fs'.get q = some (.link t) ↔ fs.get q = some (.link t) := by
  intro q t
  rcases h q with g | ⟨g1, g2⟩
  · rw [g]
  · rw [g1, g2]; constructor <;> (intro e; cases e)

/-- The answer of `sameFile p t`. -/
def sameB (fs : FS) (p : Path) (t : Target) : Bool :=
  match FS.resolve fs FS.resolveFuel p, FS.resolve fs FS.resolveFuel (FS.targetPath p t) with
  | some a, some b => a == b && (fs.get a).isSome
  | _, _ => false

theorem exec_sameFile (fs : FS) (p : Path) (t : Target) :
    exec env fs (.sameFile p t) = (fs, .bool (sameB fs p t)) := by
  simp only [exec, sameB]
  generalize FS.resolve fs FS.resolveFuel p = x
  generalize FS.resolve fs FS.resolveFuel (FS.targetPath p t) = y
  cases x <;> cases y <;> rfl

/-- **The occupant of `p` and the link text `t` (read at `p`) lead to the same existing node** —
what `sameFile p t` answers `true` on (`canonicalize` of both succeeds and agrees). -/
def SameFile (fs : FS) (p : Path) (t : Target) : Prop :=
  ∃ a, FS.resolve fs FS.resolveFuel p = some a ∧
    FS.resolve fs FS.resolveFuel (FS.targetPath p t) = some a ∧ (fs.get a).isSome = true

/-- **The occupant of `p` does not lead to the existing node that `t` leads to**: should both lead
to one path, nothing exists there (a dangling pair) — and, the check being made after
`create_dir_all` of `p`'s directory, that path is not one of the directories on the way to `p`. -/
def NotSameFile (fs : FS) (p : Path) (t : Target) : Prop :=
  ∀ a, FS.resolve fs FS.resolveFuel p = some a →
    FS.resolve fs FS.resolveFuel (FS.targetPath p t) = some a →
    fs.get a = none ∧ ¬ a <+: FS.parent p

/-- Checkable form 1: **a dangling occupant** (its destination is absent and not a directory about
to be created) never is the same file — whatever the new target. -/
theorem notSameFile_of_dangling {fs : FS} {p : Path} {t0 : Target} (t : Target)
    (hold : fs.get p = some (.link t0)) (hgone : fs.get (FS.targetPath p t0) = none)
    (hnp : ¬ FS.targetPath p t0 <+: FS.parent p) : NotSameFile fs p t := by
  intro a ha _
  have : FS.resolve fs FS.resolveFuel p = some (FS.targetPath p t0) := by
    unfold FS.resolveFuel
    rw [resolve_succ_link _ hold, resolve_succ_nonlink _ (by rw [hgone]; intro t e; cases e)]
  rw [this] at ha
  cases ha
  exact ⟨hgone, hnp⟩

/-- Checkable form 2: neither the occupant's destination nor the new target is itself a link, and
they are different paths. -/
theorem notSameFile_of_ne {fs : FS} {p : Path} {t0 t : Target}
    (hold : fs.get p = some (.link t0))
    (hn0 : ∀ t', fs.get (FS.targetPath p t0) ≠ some (.link t'))
    (hn1 : ∀ t', fs.get (FS.targetPath p t) ≠ some (.link t'))
    (hne : FS.targetPath p t0 ≠ FS.targetPath p t) : NotSameFile fs p t := by
  intro a ha hb
  have h0 : FS.resolve fs FS.resolveFuel p = some (FS.targetPath p t0) := by
    unfold FS.resolveFuel
    rw [resolve_succ_link _ hold, resolve_succ_nonlink _ hn0]
  have h1 : FS.resolve fs FS.resolveFuel (FS.targetPath p t) = some (FS.targetPath p t) := by
    unfold FS.resolveFuel
    rw [resolve_succ_nonlink _ hn1]
  rw [h0] at ha; rw [h1] at hb
  cases ha
  exact absurd (Option.some.inj hb).symm hne

/-- Checkable form of `SameFile`: the occupant's text and the new target name one path, which
holds a node that is not a link (e.g. the regular file being linked). -/
theorem sameFile_of_eq {fs : FS} {p : Path} {t0 t : Target}
    (hold : fs.get p = some (.link t0))
    (he : FS.targetPath p t0 = FS.targetPath p t)
    (hex : (fs.get (FS.targetPath p t)).isSome = true)
    (hn1 : ∀ t', fs.get (FS.targetPath p t) ≠ some (.link t')) : SameFile fs p t := by
  refine ⟨FS.targetPath p t, ?_, ?_, hex⟩
  · unfold FS.resolveFuel
    rw [resolve_succ_link _ hold, he, resolve_succ_nonlink _ hn1]
  · unfold FS.resolveFuel
    rw [resolve_succ_nonlink _ hn1]

/-- The answer of `sameFile` after `create_dir_all` of the address's directory. -/
theorem sameB_false_of_not {fs fs1 : FS} {p : Path} {t : Target} (h : NotSameFile fs p t)
    (hframe : ∀ q, ¬ q <+: FS.parent p → fs1.get q = fs.get q)
    (hget : ∀ q, fs1.get q = fs.get q ∨ (fs.get q = none ∧ fs1.get q = some .dir)) :
    sameB fs1 p t = false := by
  have hr := resolve_linkEq (linkEq_of_grow hget)
  unfold sameB
  rw [hr, hr]
  cases ha : FS.resolve fs FS.resolveFuel p with
  | none => rfl
  | some a =>
    cases hb : FS.resolve fs FS.resolveFuel (FS.targetPath p t) with
    | none => rfl
    | some b =>
      simp only
      by_cases e : a = b
      · subst e
        obtain ⟨g1, g2⟩ := h a ha hb
        rw [hframe a g2, g1]
        simp
      · simp [e]

theorem sameB_true_of_same {fs fs1 : FS} {p : Path} {t : Target} (h : SameFile fs p t)
    (hget : ∀ q, fs1.get q = fs.get q ∨ (fs.get q = none ∧ fs1.get q = some .dir)) :
    sameB fs1 p t = true := by
  have hr := resolve_linkEq (linkEq_of_grow hget)
  obtain ⟨a, ha, hb, hex⟩ := h
  unfold sameB
  rw [hr, hr, ha, hb]
  have : (fs1.get a).isSome = true := by
    rcases hget a with g | ⟨g, _⟩
    · rw [g]; exact hex
    · rw [g] at hex; cases hex
  simp [this]

/-- **Link phase, an earlier link at the address that does not lead to the target's file**
(stale, dangling, pointing elsewhere): the address is re-pointed at `l.target` by a temp link
`cache/tmp/#<next>` renamed over it. -/
theorem relink_phase (l : Linker) (fs : FS) (cpath : Path) (t0 : Target)
    (hcp : contentPath l.cache (Sri.compute cfg.H l.algo l.data) = some cpath)
    (hs : l.opts.sri = none) (hz : l.opts.size = none)
    (hd : ∀ q, q ≠ [] → q <+: FS.parent cpath → NoneOrDir fs q)
    (ht : ∀ q, q ≠ [] → q <+: l.cache ++ [dTmp] → NoneOrDir fs q)
    (hold : fs.get cpath = some (.link t0)) (hns : NotSameFile fs cpath l.target) :
    ∃ fsL, fsL.get cpath = some (.link l.target) ∧
      fsL.get ((l.cache ++ [dTmp]) ++ [tmpName fs.next]) = none ∧
      (∀ q, q ≠ cpath → q ≠ (l.cache ++ [dTmp]) ++ [tmpName fs.next] →
        Grow2 fs fsL q (FS.parent cpath) (l.cache ++ [dTmp])) ∧
      fsL.next = fs.next + 1 ∧
      (run env (lcommit cfg l) fs).1 =
        (run env (indexTail cfg l (Sri.compute cfg.H l.algo l.data)) fsL).1 ∧
      (run env (lcommit cfg l) fs).2.1 =
        (run env (indexTail cfg l (Sri.compute cfg.H l.algo l.data)) fsL).2.1 := by
  have hc := cpath_eq cfg hcp
  obtain ⟨fs1, hm, hdir, hframe, hget⟩ := mkdirP_ok fs (FS.parent cpath)
    (by rw [hc]; exact parent_addr_ne_nil _ _ _) hd
  have h1c : fs1.get cpath = some (.link t0) := by
    rw [hframe _ (by rw [hc]; exact addr_not_prefix_parent _ _ _ _ _)]; exact hold
  have ht1 : ∀ q, q ≠ [] → q <+: l.cache ++ [dTmp] → NoneOrDir fs1 q := by
    intro q hq hp
    rcases hget q with h1 | ⟨_, h2⟩
    · unfold NoneOrDir; rw [h1]; exact ht q hq hp
    · exact Or.inr h2
  obtain ⟨fs2, hm2, hdir2, hframe2, hget2⟩ := mkdirP_ok fs1 (l.cache ++ [dTmp])
    (tmpDir_ne_nil l.cache) ht1
  have hnext : fs2.next = fs.next :=
    (mkdirLevels_next fs1 fs2 _ _ hm2).trans (mkdirLevels_next fs fs1 _ _ hm)
  have h2c : fs2.get cpath = some (.link t0) := by
    rw [hframe2 _ (by rw [hc]; exact addr_not_prefix_tmpDir _ _ _)]; exact h1c
  have h2p : fs2.get (FS.parent cpath) = some .dir := by
    rcases hget2 (FS.parent cpath) with h1 | ⟨_, h2⟩
    · rw [h1]; exact hdir
    · exact h2
  -- the temp link
  have hpc : (l.cache ++ [dTmp]) ++ [tmpName fs.next] ≠ cpath := by
    rw [hc]; exact tmp_ne_addr _ _ _ _
  have hpp : (l.cache ++ [dTmp]) ++ [tmpName fs.next] ≠ FS.parent cpath := by
    intro e
    have : (l.cache ++ [dTmp]) ++ [tmpName fs.next] <+: FS.parent cpath := e ▸ List.prefix_refl _
    rw [hc] at this
    exact tmp_not_prefix_parent_addr _ _ _ _ this
  have h3 := get_withTmpLink fs2 (l.cache ++ [dTmp]) l.target
  rw [hnext] at h3
  have hE0 : exec env fs (.mkdirP (FS.parent cpath)) = (fs1, .unit) := by simp [exec, hm]
  have hE1 : exec env fs1 (.symlink l.target cpath) = (fs1, .err .exists) := by simp [exec, h1c]
  have hE2 : exec env fs1 (.isLink cpath) = (fs1, .bool true) := by simp [exec, h1c]
  have hE2b : exec env fs1 (.sameFile cpath l.target) = (fs1, .bool false) := by
    rw [exec_sameFile, sameB_false_of_not hns hframe hget]
  have hE3 : exec env fs1 (.mkdirP (l.cache ++ [dTmp])) = (fs2, .unit) := by simp [exec, hm2]
  have hE4 := exec_mkTempLink_ok env fs2 (l.cache ++ [dTmp]) l.target (isDir_of_get hdir2)
  rw [hnext] at hE4
  have hE5 := exec_renameLink_ok env (withTmpLink fs2 (l.cache ++ [dTmp]) l.target)
    ((l.cache ++ [dTmp]) ++ [tmpName fs.next]) cpath l.target
    (by rw [h3, if_pos rfl])
    (isDir_of_get (by rw [h3, if_neg hpp.symm]; exact h2p))
    (by rw [h3, if_neg hpc.symm, h2c]; intro e; cases e)
  refine ⟨((withTmpLink fs2 (l.cache ++ [dTmp]) l.target).del
      ((l.cache ++ [dTmp]) ++ [tmpName fs.next])).put cpath (.link l.target),
    FS.get_put_same _ _ _, ?_, ?_, ?_, ?_⟩
  · rw [FS.get_put_ne _ _ hpc, FS.get_del_same]
  · intro q hq1 hq2
    unfold Grow2
    rw [FS.get_put_ne _ _ hq1, FS.get_del_ne _ hq2, h3, if_neg hq2]
    rcases hget2 q with g1 | ⟨g1, g2⟩
    · rw [g1]
      rcases hget q with h1 | ⟨h1, h2⟩
      · exact Or.inl h1
      · refine Or.inr ⟨h1, h2, Or.inl ?_⟩
        apply Classical.byContradiction
        intro hn
        rw [hframe q hn, h1] at h2
        cases h2
    · have hq : q <+: l.cache ++ [dTmp] := by
        apply Classical.byContradiction
        intro hn
        rw [hframe2 q hn, g1] at g2
        cases g2
      rcases hget q with h1 | ⟨h1, h2⟩
      · exact Or.inr ⟨by rw [← h1]; exact g1, g2, Or.inr hq⟩
      · rw [h2] at g1; cases g1
  · show fs2.next + 1 = fs.next + 1
    rw [hnext]
  · unfold lcommit indexTail
    simp only [hcp, bind_eq, pure_eq, call, bind_sys, bind_done, run_sys_res, run_sys_fs, hE0, hE1,
      hE2, hE2b, hE3, hE4, hE5, hs, hz, Option.getD_none]
    exact ⟨rfl, rfl⟩

/-- **Link phase, an earlier link at the address that already leads to the target's file**: nothing
is replaced (no write access needed, the address cannot end up pointing at itself). -/
theorem same_phase (l : Linker) (fs : FS) (cpath : Path) (t0 : Target)
    (hcp : contentPath l.cache (Sri.compute cfg.H l.algo l.data) = some cpath)
    (hs : l.opts.sri = none) (hz : l.opts.size = none)
    (hd : ∀ q, q ≠ [] → q <+: FS.parent cpath → NoneOrDir fs q)
    (hold : fs.get cpath = some (.link t0)) (hsm : SameFile fs cpath l.target) :
    ∃ fsL, fsL.get cpath = some (.link t0) ∧
      (∀ q, Grow fs fsL q (FS.parent cpath)) ∧ fsL.next = fs.next ∧
      (run env (lcommit cfg l) fs).1 =
        (run env (indexTail cfg l (Sri.compute cfg.H l.algo l.data)) fsL).1 ∧
      (run env (lcommit cfg l) fs).2.1 =
        (run env (indexTail cfg l (Sri.compute cfg.H l.algo l.data)) fsL).2.1 := by
  have hc := cpath_eq cfg hcp
  obtain ⟨fs1, hm, hdir, hframe, hget⟩ := mkdirP_ok fs (FS.parent cpath)
    (by rw [hc]; exact parent_addr_ne_nil _ _ _) hd
  have h1c : fs1.get cpath = some (.link t0) := by
    rw [hframe _ (by rw [hc]; exact addr_not_prefix_parent _ _ _ _ _)]; exact hold
  have hE0 : exec env fs (.mkdirP (FS.parent cpath)) = (fs1, .unit) := by simp [exec, hm]
  have hE1 : exec env fs1 (.symlink l.target cpath) = (fs1, .err .exists) := by simp [exec, h1c]
  have hE2 : exec env fs1 (.isLink cpath) = (fs1, .bool true) := by simp [exec, h1c]
  have hE2b : exec env fs1 (.sameFile cpath l.target) = (fs1, .bool true) := by
    rw [exec_sameFile, sameB_true_of_same hsm hget]
  refine ⟨fs1, h1c, ?_, mkdirLevels_next fs fs1 _ _ hm, ?_⟩
  · intro q
    rcases hget q with h1 | ⟨h1, h2⟩
    · exact Or.inl h1
    · refine Or.inr ⟨h1, h2, ?_⟩
      apply Classical.byContradiction
      intro hn
      rw [hframe q hn, h1] at h2
      cases h2
  · unfold lcommit indexTail
    simp only [hcp, bind_eq, pure_eq, call, bind_sys, bind_done, run_sys_res, run_sys_fs, hE0, hE1,
      hE2, hE2b, hs, hz, Option.getD_none]
    exact ⟨rfl, rfl⟩

/-- **Link phase, a regular file at the address**: nothing is linked, the file stays. -/
theorem file_phase (l : Linker) (fs : FS) (cpath : Path) (b : Bytes)
    (hcp : contentPath l.cache (Sri.compute cfg.H l.algo l.data) = some cpath)
    (hs : l.opts.sri = none) (hz : l.opts.size = none)
    (hd : ∀ q, q ≠ [] → q <+: FS.parent cpath → NoneOrDir fs q)
    (hold : fs.get cpath = some (.file b)) :
    ∃ fsL, fsL.get cpath = some (.file b) ∧
      (∀ q, Grow fs fsL q (FS.parent cpath)) ∧ fsL.next = fs.next ∧
      (run env (lcommit cfg l) fs).1 =
        (run env (indexTail cfg l (Sri.compute cfg.H l.algo l.data)) fsL).1 ∧
      (run env (lcommit cfg l) fs).2.1 =
        (run env (indexTail cfg l (Sri.compute cfg.H l.algo l.data)) fsL).2.1 := by
  have hc := cpath_eq cfg hcp
  obtain ⟨fs1, hm, hdir, hframe, hget⟩ := mkdirP_ok fs (FS.parent cpath)
    (by rw [hc]; exact parent_addr_ne_nil _ _ _) hd
  have h1c : fs1.get cpath = some (.file b) := by
    rw [hframe _ (by rw [hc]; exact addr_not_prefix_parent _ _ _ _ _)]; exact hold
  have hex : fs1.existsFollow cpath = true := by
    rw [existsFollow_plain (by rw [hc]; exact addr_ne_nil _ _ _) (Or.inr ⟨b, h1c⟩), h1c]; rfl
  have hE0 : exec env fs (.mkdirP (FS.parent cpath)) = (fs1, .unit) := by simp [exec, hm]
  have hE1 : exec env fs1 (.symlink l.target cpath) = (fs1, .err .exists) := by simp [exec, h1c]
  have hE2 : exec env fs1 (.isLink cpath) = (fs1, .bool false) := by simp [exec, h1c]
  have hE3 : exec env fs1 (.existsF cpath) = (fs1, .bool true) := by simp [exec, hex]
  refine ⟨fs1, h1c, ?_, mkdirLevels_next fs fs1 _ _ hm, ?_⟩
  · intro q
    rcases hget q with h1 | ⟨h1, h2⟩
    · exact Or.inl h1
    · refine Or.inr ⟨h1, h2, ?_⟩
      apply Classical.byContradiction
      intro hn
      rw [hframe q hn, h1] at h2
      cases h2
  · unfold lcommit indexTail
    simp only [hcp, bind_eq, pure_eq, call, bind_sys, bind_done, run_sys_res, run_sys_fs, hE0, hE1,
      hE2, hE3, hs, hz, Option.getD_none]
    exact ⟨rfl, rfl⟩

/-! ### by-address linkers: the cases of the address -/

theorem run_indexTail_none (l : Linker) (sri : Integrity) (hk : l.key = none) (fs : FS) :
    (run env (indexTail cfg l sri) fs).1 = .ok sri ∧ (run env (indexTail cfg l sri) fs).2.1 = fs := by
  unfold indexTail
  rw [hk]
  exact ⟨rfl, rfl⟩

/-- **An earlier link at the address is replaced** when it does not already lead to the target's
file (`hns`: a changed target, a removed one, a link somewhere else — `notSameFile_of_dangling`,
`notSameFile_of_ne` give checkable forms): the commit of a by-address linker without declarations
succeeds, the address is a link to `l.target` afterwards, the temp link `cache/tmp/#<next>` it went
through is gone, and every other path keeps its node or turns from absent into a directory on the
way to the address's directory or to `cache/tmp`.

Hypotheses: the address of the data exists (`hcp`: the hex digest has ≥ 4 digits, otherwise
`content_path` panics), and the ancestors of the address (`hd`) and `cache/tmp` with its ancestors
(`ht`) are absent or directories (so that `create_dir_all` succeeds on both). -/
theorem relink_replaces_old_link (l : Linker) (fs : FS) (cpath : Path) (t0 : Target)
    (hk : l.key = none) (hs : l.opts.sri = none) (hz : l.opts.size = none)
    (hcp : contentPath l.cache (Sri.compute cfg.H l.algo l.data) = some cpath)
    (hd : ∀ q, q ≠ [] → q <+: FS.parent cpath → NoneOrDir fs q)
    (ht : ∀ q, q ≠ [] → q <+: l.cache ++ [dTmp] → NoneOrDir fs q)
    (hold : fs.get cpath = some (.link t0)) (hns : NotSameFile fs cpath l.target) :
    (run env (lcommit cfg l) fs).1 = .ok (Sri.compute cfg.H l.algo l.data) ∧
    (run env (lcommit cfg l) fs).2.1.get cpath = some (.link l.target) ∧
    (run env (lcommit cfg l) fs).2.1.get ((l.cache ++ [dTmp]) ++ [tmpName fs.next]) = none ∧
    (∀ q, q ≠ cpath → q ≠ (l.cache ++ [dTmp]) ++ [tmpName fs.next] →
      Grow2 fs (run env (lcommit cfg l) fs).2.1 q (FS.parent cpath) (l.cache ++ [dTmp])) ∧
    (run env (lcommit cfg l) fs).2.1.next = fs.next + 1 := by
  obtain ⟨fsL, h1, h2, h3, h4, e1, e2⟩ :=
    relink_phase cfg env l fs cpath t0 hcp hs hz hd ht hold hns
  obtain ⟨r1, r2⟩ := run_indexTail_none cfg env l (Sri.compute cfg.H l.algo l.data) hk fsL
  rw [e1, e2, r1, r2]
  exact ⟨rfl, h1, h2, h3, h4⟩

/-- **An earlier link that already leads to the target's file is kept** (`hsm`; checkable form:
`sameFile_of_eq`): the commit succeeds, the address still holds the old link text, nothing is
created in `cache/tmp` (the temp-name counter has not moved; `ht` is not needed — no write access
to `cache/tmp`), and every path keeps its node or turns from absent into a directory on the way to
the address's directory. -/
theorem relink_same_file_kept (l : Linker) (fs : FS) (cpath : Path) (t0 : Target)
    (hk : l.key = none) (hs : l.opts.sri = none) (hz : l.opts.size = none)
    (hcp : contentPath l.cache (Sri.compute cfg.H l.algo l.data) = some cpath)
    (hd : ∀ q, q ≠ [] → q <+: FS.parent cpath → NoneOrDir fs q)
    (hold : fs.get cpath = some (.link t0)) (hsm : SameFile fs cpath l.target) :
    (run env (lcommit cfg l) fs).1 = .ok (Sri.compute cfg.H l.algo l.data) ∧
    (run env (lcommit cfg l) fs).2.1.get cpath = some (.link t0) ∧
    (∀ q, Grow fs (run env (lcommit cfg l) fs).2.1 q (FS.parent cpath)) ∧
    (run env (lcommit cfg l) fs).2.1.next = fs.next := by
  obtain ⟨fsL, h1, h2, h3, e1, e2⟩ := same_phase cfg env l fs cpath t0 hcp hs hz hd hold hsm
  obtain ⟨r1, r2⟩ := run_indexTail_none cfg env l (Sri.compute cfg.H l.algo l.data) hk fsL
  rw [e1, e2, r1, r2]
  exact ⟨rfl, h1, h2, h3⟩

/-- Nothing is left in `cache/tmp` by the relink that was not there before: its own temp link is
gone, every other entry of `cache/tmp` is as it was. -/
theorem relink_tmp_clean (l : Linker) (fs : FS) (cpath : Path) (t0 : Target)
    (hk : l.key = none) (hs : l.opts.sri = none) (hz : l.opts.size = none)
    (hcp : contentPath l.cache (Sri.compute cfg.H l.algo l.data) = some cpath)
    (hd : ∀ q, q ≠ [] → q <+: FS.parent cpath → NoneOrDir fs q)
    (ht : ∀ q, q ≠ [] → q <+: l.cache ++ [dTmp] → NoneOrDir fs q)
    (hold : fs.get cpath = some (.link t0)) (hns : NotSameFile fs cpath l.target) :
    TmpClean l.cache fs (run env (lcommit cfg l) fs).2.1 := by
  obtain ⟨-, -, h2, h3, -⟩ :=
    relink_replaces_old_link cfg env l fs cpath t0 hk hs hz hcp hd ht hold hns
  have hc := cpath_eq cfg hcp
  refine ⟨h2, ?_⟩
  intro n hn
  have h1 : (l.cache ++ [dTmp]) ++ [n] ≠ (l.cache ++ [dTmp]) ++ [tmpName fs.next] := by
    intro e
    have := List.append_cancel_left e
    simp at this
    exact hn this
  rcases h3 _ (by rw [hc]; exact tmp_ne_addr _ _ _ _) h1 with g | ⟨_, _, g | g⟩
  · exact g
  · rw [hc] at g; exact absurd g (tmp_not_prefix_parent_addr _ _ _ _)
  · exact absurd g (tmp_not_prefix_tmpDir _ _)

/-- Everything that exists before the relink — other than the old link and a stale node under the
temp name — is unchanged by it. -/
theorem relink_keeps_existing (l : Linker) (fs : FS) (cpath : Path) (t0 : Target)
    (hk : l.key = none) (hs : l.opts.sri = none) (hz : l.opts.size = none)
    (hcp : contentPath l.cache (Sri.compute cfg.H l.algo l.data) = some cpath)
    (hd : ∀ q, q ≠ [] → q <+: FS.parent cpath → NoneOrDir fs q)
    (ht : ∀ q, q ≠ [] → q <+: l.cache ++ [dTmp] → NoneOrDir fs q)
    (hold : fs.get cpath = some (.link t0)) (hns : NotSameFile fs cpath l.target)
    (q : Path) (n : Node) (hq : fs.get q = some n) (hq1 : q ≠ cpath)
    (hq2 : q ≠ (l.cache ++ [dTmp]) ++ [tmpName fs.next]) :
    (run env (lcommit cfg l) fs).2.1.get q = some n := by
  obtain ⟨-, -, -, h3, -⟩ :=
    relink_replaces_old_link cfg env l fs cpath t0 hk hs hz hcp hd ht hold hns
  rcases h3 q hq1 hq2 with g | ⟨g, _⟩
  · rw [g, hq]
  · rw [hq] at g; cases g

/-- **A free address is linked**: the commit succeeds, the address is a link to `l.target`, every
other path keeps its node or turns from absent into a directory on the way to the address's
directory; no temp name is used. -/
theorem link_fresh_address (l : Linker) (fs : FS) (cpath : Path)
    (hk : l.key = none) (hs : l.opts.sri = none) (hz : l.opts.size = none)
    (hcp : contentPath l.cache (Sri.compute cfg.H l.algo l.data) = some cpath)
    (hd : ∀ q, q ≠ [] → q <+: FS.parent cpath → NoneOrDir fs q)
    (hfree : fs.get cpath = none) :
    (run env (lcommit cfg l) fs).1 = .ok (Sri.compute cfg.H l.algo l.data) ∧
    (run env (lcommit cfg l) fs).2.1.get cpath = some (.link l.target) ∧
    (∀ q, q ≠ cpath → Grow fs (run env (lcommit cfg l) fs).2.1 q (FS.parent cpath)) ∧
    (run env (lcommit cfg l) fs).2.1.next = fs.next := by
  obtain ⟨fsL, h1, h2, h3, e1, e2⟩ := fresh_phase cfg env l fs cpath hcp hs hz hd hfree
  obtain ⟨r1, r2⟩ := run_indexTail_none cfg env l (Sri.compute cfg.H l.algo l.data) hk fsL
  rw [e1, e2, r1, r2]
  exact ⟨rfl, h1, h2, h3⟩

/-- **Regular content at the address is kept**: the commit succeeds (the address is occupied and
answers `exists`), the file at the address is untouched, every path keeps its node or turns from
absent into a directory on the way to the address's directory. -/
theorem link_keeps_regular_content (l : Linker) (fs : FS) (cpath : Path) (b : Bytes)
    (hk : l.key = none) (hs : l.opts.sri = none) (hz : l.opts.size = none)
    (hcp : contentPath l.cache (Sri.compute cfg.H l.algo l.data) = some cpath)
    (hd : ∀ q, q ≠ [] → q <+: FS.parent cpath → NoneOrDir fs q)
    (hold : fs.get cpath = some (.file b)) :
    (run env (lcommit cfg l) fs).1 = .ok (Sri.compute cfg.H l.algo l.data) ∧
    (run env (lcommit cfg l) fs).2.1.get cpath = some (.file b) ∧
    (∀ q, Grow fs (run env (lcommit cfg l) fs).2.1 q (FS.parent cpath)) ∧
    (run env (lcommit cfg l) fs).2.1.next = fs.next := by
  obtain ⟨fsL, h1, h2, h3, e1, e2⟩ := file_phase cfg env l fs cpath b hcp hs hz hd hold
  obtain ⟨r1, r2⟩ := run_indexTail_none cfg env l (Sri.compute cfg.H l.algo l.data) hk fsL
  rw [e1, e2, r1, r2]
  exact ⟨rfl, h1, h2, h3⟩

/-! ### reading through the address after the commit -/

/-- Reading follows the link (as `C19.read_follows_link`). -/
theorem readFile_through_link {fs : FS} {cpath tp : Path} {b : Bytes}
    (hl : fs.get cpath = some (.link (.abs tp))) (ht : fs.get tp = some (.file b)) (htp : tp ≠ []) :
    fs.readFile cpath = .ok b := by
  cases tp with
  | nil => exact absurd rfl htp
  | cons x xs => simp [FS.readFile, FS.resolveFuel, FS.resolve, hl, FS.targetPath, ht]

/-- Reading a path that leads to a regular file. -/
theorem readFile_of_resolve {fs : FS} {p q : Path} {b : Bytes}
    (hr : FS.resolve fs FS.resolveFuel p = some q) (hq : q ≠ []) (hf : fs.get q = some (.file b)) :
    fs.readFile p = .ok b := by
  unfold FS.readFile
  rw [hr]
  cases q with
  | nil => exact absurd rfl hq
  | cons x xs => simp only [hf]

/-- With the target a regular file at `tp`: the occupant of the address either leads to `tp`
already, or it is `NotSameFile`. -/
theorem same_or_not {fs : FS} {cpath tp : Path} {t : Target} {b : Bytes} (htgt : t = .abs tp)
    (hfile : fs.get tp = some (.file b)) :
    (FS.resolve fs FS.resolveFuel cpath = some tp ∧ SameFile fs cpath t) ∨
      NotSameFile fs cpath t := by
  have hr : FS.resolve fs FS.resolveFuel (FS.targetPath cpath t) = some tp := by
    rw [htgt]
    show FS.resolve fs FS.resolveFuel tp = some tp
    unfold FS.resolveFuel
    exact resolve_succ_nonlink _ (by rw [hfile]; intro t e; cases e)
  by_cases h : FS.resolve fs FS.resolveFuel cpath = some tp
  · exact Or.inl ⟨h, tp, h, hr, by rw [hfile]; rfl⟩
  · right
    intro a ha hb
    rw [hr] at hb
    cases hb
    exact absurd ha h

/-- **The address reads the target after the commit onto an earlier link — whatever that link
pointed at**: it is replaced by a link to the target, or it already led to the target's file and
is kept; either way opening the address yields the bytes of the target the linker has just read —
when the target is a regular file outside the cache holding them. -/
theorem relinked_address_reads_target (l : Linker) (fs : FS) (cpath : Path) (t0 : Target)
    (hk : l.key = none) (hs : l.opts.sri = none) (hz : l.opts.size = none)
    (hcp : contentPath l.cache (Sri.compute cfg.H l.algo l.data) = some cpath)
    (hd : ∀ q, q ≠ [] → q <+: FS.parent cpath → NoneOrDir fs q)
    (ht : ∀ q, q ≠ [] → q <+: l.cache ++ [dTmp] → NoneOrDir fs q)
    (hold : fs.get cpath = some (.link t0))
    (tp : Path) (htgt : l.target = .abs tp) (htp : tp ≠ []) (hout : ¬ l.cache <+: tp)
    (hfile : fs.get tp = some (.file l.data)) :
    (run env (lcommit cfg l) fs).2.1.readFile cpath = .ok l.data := by
  rcases same_or_not (cpath := cpath) htgt hfile with ⟨hr, hsm⟩ | hns
  · obtain ⟨-, -, h2, -⟩ := relink_same_file_kept cfg env l fs cpath t0 hk hs hz hcp hd hold hsm
    have hg : ∀ q, (run env (lcommit cfg l) fs).2.1.get q = fs.get q ∨
        (fs.get q = none ∧ (run env (lcommit cfg l) fs).2.1.get q = some .dir) := by
      intro q
      rcases h2 q with g | ⟨g1, g2, _⟩
      · exact Or.inl g
      · exact Or.inr ⟨g1, g2⟩
    have hr' := resolve_linkEq (linkEq_of_grow hg) FS.resolveFuel cpath
    rw [hr] at hr'
    refine readFile_of_resolve hr' htp ?_
    rcases hg tp with g | ⟨g, _⟩
    · rw [g, hfile]
    · rw [hfile] at g; cases g
  · obtain ⟨-, h1, -, -, -⟩ :=
      relink_replaces_old_link cfg env l fs cpath t0 hk hs hz hcp hd ht hold hns
    have hc := cpath_eq cfg hcp
    have hq1 : tp ≠ cpath := by
      intro e; apply hout; rw [e, hc]; exact cache_prefix_addr _ _ _
    have hq2 : tp ≠ (l.cache ++ [dTmp]) ++ [tmpName fs.next] := by
      intro e; apply hout; rw [e, List.append_assoc]; exact List.prefix_append _ _
    have h2 := relink_keeps_existing cfg env l fs cpath t0 hk hs hz hcp hd ht hold hns tp _ hfile
      hq1 hq2
    rw [htgt] at h1
    exact readFile_through_link h1 h2 htp

/-- … and so does the library's verified read by address: `read_hash` of the returned integrity
answers the target's bytes. -/
theorem relinked_address_readHash (l : Linker) (fs : FS) (cpath : Path) (t0 : Target)
    (hk : l.key = none) (hs : l.opts.sri = none) (hz : l.opts.size = none)
    (hcp : contentPath l.cache (Sri.compute cfg.H l.algo l.data) = some cpath)
    (hd : ∀ q, q ≠ [] → q <+: FS.parent cpath → NoneOrDir fs q)
    (ht : ∀ q, q ≠ [] → q <+: l.cache ++ [dTmp] → NoneOrDir fs q)
    (hold : fs.get cpath = some (.link t0))
    (tp : Path) (htgt : l.target = .abs tp) (htp : tp ≠ []) (hout : ¬ l.cache <+: tp)
    (hfile : fs.get tp = some (.file l.data)) :
    (run env (readHash cfg l.cache (Sri.compute cfg.H l.algo l.data))
      (run env (lcommit cfg l) fs).2.1).1 = .ok l.data := by
  have hr := relinked_address_reads_target cfg env l fs cpath t0 hk hs hz hcp hd ht hold tp htgt htp
    hout hfile
  unfold readHash
  simp only [hcp, bind_eq, pure_eq, call, bind_sys, bind_done, run_sys_res, exec, hr, check_compute,
    Option.isSome_some, if_true, run_done_res]

/-! ### keyed linkers: the link phase, then the index insertion -/

/-- `q` keeps its node or turns from absent into a directory on the way to `d1`, `d2` or `d3`. -/
def Grow3 (fs fs' : FS) (q d1 d2 d3 : Path) : Prop :=
  fs'.get q = fs.get q ∨
    (fs.get q = none ∧ fs'.get q = some .dir ∧ (q <+: d1 ∨ q <+: d2 ∨ q <+: d3))

theorem grow_to2 {fs fs' : FS} {q d1 : Path} (d2 : Path) (h : Grow fs fs' q d1) :
    Grow2 fs fs' q d1 d2 := by
  rcases h with h | ⟨h1, h2, h3⟩
  · exact Or.inl h
  · exact Or.inr ⟨h1, h2, Or.inl h3⟩

theorem grow_andThen {fs fsL fs' : FS} {q d1 d2 : Path} (h : Grow fs fsL q d1)
    (h' : Grow fsL fs' q d2) : Grow2 fs fs' q d1 d2 := by
  rcases h' with g | ⟨g1, g2, g3⟩
  · rcases h with h | ⟨h1, h2, h3⟩
    · exact Or.inl (g.trans h)
    · exact Or.inr ⟨h1, g.trans h2, Or.inl h3⟩
  · rcases h with h | ⟨_, h2, _⟩
    · exact Or.inr ⟨h ▸ g1, g2, Or.inr g3⟩
    · rw [h2] at g1; cases g1

theorem Grow2.andThen {fs fsL fs' : FS} {q d1 d2 d3 : Path} (h : Grow2 fs fsL q d1 d2)
    (h' : Grow fsL fs' q d3) : Grow3 fs fs' q d1 d2 d3 := by
  rcases h' with g | ⟨g1, g2, g3⟩
  · rcases h with h | ⟨h1, h2, h3 | h3⟩
    · exact Or.inl (g.trans h)
    · exact Or.inr ⟨h1, g.trans h2, Or.inl h3⟩
    · exact Or.inr ⟨h1, g.trans h2, Or.inr (Or.inl h3)⟩
  · rcases h with h | ⟨_, h2, _⟩
    · exact Or.inr ⟨h ▸ g1, g2, Or.inr (Or.inr g3)⟩
    · rw [h2] at g1; cases g1

/-- The options a keyed link commit without declarations records: the computed integrity and the
number of bytes read from the target. -/
def linkOpts (l : Linker) : WriteOpts :=
  { l.opts with sri := some (Sri.compute cfg.H l.algo l.data), size := some l.data.length }

/-- The link phase (whichever leg) leaves the index area alone. -/
theorem index_untouched {cache : Path} {a : Algo} {hx : Bytes} {fs fsL : FS} (n : Bytes)
    (h : HealthyIndex cfg cache fs)
    (hfr : ∀ q, q ≠ addrPath cache a hx → q ≠ (cache ++ [dTmp]) ++ [n] →
      Grow2 fs fsL q (FS.parent (addrPath cache a hx)) (cache ++ [dTmp])) :
    HealthyIndex cfg cache fsL ∧ absIndex cfg cache fsL = absIndex cfg cache fs ∧
      ∀ key, fsL.get (bucketPath cfg cache key) = fs.get (bucketPath cfg cache key) := by
  have hb : ∀ key, fsL.get (bucketPath cfg cache key) = fs.get (bucketPath cfg cache key) := by
    intro key
    rcases hfr _ (bucket_ne_addr cfg cache key _ _) (bucket_ne_tmp cfg cache key _) with
      g | ⟨_, _, g | g⟩
    · exact g
    · exact absurd g (bucket_not_prefix_parent_addr cfg cache key _ _)
    · exact absurd g (bucket_not_prefix_tmpDir cfg cache key)
  obtain ⟨h1, h2⟩ := healthyIndex_grow cfg cache h hb (by
    intro key q _ hq
    have h1 : q ≠ (cache ++ [dTmp]) ++ [n] := by
      intro e; subst e; exact tmp_not_prefix_parent_bucket cfg cache _ _ hq
    have h2 : q ≠ addrPath cache a hx := by
      intro e; subst e; exact addr_not_prefix_parent_bucket cfg cache _ _ _ hq
    rcases hfr q h2 h1 with g | ⟨g1, g2, _⟩
    · exact Or.inl g
    · exact Or.inr ⟨g1, g2⟩)
  exact ⟨h1, h2, hb⟩

/-- **The index step of a keyed link commit** on a filesystem `fsL` whose index area is that of
the healthy `fs`: it succeeds with the computed integrity; the key's bucket is the old bytes
followed by the frame of the new record; every other path keeps its node or turns from absent into
a directory on the way to the bucket; and — the options being what Rust's types allow — the index
is healthy again and maps the key to the new entry, every other key as before. -/
theorem run_indexTail_keyed (l : Linker) (k : Bytes) (hk : l.key = some k) (fs fsL : FS)
    (hIL : HealthyIndex cfg l.cache fsL)
    (hA : absIndex cfg l.cache fsL = absIndex cfg l.cache fs)
    (hb : ∀ key, fsL.get (bucketPath cfg l.cache key) = fs.get (bucketPath cfg l.cache key)) :
    (run env (indexTail cfg l (Sri.compute cfg.H l.algo l.data)) fsL).1 =
      .ok (Sri.compute cfg.H l.algo l.data) ∧
    (run env (indexTail cfg l (Sri.compute cfg.H l.algo l.data)) fsL).2.1.get
        (bucketPath cfg l.cache k) =
      some (.file (bytesAt fs (bucketPath cfg l.cache k) ++
        (codec cfg).frame (mkRec k (linkOpts cfg l) (stamp env l.opts)))) ∧
    (∀ q, q ≠ bucketPath cfg l.cache k →
      Grow fsL (run env (indexTail cfg l (Sri.compute cfg.H l.algo l.data)) fsL).2.1 q
        (FS.parent (bucketPath cfg l.cache k))) ∧
    (OptsWF k l.opts → l.data.length ≤ Rec.u64Max →
      HealthyIndex cfg l.cache (run env (indexTail cfg l (Sri.compute cfg.H l.algo l.data)) fsL).2.1 ∧
      ∀ k', absIndex cfg l.cache
          (run env (indexTail cfg l (Sri.compute cfg.H l.algo l.data)) fsL).2.1 k' =
        if k' = k then insEntry env k (linkOpts cfg l) else absIndex cfg l.cache fs k') := by
  have ht : indexTail cfg l (Sri.compute cfg.H l.algo l.data) =
      insert cfg l.cache k (linkOpts cfg l) := by
    unfold indexTail linkOpts; rw [hk]
  rw [ht]
  obtain ⟨r1, r2, r3⟩ := run_insert cfg l.cache env k (linkOpts cfg l) fsL hIL
  have hby : bytesAt fsL (bucketPath cfg l.cache k) = bytesAt fs (bucketPath cfg l.cache k) := by
    unfold bytesAt; rw [hb]
  refine ⟨r1, ?_, r3, ?_⟩
  · rw [r2, hby]; rfl
  · intro hw hlen
    have hwf : OptsWF k (linkOpts cfg l) := (hw.with_computed cfg.H _ _).with_size _ hlen
    have hsri : SriOK cfg (linkOpts cfg l) := Or.inr ⟨_, _, rfl⟩
    obtain ⟨i1, i2⟩ := insert_refines cfg l.cache env k _ fsL hIL hwf hsri
    refine ⟨i1, ?_⟩
    intro k'
    rw [i2 k', hA]

/-- **Keyed: an earlier link at the address that does not lead to the target's file is replaced,
then the key is mapped.** -/
theorem relink_replaces_old_link_keyed (l : Linker) (k : Bytes) (fs : FS) (cpath : Path)
    (t0 : Target)
    (hk : l.key = some k) (hs : l.opts.sri = none) (hz : l.opts.size = none)
    (hcp : contentPath l.cache (Sri.compute cfg.H l.algo l.data) = some cpath)
    (hd : ∀ q, q ≠ [] → q <+: FS.parent cpath → NoneOrDir fs q)
    (ht : ∀ q, q ≠ [] → q <+: l.cache ++ [dTmp] → NoneOrDir fs q)
    (hI : HealthyIndex cfg l.cache fs)
    (hold : fs.get cpath = some (.link t0)) (hns : NotSameFile fs cpath l.target) :
    (run env (lcommit cfg l) fs).1 = .ok (Sri.compute cfg.H l.algo l.data) ∧
    (run env (lcommit cfg l) fs).2.1.get cpath = some (.link l.target) ∧
    (run env (lcommit cfg l) fs).2.1.get ((l.cache ++ [dTmp]) ++ [tmpName fs.next]) = none ∧
    (run env (lcommit cfg l) fs).2.1.get (bucketPath cfg l.cache k) =
      some (.file (bytesAt fs (bucketPath cfg l.cache k) ++
        (codec cfg).frame (mkRec k (linkOpts cfg l) (stamp env l.opts)))) ∧
    (∀ q, q ≠ cpath → q ≠ (l.cache ++ [dTmp]) ++ [tmpName fs.next] →
      q ≠ bucketPath cfg l.cache k →
      Grow3 fs (run env (lcommit cfg l) fs).2.1 q (FS.parent cpath) (l.cache ++ [dTmp])
        (FS.parent (bucketPath cfg l.cache k))) ∧
    (OptsWF k l.opts → l.data.length ≤ Rec.u64Max →
      HealthyIndex cfg l.cache (run env (lcommit cfg l) fs).2.1 ∧
      ∀ k', absIndex cfg l.cache (run env (lcommit cfg l) fs).2.1 k' =
        if k' = k then insEntry env k (linkOpts cfg l) else absIndex cfg l.cache fs k') := by
  obtain ⟨fsL, h1, h2, h3, -, e1, e2⟩ :=
    relink_phase cfg env l fs cpath t0 hcp hs hz hd ht hold hns
  have hc := cpath_eq cfg hcp
  obtain ⟨hIL, hA, hb⟩ := index_untouched cfg (tmpName fs.next) hI (by rw [← hc]; exact h3)
  obtain ⟨r1, r2, r3, r4⟩ := run_indexTail_keyed cfg env l k hk fs fsL hIL hA hb
  rw [e1, e2]
  have hbc : cpath ≠ bucketPath cfg l.cache k := by rw [hc]; exact (bucket_ne_addr cfg _ _ _ _).symm
  have hbt : (l.cache ++ [dTmp]) ++ [tmpName fs.next] ≠ bucketPath cfg l.cache k :=
    (bucket_ne_tmp cfg _ _ _).symm
  refine ⟨r1, ?_, ?_, r2, ?_, r4⟩
  · rcases r3 cpath hbc with g | ⟨g, _⟩
    · rw [g]; exact h1
    · rw [h1] at g; cases g
  · rcases r3 _ hbt with g | ⟨_, _, g⟩
    · rw [g]; exact h2
    · exact absurd g (tmp_not_prefix_parent_bucket cfg _ _ _)
  · intro q hq1 hq2 hq3
    exact (h3 q hq1 hq2).andThen (r3 q hq3)

/-- **Keyed: a free address is linked, then the key is mapped.** -/
theorem link_fresh_address_keyed (l : Linker) (k : Bytes) (fs : FS) (cpath : Path)
    (hk : l.key = some k) (hs : l.opts.sri = none) (hz : l.opts.size = none)
    (hcp : contentPath l.cache (Sri.compute cfg.H l.algo l.data) = some cpath)
    (hd : ∀ q, q ≠ [] → q <+: FS.parent cpath → NoneOrDir fs q)
    (hI : HealthyIndex cfg l.cache fs)
    (hfree : fs.get cpath = none) :
    (run env (lcommit cfg l) fs).1 = .ok (Sri.compute cfg.H l.algo l.data) ∧
    (run env (lcommit cfg l) fs).2.1.get cpath = some (.link l.target) ∧
    (run env (lcommit cfg l) fs).2.1.get (bucketPath cfg l.cache k) =
      some (.file (bytesAt fs (bucketPath cfg l.cache k) ++
        (codec cfg).frame (mkRec k (linkOpts cfg l) (stamp env l.opts)))) ∧
    (∀ q, q ≠ cpath → q ≠ bucketPath cfg l.cache k →
      Grow2 fs (run env (lcommit cfg l) fs).2.1 q (FS.parent cpath)
        (FS.parent (bucketPath cfg l.cache k))) ∧
    (OptsWF k l.opts → l.data.length ≤ Rec.u64Max →
      HealthyIndex cfg l.cache (run env (lcommit cfg l) fs).2.1 ∧
      ∀ k', absIndex cfg l.cache (run env (lcommit cfg l) fs).2.1 k' =
        if k' = k then insEntry env k (linkOpts cfg l) else absIndex cfg l.cache fs k') := by
  obtain ⟨fsL, h1, h2, -, e1, e2⟩ := fresh_phase cfg env l fs cpath hcp hs hz hd hfree
  have hc := cpath_eq cfg hcp
  obtain ⟨hIL, hA, hb⟩ := index_untouched cfg (tmpName fs.next) hI
    (by rw [← hc]; exact fun q hq _ => grow_to2 _ (h2 q hq))
  obtain ⟨r1, r2, r3, r4⟩ := run_indexTail_keyed cfg env l k hk fs fsL hIL hA hb
  rw [e1, e2]
  have hbc : cpath ≠ bucketPath cfg l.cache k := by rw [hc]; exact (bucket_ne_addr cfg _ _ _ _).symm
  refine ⟨r1, ?_, r2, ?_, r4⟩
  · rcases r3 cpath hbc with g | ⟨g, _⟩
    · rw [g]; exact h1
    · rw [h1] at g; cases g
  · intro q hq1 hq3
    exact grow_andThen (h2 q hq1) (r3 q hq3)

/-- **Keyed: regular content at the address is kept, then the key is mapped.** -/
theorem link_keeps_regular_content_keyed (l : Linker) (k : Bytes) (fs : FS) (cpath : Path)
    (b : Bytes)
    (hk : l.key = some k) (hs : l.opts.sri = none) (hz : l.opts.size = none)
    (hcp : contentPath l.cache (Sri.compute cfg.H l.algo l.data) = some cpath)
    (hd : ∀ q, q ≠ [] → q <+: FS.parent cpath → NoneOrDir fs q)
    (hI : HealthyIndex cfg l.cache fs)
    (hold : fs.get cpath = some (.file b)) :
    (run env (lcommit cfg l) fs).1 = .ok (Sri.compute cfg.H l.algo l.data) ∧
    (run env (lcommit cfg l) fs).2.1.get cpath = some (.file b) ∧
    (run env (lcommit cfg l) fs).2.1.get (bucketPath cfg l.cache k) =
      some (.file (bytesAt fs (bucketPath cfg l.cache k) ++
        (codec cfg).frame (mkRec k (linkOpts cfg l) (stamp env l.opts)))) ∧
    (∀ q, q ≠ bucketPath cfg l.cache k →
      Grow2 fs (run env (lcommit cfg l) fs).2.1 q (FS.parent cpath)
        (FS.parent (bucketPath cfg l.cache k))) ∧
    (OptsWF k l.opts → l.data.length ≤ Rec.u64Max →
      HealthyIndex cfg l.cache (run env (lcommit cfg l) fs).2.1 ∧
      ∀ k', absIndex cfg l.cache (run env (lcommit cfg l) fs).2.1 k' =
        if k' = k then insEntry env k (linkOpts cfg l) else absIndex cfg l.cache fs k') := by
  obtain ⟨fsL, h1, h2, -, e1, e2⟩ := file_phase cfg env l fs cpath b hcp hs hz hd hold
  have hc := cpath_eq cfg hcp
  obtain ⟨hIL, hA, hb⟩ := index_untouched cfg (tmpName fs.next) hI
    (by rw [← hc]; exact fun q _ _ => grow_to2 _ (h2 q))
  obtain ⟨r1, r2, r3, r4⟩ := run_indexTail_keyed cfg env l k hk fs fsL hIL hA hb
  rw [e1, e2]
  have hbc : cpath ≠ bucketPath cfg l.cache k := by rw [hc]; exact (bucket_ne_addr cfg _ _ _ _).symm
  refine ⟨r1, ?_, r2, ?_, r4⟩
  · rcases r3 cpath hbc with g | ⟨g, _⟩
    · rw [g]; exact h1
    · rw [h1] at g; cases g
  · intro q hq3
    exact grow_andThen (h2 q) (r3 q hq3)

/-- **Keyed: an earlier link that already leads to the target's file is kept, then the key is
mapped.** -/
theorem relink_same_file_kept_keyed (l : Linker) (k : Bytes) (fs : FS) (cpath : Path)
    (t0 : Target)
    (hk : l.key = some k) (hs : l.opts.sri = none) (hz : l.opts.size = none)
    (hcp : contentPath l.cache (Sri.compute cfg.H l.algo l.data) = some cpath)
    (hd : ∀ q, q ≠ [] → q <+: FS.parent cpath → NoneOrDir fs q)
    (hI : HealthyIndex cfg l.cache fs)
    (hold : fs.get cpath = some (.link t0)) (hsm : SameFile fs cpath l.target) :
    (run env (lcommit cfg l) fs).1 = .ok (Sri.compute cfg.H l.algo l.data) ∧
    (run env (lcommit cfg l) fs).2.1.get cpath = some (.link t0) ∧
    (run env (lcommit cfg l) fs).2.1.get (bucketPath cfg l.cache k) =
      some (.file (bytesAt fs (bucketPath cfg l.cache k) ++
        (codec cfg).frame (mkRec k (linkOpts cfg l) (stamp env l.opts)))) ∧
    (∀ q, q ≠ bucketPath cfg l.cache k →
      Grow2 fs (run env (lcommit cfg l) fs).2.1 q (FS.parent cpath)
        (FS.parent (bucketPath cfg l.cache k))) ∧
    (OptsWF k l.opts → l.data.length ≤ Rec.u64Max →
      HealthyIndex cfg l.cache (run env (lcommit cfg l) fs).2.1 ∧
      ∀ k', absIndex cfg l.cache (run env (lcommit cfg l) fs).2.1 k' =
        if k' = k then insEntry env k (linkOpts cfg l) else absIndex cfg l.cache fs k') := by
  obtain ⟨fsL, h1, h2, -, e1, e2⟩ := same_phase cfg env l fs cpath t0 hcp hs hz hd hold hsm
  have hc := cpath_eq cfg hcp
  obtain ⟨hIL, hA, hb⟩ := index_untouched cfg (tmpName fs.next) hI
    (by rw [← hc]; exact fun q _ _ => grow_to2 _ (h2 q))
  obtain ⟨r1, r2, r3, r4⟩ := run_indexTail_keyed cfg env l k hk fs fsL hIL hA hb
  rw [e1, e2]
  have hbc : cpath ≠ bucketPath cfg l.cache k := by rw [hc]; exact (bucket_ne_addr cfg _ _ _ _).symm
  refine ⟨r1, ?_, r2, ?_, r4⟩
  · rcases r3 cpath hbc with g | ⟨g, _⟩
    · rw [g]; exact h1
    · rw [h1] at g; cases g
  · intro q hq3
    exact grow_andThen (h2 q) (r3 q hq3)

/-- What the keyed read-back needs of the state after the commit. -/
theorem read_of_entry (l : Linker) (k : Bytes) (cpath : Path) (fs' : FS)
    (hcp : contentPath l.cache (Sri.compute cfg.H l.algo l.data) = some cpath)
    (hI' : HealthyIndex cfg l.cache fs')
    (hA' : absIndex cfg l.cache fs' k = insEntry env k (linkOpts cfg l))
    (hr : fs'.readFile cpath = .ok l.data) :
    (run env (read cfg l.cache k) fs').1 = .ok l.data := by
  obtain ⟨f1, f2⟩ := run_find cfg l.cache env k _ hI'
  unfold read
  simp only [bind_eq, run_bind_res, f1, f2, hA', insEntry, linkOpts, Option.map_some, pure_eq]
  unfold readHash
  simp only [hcp, bind_eq, pure_eq, call, bind_sys, bind_done, run_sys_res, exec, hr, check_compute,
    Option.isSome_some, if_true, run_done_res]

/-- **Keyed: the key reads the target after the commit onto an earlier link — whatever that link
pointed at** (replaced, or kept because it already led to the target's file): `read` of the key
(lookup in the index, then the verified read by the recorded address) answers the bytes of the
target the linker has just read. -/
theorem relinked_key_reads_target (l : Linker) (k : Bytes) (fs : FS) (cpath : Path) (t0 : Target)
    (hk : l.key = some k) (hs : l.opts.sri = none) (hz : l.opts.size = none)
    (hcp : contentPath l.cache (Sri.compute cfg.H l.algo l.data) = some cpath)
    (hd : ∀ q, q ≠ [] → q <+: FS.parent cpath → NoneOrDir fs q)
    (ht : ∀ q, q ≠ [] → q <+: l.cache ++ [dTmp] → NoneOrDir fs q)
    (hI : HealthyIndex cfg l.cache fs)
    (hold : fs.get cpath = some (.link t0))
    (hw : OptsWF k l.opts) (hlen : l.data.length ≤ Rec.u64Max)
    (tp : Path) (htgt : l.target = .abs tp) (htp : tp ≠ []) (hout : ¬ l.cache <+: tp)
    (hfile : fs.get tp = some (.file l.data)) :
    (run env (read cfg l.cache k) (run env (lcommit cfg l) fs).2.1).1 = .ok l.data := by
  have hc := cpath_eq cfg hcp
  have hq3 : tp ≠ bucketPath cfg l.cache k := by
    intro e; apply hout; rw [e]; exact List.prefix_append _ _
  rcases same_or_not (cpath := cpath) htgt hfile with ⟨hr, hsm⟩ | hns
  · obtain ⟨-, -, hbk, h3, h4⟩ :=
      relink_same_file_kept_keyed cfg env l k fs cpath t0 hk hs hz hcp hd hI hold hsm
    obtain ⟨hI', hA'⟩ := h4 hw hlen
    -- the commit created directories and appended to a regular file: no link changed
    have hlinks : ∀ q t, (run env (lcommit cfg l) fs).2.1.get q = some (.link t) ↔
        fs.get q = some (.link t) := by
      intro q t
      by_cases e : q = bucketPath cfg l.cache k
      · subst e
        rw [hbk]
        constructor
        · intro x; cases x
        · intro x
          rcases hI.buckets k with g | ⟨b, g, _⟩ <;> (rw [g] at x; cases x)
      · rcases h3 q e with g | ⟨g1, g2, _⟩
        · rw [g]
        · rw [g1, g2]; constructor <;> (intro x; cases x)
    have hr' := resolve_linkEq hlinks FS.resolveFuel cpath
    rw [hr] at hr'
    have h2 : (run env (lcommit cfg l) fs).2.1.get tp = some (.file l.data) := by
      rcases h3 tp hq3 with g | ⟨g, _⟩
      · rw [g, hfile]
      · rw [hfile] at g; cases g
    refine read_of_entry cfg env l k cpath _ hcp hI' ?_ (readFile_of_resolve hr' htp h2)
    rw [hA' k, if_pos rfl]
  · obtain ⟨-, h1, -, -, h3, h4⟩ :=
      relink_replaces_old_link_keyed cfg env l k fs cpath t0 hk hs hz hcp hd ht hI hold hns
    obtain ⟨hI', hA'⟩ := h4 hw hlen
    have hq1 : tp ≠ cpath := by
      intro e; apply hout; rw [e, hc]; exact cache_prefix_addr _ _ _
    have hq2 : tp ≠ (l.cache ++ [dTmp]) ++ [tmpName fs.next] := by
      intro e; apply hout; rw [e, List.append_assoc]; exact List.prefix_append _ _
    have h2 : (run env (lcommit cfg l) fs).2.1.get tp = some (.file l.data) := by
      rcases h3 tp hq1 hq2 hq3 with g | ⟨g, _⟩
      · rw [g, hfile]
      · rw [hfile] at g; cases g
    rw [htgt] at h1
    refine read_of_entry cfg env l k cpath _ hcp hI' ?_ (readFile_through_link h1 h2 htp)
    rw [hA' k, if_pos rfl]

/-! ### non-vacuity: the hypotheses are satisfiable -/

/-- Seeding one node that is not on the way to `d` keeps the chain to `d` creatable. -/
theorem put_keeps_chain (fs : FS) (p d : Path) (n : Node) (hp : ¬ p <+: d)
    (h : ∀ q, q ≠ [] → q <+: d → NoneOrDir fs q) :
    ∀ q, q ≠ [] → q <+: d → NoneOrDir (fs.put p n) q := by
  intro q hq hqd
  have : q ≠ p := by intro e; subst e; exact hp hqd
  unfold NoneOrDir
  rw [FS.get_put_ne _ _ this]
  exact h q hq hqd

theorem empty_chain (d : Path) : ∀ q, q ≠ [] → q <+: d → NoneOrDir FS.empty q :=
  fun _ _ _ => Or.inl rfl

theorem contentPath_of_len (l : Linker) (hl : 4 ≤ (Bytes.hex (cfg.H l.algo l.data)).length) :
    contentPath l.cache (Sri.compute cfg.H l.algo l.data) =
      some (addrPath l.cache l.algo (Bytes.hex (cfg.H l.algo l.data))) := by
  rw [contentPath_compute, if_neg (by omega)]

/-- A digest function whose hex form has four digits, a by-address linker and a keyed one. -/
def cfg0 : Cfg := { H := fun _ _ => [0, 0] }
def l0 : Linker :=
  { cache := [[99]], key := none, algo := .sha256, target := .abs [[116]], data := [1, 2, 3], pos := 0,
    opts := {} }
def l1 : Linker := { l0 with key := some [107] }

theorem len0 (l : Linker) : 4 ≤ (Bytes.hex (cfg0.H l.algo l.data)).length := by
  simp [cfg0, Bytes.hex]

/-- A link at the address pointing below the address itself (`<address>/x`) — dangling on a
filesystem that holds nothing else — does not lead to any target's file. -/
theorem seed_notSame (cache : Path) (a : Algo) (hx : Bytes) (x : Bytes) (t : Target) :
    NotSameFile (FS.empty.put (addrPath cache a hx) (.link (.abs (addrPath cache a hx ++ [x]))))
      (addrPath cache a hx) t := by
  refine notSameFile_of_dangling t (FS.get_put_same _ _ _) ?_ ?_
  · show (FS.empty.put _ _).get (addrPath cache a hx ++ [x]) = none
    rw [FS.get_put_ne _ _ (by intro e; simpa using congrArg List.length e)]
    rfl
  · show ¬ addrPath cache a hx ++ [x] <+: FS.parent (addrPath cache a hx)
    intro h
    have := h.length_le
    rw [List.length_append, addrPath_length, parent_addr_length] at this
    simp at this

section
variable (l : Linker) (hl : 4 ≤ (Bytes.hex (cfg.H l.algo l.data)).length)
include hl

/-- Statement 1 on the filesystem holding nothing but a dangling link at the address — for
every digest function with ≥ 4 hex digits and every by-address linker without declarations. -/
example (hk : l.key = none) (hs : l.opts.sri = none) (hz : l.opts.size = none) :
    let cpath := addrPath l.cache l.algo (Bytes.hex (cfg.H l.algo l.data))
    let t0 : Target := .abs (cpath ++ [[120]])
    let fs := FS.empty.put cpath (.link t0)
    (run env (lcommit cfg l) fs).1 = .ok (Sri.compute cfg.H l.algo l.data) ∧
    (run env (lcommit cfg l) fs).2.1.get cpath = some (.link l.target) ∧
    TmpClean l.cache fs (run env (lcommit cfg l) fs).2.1 := by
  intro cpath t0 fs
  have hd := put_keeps_chain FS.empty cpath (FS.parent cpath) (.link t0)
    (addr_not_prefix_parent _ _ _ _ _) (empty_chain _)
  have ht := put_keeps_chain FS.empty cpath (l.cache ++ [dTmp]) (.link t0)
    (addr_not_prefix_tmpDir _ _ _) (empty_chain _)
  have hns : NotSameFile fs cpath l.target := seed_notSame _ _ _ _ _
  have h := relink_replaces_old_link cfg env l fs cpath t0 hk hs hz (contentPath_of_len cfg l hl) hd ht
    (FS.get_put_same _ _ _) hns
  exact ⟨h.1, h.2.1, relink_tmp_clean cfg env l fs cpath t0 hk hs hz (contentPath_of_len cfg l hl) hd ht
    (FS.get_put_same _ _ _) hns⟩

/-- Statement 2 on the empty filesystem. -/
example (hk : l.key = none) (hs : l.opts.sri = none) (hz : l.opts.size = none) :
    (run env (lcommit cfg l) FS.empty).1 = .ok (Sri.compute cfg.H l.algo l.data) ∧
    (run env (lcommit cfg l) FS.empty).2.1.get
      (addrPath l.cache l.algo (Bytes.hex (cfg.H l.algo l.data))) = some (.link l.target) := by
  have h := link_fresh_address cfg env l FS.empty _ hk hs hz (contentPath_of_len cfg l hl)
    (empty_chain _) rfl
  exact ⟨h.1, h.2.1⟩

/-- Statement 3 on the filesystem holding nothing but a regular file at the address. -/
example (hk : l.key = none) (hs : l.opts.sri = none) (hz : l.opts.size = none) (b : Bytes) :
    let cpath := addrPath l.cache l.algo (Bytes.hex (cfg.H l.algo l.data))
    let fs := FS.empty.put cpath (.file b)
    (run env (lcommit cfg l) fs).1 = .ok (Sri.compute cfg.H l.algo l.data) ∧
    (run env (lcommit cfg l) fs).2.1.get cpath = some (.file b) := by
  intro cpath fs
  have hd := put_keeps_chain FS.empty cpath (FS.parent cpath) (.file b)
    (addr_not_prefix_parent _ _ _ _ _) (empty_chain _)
  have h := link_keeps_regular_content cfg env l fs cpath b hk hs hz (contentPath_of_len cfg l hl) hd
    (FS.get_put_same _ _ _)
  exact ⟨h.1, h.2.1⟩

/-- Statement 1, keyed, on the filesystem holding nothing but a link at the address (its index
area is empty, hence healthy). -/
example (k : Bytes) (hk : l.key = some k) (hs : l.opts.sri = none) (hz : l.opts.size = none) :
    let cpath := addrPath l.cache l.algo (Bytes.hex (cfg.H l.algo l.data))
    let t0 : Target := .abs (cpath ++ [[120]])
    let fs := FS.empty.put cpath (.link t0)
    (run env (lcommit cfg l) fs).1 = .ok (Sri.compute cfg.H l.algo l.data) ∧
    (run env (lcommit cfg l) fs).2.1.get cpath = some (.link l.target) ∧
    (run env (lcommit cfg l) fs).2.1.get (bucketPath cfg l.cache k) =
      some (.file ((codec cfg).frame (mkRec k (linkOpts cfg l) (stamp env l.opts)))) := by
  intro cpath t0 fs
  have hd := put_keeps_chain FS.empty cpath (FS.parent cpath) (.link t0)
    (addr_not_prefix_parent _ _ _ _ _) (empty_chain _)
  have ht := put_keeps_chain FS.empty cpath (l.cache ++ [dTmp]) (.link t0)
    (addr_not_prefix_tmpDir _ _ _) (empty_chain _)
  have hI0 : HealthyIndex cfg l.cache FS.empty :=
    Refine.healthy_of_empty_cache cfg l.cache FS.empty (fun _ _ _ => Or.inl rfl) (fun _ _ _ => rfl)
  have hI : HealthyIndex cfg l.cache fs :=
    (index_untouched cfg (a := l.algo) (hx := Bytes.hex (cfg.H l.algo l.data)) [] hI0
      (fun q hq _ => Or.inl (FS.get_put_ne _ _ hq))).1
  have h := relink_replaces_old_link_keyed cfg env l k fs cpath t0 hk hs hz
    (contentPath_of_len cfg l hl) hd ht hI (FS.get_put_same _ _ _) (seed_notSame _ _ _ _ _)
  refine ⟨h.1, h.2.1, ?_⟩
  have hb := h.2.2.2.1
  have : bytesAt fs (bucketPath cfg l.cache k) = [] := by
    unfold bytesAt
    rw [FS.get_put_ne _ _ (bucket_ne_addr cfg _ _ _ _)]
    rfl
  rw [hb, this, List.nil_append]

end

/-- `relink_same_file_kept` on a concrete filesystem: the address already links to the target
file `/t` (outside the cache `/c`); the link stays and no temp name is used. -/
example :
    let cpath := addrPath l0.cache l0.algo (Bytes.hex (cfg0.H l0.algo l0.data))
    let fs := (FS.empty.put cpath (.link (.abs [[116]]))).put [[116]] (.file [1, 2, 3])
    (run env (lcommit cfg0 l0) fs).1 = .ok (Sri.compute cfg0.H l0.algo l0.data) ∧
    (run env (lcommit cfg0 l0) fs).2.1.get cpath = some (.link (.abs [[116]])) ∧
    (run env (lcommit cfg0 l0) fs).2.1.next = fs.next := by
  intro cpath fs
  have hne : ([[116]] : Path) ≠ cpath := by
    intro e
    have := congrArg List.length e
    rw [addrPath_length] at this
    simp at this
  have hnp : ∀ d : Path, ¬ ([[116]] : Path) <+: l0.cache ++ d := by
    intro d h
    have := List.cons_prefix_cons.mp (show ([116] : Bytes) :: [] <+: [99] :: d from h)
    simp at this
  have hd := put_keeps_chain _ [[116]] (FS.parent cpath) (.file [1, 2, 3])
    (by rw [parent_addr_eq]; exact hnp _)
    (put_keeps_chain FS.empty cpath (FS.parent cpath) (.link (.abs [[116]]))
      (addr_not_prefix_parent _ _ _ _ _) (empty_chain _))
  have hold : fs.get cpath = some (.link (.abs [[116]])) := by
    rw [FS.get_put_ne _ _ hne.symm, FS.get_put_same]
  have hfile : fs.get [[116]] = some (.file [1, 2, 3]) := FS.get_put_same _ _ _
  have hsm : SameFile fs cpath l0.target :=
    sameFile_of_eq hold rfl (by show (fs.get [[116]]).isSome = true; rw [hfile]; rfl)
      (by intro t; show fs.get [[116]] ≠ _; rw [hfile]; intro e; cases e)
  have h := relink_same_file_kept cfg0 env l0 fs cpath _ rfl rfl rfl
    (contentPath_of_len cfg0 l0 (len0 l0)) hd hold hsm
  exact ⟨h.1, h.2.1, h.2.2.2⟩

/-- Statement 4 on a concrete filesystem: a dangling link at the address and the target file
`/t` outside the cache `/c`. -/
example :
    let cpath := addrPath l0.cache l0.algo (Bytes.hex (cfg0.H l0.algo l0.data))
    let fs := (FS.empty.put cpath (.link (.rel [[120]]))).put [[116]] (.file [1, 2, 3])
    (run env (lcommit cfg0 l0) fs).2.1.readFile cpath = .ok [1, 2, 3] ∧
    (run env (readHash cfg0 l0.cache (Sri.compute cfg0.H l0.algo l0.data))
      (run env (lcommit cfg0 l0) fs).2.1).1 = .ok [1, 2, 3] := by
  intro cpath fs
  have hne : ([[116]] : Path) ≠ cpath := by
    intro e
    have := congrArg List.length e
    rw [addrPath_length] at this
    simp at this
  have hnp : ∀ d : Path, ¬ ([[116]] : Path) <+: l0.cache ++ d := by
    intro d h
    have := List.cons_prefix_cons.mp (show ([116] : Bytes) :: [] <+: [99] :: d from h)
    simp at this
  have hd := put_keeps_chain _ [[116]] (FS.parent cpath) (.file [1, 2, 3])
    (by rw [parent_addr_eq]; exact hnp _)
    (put_keeps_chain FS.empty cpath (FS.parent cpath) (.link (.rel [[120]]))
      (addr_not_prefix_parent _ _ _ _ _) (empty_chain _))
  have ht := put_keeps_chain _ [[116]] (l0.cache ++ [dTmp]) (.file [1, 2, 3]) (hnp _)
    (put_keeps_chain FS.empty cpath (l0.cache ++ [dTmp]) (.link (.rel [[120]]))
      (addr_not_prefix_tmpDir _ _ _) (empty_chain _))
  have hold : fs.get cpath = some (.link (.rel [[120]])) := by
    rw [FS.get_put_ne _ _ hne.symm, FS.get_put_same]
  have hout : ¬ l0.cache <+: ([[116]] : Path) := by
    intro h
    have := List.cons_prefix_cons.mp (show ([99] : Bytes) :: [] <+: [116] :: [] from h)
    simp at this
  exact ⟨relinked_address_reads_target cfg0 env l0 fs cpath _ rfl rfl rfl
      (contentPath_of_len cfg0 l0 (len0 l0)) hd ht hold [[116]] rfl (by simp) hout (FS.get_put_same _ _ _),
    relinked_address_readHash cfg0 env l0 fs cpath _ rfl rfl rfl
      (contentPath_of_len cfg0 l0 (len0 l0)) hd ht hold [[116]] rfl (by simp) hout (FS.get_put_same _ _ _)⟩

/-- The keyed read-back on a concrete filesystem: key `k`, a dangling link at the address, the
target file `/t` outside the cache `/c`, nothing in the index. -/
example :
    let cpath := addrPath l1.cache l1.algo (Bytes.hex (cfg0.H l1.algo l1.data))
    let fs := (FS.empty.put cpath (.link (.rel [[120]]))).put [[116]] (.file [1, 2, 3])
    (run env (read cfg0 l1.cache [107]) (run env (lcommit cfg0 l1) fs).2.1).1 = .ok [1, 2, 3] := by
  intro cpath fs
  have hne : ([[116]] : Path) ≠ cpath := by
    intro e
    have := congrArg List.length e
    rw [addrPath_length] at this
    simp at this
  have hnp : ∀ d : Path, ¬ ([[116]] : Path) <+: l1.cache ++ d := by
    intro d h
    have := List.cons_prefix_cons.mp (show ([116] : Bytes) :: [] <+: [99] :: d from h)
    simp at this
  have hd := put_keeps_chain _ [[116]] (FS.parent cpath) (.file [1, 2, 3])
    (by rw [parent_addr_eq]; exact hnp _)
    (put_keeps_chain FS.empty cpath (FS.parent cpath) (.link (.rel [[120]]))
      (addr_not_prefix_parent _ _ _ _ _) (empty_chain _))
  have ht := put_keeps_chain _ [[116]] (l1.cache ++ [dTmp]) (.file [1, 2, 3]) (hnp _)
    (put_keeps_chain FS.empty cpath (l1.cache ++ [dTmp]) (.link (.rel [[120]]))
      (addr_not_prefix_tmpDir _ _ _) (empty_chain _))
  have hold : fs.get cpath = some (.link (.rel [[120]])) := by
    rw [FS.get_put_ne _ _ hne.symm, FS.get_put_same]
  have hout : ¬ l1.cache <+: ([[116]] : Path) := by
    intro h
    have := List.cons_prefix_cons.mp (show ([99] : Bytes) :: [] <+: [116] :: [] from h)
    simp at this
  have hI0 : HealthyIndex cfg0 l1.cache FS.empty :=
    Refine.healthy_of_empty_cache cfg0 l1.cache FS.empty (fun _ _ _ => Or.inl rfl) (fun _ _ _ => rfl)
  have hI : HealthyIndex cfg0 l1.cache fs := by
    refine (healthyIndex_grow cfg0 l1.cache hI0 ?_ ?_).1
    · intro key
      have h1 : bucketPath cfg0 l1.cache key ≠ [[116]] := by
        intro e
        have := congrArg List.length e
        rw [bucket_length] at this
        simp at this
      rw [FS.get_put_ne _ _ h1, FS.get_put_ne _ _ (bucket_ne_addr cfg0 _ _ _ _)]
    · intro key q _ hq
      left
      have h1 : q ≠ [[116]] := by
        intro e; subst e
        have hp : FS.parent (bucketPath cfg0 l1.cache key) = l1.cache ++
            [dIndex, (keyHex cfg0 key).take 2, ((keyHex cfg0 key).drop 2).take 2] := by
          simp [bucketPath, FS.parent, List.dropLast_append_of_ne_nil]
        rw [hp] at hq
        exact hnp _ hq
      have h2 : q ≠ cpath := by
        intro e; subst e; exact addr_not_prefix_parent_bucket cfg0 _ _ _ _ hq
      rw [FS.get_put_ne _ _ h1, FS.get_put_ne _ _ h2]
  exact relinked_key_reads_target cfg0 env l1 [107] fs cpath _ rfl rfl rfl
    (contentPath_of_len cfg0 l1 (len0 l1)) hd ht hI hold (optsWF_default (by decide))
    (by simp [l1, l0, Rec.u64Max]) [[116]] rfl (by simp) hout (FS.get_put_same _ _ _)

#print axioms relink_replaces_old_link
#print axioms relink_same_file_kept
#print axioms relink_tmp_clean
#print axioms relink_keeps_existing
#print axioms link_fresh_address
#print axioms link_keeps_regular_content
#print axioms relinked_address_reads_target
#print axioms relinked_address_readHash
#print axioms relink_replaces_old_link_keyed
#print axioms link_fresh_address_keyed
#print axioms link_keeps_regular_content_keyed
#print axioms relink_same_file_kept_keyed
#print axioms relinked_key_reads_target
#print axioms notSameFile_of_dangling
#print axioms notSameFile_of_ne
#print axioms sameFile_of_eq

end Cacache.LinkRefine
