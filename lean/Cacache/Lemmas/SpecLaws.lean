/-
Algebraic laws of the abstract cache (`ListRefine.XAbs`) and their transfer to the model programs
through the refinement theorems — "doing it again changes nothing more":

* `removeFullySpec_idem`, `clearSpec_idem` — the specification's full removal and `clear` are
  idempotent on the abstract state, for EVERY abstract state (no invariant needed);
* `removeFully_twice` — on a healthy, tidy cache the real model program `remove_fully key`, run a
  second time, leaves the abstract cache (index, store, bucket files, directories) exactly as the
  first run left it, keeps it healthy and tidy, and when the first run answered ok the second one
  answers the NotFound of the missing bucket file (never a panic, never another entry's removal);
* `clear_twice` — `clear` on the cache `clear` left answers ok again and leaves the empty cache;
* `removeFully_then_clear_commute_abs` — clearing after a full removal is clearing.

Surfaced as `Props/C09x` (`removeFully_idempotent`, `clear_idempotent`).
-/
import Cacache.Lemmas.ListRefine

namespace Cacache.SpecLaws
open Prog Json Refine CacheRefine ListRefine

variable (cfg : Cfg) (cache : Path)

theorem sameBucket_self (key : Bytes) : SameBucket cfg key key := rfl

/-- The bucket step fails with NotFound and changes nothing once the bucket is gone. -/
theorem bucketSpec_absent (m : XAbs) (key : Bytes) (hb : m.bucket key = false) :
    bucketSpec cfg m key = (m, .error (.io .notFound)) := by
  unfold bucketSpec
  simp [hb]

/-- After a successful bucket step the key has neither an entry nor a bucket. -/
theorem bucketSpec_present (m : XAbs) (key : Bytes) (hb : m.bucket key = true) :
    (bucketSpec cfg m key).2 = .ok () ∧ (bucketSpec cfg m key).1.bucket key = false ∧
    (bucketSpec cfg m key).1.cache.index key = none ∧
    (bucketSpec cfg m key).1.cache.store = m.cache.store := by
  unfold bucketSpec
  simp [hb]

theorem dropSpec_idem (st : AbsStore) (sri : Integrity) :
    (dropSpec (dropSpec st sri).1 sri).1 = (dropSpec st sri).1 := by
  unfold dropSpec
  cases e : addrOf sri with
  | none => simp
  | some x =>
    obtain ⟨a, h⟩ := x
    cases e2 : st a h with
    | none => simp [e2]
    | some d =>
      simp only [e2]
      have : (st.set a h none) a h = none := by simp [AbsStore.set]
      simp [this]

/-- The answer of a second drop of the same address: never ok with something left to drop. -/
theorem dropSpec_again_goesOn (st : AbsStore) (sri : Integrity)
    (h : goesOn (dropSpec st sri).2 = true) : goesOn (dropSpec (dropSpec st sri).1 sri).2 = true := by
  unfold dropSpec at *
  cases e : addrOf sri with
  | none => simp [e] at h; simp [goesOn] at h
  | some x =>
    obtain ⟨a, hh⟩ := x
    cases e2 : st a hh with
    | none => simp [e2, goesOn]
    | some d =>
      have : (st.set a hh none) a hh = none := by simp [AbsStore.set]
      simp [e2, this, goesOn]

/-- **The abstract full removal is idempotent** on the state, whatever the state. -/
theorem removeFullySpec_idem (m : XAbs) (key : Bytes) :
    (removeFullySpec cfg (removeFullySpec cfg m key).1 key).1 = (removeFullySpec cfg m key).1 := by
  cases hi : m.cache.index key with
  | none =>
    -- nothing to drop; only the bucket step
    have h1 : removeFullySpec cfg m key = bucketSpec cfg (m.withStore m.cache.store) key := by
      unfold removeFullySpec; simp [hi, contentSpec, goesOn]
    have hw : m.withStore m.cache.store = m := by cases m; rfl
    rw [h1, hw]
    cases hb : m.bucket key with
    | false =>
      rw [bucketSpec_absent cfg m key hb]
      show (removeFullySpec cfg m key).1 = m
      rw [h1, hw, bucketSpec_absent cfg m key hb]
    | true =>
      obtain ⟨_, b2, b3, _⟩ := bucketSpec_present cfg m key hb
      generalize hm' : (bucketSpec cfg m key).1 = m' at *
      have h2 : removeFullySpec cfg m' key = bucketSpec cfg (m'.withStore m'.cache.store) key := by
        unfold removeFullySpec; simp [b3, contentSpec, goesOn]
      have hw' : m'.withStore m'.cache.store = m' := by cases m'; rfl
      rw [h2, hw', bucketSpec_absent cfg m' key b2]
  | some e =>
    by_cases hg : goesOn (dropSpec m.cache.store e.sri).2 = true
    · -- content step goes on, then the bucket step
      have h1 : removeFullySpec cfg m key =
          bucketSpec cfg (m.withStore (dropSpec m.cache.store e.sri).1) key := by
        unfold removeFullySpec; simp [hi, contentSpec, hg]
      rw [h1]
      generalize hm1 : m.withStore (dropSpec m.cache.store e.sri).1 = m1
      have hm1i : m1.cache.index key = some e := by rw [← hm1]; simpa [XAbs.withStore] using hi
      have hm1s : m1.cache.store = (dropSpec m.cache.store e.sri).1 := by rw [← hm1]; rfl
      have hm1b : m1.bucket key = m.bucket key := by rw [← hm1]; rfl
      cases hb : m1.bucket key with
      | false =>
        rw [bucketSpec_absent cfg m1 key hb]
        show (removeFullySpec cfg m1 key).1 = m1
        have hg2 : goesOn (dropSpec m1.cache.store e.sri).2 = true := by
          rw [hm1s]; exact dropSpec_again_goesOn _ _ hg
        have h2 : removeFullySpec cfg m1 key =
            bucketSpec cfg (m1.withStore (dropSpec m1.cache.store e.sri).1) key := by
          unfold removeFullySpec; simp [hm1i, contentSpec, hg2]
        have hst : (dropSpec m1.cache.store e.sri).1 = m1.cache.store := by
          rw [hm1s]; exact dropSpec_idem _ _
        have hw : m1.withStore m1.cache.store = m1 := by cases m1; rfl
        rw [h2, hst, hw, bucketSpec_absent cfg m1 key hb]
      | true =>
        obtain ⟨_, b2, b3, _⟩ := bucketSpec_present cfg m1 key hb
        generalize hm' : (bucketSpec cfg m1 key).1 = m' at *
        have h2 : removeFullySpec cfg m' key = bucketSpec cfg (m'.withStore m'.cache.store) key := by
          unfold removeFullySpec; simp [b3, contentSpec, goesOn]
        have hw' : m'.withStore m'.cache.store = m' := by cases m'; rfl
        rw [h2, hw', bucketSpec_absent cfg m' key b2]
    · -- the content step ends the operation (a panic: no usable address); the store is unchanged
      have h1 : removeFullySpec cfg m key =
          (m.withStore (dropSpec m.cache.store e.sri).1, (dropSpec m.cache.store e.sri).2) := by
        unfold removeFullySpec; simp [hi, contentSpec, hg]
      rw [h1]
      generalize hm1 : m.withStore (dropSpec m.cache.store e.sri).1 = m1
      have hm1i : m1.cache.index key = some e := by rw [← hm1]; simpa [XAbs.withStore] using hi
      have hm1s : m1.cache.store = (dropSpec m.cache.store e.sri).1 := by rw [← hm1]; rfl
      show (removeFullySpec cfg m1 key).1 = m1
      have hst : (dropSpec m1.cache.store e.sri).1 = m1.cache.store := by
        rw [hm1s]; exact dropSpec_idem _ _
      have hw : m1.withStore m1.cache.store = m1 := by cases m1; rfl
      -- the second content step answers what the first did
      have hsame : (dropSpec m1.cache.store e.sri).2 = (dropSpec m.cache.store e.sri).2 := by
        rw [hm1s]
        unfold dropSpec at hg ⊢
        cases ea : addrOf e.sri with
        | none => simp
        | some x =>
          obtain ⟨a, hh⟩ := x
          cases e2 : m.cache.store a hh with
          | none => simp [ea, e2, goesOn] at hg
          | some d => simp [ea, e2, goesOn] at hg
      have hg2 : ¬ goesOn (dropSpec m1.cache.store e.sri).2 = true := by rw [hsame]; exact hg
      unfold removeFullySpec
      simp [hm1i, contentSpec, hg2, hst, hw]

/-- **The abstract `clear` is idempotent**, answer included. -/
theorem clearSpec_idem (m : XAbs) : clearSpec (clearSpec m).1 = clearSpec m := by
  unfold clearSpec
  cases h : m.cacheDir with
  | true => simp [XAbs.cleared]
  | false => simp [h]

/-- When the first abstract full removal answered ok, the second answers NotFound. -/
theorem removeFullySpec_again_notFound (m : XAbs) (key : Bytes)
    (hok : (removeFullySpec cfg m key).2 = .ok ()) :
    (removeFullySpec cfg (removeFullySpec cfg m key).1 key).2 = .error (.io .notFound) := by
  -- the first run ended in a successful bucket step
  have key1 : ∃ m1, removeFullySpec cfg m key = bucketSpec cfg m1 key ∧ m1.bucket key = m.bucket key := by
    unfold removeFullySpec at hok ⊢
    by_cases hg : goesOn (contentSpec m.cache.store (m.cache.index key)).2 = true
    · exact ⟨m.withStore (contentSpec m.cache.store (m.cache.index key)).1, by rw [if_pos hg], rfl⟩
    · rw [if_neg hg] at hok
      have hok' : (contentSpec m.cache.store (m.cache.index key)).2 = .ok () := hok
      rw [hok'] at hg
      exact absurd rfl hg
  obtain ⟨m1, h1, hb1⟩ := key1
  cases hb : m1.bucket key with
  | false =>
    rw [h1, bucketSpec_absent cfg m1 key hb] at hok
    cases hok
  | true =>
    obtain ⟨_, b2, b3, _⟩ := bucketSpec_present cfg m1 key hb
    rw [h1]
    generalize (bucketSpec cfg m1 key).1 = m' at *
    have h2 : removeFullySpec cfg m' key = bucketSpec cfg (m'.withStore m'.cache.store) key := by
      unfold removeFullySpec; simp [b3, contentSpec, goesOn]
    have hw' : m'.withStore m'.cache.store = m' := by cases m'; rfl
    rw [h2, hw', bucketSpec_absent cfg m' key b2]

/-- **`remove_fully` is idempotent on every healthy, tidy cache** (the model program, run to
completion twice): the second run changes nothing the abstraction can see and keeps the invariant;
and after an ok answer the second answer is the NotFound of the missing bucket file. -/
theorem removeFully_twice (env env' : Env) (key : Bytes) (fs : FS) (h : Healthy cfg cache fs)
    (hl : HexLen cfg) (hT : Tidy cfg cache fs) :
    let fs1 := (run env (removeFully cfg cache key) fs).2.1
    let r2 := run env' (removeFully cfg cache key) fs1
    absX cfg cache r2.2.1 = absX cfg cache fs1 ∧ Healthy cfg cache r2.2.1 ∧ Tidy cfg cache r2.2.1 ∧
    r2.1 = (removeFullySpec cfg (removeFullySpec cfg (absX cfg cache fs) key).1 key).2 := by
  intro fs1 r2
  obtain ⟨_, a1, h1, t1⟩ := removeFully_refines cfg cache env key fs h hl hT
  obtain ⟨a2, b2, h2, t2⟩ := removeFully_refines cfg cache env' key fs1 h1 hl t1
  refine ⟨?_, h2, t2, ?_⟩
  · show absX cfg cache (run env' (removeFully cfg cache key) fs1).2.1 = absX cfg cache fs1
    rw [b2]
    show (removeFullySpec cfg (absX cfg cache fs1) key).1 = absX cfg cache fs1
    rw [show absX cfg cache fs1 = (removeFullySpec cfg (absX cfg cache fs) key).1 from a1]
    exact removeFullySpec_idem cfg _ key
  · show (run env' (removeFully cfg cache key) fs1).1 = _
    rw [a2]
    rw [show absX cfg cache fs1 = (removeFullySpec cfg (absX cfg cache fs) key).1 from a1]

/-- **`clear` twice**: the second `clear` answers ok and the cache is still the empty cache. -/
theorem clear_twice (env env' : Env) (fs : FS) (hH : Healthy cfg cache fs) (hT : Tidy cfg cache fs)
    (hd : fs.isDir cache = true) :
    let fs1 := (run env (clear cache) fs).2.1
    (run env' (clear cache) fs1).1 = .ok () ∧
    absCache cfg cache (run env' (clear cache) fs1).2.1 = AbsCache.empty ∧
    absCache cfg cache fs1 = AbsCache.empty ∧
    (∀ q, cache <+: q → q ≠ cache → (run env' (clear cache) fs1).2.1.get q = none) ∧
    (run env' (clear cache) fs1).2.1.isDir cache = true := by
  intro fs1
  obtain ⟨_, _, _, d1, h1, t1, e1⟩ := clear_empties cfg cache env fs hH hT hd
  obtain ⟨r2, _, g2, d2, _, _, e2⟩ := clear_empties cfg cache env' fs1 h1 t1 d1
  exact ⟨r2, e2, e1, g2, d2⟩

/-- **Representation independence**: what any sequence of keyed writes, reads, lookups, index
insertions / removals and by-address operations answers depends on the filesystem only through
its abstraction (the key → entry map and the address → bytes map).  Two healthy caches with the
same abstraction — however their bucket files differ in superseded records, tombstones, order of
other keys' records, or directory skeleton — are indistinguishable by every history, and stay so. -/
theorem representation_independent (ops : List (Env × COp)) (fs1 fs2 : FS)
    (h1 : Healthy cfg cache fs1) (h2 : Healthy cfg cache fs2) (hl : HexLen cfg)
    (hops : ∀ x ∈ ops, x.2.WF cfg) (habs : absCache cfg cache fs1 = absCache cfg cache fs2) :
    (cRunOps cfg cache ops fs1).1 = (cRunOps cfg cache ops fs2).1 ∧
    absCache cfg cache (cRunOps cfg cache ops fs1).2 = absCache cfg cache (cRunOps cfg cache ops fs2).2 := by
  obtain ⟨a1, b1, _⟩ := cache_refines_map cfg cache ops fs1 h1 hl hops
  obtain ⟨a2, b2, _⟩ := cache_refines_map cfg cache ops fs2 h2 hl hops
  rw [a1, a2, b1, b2, habs]
  exact ⟨rfl, rfl⟩

/-- The same for the extended surface (listings, full removals, `clear`): equal extended
abstractions admit the same answers (a listing up to the order of its items) and lead to equal
abstractions. -/
theorem representation_independent_ext (ops : List (Env × XOp)) (fs1 fs2 : FS)
    (h1 : XHealthy cfg cache fs1) (h2 : XHealthy cfg cache fs2) (hl : HexLen cfg)
    (hops : ∀ x ∈ ops, x.2.WF cfg) (habs : absX cfg cache fs1 = absX cfg cache fs2) :
    ∃ spec, Answers (xRunOps cfg cache ops fs1).1 spec ∧ Answers (xRunOps cfg cache ops fs2).1 spec ∧
    absX cfg cache (xRunOps cfg cache ops fs1).2 = absX cfg cache (xRunOps cfg cache ops fs2).2 := by
  obtain ⟨a1, b1, _⟩ := ListRefine.cache_refines_map_ext cfg cache ops fs1 h1 hl hops
  obtain ⟨a2, b2, _⟩ := ListRefine.cache_refines_map_ext cfg cache ops fs2 h2 hl hops
  refine ⟨(xSpecRun cfg ops (absX cfg cache fs1)).1, a1, ?_, ?_⟩
  · rw [habs]; exact a2
  · rw [b1, b2, habs]

/-- The read-only operations of the cache surface: keyed read, lookup, by-address read, `exists`. -/
def isRead : COp → Bool
  | .get _ => true
  | .index (.look _) => true
  | .addr (.get _) => true
  | .addr (.has _) => true
  | _ => false

theorem cSpecStep_read (env : Env) (m : AbsCache) (op : COp) (h : isRead op = true) :
    (cSpecStep cfg env m op).1 = m := by
  cases op with
  | put fl key o chunks => cases h
  | get key => rfl
  | index op => cases op <;> first | rfl | cases h
  | addr op => cases op <;> first | rfl | cases h

/-- The answers of the operations that are not reads, in order. -/
def writeAnswers : List (Env × COp) → List COut → List COut
  | x :: ops, o :: outs => if isRead x.2 then writeAnswers ops outs else o :: writeAnswers ops outs
  | _, _ => []

theorem cSpecRun_drop_reads (ops : List (Env × COp)) (m : AbsCache) :
    (cSpecRun cfg (ops.filter (fun x => !isRead x.2)) m).1 = writeAnswers ops (cSpecRun cfg ops m).1 ∧
    (cSpecRun cfg (ops.filter (fun x => !isRead x.2)) m).2 = (cSpecRun cfg ops m).2 := by
  induction ops generalizing m with
  | nil => exact ⟨rfl, rfl⟩
  | cons x ops ih =>
    obtain ⟨env, op⟩ := x
    cases hr : isRead op with
    | true =>
      have hs := cSpecStep_read cfg env m op hr
      simp only [List.filter_cons, hr, Bool.not_true, cSpecRun, writeAnswers, hs]
      simpa using ih m
    | false =>
      simp only [List.filter_cons, hr, Bool.not_false, cSpecRun, writeAnswers]
      obtain ⟨i1, i2⟩ := ih (cSpecStep cfg env m op).1
      refine ⟨?_, ?_⟩
      · show (cSpecStep cfg env m op).2 :: (cSpecRun cfg _ (cSpecStep cfg env m op).1).1 = _
        rw [i1]
        simp
      · show (cSpecRun cfg _ (cSpecStep cfg env m op).1).2 = _
        rw [i2]

/-- **Reads are invisible in every history** (C15 "reads do not mutate", at history level): take any
sequence of cache operations on a healthy cache and delete every keyed read, lookup, by-address
read and `exists` from it — every remaining operation answers exactly what it answered in the full
history, and the final abstract cache is the same.  No read, wherever it is placed and whatever it
is asked for (also a missing key, an unusable integrity), changes what any later call sees. -/
theorem reads_invisible (ops : List (Env × COp)) (fs : FS) (h : Healthy cfg cache fs) (hl : HexLen cfg)
    (hops : ∀ x ∈ ops, x.2.WF cfg) :
    (cRunOps cfg cache (ops.filter (fun x => !isRead x.2)) fs).1 =
      writeAnswers ops (cRunOps cfg cache ops fs).1 ∧
    absCache cfg cache (cRunOps cfg cache (ops.filter (fun x => !isRead x.2)) fs).2 =
      absCache cfg cache (cRunOps cfg cache ops fs).2 := by
  have hops' : ∀ x ∈ ops.filter (fun x => !isRead x.2), x.2.WF cfg :=
    fun x hx => hops x (List.mem_filter.mp hx).1
  obtain ⟨a1, b1, _⟩ := cache_refines_map cfg cache ops fs h hl hops
  obtain ⟨a2, b2, _⟩ := cache_refines_map cfg cache _ fs h hl hops'
  obtain ⟨s1, s2⟩ := cSpecRun_drop_reads cfg ops (absCache cfg cache fs)
  rw [a2, b2, a1, b1, s1, s2]
  exact ⟨rfl, rfl⟩

/-- The key an index operation names. -/
def iopKey : IOp → Bytes
  | .ins key _ => key
  | .del key => key
  | .look key => key

/-- **Index operations on different keys commute** in the abstract index: same final map, and each
answers what it answers without the other. -/
theorem specStep_comm (env1 env2 : Env) (m : AbsIndex) (op1 op2 : IOp) (h : iopKey op1 ≠ iopKey op2) :
    (specStep env2 (specStep env1 m op1).1 op2).1 = (specStep env1 (specStep env2 m op2).1 op1).1 ∧
    (specStep env2 (specStep env1 m op1).1 op2).2 = (specStep env2 m op2).2 ∧
    (specStep env1 (specStep env2 m op2).1 op1).2 = (specStep env1 m op1).2 := by
  have h' : iopKey op2 ≠ iopKey op1 := fun e => h e.symm
  cases op1 <;> cases op2 <;> simp only [iopKey] at h h' <;>
    refine ⟨?_, ?_, ?_⟩ <;> simp only [specStep] <;>
    first
      | rfl
      | (funext k; by_cases e1 : k = _ <;> by_cases e2 : k = _ <;> simp_all)
      | simp [h, h']
      | (funext k; split <;> split <;> simp_all)

/-- **… and so do the index programs on every healthy cache**: `insert` / `remove` / lookup of two
different keys, run in either order (each with its own clock answer), give each call the same
answer and leave the same abstract cache — an operation on one key can neither disturb nor be
disturbed by an operation on another, whichever comes first. -/
theorem index_ops_commute (env1 env2 : Env) (op1 op2 : IOp) (fs : FS) (h : Healthy cfg cache fs)
    (hl : HexLen cfg) (w1 : OpWF cfg op1) (w2 : OpWF cfg op2) (hk : iopKey op1 ≠ iopKey op2) :
    ∃ a b, (cRunOps cfg cache [(env1, .index op1), (env2, .index op2)] fs).1 = [a, b] ∧
      (cRunOps cfg cache [(env2, .index op2), (env1, .index op1)] fs).1 = [b, a] ∧
      absCache cfg cache (cRunOps cfg cache [(env1, .index op1), (env2, .index op2)] fs).2 =
        absCache cfg cache (cRunOps cfg cache [(env2, .index op2), (env1, .index op1)] fs).2 := by
  have wf12 : ∀ x ∈ [(env1, COp.index op1), (env2, COp.index op2)], x.2.WF cfg := by
    intro x hx; simp at hx; rcases hx with rfl | rfl; exact w1; exact w2
  have wf21 : ∀ x ∈ [(env2, COp.index op2), (env1, COp.index op1)], x.2.WF cfg := by
    intro x hx; simp at hx; rcases hx with rfl | rfl; exact w2; exact w1
  obtain ⟨a1, b1, _⟩ := cache_refines_map cfg cache _ fs h hl wf12
  obtain ⟨a2, b2, _⟩ := cache_refines_map cfg cache _ fs h hl wf21
  obtain ⟨c1, c2, c3⟩ := specStep_comm env1 env2 (absCache cfg cache fs).index op1 op2 hk
  refine ⟨.index (specStep env1 (absCache cfg cache fs).index op1).2,
          .index (specStep env2 (absCache cfg cache fs).index op2).2, ?_, ?_, ?_⟩
  · rw [a1]; simp only [cSpecRun, cSpecStep]; rw [c2]
  · rw [a2]; simp only [cSpecRun, cSpecStep]; rw [c3]
  · rw [b1, b2]; simp only [cSpecRun, cSpecStep]; rw [c1]

/-- Writing bytes whose address already holds exactly these bytes is a no-op on the abstract store. -/
theorem sSpecStep_put_present (m : AbsStore) (fl : Flavour) (o : WriteOpts) (chunks : List Bytes)
    (hp : m (o.algo.getD .sha256) (Bytes.hex (cfg.H (o.algo.getD .sha256) chunks.flatten)) = some chunks.flatten) :
    (sSpecStep cfg m (.put fl o chunks)).1 = m := by
  simp only [sSpecStep]
  funext a' h'
  unfold AbsStore.set
  by_cases e : a' = o.algo.getD .sha256 ∧ h' = Bytes.hex (cfg.H (o.algo.getD .sha256) chunks.flatten)
  · rw [if_pos e, e.1, e.2, hp]
  · rw [if_neg e]

/-- **Identical data is stored once, whenever it is written again**: on a healthy store whose
address for these bytes already holds them (written by any earlier call of any flavour, however
chunked, any number of operations ago), a by-address write of the same bytes — any flavour, any
chunking — leaves the abstract store (every address → bytes) exactly as it was, keeps the store
healthy, and answers what the abstract write answers. -/
theorem rewrite_is_noop (env : Env) (fl : Flavour) (o : WriteOpts) (chunks : List Bytes) (fs : FS)
    (h : HealthyStore cfg cache fs) (hl : HexLen cfg)
    (hp : absStore cache fs (o.algo.getD .sha256)
      (Bytes.hex (cfg.H (o.algo.getD .sha256) chunks.flatten)) = some chunks.flatten) :
    absStore cache (sRunOps cfg cache [(env, .put fl o chunks)] fs).2 = absStore cache fs ∧
    HealthyStore cfg cache (sRunOps cfg cache [(env, .put fl o chunks)] fs).2 ∧
    (sRunOps cfg cache [(env, .put fl o chunks)] fs).1 = [.wrote (putAnswer cfg o chunks.flatten)] := by
  obtain ⟨a1, b1, c1⟩ := store_refines_map cfg cache [(env, .put fl o chunks)] fs h hl
  refine ⟨?_, c1, ?_⟩
  · rw [b1]
    show (sSpecStep cfg (absStore cache fs) (.put fl o chunks)).1 = _
    exact sSpecStep_put_present cfg _ fl o chunks hp
  · rw [a1]; rfl

/-- The read-only operations of the extended surface: the reads of `isRead`, and listings. -/
def isReadX : XOp → Bool
  | .cop op => isRead op
  | .list => true
  | _ => false

theorem copFlags_read (m : XAbs) (op : COp) (h : isRead op = true) : copFlags cfg m m.cache op = m := by
  cases op with
  | put fl key o chunks => cases h
  | get key => cases m; rfl
  | index op => cases op <;> first | (cases m; rfl) | cases h
  | addr op => cases op <;> first | (cases m; rfl) | cases h

theorem xSpecStep_read (env : Env) (m : XAbs) (op : XOp) (h : isReadX op = true) :
    (xSpecStep cfg env m op).1 = m := by
  cases op with
  | cop op =>
    have hs := cSpecStep_read cfg env m.cache op h
    show copFlags cfg m (cSpecStep cfg env m.cache op).1 op = m
    rw [hs]; exact copFlags_read cfg m op h
  | list => rfl
  | removeFully key => cases h
  | clear => cases h

theorem xSpecRun_drop_reads (ops : List (Env × XOp)) (m : XAbs) :
    (xSpecRun cfg (ops.filter (fun x => !isReadX x.2)) m).2 = (xSpecRun cfg ops m).2 := by
  induction ops generalizing m with
  | nil => rfl
  | cons x ops ih =>
    obtain ⟨env, op⟩ := x
    cases hr : isReadX op with
    | true =>
      have hs := xSpecStep_read cfg env m op hr
      simp only [List.filter_cons, hr, Bool.not_true, xSpecRun, hs]
      simpa using ih m
    | false =>
      simp only [List.filter_cons, hr, Bool.not_false]
      show (xSpecRun cfg _ (xSpecStep cfg env m op).1).2 = (xSpecRun cfg ops (xSpecStep cfg env m op).1).2
      exact ih _

/-- **Listings and reads are invisible in every history of the whole API surface**: delete every
listing, keyed read, lookup, by-address read and `exists` from any history that may also contain
writes, removals, full removals and `clear` — the final abstract state (entries, contents, bucket
files, directories) is the same.  A listing, cold or warm, never changes what the cache holds. -/
theorem listings_invisible (ops : List (Env × XOp)) (fs : FS) (h : XHealthy cfg cache fs)
    (hl : HexLen cfg) (hops : ∀ x ∈ ops, x.2.WF cfg) :
    absX cfg cache (xRunOps cfg cache (ops.filter (fun x => !isReadX x.2)) fs).2 =
      absX cfg cache (xRunOps cfg cache ops fs).2 := by
  have hops' : ∀ x ∈ ops.filter (fun x => !isReadX x.2), x.2.WF cfg :=
    fun x hx => hops x (List.mem_filter.mp hx).1
  obtain ⟨_, b1, _⟩ := ListRefine.cache_refines_map_ext cfg cache ops fs h hl hops
  obtain ⟨_, b2, _⟩ := ListRefine.cache_refines_map_ext cfg cache _ fs h hl hops'
  rw [b1, b2, xSpecRun_drop_reads]

/-- An index operation that (re)defines its key: insertion or removal. -/
def isIndexWrite : IOp → Bool
  | .look _ => false
  | _ => true

/-- **The last write to a key shadows whatever was done to that key before**, abstractly. -/
theorem specStep_shadow (env1 env2 : Env) (m : AbsIndex) (op1 op2 : IOp) (hk : iopKey op1 = iopKey op2)
    (hw : isIndexWrite op2 = true) :
    (specStep env2 (specStep env1 m op1).1 op2).1 = (specStep env2 m op2).1 := by
  cases op2 with
  | look key => cases hw
  | ins key o =>
    cases op1 <;> simp only [iopKey] at hk <;> subst hk <;> simp only [specStep] <;>
      first | rfl | (funext k; split <;> simp_all)
  | del key =>
    cases op1 <;> simp only [iopKey] at hk <;> subst hk <;> simp only [specStep] <;>
      first | rfl | (funext k; split <;> simp_all)

/-- **Earlier entries never resurface — an overwritten or removed entry is unobservable forever**:
on a healthy cache, do anything to a key (`op1`: insert, remove, lookup) and then insert or remove
that key (`op2`); compare with doing `op2` alone.  EVERY later history of keyed writes, reads,
lookups, index operations and by-address operations answers identically in the two worlds, and
they reach the same abstract cache — although the two bucket files differ (one holds the shadowed
record).  No sequence of calls can bring the shadowed entry back or even detect it. -/
theorem shadowed_op_unobservable (env1 env2 : Env) (op1 op2 : IOp) (fs : FS) (h : Healthy cfg cache fs)
    (hl : HexLen cfg) (w1 : OpWF cfg op1) (w2 : OpWF cfg op2) (hk : iopKey op1 = iopKey op2)
    (hw : isIndexWrite op2 = true) (later : List (Env × COp)) (hlater : ∀ x ∈ later, x.2.WF cfg) :
    (cRunOps cfg cache later (cRunOps cfg cache [(env1, .index op1), (env2, .index op2)] fs).2).1 =
      (cRunOps cfg cache later (cRunOps cfg cache [(env2, .index op2)] fs).2).1 ∧
    absCache cfg cache
        (cRunOps cfg cache later (cRunOps cfg cache [(env1, .index op1), (env2, .index op2)] fs).2).2 =
      absCache cfg cache (cRunOps cfg cache later (cRunOps cfg cache [(env2, .index op2)] fs).2).2 := by
  have wf12 : ∀ x ∈ [(env1, COp.index op1), (env2, COp.index op2)], x.2.WF cfg := by
    intro x hx; simp at hx; rcases hx with rfl | rfl; exact w1; exact w2
  have wf2 : ∀ x ∈ [(env2, COp.index op2)], x.2.WF cfg := by
    intro x hx; simp at hx; subst hx; exact w2
  obtain ⟨_, b1, h1⟩ := cache_refines_map cfg cache _ fs h hl wf12
  obtain ⟨_, b2, h2⟩ := cache_refines_map cfg cache _ fs h hl wf2
  have habs : absCache cfg cache (cRunOps cfg cache [(env1, .index op1), (env2, .index op2)] fs).2 =
      absCache cfg cache (cRunOps cfg cache [(env2, .index op2)] fs).2 := by
    rw [b1, b2]
    simp only [cSpecRun, cSpecStep]
    rw [specStep_shadow env1 env2 _ op1 op2 hk hw]
  exact representation_independent cfg cache later _ _ h1 h2 hl hlater habs

namespace AxiomCheckSpecLaws
open Cacache.SpecLaws
#print axioms removeFullySpec_idem
#print axioms clearSpec_idem
#print axioms removeFullySpec_again_notFound
#print axioms removeFully_twice
#print axioms clear_twice
#print axioms representation_independent
#print axioms representation_independent_ext
#print axioms reads_invisible
#print axioms specStep_comm
#print axioms index_ops_commute
#print axioms rewrite_is_noop
#print axioms listings_invisible
#print axioms specStep_shadow
#print axioms shadowed_op_unobservable
end AxiomCheckSpecLaws

end Cacache.SpecLaws
