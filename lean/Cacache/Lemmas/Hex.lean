/-
Lowercase hex is injective (its decoder inverts it).
-/
import Cacache.Bytes

namespace Cacache.Bytes

def pairOk (n : Nat) : Bool :=
  match unhexDigit (hexDigit (UInt8.ofNat n >>> 4)), unhexDigit (hexDigit (UInt8.ofNat n &&& 15)) with
  | some x, some y => x <<< 4 ||| y == UInt8.ofNat n
  | _, _ => false

theorem unhex_pair : ∀ n : Nat, n < 256 → pairOk n = true := by decide +kernel

theorem unhex_hex (b : Bytes) : unhex (hex b) = some b := by
  induction b with
  | nil => rfl
  | cons x xs ih =>
    have hx : x = UInt8.ofNat x.toNat := by simp
    have := unhex_pair x.toNat (UInt8.toNat_lt x)
    unfold pairOk at this
    rw [← hx] at this
    simp only [hex, unhex, ih]
    split at this
    · rename_i a b ha hb
      have e : a <<< 4 ||| b = x := by simpa using this
      simp only [ha, hb, e]
    · cases this

theorem hex_injective {a b : Bytes} (h : hex a = hex b) : a = b := by
  have := unhex_hex a
  rw [h, unhex_hex] at this
  exact (Option.some.inj this).symm

theorem hex_length (b : Bytes) : (hex b).length = 2 * b.length := by
  induction b with
  | nil => rfl
  | cons x xs ih => simp [hex, ih]; omega

end Cacache.Bytes
