/-
Serializability of WHOLE MUTATING operations running concurrently (property C07: "every operation's
result and the FINAL CACHE STATE are those of some sequential ordering of the operations; no
successful write is lost or spliced with another") — for every interleaving, at the granularity of
individual filesystem calls, of two whole operations of which at least one is a whole
content-and-index WRITER.

Setting of all theorems: two processes `[p0.mapRes Sum.inl, p1.mapRes Sum.inr]`, a
`CacheRefine.Healthy` initial filesystem, EVERY schedule after which both processes have finished
(`Linearize.FinishedWith`).  Conclusion (`Serializable`): the final filesystem is `Healthy` again,
`cache/tmp` holds no leftover temp file (`TmpClean`: every entry of `cache/tmp` is as it was
initially, except the temp names `#n` handed out during the run, and those are ABSENT), and
(`SerialOutcome`) both answers are LITERALLY those of the real programs run one after the other —
"p0 then p1" (`Linearize.serialWR`) or "p1 then p0" (`Linearize.serialRW`) — and the final abstract
cache `absCache cfg cache` (index map, content store) is that of the same serial execution.
(Literal equality of filesystems fails: temp names differ between schedules, `dom` lists differ.)

Main theorems (bottom of the file):
* (T1) `write_removeHash_serializable`, general form `writeStream_removeHash_serializable`
  (any whole writer — any flavour, keyed or by address, any options, any chunking — next to
  `remove_hash` of ANY integrity);
* (T2) `writeHash_removeHash_serializable`;
* (T3) `write_write_serializable`, general form `writeStream_writeStream_serializable`: two whole
  writers — different keys and different data, different keys and the same data, the same key.
  ONE hypothesis: the same key + the same address + different bytes (a digest collision) is
  excluded; `writer_writer_collision_counterexample` shows that in that case the statement is FALSE
  in the model (a model-level artefact: `cfg.H` is an arbitrary function);
* (T4) `write_insert_serializable`, `write_delete_serializable` (+ `writeStream_…`): a whole writer
  next to an index-only operation on any key;
* (T5) `write_write_removeHash_serializable`: THREE processes — writer ∥ writer ∥ `remove_hash` —
  every schedule: answers and final abstract state are those of one of the SIX serial orders
  (`Serializable3`, `serial3`); generic part `three_proc_serializable`, abstract part
  `aser_two_two_one` (30 interleavings of 5 atomic actions, enumerated by the tactic `inv3` into the
  normal form "store actions in their order, then index actions in their order", `nf3`);
* `nested_schedule`, `serial_schedule_finishes` + the `example`s: non-vacuity (healthy empty
  filesystem, schedules after which both processes have finished — among them the genuinely
  interleaved "writer up to its rename, the other process from start to end, the writer's index
  phase").

Method.  (1) ABSTRACT PROGRAMS `AProg`: sequences of ATOMIC actions on the abstract cache
(`aWriter`: "store maps address ↦ data", then "index maps key ↦ entry"; `aRemove`: "store forgets
the address", answering whether there was something; index operations: one index action);
`AReach`: interleavings of atomic actions.  (2) A rely/guarantee SIMULATION `SimP`/`Sim` in the
style of `Lemmas/Concurrent` (`SafeR`): in every healthy state in which the process's private
knowledge holds (`Know`: skeleton directories exist, buckets are files, its own temp file `#n`
holds `f` — stable under everybody else's guarantee `Guar`, because temp names are fresh tokens),
the next call keeps the cache healthy and either leaves the abstract cache alone or performs
exactly the next atomic action.  Proof rules per call (`SimP.mkdirP`, `.mkTemp`, `.writeAt`,
`.truncate`, `.fallocate`, `.publish` (the rename), `.openAppend`, `.appendWrite`, `.now`), then
`wopen_sim`, `wwriteAll_sim`, `wclose_sim`, `wcommit_sim`, `writeStream_sim`, `insert_sim`,
`removeHash_sim`.  (3) SOUNDNESS `sim_interleave` (any number of processes): after every schedule
the abstract state is `AReach`-able, every finished process finished abstractly with the same
answer; `sim_run`: a program run alone = its abstract program run alone.  (4) The two-process
theorem `two_proc_serializable` reduces everything to `ASerializable A0 A1`, a statement about ≤ 6
interleavings of ≤ 4 atomic actions, settled by commutation (`aser_two_one`, `aser_two_two`, …):
store actions commute with index actions; two publications commute unless they hit one address
with different bytes; two index actions commute unless they are for one key.
-/
import Cacache.Lemmas.Linearize
import Cacache.Lemmas.CacheRefine
import Cacache.Lemmas.Concurrent

namespace Cacache.TwoWriters
open Prog Refine CacheRefine

/-! ### the skeleton of directories, and calls that leave the abstract cache alone -/

section Frame
variable (cfg : Cfg) (cache : Path)

/-- The directories the operations create with `create_dir_all`. -/
def Skel (p : Path) : Prop :=
  p = cache ++ [dTmp] ∨ (∃ a h, 4 ≤ h.length ∧ p = FS.parent (addrPath cache a h)) ∨
    ∃ key, p = FS.parent (bucketPath cfg cache key)

theorem Skel.ne_nil {p : Path} (h : Skel cfg cache p) : p ≠ [] := by
  rcases h with rfl | ⟨a, h, _, rfl⟩ | ⟨key, rfl⟩
  · exact tmpDir_ne_nil cache
  · exact parent_addr_ne_nil cache a h
  · exact parent_ne_nil cfg cache key

theorem Skel.noneOrDir {p : Path} (hp : Skel cfg cache p) {s : FS} (h : Healthy cfg cache s) :
    ∀ q, q ≠ [] → q <+: p → NoneOrDir s q := by
  rcases hp with rfl | ⟨a, hx, hl, rfl⟩ | ⟨key, rfl⟩
  · exact h.store.tmpDirs
  · exact fun q => h.store.dirs a hx q hl
  · exact fun q => h.index.dirs key q

theorem Skel.not_addr {p : Path} (hp : Skel cfg cache p) (a : Algo) (h : Bytes) :
    ¬ addrPath cache a h <+: p := by
  rcases hp with rfl | ⟨a', h', _, rfl⟩ | ⟨key, rfl⟩
  · exact addr_not_prefix_tmpDir cache a h
  · exact addr_not_prefix_parent cache a a' h h'
  · exact addr_not_prefix_parent_bucket cfg cache a h key

theorem Skel.not_bucket {p : Path} (hp : Skel cfg cache p) (key : Bytes) :
    ¬ bucketPath cfg cache key <+: p := by
  rcases hp with rfl | ⟨a', h', _, rfl⟩ | ⟨key', rfl⟩
  · exact bucket_not_prefix_tmpDir cfg cache key
  · exact bucket_not_prefix_parent_addr cfg cache key a' h'
  · exact Refine.bucket_not_prefix_parent cfg cache key' key

theorem Skel.not_tmp {p : Path} (hp : Skel cfg cache p) (x : Bytes) :
    ¬ (cache ++ [dTmp]) ++ [x] <+: p := by
  rcases hp with rfl | ⟨a', h', _, rfl⟩ | ⟨key', rfl⟩
  · exact tmp_not_prefix_tmpDir cache x
  · exact tmp_not_prefix_parent_addr cache x a' h'
  · exact tmp_not_prefix_parent_bucket cfg cache x key'

/-- How a call that leaves the abstract cache alone may change the node at a path: not at all; any
way, at an entry of `cache/tmp`; from absent to directory, on the way to a skeleton directory; from
absent to the empty file, at a bucket path. -/
def QuietAt (s s' : FS) (q : Path) : Prop :=
  s'.get q = s.get q ∨ (∃ x, q = (cache ++ [dTmp]) ++ [x]) ∨
  (s.get q = none ∧ s'.get q = some .dir ∧ ∃ p, Skel cfg cache p ∧ q <+: p) ∨
  (∃ key, q = bucketPath cfg cache key ∧ s.get q = none ∧ s'.get q = some (.file []))

/-- Directories stay directories, bucket files stay regular files. -/
structure Mono (s s' : FS) : Prop where
  dirs : ∀ p, Skel cfg cache p → s.get p = some .dir → s'.get p = some .dir
  buckets : ∀ key b, s.get (bucketPath cfg cache key) = some (.file b) →
    ∃ b', s'.get (bucketPath cfg cache key) = some (.file b')
  next : s.next ≤ s'.next

theorem Mono.refl (s : FS) : Mono cfg cache s s :=
  ⟨fun _ _ h => h, fun _ b h => ⟨b, h⟩, Nat.le_refl _⟩

theorem quiet_addr {s s' : FS} (hq : ∀ q, QuietAt cfg cache s s' q) (a : Algo) (h : Bytes) :
    s'.get (addrPath cache a h) = s.get (addrPath cache a h) := by
  rcases hq (addrPath cache a h) with g | ⟨x, g⟩ | ⟨_, _, p, hp, g⟩ | ⟨key, g, _⟩
  · exact g
  · exact absurd g.symm (tmp_ne_addr cache x a h)
  · exact absurd g (hp.not_addr cfg cache a h)
  · exact absurd g.symm (bucket_ne_addr cfg cache key a h)

/-- **Quiet calls keep the cache healthy and its abstraction unchanged.** -/
theorem quiet_frame {s s' : FS} (h : Healthy cfg cache s) (hq : ∀ q, QuietAt cfg cache s s' q)
    (hn : s.next ≤ s'.next) :
    Healthy cfg cache s' ∧ absCache cfg cache s' = absCache cfg cache s ∧ Mono cfg cache s s' := by
  have haddr := quiet_addr cfg cache hq
  have hbucket : ∀ key, s'.get (bucketPath cfg cache key) = s.get (bucketPath cfg cache key) ∨
      (s.get (bucketPath cfg cache key) = none ∧ s'.get (bucketPath cfg cache key) = some (.file [])) := by
    intro key
    rcases hq (bucketPath cfg cache key) with g | ⟨x, g⟩ | ⟨_, _, p, hp, g⟩ | ⟨key', _, g1, g2⟩
    · exact Or.inl g
    · exact absurd g (bucket_ne_tmp cfg cache key x)
    · exact absurd g (hp.not_bucket cfg cache key)
    · exact Or.inr ⟨g1, g2⟩
  have hskel : ∀ q p, Skel cfg cache p → q <+: p →
      s'.get q = s.get q ∨ (s.get q = none ∧ s'.get q = some .dir) := by
    intro q p hp hqp
    rcases hq q with g | ⟨x, g⟩ | ⟨g1, g2, _⟩ | ⟨key, g, _⟩
    · exact Or.inl g
    · subst g; exact absurd hqp (hp.not_tmp cfg cache x)
    · exact Or.inr ⟨g1, g2⟩
    · subst g; exact absurd hqp (hp.not_bucket cfg cache key)
  refine ⟨⟨⟨?_, ?_⟩, ?_⟩, ?_, ⟨?_, ?_, hn⟩⟩
  · intro key q hq0 hpre
    rcases hskel q _ (Or.inr (Or.inr ⟨key, rfl⟩)) hpre with g | ⟨_, g⟩
    · unfold NoneOrDir; rw [g]; exact h.index.dirs key q hq0 hpre
    · exact Or.inr g
  · intro key
    rcases hbucket key with g | ⟨_, g⟩
    · rw [g]; exact h.index.buckets key
    · exact Or.inr ⟨[], g, (codec_laws cfg).settled_nil⟩
  · apply h.store.step
    · intro a hx _; exact Or.inl (haddr a hx)
    · intro q hqq
      rcases hqq with hqq | ⟨a, hx, hqq⟩
      · exact hskel q _ (Or.inl rfl) hqq
      · -- the parent of an address with a short digest is not a skeleton directory, but then
        -- the same argument applies path by path
        rcases hq q with g | ⟨x, g⟩ | ⟨g1, g2, _⟩ | ⟨key, g, _⟩
        · exact Or.inl g
        · subst g; exact absurd hqq (tmp_not_prefix_parent_addr cache x a hx)
        · exact Or.inr ⟨g1, g2⟩
        · subst g; exact absurd hqq (bucket_not_prefix_parent_addr cfg cache key a hx)
  · unfold absCache
    congr 1
    · funext key
      unfold absIndex
      rcases hbucket key with g | ⟨g1, g2⟩
      · rw [g]
      · rw [g1, g2]; rfl
    · funext a hx
      unfold absStore
      rw [haddr a hx]
  · intro q hsk hd
    rcases hskel q q hsk (List.prefix_refl _) with g | ⟨g1, _⟩
    · rw [g]; exact hd
    · rw [g1] at hd; cases hd
  · intro key b hb
    rcases hbucket key with g | ⟨g1, _⟩
    · exact ⟨b, by rw [g]; exact hb⟩
    · rw [g1] at hb; cases hb

end Frame

/-! ### abstract programs -/

/-- An abstract program over the abstract cache: a sequence of ATOMIC actions, each of which reads
the abstract state, updates it, and decides how to go on; finally an answer. -/
inductive AProg (γ : Type) where
  | done : γ → AProg γ
  | act : (AbsCache → AbsCache) → (AbsCache → AProg γ) → AProg γ

/-- The atomic abstract actions: the store maps an address to a value / the index maps a key to
an entry (or to nothing). -/
def setStore (m : AbsCache) (a : Algo) (h : Bytes) (v : Option Bytes) : AbsCache :=
  ⟨m.index, m.store.set a h v⟩

def setIndex (m : AbsCache) (key : Bytes) (e : Option Meta) : AbsCache :=
  ⟨fun k => if k = key then e else m.index k, m.store⟩

/-- Run an abstract program alone, to completion. -/
def AProg.run {γ : Type} : AProg γ → AbsCache → γ × AbsCache
  | .done c, m => (c, m)
  | .act u nx, m => AProg.run (nx m) (u m)

/-- The configurations reachable by interleaving the atomic actions of several abstract programs. -/
inductive AReach {γ : Type} : List (AProg γ) → AbsCache → List (AProg γ) → AbsCache → Prop
  | refl (aps : List (AProg γ)) (m : AbsCache) : AReach aps m aps m
  | step {aps aps' : List (AProg γ)} {m m' : AbsCache} (j : Nat) (u : AbsCache → AbsCache)
      (nx : AbsCache → AProg γ) : aps[j]? = some (.act u nx) →
      AReach (aps.set j (nx m)) (u m) aps' m' → AReach aps m aps' m'

theorem AReach.snoc {γ : Type} {aps aps' : List (AProg γ)} {m m' : AbsCache}
    (h : AReach aps m aps' m') (j : Nat) (u : AbsCache → AbsCache) (nx : AbsCache → AProg γ)
    (hj : aps'[j]? = some (.act u nx)) : AReach aps m (aps'.set j (nx m')) (u m') := by
  induction h with
  | refl aps m => exact .step j u nx hj (.refl _ _)
  | step i u' nx' hi _ ih => exact .step i u' nx' hi (ih hj)

theorem AReach.length {γ : Type} {aps aps' : List (AProg γ)} {m m' : AbsCache}
    (h : AReach aps m aps' m') : aps'.length = aps.length := by
  induction h with
  | refl => rfl
  | step i u' nx' hi _ ih => rw [ih, List.length_set]

/-! ### private knowledge, rely and guarantee -/

section RG
variable (cfg : Cfg) (env : Env) (cache : Path)

/-- What a process knows between two of its calls — facts no other process destroys: some skeleton
directories exist, some buckets are regular files, its own temp file (token `n` = the value of the
counter when it was created) exists and holds `f`. -/
structure Know where
  dirs : List Path := []
  buckets : List Bytes := []
  own : Option (Nat × Bytes) := none

def Know.tok (K : Know) : Option Nat := K.own.map Prod.fst

structure Know.holds (K : Know) (s : FS) : Prop where
  dirs : ∀ d ∈ K.dirs, Skel cfg cache d ∧ s.get d = some .dir
  buckets : ∀ key ∈ K.buckets, ∃ b, s.get (bucketPath cfg cache key) = some (.file b)
  own : ∀ n f, K.own = some (n, f) → n < s.next ∧ s.get (tmpPath cache n) = some (.file f)

/-- What a process with token `tok` relies on. -/
structure Rely (tok : Option Nat) (s s' : FS) : Prop where
  mono : Mono cfg cache s s'
  own : ∀ n, tok = some n → s'.get (tmpPath cache n) = s.get (tmpPath cache n)

/-- How the token of a process may change with one of its calls: kept; acquired (the fresh name
`#next`); released (the temp file is gone). -/
def TokOK (t t' : Option Nat) (s s' : FS) : Prop :=
  t' = t ∨ (t = none ∧ t' = some s.next ∧ s.next < s'.next) ∨
  (∃ n, t = some n ∧ t' = none ∧ s'.get (tmpPath cache n) = none)

/-- What every step of a process guarantees (`t`, `t'`: its token before and after): it touches no
entry of `cache/tmp` except its own temp file and a temp file it creates under the fresh name
`#next`, whose token it then holds. -/
structure Guar (t t' : Option Nat) (s s' : FS) : Prop where
  mono : Mono cfg cache s s'
  tmp : ∀ x, s'.get ((cache ++ [dTmp]) ++ [x]) = s.get ((cache ++ [dTmp]) ++ [x]) ∨
    ∃ n, x = tmpName n ∧ (t = some n ∨ (t = none ∧ t' = some n ∧ n = s.next ∧ s.next < s'.next))
  tok : TokOK cache t t' s s'

theorem Know.holds.stable {K : Know} {s s' : FS} (h : K.holds cfg cache s) (hr : Rely cfg cache K.tok s s') :
    K.holds cfg cache s' := by
  refine ⟨?_, ?_, ?_⟩
  · intro d hd
    exact ⟨(h.dirs d hd).1, hr.mono.dirs d (h.dirs d hd).1 (h.dirs d hd).2⟩
  · intro key hk
    obtain ⟨b, hb⟩ := h.buckets key hk
    exact hr.mono.buckets key b hb
  · intro n f hn
    obtain ⟨h1, h2⟩ := h.own n f hn
    refine ⟨Nat.lt_of_lt_of_le h1 hr.mono.next, ?_⟩
    rw [hr.own n (by simp [Know.tok, hn])]
    exact h2

/-- `SimP Post p K ap`: the program `p`, started knowing `K`, SIMULATES the abstract program `ap`:
in every healthy state in which `K` holds (so: whatever the others did since `p`'s last call), the
next call of `p` keeps the cache healthy, obeys the guarantee, establishes new knowledge `K'`, and
either leaves the abstract cache alone or performs exactly the next atomic action of `ap`;
and so on; when `p` is finished `Post` holds of its answer, knowledge and the rest of `ap`. -/
def SimP {α γ : Type} (Post : α → Know → AProg γ → Prop) : Prog α → Know → AProg γ → Prop
  | .done a, K, ap => Post a K ap
  | .sys c k, K, ap => ∀ s, Healthy cfg cache s → K.holds cfg cache s →
      Healthy cfg cache (exec env s c).1 ∧
      ∃ K' : Know, K'.holds cfg cache (exec env s c).1 ∧ Guar cfg cache K.tok K'.tok s (exec env s c).1 ∧
        ((absCache cfg cache (exec env s c).1 = absCache cfg cache s ∧
            SimP Post (k (exec env s c).2) K' ap) ∨
         (∃ u nx, ap = .act u nx ∧ absCache cfg cache (exec env s c).1 = u (absCache cfg cache s) ∧
            SimP Post (k (exec env s c).2) K' (nx (absCache cfg cache s))))

/-- A whole process: finishes with the answer of its abstract program, holding no token. -/
abbrev Sim {γ : Type} (p : Prog γ) (K : Know) (ap : AProg γ) : Prop :=
  SimP cfg env cache (fun a K' ap' => ap' = .done a ∧ K'.tok = none) p K ap

theorem SimP.bind {α β γ : Type} {Post : α → Know → AProg γ → Prop}
    {Post' : β → Know → AProg γ → Prop} {p : Prog α} {f : α → Prog β} {K : Know} {ap : AProg γ}
    (hp : SimP cfg env cache Post p K ap)
    (hf : ∀ a K' ap', Post a K' ap' → SimP cfg env cache Post' (f a) K' ap') :
    SimP cfg env cache Post' (Prog.bind p f) K ap := by
  induction p generalizing K ap with
  | done a => exact hf a K ap hp
  | sys c k ih =>
    intro s hH hK
    obtain ⟨h1, K', h3, h4, h5⟩ := hp s hH hK
    refine ⟨h1, K', h3, h4, ?_⟩
    rcases h5 with ⟨e, h5⟩ | ⟨u, nx, e1, e2, h5⟩
    · exact Or.inl ⟨e, ih _ h5⟩
    · exact Or.inr ⟨u, nx, e1, e2, ih _ h5⟩

theorem SimP.mono {α γ : Type} {Post Post' : α → Know → AProg γ → Prop} {p : Prog α} {K : Know}
    {ap : AProg γ} (hp : SimP cfg env cache Post p K ap)
    (hm : ∀ a K' ap', Post a K' ap' → Post' a K' ap') : SimP cfg env cache Post' p K ap := by
  have := SimP.bind cfg env cache (f := fun a => Prog.done a) hp (fun a K' ap' h => hm a K' ap' h)
  have e : ∀ q : Prog α, Prog.bind q (fun a => Prog.done a) = q := by
    intro q
    induction q with
    | done a => rfl
    | sys c k ih => simp only [bind_sys, ih]
  rwa [e] at this

end RG

/-! ### soundness: simulating processes under every schedule -/

section Sound
variable (cfg : Cfg) (env : Env) (cache : Path) {γ : Type}

theorem tok_some {K : Know} {n : Nat} (h : K.tok = some n) : ∃ f, K.own = some (n, f) := by
  unfold Know.tok at h
  cases ho : K.own with
  | none => rw [ho] at h; cases h
  | some x =>
    obtain ⟨m, f⟩ := x
    rw [ho] at h
    cases h
    exact ⟨f, rfl⟩

theorem Know.holds.tok_lt {K : Know} {s : FS} (h : K.holds cfg cache s) {n : Nat} (hn : K.tok = some n) :
    n < s.next := by
  obtain ⟨f, hf⟩ := tok_some hn
  exact (h.own n f hf).1

theorem Know.holds_empty (s : FS) : ({} : Know).holds cfg cache s := by
  refine ⟨?_, ?_, ?_⟩
  · intro d hd; cases hd
  · intro k hk; cases hk
  · intro n f h; cases h

/-- The invariant of a configuration of the interleaved execution. -/
structure ConfInv (s0 : FS) (aps0 : List (AProg γ)) (ps : List (Prog γ)) (s : FS)
    (aps : List (AProg γ)) (Ks : Nat → Know) : Prop where
  healthy : Healthy cfg cache s
  reach : AReach aps0 (absCache cfg cache s0) aps (absCache cfg cache s)
  sim : ∀ j p, ps[j]? = some p → ∃ ap, aps[j]? = some ap ∧ Sim cfg env cache p (Ks j) ap
  holds : ∀ j, (Ks j).holds cfg cache s
  idle : ∀ j, ps[j]? = none → (Ks j).tok = none
  distinct : ∀ i j n, (Ks i).tok = some n → (Ks j).tok = some n → i = j
  lo : ∀ j n, (Ks j).tok = some n → s0.next ≤ n
  mono : s0.next ≤ s.next
  clean : ∀ x, s.get ((cache ++ [dTmp]) ++ [x]) = s0.get ((cache ++ [dTmp]) ++ [x]) ∨
    ∃ n, x = tmpName n ∧ s0.next ≤ n ∧ n < s.next ∧
      ((∃ j, (Ks j).tok = some n) ∨ s.get ((cache ++ [dTmp]) ++ [x]) = none)

theorem getElem?_lt {α : Type} {l : List α} {i : Nat} {a : α} (h : l[i]? = some a) : i < l.length := by
  rcases Nat.lt_or_ge i l.length with h' | h'
  · exact h'
  · rw [List.getElem?_eq_none h'] at h; cases h

theorem ConfInv.step {s0 : FS} {aps0 : List (AProg γ)} {ps : List (Prog γ)} {s : FS}
    {aps : List (AProg γ)} {Ks : Nat → Know} (hI : ConfInv cfg env cache s0 aps0 ps s aps Ks)
    (i : Nat) (p : Prog γ) (hp : ps[i]? = some p) :
    ∃ aps' Ks', ConfInv cfg env cache s0 aps0 (ps.set i (Prog.step env p s).1) (Prog.step env p s).2
      aps' Ks' := by
  have hilt := getElem?_lt hp
  cases p with
  | done a =>
    refine ⟨aps, Ks, hI.healthy, hI.reach, ?_, hI.holds, ?_, hI.distinct, hI.lo, hI.mono, hI.clean⟩
    · intro j q hq
      simp only [Prog.step] at hq
      rw [Linearize.getElem?_set_same hp] at hq
      exact hI.sim j q hq
    · intro j hj
      simp only [Prog.step] at hj
      rw [Linearize.getElem?_set_same hp] at hj
      exact hI.idle j hj
  | sys c k =>
    obtain ⟨ap, hap, hsim⟩ := hI.sim i _ hp
    have halt := getElem?_lt hap
    obtain ⟨hH, K', hK', hG, hrest⟩ := hsim s hI.healthy (hI.holds i)
    simp only [Prog.step]
    -- everybody else's knowledge is stable
    have hothers : ∀ j, j ≠ i → (Ks j).holds cfg cache (exec env s c).1 := by
      intro j hji
      apply (hI.holds j).stable cfg cache
      refine ⟨hG.mono, ?_⟩
      intro n hn
      rcases hG.tmp (tmpName n) with g | ⟨n', e, g⟩
      · exact g
      · have e' := tmpName_injective e
        subst e'
        rcases g with g | ⟨_, _, g, _⟩
        · exact absurd (hI.distinct j i n hn g) hji
        · have := (hI.holds j).tok_lt cfg cache hn
          omega
    have hnext : s.next ≤ (exec env s c).1.next := hG.mono.next
    -- the new knowledge map
    have hKs : ∀ j, (if j = i then K' else Ks j).holds cfg cache (exec env s c).1 := by
      intro j
      by_cases hji : j = i
      · simp only [hji, if_true]; exact hK'
      · simp only [hji, if_false]; exact hothers j hji
    have hidle : ∀ j, (ps.set i (k (exec env s c).2))[j]? = none →
        (if j = i then K' else Ks j).tok = none := by
      intro j hj
      have hjl : ps.length ≤ j := by
        rcases Nat.lt_or_ge j ps.length with h | h
        · rw [List.getElem?_eq_getElem (by rw [List.length_set]; exact h)] at hj; cases hj
        · exact h
      have hji : j ≠ i := by omega
      simp only [hji, if_false]
      exact hI.idle j (List.getElem?_eq_none hjl)
    have hdist : ∀ a b n, (if a = i then K' else Ks a).tok = some n →
        (if b = i then K' else Ks b).tok = some n → a = b := by
      intro a b n ha hb
      have key : ∀ j, j ≠ i → (Ks j).tok = some n → K'.tok = some n → False := by
        intro j hji hj hk
        rcases hG.tok with e | ⟨_, e, _⟩ | ⟨_, _, e, _⟩
        · rw [e] at hk; exact hji (hI.distinct j i n hj hk)
        · rw [e] at hk; cases hk
          have := (hI.holds j).tok_lt cfg cache hj
          omega
        · rw [e] at hk; cases hk
      by_cases hai : a = i <;> by_cases hbi : b = i
      · rw [hai, hbi]
      · simp only [hai, if_true] at ha
        simp only [hbi, if_false] at hb
        exact (key b hbi hb ha).elim
      · simp only [hai, if_false] at ha
        simp only [hbi, if_true] at hb
        exact (key a hai ha hb).elim
      · simp only [hai, if_false] at ha
        simp only [hbi, if_false] at hb
        exact hI.distinct a b n ha hb
    have hlo : ∀ j n, (if j = i then K' else Ks j).tok = some n → s0.next ≤ n := by
      intro j n hj
      by_cases hji : j = i
      · simp only [hji, if_true] at hj
        rcases hG.tok with e | ⟨_, e, _⟩ | ⟨_, _, e, _⟩
        · rw [e] at hj; exact hI.lo i n hj
        · rw [e] at hj; cases hj; exact hI.mono
        · rw [e] at hj; cases hj
      · simp only [hji, if_false] at hj
        exact hI.lo j n hj
    have hclean : ∀ x, (exec env s c).1.get ((cache ++ [dTmp]) ++ [x]) = s0.get ((cache ++ [dTmp]) ++ [x]) ∨
        ∃ n, x = tmpName n ∧ s0.next ≤ n ∧ n < (exec env s c).1.next ∧
          ((∃ j, (if j = i then K' else Ks j).tok = some n) ∨
            (exec env s c).1.get ((cache ++ [dTmp]) ++ [x]) = none) := by
      intro x
      -- what happens to a token of the mover
      have mover : ∀ n, (Ks i).tok = some n →
          (∃ j, (if j = i then K' else Ks j).tok = some n) ∨
            (exec env s c).1.get ((cache ++ [dTmp]) ++ [tmpName n]) = none := by
        intro n hn
        rcases hG.tok with e | ⟨e, _, _⟩ | ⟨n', e1, _, e3⟩
        · exact Or.inl ⟨i, by simp only [if_true]; rw [e]; exact hn⟩
        · rw [e] at hn; cases hn
        · rw [e1] at hn; cases hn; exact Or.inr e3
      rcases hG.tmp x with g | ⟨n, rfl, g⟩
      · rcases hI.clean x with g0 | ⟨n, rfl, h1, h2, g0⟩
        · exact Or.inl (g.trans g0)
        · refine Or.inr ⟨n, rfl, h1, Nat.lt_of_lt_of_le h2 hnext, ?_⟩
          rcases g0 with ⟨j, hj⟩ | g0
          · by_cases hji : j = i
            · subst hji; exact mover n hj
            · exact Or.inl ⟨j, by simp only [hji, if_false]; exact hj⟩
          · exact Or.inr (g.trans g0)
      · rcases g with g | ⟨_, g2, g3, g4⟩
        · exact Or.inr ⟨n, rfl, hI.lo i n g, Nat.lt_of_lt_of_le ((hI.holds i).tok_lt cfg cache g) hnext,
            mover n g⟩
        · subst g3
          exact Or.inr ⟨_, rfl, hI.mono, g4, Or.inl ⟨i, by simp only [if_true]; exact g2⟩⟩
    have hmono : s0.next ≤ (exec env s c).1.next := Nat.le_trans hI.mono hnext
    rcases hrest with ⟨habs, hk⟩ | ⟨u, nx, e1, habs, hk⟩
    · refine ⟨aps, fun j => if j = i then K' else Ks j, hH, ?_, ?_, hKs, hidle, hdist, hlo, hmono, hclean⟩
      · rw [habs]; exact hI.reach
      · intro j q hq
        by_cases hji : j = i
        · subst hji
          rw [List.getElem?_set_self hilt] at hq
          cases hq
          exact ⟨ap, hap, by simpa using hk⟩
        · rw [List.getElem?_set_ne (Ne.symm hji)] at hq
          simp only [hji, if_false]
          exact hI.sim j q hq
    · subst e1
      refine ⟨aps.set i (nx (absCache cfg cache s)), fun j => if j = i then K' else Ks j, hH, ?_, ?_,
        hKs, hidle, hdist, hlo, hmono, hclean⟩
      · rw [habs]; exact hI.reach.snoc i u nx hap
      · intro j q hq
        by_cases hji : j = i
        · subst hji
          rw [List.getElem?_set_self hilt] at hq
          cases hq
          exact ⟨_, List.getElem?_set_self halt, by simpa using hk⟩
        · rw [List.getElem?_set_ne (Ne.symm hji)] at hq
          rw [List.getElem?_set_ne (Ne.symm hji)]
          simp only [hji, if_false]
          exact hI.sim j q hq

theorem ConfInv.interleave {s0 : FS} {aps0 : List (AProg γ)} {ps : List (Prog γ)} {s : FS}
    {aps : List (AProg γ)} {Ks : Nat → Know} (hI : ConfInv cfg env cache s0 aps0 ps s aps Ks)
    (sched : List Nat) :
    ∃ aps' Ks', ConfInv cfg env cache s0 aps0 (Prog.interleave env ps s sched).1
      (Prog.interleave env ps s sched).2 aps' Ks' := by
  induction sched generalizing ps s aps Ks with
  | nil => exact ⟨aps, Ks, hI⟩
  | cons i sched ih =>
    simp only [Prog.interleave]
    split
    · exact ih hI
    · rename_i p hget
      obtain ⟨aps', Ks', hI'⟩ := hI.step cfg env cache i p hget
      exact ih hI'

/-- What is left in `cache/tmp`: every entry is as it was initially, except the temp names handed
out meanwhile (`#n` for `next₀ ≤ n < next`), which are absent — no leftover temp file. -/
def TmpClean (s0 s : FS) : Prop :=
  ∀ x, s.get ((cache ++ [dTmp]) ++ [x]) = s0.get ((cache ++ [dTmp]) ++ [x]) ∨
    ∃ n, x = tmpName n ∧ s0.next ≤ n ∧ n < s.next ∧ s.get ((cache ++ [dTmp]) ++ [x]) = none

/-- **Soundness.**  Processes `ps`, each simulating its abstract program `aps[j]` from the empty
knowledge, started in a healthy cache: after EVERY schedule the cache is healthy, and its
abstraction is reachable by an interleaving of the ATOMIC ACTIONS of the abstract programs — in
which every finished process has finished abstractly with the same answer; and once all processes
have finished, no temp file is left. -/
theorem sim_interleave (ps : List (Prog γ)) (aps : List (AProg γ)) (s0 : FS)
    (h0 : Healthy cfg cache s0)
    (hsim : ∀ (j : Nat) (p : Prog γ), ps[j]? = some p →
      ∃ ap, aps[j]? = some ap ∧ Sim cfg env cache p {} ap)
    (sched : List Nat) :
    Healthy cfg cache (Prog.interleave env ps s0 sched).2 ∧
    ∃ aps', AReach aps (absCache cfg cache s0) aps' (absCache cfg cache (Prog.interleave env ps s0 sched).2) ∧
      (∀ (j : Nat) (c : γ), (Prog.interleave env ps s0 sched).1[j]? = some (Prog.done c) →
        aps'[j]? = some (AProg.done c)) ∧
      ((∀ (j : Nat) (p : Prog γ), (Prog.interleave env ps s0 sched).1[j]? = some p → ∃ c, p = Prog.done c) →
        TmpClean cache s0 (Prog.interleave env ps s0 sched).2) := by
  have hI : ConfInv cfg env cache s0 aps ps s0 aps (fun _ => {}) := by
    refine ⟨h0, .refl _ _, hsim, ?_, fun _ _ => rfl, ?_, ?_, Nat.le_refl _, fun x => Or.inl rfl⟩
    · intro j
      exact Know.holds_empty cfg cache s0
    · intro i j n h; cases h
    · intro j n h; cases h
  obtain ⟨aps', Ks', hI'⟩ := hI.interleave cfg env cache sched
  refine ⟨hI'.healthy, aps', hI'.reach, ?_, ?_⟩
  · intro j c hj
    obtain ⟨ap, hap, hs⟩ := hI'.sim j _ hj
    rw [hap, hs.1]
  · intro hall x
    rcases hI'.clean x with g | ⟨n, e, h1, h2, g⟩
    · exact Or.inl g
    · refine Or.inr ⟨n, e, h1, h2, ?_⟩
      rcases g with ⟨j, hj⟩ | g
      · cases hq : (Prog.interleave env ps s0 sched).1[j]? with
        | none => rw [hI'.idle j hq] at hj; cases hj
        | some q =>
          obtain ⟨c, rfl⟩ := hall j q hq
          obtain ⟨ap, _, hs⟩ := hI'.sim j _ hq
          rw [hs.2] at hj; cases hj
      · exact g

end Sound

/-! ### proof rules for single calls -/

section Rules
variable (cfg : Cfg) (env : Env) (cache : Path) {α γ : Type}

theorem tmp_path_ne {x y : Bytes} (h : x ≠ y) : (cache ++ [dTmp]) ++ [x] ≠ (cache ++ [dTmp]) ++ [y] := by
  intro e
  have := List.append_cancel_left e
  simp at this
  exact h this

/-- New knowledge after a quiet step that leaves the own temp file alone. -/
theorem Know.holds.quiet {K : Know} {s s' : FS} (h : K.holds cfg cache s) (hm : Mono cfg cache s s')
    (hown : ∀ n f, K.own = some (n, f) → s'.get (tmpPath cache n) = s.get (tmpPath cache n)) :
    K.holds cfg cache s' := by
  apply h.stable cfg cache
  refine ⟨hm, ?_⟩
  intro n hn
  obtain ⟨f, hf⟩ := tok_some hn
  exact hown n f hf

/-- `create_dir_all` of a skeleton directory: succeeds, and the directory is known to exist. -/
theorem SimP.mkdirP {Post : α → Know → AProg γ → Prop} {p : Path} (hp : Skel cfg cache p)
    {k : Ret → Prog α} {ds : List Path} {bs : List Bytes} {ow : Option (Nat × Bytes)} {ap : AProg γ}
    (hk : SimP cfg env cache Post (k .unit) ⟨p :: ds, bs, ow⟩ ap) :
    SimP cfg env cache Post (.sys (.mkdirP p) k) ⟨ds, bs, ow⟩ ap := by
  intro s hH hK
  obtain ⟨s1, hm, hdir, hframe, hget⟩ := mkdirP_ok s p (hp.ne_nil cfg cache) (hp.noneOrDir cfg cache hH)
  have hex : exec env s (.mkdirP p) = (s1, .unit) := by simp [exec, hm]
  rw [hex]
  have hnext : s1.next = s.next := mkdirLevels_next _ _ _ _ hm
  have hq : ∀ q, QuietAt cfg cache s s1 q := by
    intro q
    rcases hget q with g | ⟨g1, g2⟩
    · exact Or.inl g
    · refine Or.inr (Or.inr (Or.inl ⟨g1, g2, p, hp, ?_⟩))
      apply Classical.byContradiction
      intro hn
      rw [hframe q hn, g1] at g2
      cases g2
  obtain ⟨hH1, habs, hmono⟩ := quiet_frame cfg cache hH hq (by omega)
  have htmp : ∀ x, s1.get ((cache ++ [dTmp]) ++ [x]) = s.get ((cache ++ [dTmp]) ++ [x]) :=
    fun x => hframe _ (hp.not_tmp cfg cache x)
  have hK1 : Know.holds cfg cache ⟨ds, bs, ow⟩ s1 := hK.quiet cfg cache hmono (fun n f _ => htmp _)
  refine ⟨hH1, ⟨p :: ds, bs, ow⟩, ⟨?_, hK1.buckets, hK1.own⟩, ⟨hmono, fun x => Or.inl (htmp x), Or.inl rfl⟩,
    Or.inl ⟨habs, hk⟩⟩
  intro d hd
  rcases List.mem_cons.mp hd with rfl | hd'
  · exact ⟨hp, hdir⟩
  · exact hK1.dirs d hd'

/-- Creating the temp file (in the existing `cache/tmp`): the process acquires the fresh token. -/
theorem SimP.mkTemp {Post : α → Know → AProg γ → Prop} {k : Ret → Prog α} {ds : List Path}
    {bs : List Bytes} {ap : AProg γ} (hd : (cache ++ [dTmp]) ∈ ds)
    (hk : ∀ n, SimP cfg env cache Post (k (.path (tmpPath cache n))) ⟨ds, bs, some (n, [])⟩ ap) :
    SimP cfg env cache Post (.sys (.mkTemp (cache ++ [dTmp])) k) ⟨ds, bs, none⟩ ap := by
  intro s hH hK
  have hisd : s.isDir (cache ++ [dTmp]) = true := isDir_of_get (hK.dirs _ hd).2
  have hex : exec env s (.mkTemp (cache ++ [dTmp])) =
      ({ (s.put (tmpPath cache s.next) (.file [])) with next := s.next + 1 }, .path (tmpPath cache s.next)) := by
    simp [exec, hisd, tmpPath]
  rw [hex]
  have hgetq : ∀ q, ({ (s.put (tmpPath cache s.next) (.file [])) with next := s.next + 1 } : FS).get q =
      if q = tmpPath cache s.next then some (.file []) else s.get q := fun q => FS.get_put _ _ _ _
  have hq : ∀ q, QuietAt cfg cache s ({ (s.put (tmpPath cache s.next) (.file [])) with next := s.next + 1 } : FS) q := by
    intro q
    by_cases e : q = tmpPath cache s.next
    · exact Or.inr (Or.inl ⟨tmpName s.next, e⟩)
    · left; rw [hgetq, if_neg e]
  obtain ⟨hH1, habs, hmono⟩ := quiet_frame cfg cache hH hq (Nat.le_succ _)
  refine ⟨hH1, ⟨ds, bs, some (s.next, [])⟩, ⟨?_, ?_, ?_⟩, ⟨hmono, ?_, ?_⟩, Or.inl ⟨habs, hk _⟩⟩
  · intro d hd'
    exact ⟨(hK.dirs d hd').1, hmono.dirs d (hK.dirs d hd').1 (hK.dirs d hd').2⟩
  · intro key hk'
    obtain ⟨b, hb⟩ := hK.buckets key hk'
    exact hmono.buckets key b hb
  · intro n f h
    cases h
    exact ⟨Nat.lt_succ_self _, by rw [hgetq, if_pos rfl]⟩
  · intro x
    by_cases e : x = tmpName s.next
    · exact Or.inr ⟨s.next, e, Or.inr ⟨rfl, rfl, rfl, Nat.lt_succ_self _⟩⟩
    · left
      rw [hgetq, if_neg]
      exact tmp_path_ne cache e
  · exact Or.inr (Or.inl ⟨rfl, rfl, Nat.lt_succ_self _⟩)

/-- A call that changes (at most) the own temp file. -/
theorem SimP.own {Post : α → Know → AProg γ → Prop} {c : Call} {k : Ret → Prog α} {ds : List Path}
    {bs : List Bytes} {n : Nat} {f f' : Bytes} {r : Ret} {ap : AProg γ}
    (hex : ∀ s : FS, s.get (tmpPath cache n) = some (.file f) →
      (exec env s c).2 = r ∧ (exec env s c).1.next = s.next ∧
      ∀ q, (exec env s c).1.get q = if q = tmpPath cache n then some (.file f') else s.get q)
    (hk : SimP cfg env cache Post (k r) ⟨ds, bs, some (n, f')⟩ ap) :
    SimP cfg env cache Post (.sys c k) ⟨ds, bs, some (n, f)⟩ ap := by
  intro s hH hK
  obtain ⟨hn, hf⟩ := hK.own n f rfl
  obtain ⟨e1, e2, e3⟩ := hex s hf
  have hq : ∀ q, QuietAt cfg cache s (exec env s c).1 q := by
    intro q
    by_cases e : q = tmpPath cache n
    · exact Or.inr (Or.inl ⟨tmpName n, e⟩)
    · left; rw [e3, if_neg e]
  obtain ⟨hH1, habs, hmono⟩ := quiet_frame cfg cache hH hq (by omega)
  refine ⟨hH1, ⟨ds, bs, some (n, f')⟩, ⟨?_, ?_, ?_⟩, ⟨hmono, ?_, Or.inl rfl⟩, Or.inl ⟨habs, by rw [e1]; exact hk⟩⟩
  · intro d hd'
    exact ⟨(hK.dirs d hd').1, hmono.dirs d (hK.dirs d hd').1 (hK.dirs d hd').2⟩
  · intro key hk'
    obtain ⟨b, hb⟩ := hK.buckets key hk'
    exact hmono.buckets key b hb
  · intro n' f'' h
    cases h
    exact ⟨by omega, by rw [e3, if_pos rfl]⟩
  · intro x
    by_cases e : x = tmpName n
    · exact Or.inr ⟨n, e, Or.inl rfl⟩
    · left
      rw [e3, if_neg]
      exact tmp_path_ne cache e

theorem SimP.writeAt {Post : α → Know → AProg γ → Prop} {k : Ret → Prog α} {ds : List Path}
    {bs : List Bytes} {n : Nat} {f : Bytes} {off : Nat} {d : Bytes} {ap : AProg γ}
    (hk : SimP cfg env cache Post (k (.nat d.length)) ⟨ds, bs, some (n, spliceAt f off d)⟩ ap) :
    SimP cfg env cache Post (.sys (.writeAt (tmpPath cache n) off d) k) ⟨ds, bs, some (n, f)⟩ ap := by
  apply SimP.own cfg env cache ?_ hk
  intro s hs
  simp only [exec, hs]
  exact ⟨by first | rfl | trivial, by first | rfl | trivial, fun q => FS.get_put _ _ _ _⟩

theorem SimP.truncate {Post : α → Know → AProg γ → Prop} {k : Ret → Prog α} {ds : List Path}
    {bs : List Bytes} {n : Nat} {f : Bytes} {m : Nat} {ap : AProg γ}
    (hk : SimP cfg env cache Post (k .unit) ⟨ds, bs, some (n, f.take m)⟩ ap) :
    SimP cfg env cache Post (.sys (.truncate (tmpPath cache n) m) k) ⟨ds, bs, some (n, f)⟩ ap := by
  apply SimP.own cfg env cache ?_ hk
  intro s hs
  simp only [exec, hs]
  exact ⟨by first | rfl | trivial, by first | rfl | trivial, fun q => FS.get_put _ _ _ _⟩

theorem SimP.fallocate {Post : α → Know → AProg γ → Prop} {k : Ret → Prog α} {ds : List Path}
    {bs : List Bytes} {n : Nat} {f : Bytes} {m : Nat} {ap : AProg γ} (hm : m ≠ 0)
    (hk : SimP cfg env cache Post (k .unit)
      ⟨ds, bs, some (n, if f.length < m then f ++ zeros (m - f.length) else f)⟩ ap) :
    SimP cfg env cache Post (.sys (.fallocate (tmpPath cache n) m) k) ⟨ds, bs, some (n, f)⟩ ap := by
  apply SimP.own cfg env cache ?_ hk
  intro s hs
  simp only [exec, hs, hm, if_false]
  by_cases hlt : f.length < m
  · simp only [hlt, if_true]
    exact ⟨by first | rfl | trivial, by first | rfl | trivial, fun q => FS.get_put _ _ _ _⟩
  · simp only [hlt, if_false]
    refine ⟨by first | rfl | trivial, by first | rfl | trivial, fun q => ?_⟩
    split
    · rename_i e; rw [e, hs]
    · rfl

theorem SimP.writeAt' {Post : α → Know → AProg γ → Prop} {k : Ret → Prog α} {ds : List Path}
    {bs : List Bytes} {n : Nat} {f : Bytes} {off : Nat} {d : Bytes} {ap : AProg γ} {p : Path}
    (hp : p = tmpPath cache n)
    (hk : SimP cfg env cache Post (k (.nat d.length)) ⟨ds, bs, some (n, spliceAt f off d)⟩ ap) :
    SimP cfg env cache Post (.sys (.writeAt p off d) k) ⟨ds, bs, some (n, f)⟩ ap := by
  subst hp; exact SimP.writeAt cfg env cache hk

theorem SimP.truncate' {Post : α → Know → AProg γ → Prop} {k : Ret → Prog α} {ds : List Path}
    {bs : List Bytes} {n : Nat} {f : Bytes} {m : Nat} {ap : AProg γ} {p : Path}
    (hp : p = tmpPath cache n)
    (hk : SimP cfg env cache Post (k .unit) ⟨ds, bs, some (n, f.take m)⟩ ap) :
    SimP cfg env cache Post (.sys (.truncate p m) k) ⟨ds, bs, some (n, f)⟩ ap := by
  subst hp; exact SimP.truncate cfg env cache hk

/-- The clock. -/
theorem SimP.now {Post : α → Know → AProg γ → Prop} {k : Ret → Prog α} {K : Know} {ap : AProg γ}
    (hk : SimP cfg env cache Post (k (.nat (env.clock % (timeMax + 1)))) K ap) :
    SimP cfg env cache Post (.sys .now k) K ap := by
  intro s hH hK
  exact ⟨hH, K, hK, ⟨Mono.refl cfg cache s, fun x => Or.inl rfl, Or.inl rfl⟩, Or.inl ⟨rfl, hk⟩⟩

/-- What the publication (`rename` of the temp file onto the address of its bytes) does. -/
theorem publish_frame {s s' : FS} (h : Healthy cfg cache s) (a : Algo) (f : Bytes) (x : Bytes)
    (hl : 4 ≤ (Bytes.hex (cfg.H a f)).length)
    (hg : ∀ q, s'.get q = if q = addrPath cache a (Bytes.hex (cfg.H a f)) then some (.file f)
      else if q = (cache ++ [dTmp]) ++ [x] then none else s.get q)
    (hn : s.next ≤ s'.next) :
    Healthy cfg cache s' ∧
    absCache cfg cache s' = setStore (absCache cfg cache s) a (Bytes.hex (cfg.H a f)) (some f) ∧
    Mono cfg cache s s' := by
  have hsame : ∀ q, q ≠ addrPath cache a (Bytes.hex (cfg.H a f)) → q ≠ (cache ++ [dTmp]) ++ [x] →
      s'.get q = s.get q := by
    intro q h1 h2; rw [hg, if_neg h1, if_neg h2]
  have hbk : ∀ key, s'.get (bucketPath cfg cache key) = s.get (bucketPath cfg cache key) :=
    fun key => hsame _ (bucket_ne_addr cfg cache key _ _) (bucket_ne_tmp cfg cache key x)
  have hS : HealthyStore cfg cache s' := by
    apply h.store.step
    · intro a' hx' hl'
      by_cases e : addrPath cache a' hx' = addrPath cache a (Bytes.hex (cfg.H a f))
      · obtain ⟨rfl, rfl⟩ := addrPath_injective e
        exact Or.inr (Or.inr ⟨f, by rw [hg, if_pos rfl], rfl⟩)
      · exact Or.inl (hsame _ e (tmp_ne_addr cache x a' hx').symm)
    · intro q hq
      left
      apply hsame
      · intro e; subst e
        rcases hq with hq | ⟨a', h', hq⟩
        · exact addr_not_prefix_tmpDir cache _ _ hq
        · exact addr_not_prefix_parent cache _ _ _ _ hq
      · intro e; subst e
        rcases hq with hq | ⟨a', h', hq⟩
        · exact tmp_not_prefix_tmpDir cache _ hq
        · exact tmp_not_prefix_parent_addr cache _ _ _ hq
  obtain ⟨hI, hAI⟩ := healthyIndex_grow cfg cache h.index hbk (by
    intro key q _ hq
    left
    apply hsame
    · intro e; subst e; exact addr_not_prefix_parent_bucket cfg cache _ _ _ hq
    · intro e; subst e; exact tmp_not_prefix_parent_bucket cfg cache _ _ hq)
  refine ⟨⟨hI, hS⟩, ?_, ⟨?_, ?_, hn⟩⟩
  · unfold absCache setStore
    rw [hAI]
    congr 1
    funext a' h'
    unfold absStore AbsStore.set
    by_cases e : a' = a ∧ h' = Bytes.hex (cfg.H a f)
    · obtain ⟨rfl, rfl⟩ := e
      rw [hg, if_pos rfl]; simp
    · rw [if_neg e, hsame _ (fun x' => e (addrPath_injective x')) (tmp_ne_addr cache x a' h').symm]
  · intro p hp hd
    rw [hsame p]
    · exact hd
    · intro e; subst e; exact hp.not_addr cfg cache _ _ (List.prefix_refl _)
    · intro e; subst e; exact hp.not_tmp cfg cache _ (List.prefix_refl _)
  · intro key b hb
    exact ⟨b, by rw [hbk]; exact hb⟩

/-- **Publishing**: the rename of the own temp file (known to hold `f`) onto the address of `f`
succeeds and is the atomic abstract action "the store maps the address to `f`"; the token is
released. -/
theorem SimP.publish {Post : α → Know → AProg γ → Prop} {k : Ret → Prog α} {ds : List Path}
    {bs : List Bytes} {n : Nat} {f : Bytes} {a : Algo} {u : AbsCache → AbsCache}
    {nx : AbsCache → AProg γ} (hl : 4 ≤ (Bytes.hex (cfg.H a f)).length)
    (hd : FS.parent (addrPath cache a (Bytes.hex (cfg.H a f))) ∈ ds)
    (hu : ∀ m, u m = setStore m a (Bytes.hex (cfg.H a f)) (some f))
    (hk : ∀ m, SimP cfg env cache Post (k .unit) ⟨ds, bs, none⟩ (nx m)) :
    SimP cfg env cache Post
      (.sys (.rename (tmpPath cache n) (addrPath cache a (Bytes.hex (cfg.H a f)))) k)
      ⟨ds, bs, some (n, f)⟩ (.act u nx) := by
  intro s hH hK
  obtain ⟨hn, hf⟩ := hK.own n f rfl
  have hnd : s.get (addrPath cache a (Bytes.hex (cfg.H a f))) ≠ some .dir := by
    rcases hH.store.files a _ hl with h0 | ⟨b, h0⟩ <;> rw [h0] <;> intro e <;> cases e
  have hex := exec_rename_ok env s (tmpPath cache n) _ f hf (isDir_of_get (hK.dirs _ hd).2) hnd
  rw [hex]
  have hne : tmpPath cache n ≠ addrPath cache a (Bytes.hex (cfg.H a f)) := tmp_ne_addr cache _ _ _
  have hg : ∀ q, ((s.del (tmpPath cache n)).put (addrPath cache a (Bytes.hex (cfg.H a f))) (.file f)).get q =
      if q = addrPath cache a (Bytes.hex (cfg.H a f)) then some (.file f)
      else if q = (cache ++ [dTmp]) ++ [tmpName n] then none else s.get q := by
    intro q
    rw [FS.get_put]
    split
    · rfl
    · exact FS.get_del _ _ _
  obtain ⟨hH1, habs, hmono⟩ := publish_frame cfg cache hH a f (tmpName n) hl hg (Nat.le_refl _)
  refine ⟨hH1, ⟨ds, bs, none⟩, ⟨?_, ?_, ?_⟩, ⟨hmono, ?_, ?_⟩,
    Or.inr ⟨u, nx, rfl, by rw [habs, hu], hk _⟩⟩
  · intro d hd'
    exact ⟨(hK.dirs d hd').1, hmono.dirs d (hK.dirs d hd').1 (hK.dirs d hd').2⟩
  · intro key hk'
    obtain ⟨b, hb⟩ := hK.buckets key hk'
    exact hmono.buckets key b hb
  · intro n' f' h; cases h
  · intro x
    by_cases e : x = tmpName n
    · exact Or.inr ⟨n, e, Or.inl rfl⟩
    · left
      rw [hg, if_neg (tmp_ne_addr cache x _ _), if_neg (tmp_path_ne cache e)]
  · refine Or.inr (Or.inr ⟨n, rfl, rfl, ?_⟩)
    rw [hg, if_neg hne]
    exact if_pos rfl

theorem SimP.publish' {Post : α → Know → AProg γ → Prop} {k : Ret → Prog α} {ds : List Path}
    {bs : List Bytes} {n : Nat} {f : Bytes} {a : Algo} {u : AbsCache → AbsCache}
    {nx : AbsCache → AProg γ} {p : Path} (hp : p = tmpPath cache n)
    (hl : 4 ≤ (Bytes.hex (cfg.H a f)).length)
    (hd : FS.parent (addrPath cache a (Bytes.hex (cfg.H a f))) ∈ ds)
    (hu : ∀ m, u m = setStore m a (Bytes.hex (cfg.H a f)) (some f))
    (hk : ∀ m, SimP cfg env cache Post (k .unit) ⟨ds, bs, none⟩ (nx m)) :
    SimP cfg env cache Post
      (.sys (.rename p (addrPath cache a (Bytes.hex (cfg.H a f)))) k)
      ⟨ds, bs, some (n, f)⟩ (.act u nx) := by
  subst hp; exact SimP.publish cfg env cache hl hd hu hk

/-- What a change of one bucket file leaves alone. -/
theorem bucket_only_frame {s s' : FS} (h : HealthyStore cfg cache s) (key : Bytes)
    (hg : ∀ q, q ≠ bucketPath cfg cache key → s'.get q = s.get q) :
    HealthyStore cfg cache s' ∧ absStore cache s' = absStore cache s ∧
    (∀ p, Skel cfg cache p → s.get p = some .dir → s'.get p = some .dir) ∧
    (∀ x, s'.get ((cache ++ [dTmp]) ++ [x]) = s.get ((cache ++ [dTmp]) ++ [x])) := by
  have haddr : ∀ a hx, s'.get (addrPath cache a hx) = s.get (addrPath cache a hx) :=
    fun a hx => hg _ (bucket_ne_addr cfg cache key a hx).symm
  refine ⟨?_, ?_, ?_, ?_⟩
  · apply h.step
    · intro a hx _; exact Or.inl (haddr a hx)
    · intro q hq
      left
      apply hg
      intro e; subst e
      rcases hq with hq | ⟨a', h', hq⟩
      · exact bucket_not_prefix_tmpDir cfg cache key hq
      · exact bucket_not_prefix_parent_addr cfg cache key _ _ hq
  · funext a hx
    unfold absStore
    rw [haddr]
  · intro p hp hd
    rw [hg p]
    · exact hd
    · intro e; subst e; exact hp.not_bucket cfg cache key (List.prefix_refl _)
  · intro x
    exact hg _ (bucket_ne_tmp cfg cache key x).symm

/-- Opening a bucket for appending, its directory known to exist: succeeds; the bucket is a regular
file from now on. -/
theorem SimP.openAppend {Post : α → Know → AProg γ → Prop} {k : Ret → Prog α} {ds : List Path}
    {bs : List Bytes} {ow : Option (Nat × Bytes)} {key : Bytes} {ap : AProg γ}
    (hd : FS.parent (bucketPath cfg cache key) ∈ ds)
    (hk : SimP cfg env cache Post (k .unit) ⟨ds, key :: bs, ow⟩ ap) :
    SimP cfg env cache Post (.sys (.openAppend (bucketPath cfg cache key)) k) ⟨ds, bs, ow⟩ ap := by
  intro s hH hK
  obtain ⟨hr, _, _, _, b, hb⟩ := Linearize.healthy_openAppend cfg env cache key s hH.index (hK.dirs _ hd).2
  have hq : ∀ q, QuietAt cfg cache s (exec env s (.openAppend (bucketPath cfg cache key))).1 q := by
    intro q
    rcases hH.index.buckets key with hn | ⟨b', hb', _⟩
    · have hdir : s.isDir (FS.parent (bucketPath cfg cache key)) = true := isDir_of_get (hK.dirs _ hd).2
      simp only [exec, hn, hdir, if_true]
      by_cases e : q = bucketPath cfg cache key
      · subst e
        exact Or.inr (Or.inr (Or.inr ⟨key, rfl, hn, FS.get_put_same _ _ _⟩))
      · exact Or.inl (FS.get_put_ne _ _ e)
    · simp only [exec, hb']
      exact Or.inl rfl
  have hnx : s.next ≤ (exec env s (.openAppend (bucketPath cfg cache key))).1.next := exec_next_le env s _
  obtain ⟨hH1, habs, hmono⟩ := quiet_frame cfg cache hH hq hnx
  have htmp : ∀ x, (exec env s (.openAppend (bucketPath cfg cache key))).1.get ((cache ++ [dTmp]) ++ [x]) =
      s.get ((cache ++ [dTmp]) ++ [x]) := by
    intro x
    rcases hq ((cache ++ [dTmp]) ++ [x]) with g | ⟨_, _⟩ | ⟨g1, g2, p, hp, g⟩ | ⟨key', g, _⟩
    · exact g
    · rcases hH.index.buckets key with hn | ⟨b', hb', _⟩
      · have hdir : s.isDir (FS.parent (bucketPath cfg cache key)) = true := isDir_of_get (hK.dirs _ hd).2
        simp only [exec, hn, hdir, if_true]
        exact FS.get_put_ne _ _ (bucket_ne_tmp cfg cache key x).symm
      · simp only [exec, hb']
    · exact absurd g (hp.not_tmp cfg cache x)
    · exact absurd g.symm (bucket_ne_tmp cfg cache key' x)
  have hK1 : Know.holds cfg cache ⟨ds, bs, ow⟩ (exec env s (.openAppend (bucketPath cfg cache key))).1 :=
    hK.quiet cfg cache hmono (fun n f _ => htmp _)
  refine ⟨hH1, ⟨ds, key :: bs, ow⟩, ⟨hK1.dirs, ?_, hK1.own⟩, ⟨hmono, fun x => Or.inl (htmp x), Or.inl rfl⟩,
    Or.inl ⟨habs, by rw [hr]; exact hk⟩⟩
  intro key' hk'
  rcases List.mem_cons.mp hk' with rfl | hk''
  · exact ⟨b, hb⟩
  · exact hK1.buckets key' hk''

/-- **The index append**: the one `write` of an insertion, on a bucket known to be a regular file,
succeeds and is the atomic abstract action "the index maps the key to the new entry". -/
theorem SimP.appendWrite {Post : α → Know → AProg γ → Prop} {k : Ret → Prog α} {ds : List Path}
    {bs : List Bytes} {ow : Option (Nat × Bytes)} {key : Bytes} {o : WriteOpts} {tm : Nat}
    {u : AbsCache → AbsCache} {nx : AbsCache → AProg γ} (hw : OptsWF key o) (hsri : SriOK cfg o)
    (htm : tm = stamp env o) (hb : key ∈ bs)
    (hu : ∀ m, u m = setIndex m key (insEntry env key o))
    (hk : ∀ m len, SimP cfg env cache Post (k (.nat len)) ⟨ds, bs, ow⟩ (nx m)) :
    SimP cfg env cache Post
      (.sys (.appendWrite (bucketPath cfg cache key) ((codec cfg).frame (mkRec key o tm))) k)
      ⟨ds, bs, ow⟩ (.act u nx) := by
  subst htm
  intro s hH hK
  obtain ⟨b, hbf⟩ := hK.buckets key hb
  obtain ⟨⟨len, hr⟩, hI1, hG, hAI⟩ := Linearize.healthy_appendWrite cfg env cache key o hw hsri s hH.index b hbf
  have hg : ∀ q, q ≠ bucketPath cfg cache key →
      (exec env s (.appendWrite (bucketPath cfg cache key) ((codec cfg).frame (mkRec key o (stamp env o))))).1.get q =
        s.get q := by
    intro q hq
    simp only [exec, hbf]
    exact FS.get_put_ne _ _ hq
  obtain ⟨hS1, hAS, hdirs, htmp⟩ := bucket_only_frame cfg cache hH.store key hg
  have hmono : Mono cfg cache s
      (exec env s (.appendWrite (bucketPath cfg cache key) ((codec cfg).frame (mkRec key o (stamp env o))))).1 :=
    ⟨hdirs, fun key' b' hb' => (hG _).2 b' hb', exec_next_le env s _⟩
  have hK1 := hK.quiet cfg cache hmono (fun n f _ => htmp _)
  refine ⟨⟨hI1, hS1⟩, ⟨ds, bs, ow⟩, hK1, ⟨hmono, fun x => Or.inl (htmp x), Or.inl rfl⟩,
    Or.inr ⟨u, nx, rfl, ?_, by rw [hr]; exact hk _ _⟩⟩
  rw [hu]
  unfold absCache setIndex
  rw [hAI, hAS]

end Rules

/-! ### the library's operations simulate their abstract programs -/

section Ops
variable (cfg : Cfg) (env : Env) (cache : Path) {γ : Type}

/-- `index::insert`: one atomic action — the index maps the key to the new entry. -/
theorem insert_sim {Post : Res Integrity → Know → AProg γ → Prop} (key : Bytes) (o : WriteOpts)
    (hw : OptsWF key o) (hsri : SriOK cfg o) {ds : List Path} {bs : List Bytes}
    {u : AbsCache → AbsCache} {nx : AbsCache → AProg γ}
    (hu : ∀ m, u m = setIndex m key (insEntry env key o))
    (hpost : ∀ m ds' bs', Post (.ok (o.sri.getD defaultSri)) ⟨ds', bs', none⟩ (nx m)) :
    SimP cfg env cache Post (insert cfg cache key o) ⟨ds, bs, none⟩ (.act u nx) := by
  have tail : ∀ tm, tm = stamp env o →
      SimP cfg env cache Post
        (Prog.bind (appendRec cfg (bucketPath cfg cache key) (mkRec key o tm)) (fun a =>
          match a with
          | Except.error e => .done (Except.error e)
          | Except.ok () => .done (Except.ok (o.sri.getD defaultSri))))
        ⟨FS.parent (bucketPath cfg cache key) :: ds, bs, none⟩ (.act u nx) := by
    intro tm htm
    unfold appendRec
    simp only [bind_eq, pure_eq, call, bind_sys, bind_done]
    apply SimP.openAppend cfg env cache List.mem_cons_self
    simp only [bind_sys]
    apply SimP.appendWrite cfg env cache hw hsri htm List.mem_cons_self hu
    intro m len
    exact hpost m _ _
  unfold insert getTime
  simp only [bind_eq, pure_eq, call, bind_sys, bind_done]
  apply SimP.mkdirP cfg env cache (Or.inr (Or.inr ⟨key, rfl⟩))
  cases ht : o.time with
  | some t =>
    simp only [bind_done]
    exact tail t (by simp [stamp, ht])
  | none =>
    simp only [bind_sys]
    apply SimP.now
    simp only [bind_done]
    exact tail _ (by simp [stamp, ht])

/-- The abstract remover: one atomic action — the store forgets the address; the answer says
whether there was something. -/
def aRemove (inj : Res Unit → γ) (sri : Integrity) : AProg γ :=
  match addrOf sri with
  | none => .done (inj (.error .panic))
  | some _ => .act (fun m => ⟨m.index, (dropSpec m.store sri).1⟩) (fun m => .done (inj (dropSpec m.store sri).2))

theorem removeHash_sim (inj : Res Unit → γ) (sri : Integrity) :
    Sim cfg env cache ((removeHash cache sri).mapRes inj) {} (aRemove inj sri) := by
  unfold removeHash aRemove
  rw [contentPath_addrOf]
  cases e : addrOf sri with
  | none => exact ⟨rfl, rfl⟩
  | some x =>
    obtain ⟨a, hx⟩ := x
    have hlen := addrOf_len e
    simp only [Option.map_some, bind_eq, pure_eq, call, bind_sys, bind_done, Linearize.mapRes_sys]
    intro s hH hK
    have hmono : ∀ s' : FS, (∀ q, s'.get q = if q = addrPath cache a hx then none else s.get q) →
        s.next ≤ s'.next → Guar cfg cache none none s s' := by
      intro s' hg hn
      refine ⟨⟨?_, ?_, hn⟩, ?_, Or.inl rfl⟩
      · intro p hp hd
        rw [hg, if_neg]
        · exact hd
        · intro e'; subst e'; exact hp.not_addr cfg cache _ _ (List.prefix_refl _)
      · intro key b hb
        exact ⟨b, by rw [hg, if_neg (bucket_ne_addr cfg cache key a hx)]; exact hb⟩
      · intro x
        left
        rw [hg, if_neg (tmp_ne_addr cache x a hx)]
    rcases hH.store.files a hx hlen with h0 | ⟨b, h0⟩
    · have hex : exec env s (.unlink (addrPath cache a hx)) = (s, .err .notFound) := by
        simp [exec, h0]
      rw [hex]
      have hm : absStore cache s a hx = none := by unfold absStore; rw [h0]
      refine ⟨hH, {}, hK, hmono s (fun q => ?_) (Nat.le_refl _), Or.inr ⟨_, _, rfl, ?_, ?_⟩⟩
      · split
        · rename_i hq; rw [hq, h0]
        · rfl
      · unfold dropSpec absCache
        simp only [e, hm]
      · simp only [Linearize.mapRes_done]
        refine ⟨?_, rfl⟩
        unfold dropSpec absCache
        simp only [e, hm]
    · have hex : exec env s (.unlink (addrPath cache a hx)) = (s.del (addrPath cache a hx), .unit) := by
        simp [exec, h0]
      rw [hex]
      have hm : absStore cache s a hx = some b := by unfold absStore; rw [h0]
      have hg : ∀ q, (s.del (addrPath cache a hx)).get q = if q = addrPath cache a hx then none else s.get q :=
        fun q => FS.get_del _ _ _
      obtain ⟨hS, hAS⟩ := drop_store cfg cache hH.store hg
      obtain ⟨hI, hAI⟩ := drop_index cfg cache hH.index hg
      refine ⟨⟨hI, hS⟩, {}, Know.holds_empty cfg cache _, hmono _ hg (Nat.le_refl _),
        Or.inr ⟨_, _, rfl, ?_, ?_⟩⟩
      · unfold dropSpec absCache
        simp only [e, hm, hAS, hAI]
      · simp only [Linearize.mapRes_done]
        refine ⟨?_, rfl⟩
        unfold dropSpec absCache
        simp only [e, hm]

/-! ### the content writer -/

/-- What `wopen` hands out. -/
def OpenPost (key : Option Bytes) (o : WriteOpts) (ap : AProg γ) (r : Res Writer) (K' : Know)
    (ap' : AProg γ) : Prop :=
  ap' = ap ∧ ∃ w n f, r = .ok w ∧ K' = ⟨[cache ++ [dTmp]], [], some (n, f)⟩ ∧ WG cache w n f ∧
    w.key = key ∧ w.opts = o ∧ w.written = 0 ∧ w.hashed = [] ∧ w.algo = o.algo.getD .sha256

theorem wopen_sim (fl : Flavour) (key : Option Bytes) (o : WriteOpts) (ap : AProg γ) :
    SimP cfg env cache (OpenPost cache key o ap) (wopen cfg fl cache key o) ⟨[], [], none⟩ ap := by
  unfold wopen dropTmp
  simp only [bind_eq, pure_eq, call, bind_sys, bind_done]
  apply SimP.mkdirP cfg env cache (Or.inl rfl)
  apply SimP.mkTemp cfg env cache List.mem_cons_self
  intro n
  dsimp only
  have base : ∀ w : Writer, w.cache = cache → w.tmp = tmpPath cache n → w.pos = 0 →
      w.hashed = [] → w.mmap = none → w.key = key → w.opts = o → w.written = 0 →
      w.algo = o.algo.getD .sha256 →
      OpenPost cache key o ap (Except.ok w) ⟨[cache ++ [dTmp]], [], some (n, [])⟩ ap := by
    intro w h1 h2 h3 h4 h5 h6 h7 h8 h9
    refine ⟨rfl, w, n, [], rfl, rfl, ⟨h1, h2, by rw [h3, h4]; rfl, by rw [h3, h4]; rfl,
      fun _ => by rw [h3]; rfl, ?_⟩, h6, h7, h8, h4, h9⟩
    intro m hm; rw [h5] at hm; cases hm
  split
  · rename_i m hm
    split
    · rename_i hbound
      apply SimP.fallocate cfg env cache (by omega)
      dsimp only
      have hpos : 0 < m := hbound.1
      refine ⟨rfl, _, n, _, rfl, rfl, ⟨rfl, rfl, rfl, rfl, ?_, ?_⟩, rfl, rfl, rfl, rfl, rfl⟩
      · intro h; cases h
      · intro m' hm'; cases hm'
        simp [hpos, zeros]
    · exact base _ rfl rfl rfl rfl rfl rfl rfl rfl rfl
  · exact base _ rfl rfl rfl rfl rfl rfl rfl rfl rfl

/-- What one `write` call leaves. -/
def WritePost (w : Writer) (d : Bytes) (ds : List Path) (n : Nat) (ap : AProg γ)
    (r : Except EK (Writer × Nat)) (K' : Know) (ap' : AProg γ) : Prop :=
  ap' = ap ∧ ∃ w' f' k, r = .ok (w', k) ∧ K' = ⟨ds, [], some (n, f')⟩ ∧ WG cache w' n f' ∧
    w'.key = w.key ∧ w'.opts = w.opts ∧ w'.algo = w.algo ∧ w'.hashed = w.hashed ++ d ∧
    w'.written = w.written + d.length

theorem plainWrite_sim (w : Writer) (d : Bytes) (ds : List Path) (n : Nat) (f : Bytes) (ap : AProg γ)
    (hg : WG cache w n f) (hm : w.mmap = none) :
    SimP cfg env cache (WritePost cache w d ds n ap) (plainWrite w d) ⟨ds, [], some (n, f)⟩ ap := by
  unfold plainWrite
  simp only [bind_eq, pure_eq, call, bind_sys, bind_done]
  have hfl : f.length = w.pos := hg.plain hm
  have hfeq : f = w.hashed := by rw [← hg.take, ← hfl, List.take_length]
  apply SimP.writeAt' cfg env cache hg.tmpEq
  dsimp only
  refine ⟨rfl, _, _, _, rfl, rfl, ⟨hg.cacheEq, hg.tmpEq, ?_, ?_, ?_, ?_⟩, rfl, rfl, rfl, ?_, rfl⟩
  · simp [hg.pos]
  · show List.take (w.pos + d.length) (spliceAt f w.pos d) = w.hashed ++ List.take d.length d
    rw [← hfl, spliceAt_plain, hfeq, List.take_length, ← List.length_append, List.take_length]
  · intro _
    show (spliceAt f w.pos d).length = w.pos + d.length
    rw [← hfl, spliceAt_plain, List.length_append]
  · intro m hm'; rw [hm] at hm'; cases hm'
  · show w.hashed ++ List.take d.length d = w.hashed ++ d
    rw [List.take_length]

theorem wwrite_sim (w : Writer) (d : Bytes) (ds : List Path) (n : Nat) (f : Bytes) (ap : AProg γ)
    (hg : WG cache w n f) :
    SimP cfg env cache (WritePost cache w d ds n ap) (wwrite w d) ⟨ds, [], some (n, f)⟩ ap := by
  unfold wwrite
  split
  · rename_i m hm
    obtain ⟨hfl, hpn⟩ := hg.mapped m hm
    split
    · rename_i hfit
      simp only [bind_eq, pure_eq, call, bind_sys, bind_done]
      apply SimP.writeAt' cfg env cache hg.tmpEq
      dsimp only
      refine ⟨rfl, _, _, _, rfl, rfl, ⟨hg.cacheEq, hg.tmpEq, ?_, ?_, ?_, ?_⟩, rfl, rfl, rfl, rfl, rfl⟩
      · simp [hg.pos]
      · show List.take (w.pos + d.length) (spliceAt f w.pos d) = w.hashed ++ d
        rw [spliceAt_take f d w.pos (by omega), hg.take]
      · intro h; rw [hm] at h; cases h
      · intro m' hm'
        rw [hm] at hm'; cases hm'
        exact ⟨by rw [spliceAt_length f d w.pos (by omega)]; exact hfl, hfit⟩
    · simp only [bind_eq, pure_eq, call, bind_sys, bind_done]
      apply SimP.truncate' cfg env cache hg.tmpEq
      dsimp only
      have hg' : WG cache { w with mmap := none } n (List.take w.pos f) := by
        refine ⟨hg.cacheEq, hg.tmpEq, hg.pos, ?_, ?_, ?_⟩
        · show List.take w.pos (List.take w.pos f) = w.hashed
          rw [List.take_take, Nat.min_self, hg.take]
        · intro _
          show (List.take w.pos f).length = w.pos
          rw [List.length_take]; omega
        · intro m' hm'; cases hm'
      exact (plainWrite_sim cfg env cache { w with mmap := none } d ds n _ ap hg' rfl).mono cfg env cache
        (fun r K' ap' h => h)
  · rename_i hm
    exact plainWrite_sim cfg env cache w d ds n f ap hg hm

/-- What feeding a list of chunks leaves. -/
def WriteAllPost (w : Writer) (chunks : List Bytes) (ds : List Path) (n : Nat) (ap : AProg γ)
    (r : Except EK Writer) (K' : Know) (ap' : AProg γ) : Prop :=
  ap' = ap ∧ ∃ w' f', r = .ok w' ∧ K' = ⟨ds, [], some (n, f')⟩ ∧ WG cache w' n f' ∧
    w'.key = w.key ∧ w'.opts = w.opts ∧ w'.algo = w.algo ∧ w'.hashed = w.hashed ++ chunks.flatten ∧
    w'.written = w.written + chunks.flatten.length

theorem wwriteAll_sim (w : Writer) (chunks : List Bytes) (ds : List Path) (n : Nat) (f : Bytes)
    (ap : AProg γ) (hg : WG cache w n f) :
    SimP cfg env cache (WriteAllPost cache w chunks ds n ap) (wwriteAll w chunks)
      ⟨ds, [], some (n, f)⟩ ap := by
  induction chunks generalizing w f with
  | nil =>
    unfold wwriteAll
    exact ⟨rfl, w, f, rfl, rfl, hg, rfl, rfl, rfl, by simp, by simp⟩
  | cons d chunks ih =>
    unfold wwriteAll
    split
    · rename_i hemp
      have hd : d = [] := by simpa using hemp
      refine (ih w f hg).mono cfg env cache ?_
      rintro r K' ap' ⟨e, w', f', h1, h2, h3, h4, h5, h6, h7, h8⟩
      exact ⟨e, w', f', h1, h2, h3, h4, h5, h6, by simp [h7, hd], by simp [h8, hd]⟩
    · simp only [bind_eq, pure_eq]
      apply SimP.bind cfg env cache (wwrite_sim cfg env cache w d ds n f ap hg)
      rintro r K' ap' ⟨rfl, w1, f1, k1, rfl, rfl, g3, g4, g5, g6, g7, g8⟩
      dsimp only
      refine (ih w1 f1 g3).mono cfg env cache ?_
      rintro r K' ap' ⟨e, w', f', h1, h2, h3, h4, h5, h6, h7, h8⟩
      refine ⟨e, w', f', h1, h2, h3, h4.trans g4, h5.trans g5, h6.trans g6, ?_, ?_⟩
      · rw [h7, g7]; simp
      · rw [h8, g8]; simp; omega

/-- Closing a writer: (cut,) `create_dir_all` of the address's directory, then the publication —
the one atomic abstract action. -/
theorem wclose_sim {Post : Res Integrity → Know → AProg γ → Prop} (w : Writer) (ds : List Path)
    (n : Nat) (f : Bytes) (hg : WG cache w n f) (hl : HexLen cfg) {u : AbsCache → AbsCache}
    {nx : AbsCache → AProg γ}
    (hu : ∀ m, u m = setStore m w.algo (Bytes.hex (cfg.H w.algo w.hashed)) (some w.hashed))
    (hpost : ∀ m ds', Post (.ok (Sri.compute cfg.H w.algo w.hashed)) ⟨ds', [], none⟩ (nx m)) :
    SimP cfg env cache Post (wclose cfg w) ⟨ds, [], some (n, f)⟩ (.act u nx) := by
  have hl4 := hl w.algo w.hashed
  have hlt : ¬ (Bytes.hex (cfg.H w.algo w.hashed)).length < 4 := by omega
  unfold wclose dropTmp
  dsimp only
  rw [contentPath_compute, hg.cacheEq]
  simp only [hlt, if_false]
  simp only [bind_eq, pure_eq, call, bind_sys, bind_done]
  apply SimP.bind cfg env cache
    (Post := fun r K' ap' => r = Except.ok () ∧ K' = ⟨ds, [], some (n, w.hashed)⟩ ∧ ap' = .act u nx)
  · split
    · rename_i m hm
      obtain ⟨hfl, hpn⟩ := hg.mapped m hm
      split
      · apply SimP.truncate' cfg env cache hg.tmpEq
        exact ⟨rfl, by rw [hg.take], rfl⟩
      · refine ⟨rfl, ?_, rfl⟩
        have hp : w.pos = m := by omega
        rw [← hg.take, hp, ← hfl, List.take_length]
    · rename_i hm
      refine ⟨rfl, ?_, rfl⟩
      rw [← hg.take, ← hg.plain hm, List.take_length]
  · rintro r K' ap' ⟨rfl, rfl, rfl⟩
    dsimp only
    apply SimP.mkdirP cfg env cache (Or.inr (Or.inl ⟨_, _, hl4, rfl⟩))
    dsimp only
    apply SimP.publish' cfg env cache hg.tmpEq hl4 List.mem_cons_self hu
    intro m
    exact hpost m _

/-- What is left of the abstract writer after the publication: the declaration checks, then (keyed
writers) the index action. -/
def aTail (inj : Res Integrity → γ) (key : Option Bytes) (o : WriteOpts) (data : Bytes) : AProg γ :=
  match declCheck o data.length (Sri.compute cfg.H (o.algo.getD .sha256) data) with
  | .error e => .done (inj (.error e))
  | .ok recorded =>
    match key with
    | none => .done (inj (.ok (Sri.compute cfg.H (o.algo.getD .sha256) data)))
    | some k =>
      .act (fun m => setIndex m k (insEntry env k { o with sri := some recorded, size := some (o.size.getD data.length) }))
        (fun _ => .done (inj (.ok recorded)))

/-- **The abstract writer**: the store maps the address of the data to the data; then, if the
declarations hold and there is a key, the index maps the key to the new entry.  Two atomic actions. -/
def aWriter (inj : Res Integrity → γ) (key : Option Bytes) (o : WriteOpts) (data : Bytes) : AProg γ :=
  .act (fun m => setStore m (o.algo.getD .sha256) (Bytes.hex (cfg.H (o.algo.getD .sha256) data)) (some data))
    (fun _ => aTail cfg env inj key o data)

theorem wcommit_sim (inj : Res Integrity → γ) (w : Writer) (ds : List Path) (n : Nat) (f : Bytes)
    (hg : WG cache w n f) (hl : HexLen cfg) (key : Option Bytes) (o : WriteOpts) (data : Bytes)
    (hkey : w.key = key) (ho : w.opts = o) (ha : w.algo = o.algo.getD .sha256) (hh : w.hashed = data)
    (hwr : w.written = data.length)
    (hwf : ∀ k, key = some k → OptsWF k o ∧ o.sri = none ∧ data.length ≤ Rec.u64Max) :
    SimP cfg env cache (fun r K' ap' => ap' = .done (inj r) ∧ K'.tok = none) (wcommit cfg w)
      ⟨ds, [], some (n, f)⟩ (aWriter cfg env inj key o data) := by
  unfold wcommit wcommitCheck aWriter
  simp only [bind_eq, pure_eq]
  apply SimP.bind cfg env cache
    (Post := fun r K' ap' => (∃ x, r = Except.ok x ∧ commitChecks w (Sri.compute cfg.H w.algo w.hashed) = .ok x.2 ∧
      x.1 = Sri.compute cfg.H w.algo w.hashed ∧
      (∃ ds', K' = ⟨ds', [], none⟩) ∧ ap' = aTail cfg env inj key o data) ∨
      (∃ e, r = Except.error e ∧ commitChecks w (Sri.compute cfg.H w.algo w.hashed) = .error e ∧
        K'.tok = none ∧ ap' = aTail cfg env inj key o data))
  · apply SimP.bind cfg env cache (wclose_sim cfg env cache w ds n f hg hl
      (Post := fun r K' ap' => r = .ok (Sri.compute cfg.H w.algo w.hashed) ∧ (∃ ds', K' = ⟨ds', [], none⟩) ∧
        ap' = aTail cfg env inj key o data)
      (by intro m; rw [ha, hh]) (fun m ds' => ⟨rfl, ⟨ds', rfl⟩, rfl⟩))
    rintro r K' ap' ⟨rfl, hK', rfl⟩
    dsimp only
    cases hck : commitChecks w (Sri.compute cfg.H w.algo w.hashed) with
    | error e =>
      obtain ⟨ds', rfl⟩ := hK'
      exact Or.inr ⟨e, rfl, rfl, rfl, rfl⟩
    | ok recorded => exact Or.inl ⟨(_, recorded), rfl, rfl, rfl, hK', rfl⟩
  · rintro r K' ap' (⟨⟨wsri, recorded⟩, rfl, hck, rfl, ⟨ds', rfl⟩, rfl⟩ | ⟨e, rfl, hck, hK', rfl⟩)
    · dsimp only at hck ⊢
      rw [commitChecks_eq, ho, hwr, ha, hh] at hck
      unfold aTail
      rw [hck]
      unfold wcommitIndex
      rw [hkey]
      cases key with
      | none => exact ⟨by rw [ha, hh], rfl⟩
      | some k =>
        obtain ⟨hw, hns, hlen⟩ := hwf k rfl
        have hrec : recorded = Sri.compute cfg.H (o.algo.getD .sha256) data := declCheck_ok_none hns hck
        dsimp only
        rw [hg.cacheEq, ho, hwr]
        have hsz : o.size.getD data.length ≤ Rec.u64Max := by
          cases hs : o.size with
          | none => exact hlen
          | some n' => exact hw.size n' hs
        apply insert_sim cfg env cache k _ ?_ ?_ (fun m => rfl)
        · intro m ds'' bs''
          exact ⟨rfl, rfl⟩
        · rw [hrec]
          exact (hw.with_computed cfg.H _ _).with_size _ hsz
        · exact Or.inr ⟨_, _, by rw [hrec]⟩
    · dsimp only
      rw [commitChecks_eq, ho, hwr, ha, hh] at hck
      unfold aTail
      rw [hck]
      exact ⟨rfl, hK'⟩

/-- **A whole streamed write simulates the abstract writer** — every flavour, keyed or not, any
options (keyed: `PutWF`), any chunking. -/
theorem writeStream_sim (inj : Res Integrity → γ) (fl : Flavour) (key : Option Bytes) (o : WriteOpts)
    (chunks : List Bytes) (hl : HexLen cfg) (hwf : ∀ k, key = some k → PutWF k o chunks) :
    Sim cfg env cache ((writeStream cfg cache fl key o chunks).mapRes inj) {}
      (aWriter cfg env inj key o chunks.flatten) := by
  unfold Prog.mapRes
  apply SimP.bind cfg env cache
    (Post := fun r K' ap' => ap' = .done (inj r) ∧ K'.tok = none)
  · unfold writeStream
    simp only [bind_eq, pure_eq]
    apply SimP.bind cfg env cache (wopen_sim cfg env cache fl key o _)
    rintro r K' ap' ⟨rfl, w, n, f, rfl, rfl, hg, h1, h2, h3, h4, h5⟩
    dsimp only
    apply SimP.bind cfg env cache (wwriteAll_sim cfg env cache w chunks _ n f _ hg)
    rintro r K' ap' ⟨rfl, w', f', rfl, rfl, hg', g1, g2, g3, g4, g5⟩
    dsimp only
    apply wcommit_sim cfg env cache inj w' _ n f' hg' hl key o chunks.flatten (g1.trans h1) (g2.trans h2)
      (g3.trans h5) (by rw [g4, h4]; rfl) (by rw [g5, h3]; simp)
    intro k hk
    have := hwf k hk
    exact ⟨this.opts, this.nosri, this.len⟩
  · rintro r K' ap' ⟨rfl, hK⟩
    exact ⟨rfl, hK⟩

end Ops

/-! ### serial runs, and the generic two-process theorem -/

section TwoProc
variable (cfg : Cfg) (env : Env) (cache : Path)

theorem Mono.trans {s s' s'' : FS} (h1 : Mono cfg cache s s') (h2 : Mono cfg cache s' s'') :
    Mono cfg cache s s'' := by
  refine ⟨fun p hp hd => h2.dirs p hp (h1.dirs p hp hd), ?_, Nat.le_trans h1.next h2.next⟩
  intro key b hb
  obtain ⟨b', hb'⟩ := h1.buckets key b hb
  exact h2.buckets key b' hb'

/-- **A program run ALONE answers and leaves what its abstract program, run alone, says**; it
keeps the cache healthy, and touches no entry of `cache/tmp` other than temp names `#n` it was
handed (`lo ≤ n`). -/
theorem sim_run {γ : Type} {p : Prog γ} {K : Know} {ap : AProg γ} (h : Sim cfg env cache p K ap)
    {s : FS} (hH : Healthy cfg cache s) (hK : K.holds cfg cache s) :
    (run env p s).1 = (ap.run (absCache cfg cache s)).1 ∧
    absCache cfg cache (run env p s).2.1 = (ap.run (absCache cfg cache s)).2 ∧
    Healthy cfg cache (run env p s).2.1 ∧ Mono cfg cache s (run env p s).2.1 ∧
    ∀ lo, lo ≤ s.next → (∀ t, K.tok = some t → lo ≤ t) →
      ∀ x, (run env p s).2.1.get ((cache ++ [dTmp]) ++ [x]) = s.get ((cache ++ [dTmp]) ++ [x]) ∨
        ∃ n, x = tmpName n ∧ lo ≤ n := by
  induction p generalizing K ap s with
  | done a =>
    obtain ⟨rfl, _⟩ := h
    exact ⟨rfl, rfl, hH, Mono.refl cfg cache s, fun _ _ _ x => Or.inl rfl⟩
  | sys c k ih =>
    obtain ⟨hH1, K', hK', hG, hrest⟩ := h s hH hK
    rw [run_sys_res, run_sys_fs]
    have tail : ∀ ap', Sim cfg env cache (k (exec env s c).2) K' ap' →
        Mono cfg cache s (run env (k (exec env s c).2) (exec env s c).1).2.1 ∧
        ∀ lo, lo ≤ s.next → (∀ t, K.tok = some t → lo ≤ t) →
          ∀ x, (run env (k (exec env s c).2) (exec env s c).1).2.1.get ((cache ++ [dTmp]) ++ [x]) =
            s.get ((cache ++ [dTmp]) ++ [x]) ∨ ∃ n, x = tmpName n ∧ lo ≤ n := by
      intro ap' hk
      obtain ⟨_, _, _, hm, ht⟩ := ih _ hk hH1 hK'
      refine ⟨hG.mono.trans cfg cache hm, ?_⟩
      intro lo hlo hlt x
      have hlt' : ∀ t, K'.tok = some t → lo ≤ t := by
        intro t ht'
        rcases hG.tok with e | ⟨_, e, _⟩ | ⟨_, _, e, _⟩
        · rw [e] at ht'; exact hlt t ht'
        · rw [e] at ht'; cases ht'; exact hlo
        · rw [e] at ht'; cases ht'
      rcases ht lo (Nat.le_trans hlo hG.mono.next) hlt' x with g | g
      · rcases hG.tmp x with g' | ⟨n, e, g'⟩
        · exact Or.inl (g.trans g')
        · refine Or.inr ⟨n, e, ?_⟩
          rcases g' with g' | ⟨_, _, g', _⟩
          · exact hlt n g'
          · rw [g']; exact hlo
      · exact Or.inr g
    rcases hrest with ⟨habs, hk⟩ | ⟨u, nx, rfl, habs, hk⟩
    · obtain ⟨i1, i2, i3, _, _⟩ := ih _ hk hH1 hK'
      rw [habs] at i1 i2
      exact ⟨i1, i2, i3, tail _ hk⟩
    · obtain ⟨i1, i2, i3, _, _⟩ := ih _ hk hH1 hK'
      rw [habs] at i1 i2
      exact ⟨i1, i2, i3, tail _ hk⟩

/-- The two serial executions of two abstract programs: answers of both and the final state. -/
def aSerial01 {γ : Type} (A0 A1 : AProg γ) (m : AbsCache) : γ × γ × AbsCache :=
  ((A0.run m).1, (A1.run (A0.run m).2).1, (A1.run (A0.run m).2).2)

def aSerial10 {γ : Type} (A0 A1 : AProg γ) (m : AbsCache) : γ × γ × AbsCache :=
  ((A0.run (A1.run m).2).1, (A1.run m).1, (A0.run (A1.run m).2).2)

/-- Two abstract programs are SERIALIZABLE: every interleaving of their atomic actions that
finishes both gives the answers and the final state of one of the two serial orders. -/
def ASerializable {γ : Type} (A0 A1 : AProg γ) : Prop :=
  ∀ m c0 c1 m', AReach [A0, A1] m [.done c0, .done c1] m' →
    (c0, c1, m') = aSerial01 A0 A1 m ∨ (c0, c1, m') = aSerial10 A0 A1 m

/-- What the serializability theorems conclude, for processes `p0`, `p1` from `fs`, answers `c0`,
`c1` (in the sum type) and final filesystem `fin`: both answers are LITERALLY those of "p0 then p1"
(`Linearize.serialWR`) or of "p1 then p0" (`Linearize.serialRW`), and the final abstract cache is
that of the same serial execution. -/
def SerialOutcome {α β : Type} (p0 : Prog α) (p1 : Prog β) (fs : FS) (c0 c1 : α ⊕ β) (fin : FS) : Prop :=
  (c0 = .inl (Linearize.serialWR env p0 p1 fs).1 ∧ c1 = .inr (Linearize.serialWR env p0 p1 fs).2.1 ∧
    absCache cfg cache fin = absCache cfg cache (Linearize.serialWR env p0 p1 fs).2.2) ∨
  (c0 = .inl (Linearize.serialRW env p0 p1 fs).1 ∧ c1 = .inr (Linearize.serialRW env p0 p1 fs).2.1 ∧
    absCache cfg cache fin = absCache cfg cache (Linearize.serialRW env p0 p1 fs).2.2)

/-- **Two processes, generic**: if each simulates its abstract program and the two abstract
programs are serializable, then after every schedule that finishes both the cache is healthy,
no temp file is left, and answers and final abstract state are those of a serial execution of
the two REAL programs. -/
theorem two_proc_serializable {α β : Type} (p0 : Prog α) (p1 : Prog β) (A0 A1 : AProg (α ⊕ β))
    (h0 : Sim cfg env cache (p0.mapRes Sum.inl) {} A0)
    (h1 : Sim cfg env cache (p1.mapRes Sum.inr) {} A1)
    (hser : ASerializable A0 A1) (fs : FS) (hH : Healthy cfg cache fs) (sched : List Nat)
    (c0 c1 : α ⊕ β)
    (f0 : Linearize.FinishedWith env [p0.mapRes Sum.inl, p1.mapRes Sum.inr] fs sched 0 c0)
    (f1 : Linearize.FinishedWith env [p0.mapRes Sum.inl, p1.mapRes Sum.inr] fs sched 1 c1) :
    Healthy cfg cache (interleave env [p0.mapRes Sum.inl, p1.mapRes Sum.inr] fs sched).2 ∧
    TmpClean cache fs (interleave env [p0.mapRes Sum.inl, p1.mapRes Sum.inr] fs sched).2 ∧
    SerialOutcome cfg env cache p0 p1 fs c0 c1
      (interleave env [p0.mapRes Sum.inl, p1.mapRes Sum.inr] fs sched).2 := by
  have hsim : ∀ (j : Nat) (p : Prog (α ⊕ β)), [p0.mapRes Sum.inl, p1.mapRes Sum.inr][j]? = some p →
      ∃ ap, [A0, A1][j]? = some ap ∧ Sim cfg env cache p {} ap := by
    intro j p hj
    match j, hj with
    | 0, hj => simp at hj; subst hj; exact ⟨A0, rfl, h0⟩
    | 1, hj => simp at hj; subst hj; exact ⟨A1, rfl, h1⟩
    | j + 2, hj => simp at hj
  obtain ⟨hHf, aps', hreach, hdone, hclean⟩ :=
    sim_interleave cfg env cache [p0.mapRes Sum.inl, p1.mapRes Sum.inr] [A0, A1] fs hH hsim sched
  have hlen := hreach.length
  have e0 := hdone 0 c0 f0
  have e1 := hdone 1 c1 f1
  have haps : aps' = [.done c0, .done c1] := by
    match aps', hlen, e0, e1 with
    | [x, y], _, e0, e1 =>
      simp at e0 e1
      rw [e0, e1]
  rw [haps] at hreach
  have hlenp : (interleave env [p0.mapRes Sum.inl, p1.mapRes Sum.inr] fs sched).1.length = 2 := by
    have : ∀ (ps : List (Prog (α ⊕ β))) (s : FS) (sc : List Nat),
        (interleave env ps s sc).1.length = ps.length := by
      intro ps s sc
      induction sc generalizing ps s with
      | nil => rfl
      | cons i sc ih =>
        simp only [interleave]
        split
        · exact ih ps s
        · rw [ih, List.length_set]
    exact this _ _ _
  refine ⟨hHf, hclean ?_, ?_⟩
  · intro j p hj
    match j, hj with
    | 0, hj => exact ⟨c0, by rw [f0] at hj; cases hj; rfl⟩
    | 1, hj => exact ⟨c1, by rw [f1] at hj; cases hj; rfl⟩
    | j + 2, hj =>
      have := getElem?_lt hj
      omega
  · -- the serial runs of the real programs are the serial runs of the abstract programs
    obtain ⟨a1, a2, a3, _⟩ := sim_run cfg env cache h0 hH (Know.holds_empty cfg cache fs)
    obtain ⟨b1, b2, b3, _⟩ := sim_run cfg env cache h1 hH (Know.holds_empty cfg cache fs)
    rw [(Linearize.run_mapRes env Sum.inl p0 fs).1] at a1
    rw [(Linearize.run_mapRes env Sum.inl p0 fs).2] at a2 a3
    rw [(Linearize.run_mapRes env Sum.inr p1 fs).1] at b1
    rw [(Linearize.run_mapRes env Sum.inr p1 fs).2] at b2 b3
    obtain ⟨d1, d2, _⟩ := sim_run cfg env cache h1 a3 (Know.holds_empty cfg cache _)
    obtain ⟨g1, g2, _⟩ := sim_run cfg env cache h0 b3 (Know.holds_empty cfg cache _)
    rw [(Linearize.run_mapRes env Sum.inr p1 _).1] at d1
    rw [(Linearize.run_mapRes env Sum.inr p1 _).2] at d2
    rw [(Linearize.run_mapRes env Sum.inl p0 _).1] at g1
    rw [(Linearize.run_mapRes env Sum.inl p0 _).2] at g2
    rcases hser _ c0 c1 _ hreach with h | h
    · left
      unfold aSerial01 at h
      simp only [Prod.mk.injEq] at h
      obtain ⟨x0, x1, x2⟩ := h
      unfold Linearize.serialWR
      refine ⟨by rw [x0, a1], ?_, ?_⟩
      · rw [x1, d1, a2]
      · rw [x2, d2, a2]
    · right
      unfold aSerial10 at h
      simp only [Prod.mk.injEq] at h
      obtain ⟨x0, x1, x2⟩ := h
      unfold Linearize.serialRW
      refine ⟨?_, by rw [x1, b1], ?_⟩
      · rw [x0, g1, b2]
      · rw [x2, g2, b2]

end TwoProc

/-! ### serializability of small abstract programs -/

section Abstract
variable {γ : Type}

theorem areach2_inv {A B A' B' : AProg γ} {m m' : AbsCache} (h : AReach [A, B] m [A', B'] m') :
    (A' = A ∧ B' = B ∧ m' = m) ∨
    (∃ u nx, A = .act u nx ∧ AReach [nx m, B] (u m) [A', B'] m') ∨
    (∃ u nx, B = .act u nx ∧ AReach [A, nx m] (u m) [A', B'] m') := by
  cases h with
  | refl => exact Or.inl ⟨rfl, rfl, rfl⟩
  | step j u nx hj hr =>
    match j, hj, hr with
    | 0, hj, hr =>
      simp only [List.getElem?_cons_zero, Option.some.injEq] at hj
      exact Or.inr (Or.inl ⟨u, nx, hj, hr⟩)
    | 1, hj, hr =>
      simp only [List.getElem?_cons_succ, List.getElem?_cons_zero, Option.some.injEq] at hj
      exact Or.inr (Or.inr ⟨u, nx, hj, hr⟩)
    | j + 2, hj, _ => simp at hj

/-- Only the second process still moves. -/
theorem areach_solo_right {c : γ} {B : AProg γ} {m : AbsCache} {c0 c1 : γ} {m' : AbsCache}
    (h : AReach [.done c, B] m [.done c0, .done c1] m') : c0 = c ∧ (c1, m') = B.run m := by
  induction B generalizing m with
  | done b =>
    rcases areach2_inv h with ⟨e1, e2, e3⟩ | ⟨u, nx, e, _⟩ | ⟨u, nx, e, _⟩
    · cases e1; cases e2; subst e3; exact ⟨rfl, rfl⟩
    · cases e
    · cases e
  | act u nx ih =>
    rcases areach2_inv h with ⟨_, e2, _⟩ | ⟨u', nx', e, _⟩ | ⟨u', nx', e, h1⟩
    · cases e2
    · cases e
    · cases e
      exact ih _ h1

/-- Only the first process still moves. -/
theorem areach_solo_left {c : γ} {A : AProg γ} {m : AbsCache} {c0 c1 : γ} {m' : AbsCache}
    (h : AReach [A, .done c] m [.done c0, .done c1] m') : c1 = c ∧ (c0, m') = A.run m := by
  induction A generalizing m with
  | done b =>
    rcases areach2_inv h with ⟨e1, e2, e3⟩ | ⟨u, nx, e, _⟩ | ⟨u, nx, e, _⟩
    · cases e1; cases e2; subst e3; exact ⟨rfl, rfl⟩
    · cases e
    · cases e
  | act u nx ih =>
    rcases areach2_inv h with ⟨e1, _, _⟩ | ⟨u', nx', e, h1⟩ | ⟨u', nx', e, _⟩
    · cases e1
    · cases e
      exact ih _ h1
    · cases e

/-- One atomic action, the answer read off the state before it. -/
def one (u : AbsCache → AbsCache) (g : AbsCache → γ) : AProg γ := .act u (fun m => .done (g m))

/-- Two atomic actions, a constant answer. -/
def two (u v : AbsCache → AbsCache) (y : γ) : AProg γ := .act u (fun _ => .act v (fun _ => .done y))

theorem aser_done_left (c : γ) (B : AProg γ) : ASerializable (.done c) B := by
  intro m c0 c1 m' h
  obtain ⟨e, hr⟩ := areach_solo_right h
  left
  unfold aSerial01
  simp only [AProg.run]
  rw [← hr, e]

theorem aser_done_right (A : AProg γ) (c : γ) : ASerializable A (.done c) := by
  intro m c0 c1 m' h
  obtain ⟨e, hr⟩ := areach_solo_left h
  left
  unfold aSerial01
  simp only [AProg.run]
  rw [← hr, e]

theorem aser_one_one (u v : AbsCache → AbsCache) (f g : AbsCache → γ) :
    ASerializable (one u f) (one v g) := by
  intro m c0 c1 m' h
  unfold one at h
  rcases areach2_inv h with ⟨e1, _, _⟩ | ⟨u', nx', e, h1⟩ | ⟨u', nx', e, h1⟩
  · cases e1
  · cases e
    obtain ⟨e0, hr⟩ := areach_solo_right h1
    left
    simp only [AProg.run, Prod.mk.injEq] at hr
    simp only [aSerial01, one, AProg.run, e0, hr.1, hr.2]
  · cases e
    obtain ⟨e1, hr⟩ := areach_solo_left h1
    right
    simp only [AProg.run, Prod.mk.injEq] at hr
    simp only [aSerial10, one, AProg.run, e1, hr.1, hr.2]

/-- Two actions next to one: serializable if the single action commutes with the second or with
the first action of the other process (and its answer does not depend on it). -/
theorem aser_two_one (P X D : AbsCache → AbsCache) (y : γ) (g : AbsCache → γ)
    (hc : (∀ m, D (X m) = X (D m) ∧ g (X m) = g m) ∨ (∀ m, D (P m) = P (D m) ∧ g (P m) = g m)) :
    ASerializable (two P X y) (one D g) := by
  intro m c0 c1 m' h
  unfold two one at h
  rcases areach2_inv h with ⟨e1, _, _⟩ | ⟨u', nx', e, h1⟩ | ⟨u', nx', e, h1⟩
  · cases e1
  · cases e
    rcases areach2_inv h1 with ⟨e1, _, _⟩ | ⟨u', nx', e, h2⟩ | ⟨u', nx', e, h2⟩
    · cases e1
    · -- P X D
      cases e
      obtain ⟨e0, hr⟩ := areach_solo_right h2
      left
      simp only [AProg.run, Prod.mk.injEq] at hr
      simp only [aSerial01, one, two, AProg.run, e0, hr.1, hr.2]
    · -- P D X
      cases e
      obtain ⟨e1, hr⟩ := areach_solo_left h2
      simp only [AProg.run, Prod.mk.injEq] at hr
      rcases hc with hc | hc
      · left
        simp only [aSerial01, one, two, AProg.run, e1, hr.1, hr.2, (hc _).1, (hc _).2]
      · right
        simp only [aSerial10, one, two, AProg.run, e1, hr.1, hr.2, (hc _).1, (hc _).2]
  · -- D P X
    cases e
    obtain ⟨e1, hr⟩ := areach_solo_left h1
    right
    simp only [AProg.run, Prod.mk.injEq] at hr
    simp only [aSerial10, one, two, AProg.run, e1, hr.1, hr.2]

/-- The mirror image. -/
theorem aser_one_two (P X D : AbsCache → AbsCache) (y : γ) (g : AbsCache → γ)
    (hc : (∀ m, D (X m) = X (D m) ∧ g (X m) = g m) ∨ (∀ m, D (P m) = P (D m) ∧ g (P m) = g m)) :
    ASerializable (one D g) (two P X y) := by
  intro m c0 c1 m' h
  unfold two one at h
  rcases areach2_inv h with ⟨e1, _, _⟩ | ⟨u', nx', e, h1⟩ | ⟨u', nx', e, h1⟩
  · cases e1
  · -- D P X
    cases e
    obtain ⟨e1, hr⟩ := areach_solo_right h1
    left
    simp only [AProg.run, Prod.mk.injEq] at hr
    simp only [aSerial01, one, two, AProg.run, e1, hr.1, hr.2]
  · cases e
    rcases areach2_inv h1 with ⟨_, e1, _⟩ | ⟨u', nx', e, h2⟩ | ⟨u', nx', e, h2⟩
    · cases e1
    · -- P D X
      cases e
      obtain ⟨e0, hr⟩ := areach_solo_right h2
      simp only [AProg.run, Prod.mk.injEq] at hr
      rcases hc with hc | hc
      · right
        simp only [aSerial10, one, two, AProg.run, e0, hr.1, hr.2, (hc _).1, (hc _).2]
      · left
        simp only [aSerial01, one, two, AProg.run, e0, hr.1, hr.2, (hc _).1, (hc _).2]
    · -- P X D
      cases e
      obtain ⟨e1, hr⟩ := areach_solo_left h2
      right
      simp only [AProg.run, Prod.mk.injEq] at hr
      simp only [aSerial10, one, two, AProg.run, e1, hr.1, hr.2]

/-- Two actions next to two actions (`P` = first, `X` = second action of each): serializable if
each second action commutes with the other's first action, and the two first actions commute or
the two second actions commute. -/
theorem aser_two_two (P0 X0 P1 X1 : AbsCache → AbsCache) (y0 y1 : γ)
    (h01 : ∀ m, P1 (X0 m) = X0 (P1 m)) (h10 : ∀ m, P0 (X1 m) = X1 (P0 m))
    (hc : (∀ m, P0 (P1 m) = P1 (P0 m)) ∨ (∀ m, X0 (X1 m) = X1 (X0 m))) :
    ASerializable (two P0 X0 y0) (two P1 X1 y1) := by
  intro m c0 c1 m' h
  unfold two at h
  rcases areach2_inv h with ⟨e1, _, _⟩ | ⟨u', nx', e, h1⟩ | ⟨u', nx', e, h1⟩
  · cases e1
  · cases e
    -- P0 first
    rcases areach2_inv h1 with ⟨e1, _, _⟩ | ⟨u', nx', e, h2⟩ | ⟨u', nx', e, h2⟩
    · cases e1
    · -- P0 X0 …
      cases e
      obtain ⟨e0, hr⟩ := areach_solo_right h2
      left
      simp only [AProg.run, Prod.mk.injEq] at hr
      simp only [aSerial01, two, AProg.run, e0, hr.1, hr.2]
    · -- P0 P1 …
      cases e
      rcases areach2_inv h2 with ⟨e1, _, _⟩ | ⟨u', nx', e, h3⟩ | ⟨u', nx', e, h3⟩
      · cases e1
      · -- P0 P1 X0 X1
        cases e
        obtain ⟨e0, hr⟩ := areach_solo_right h3
        left
        simp only [AProg.run, Prod.mk.injEq] at hr
        simp only [aSerial01, two, AProg.run, e0, hr.1, hr.2, h01]
      · -- P0 P1 X1 X0
        cases e
        obtain ⟨e1, hr⟩ := areach_solo_left h3
        simp only [AProg.run, Prod.mk.injEq] at hr
        rcases hc with hc | hc
        · right
          simp only [aSerial10, two, AProg.run, e1, hr.1, hr.2, hc, h10]
        · left
          simp only [aSerial01, two, AProg.run, e1, hr.1, hr.2, hc, h01]
  · cases e
    -- P1 first
    rcases areach2_inv h1 with ⟨_, e1, _⟩ | ⟨u', nx', e, h2⟩ | ⟨u', nx', e, h2⟩
    · cases e1
    · -- P1 P0 …
      cases e
      rcases areach2_inv h2 with ⟨e1, _, _⟩ | ⟨u', nx', e, h3⟩ | ⟨u', nx', e, h3⟩
      · cases e1
      · -- P1 P0 X0 X1
        cases e
        obtain ⟨e0, hr⟩ := areach_solo_right h3
        simp only [AProg.run, Prod.mk.injEq] at hr
        rcases hc with hc | hc
        · left
          simp only [aSerial01, two, AProg.run, e0, hr.1, hr.2, ← hc, h01]
        · right
          simp only [aSerial10, two, AProg.run, e0, hr.1, hr.2, ← hc, h10]
      · -- P1 P0 X1 X0
        cases e
        obtain ⟨e1, hr⟩ := areach_solo_left h3
        right
        simp only [AProg.run, Prod.mk.injEq] at hr
        simp only [aSerial10, two, AProg.run, e1, hr.1, hr.2, h10]
    · -- P1 X1 …
      cases e
      obtain ⟨e1, hr⟩ := areach_solo_left h2
      right
      simp only [AProg.run, Prod.mk.injEq] at hr
      simp only [aSerial10, two, AProg.run, e1, hr.1, hr.2]

end Abstract

/-! ### the shapes of the abstract operations, and which of their actions commute -/

section Shapes
variable (cfg : Cfg) (env : Env) {γ : Type}

/-- The writer's first action: the store maps the address of the data to the data. -/
def pubA (o : WriteOpts) (data : Bytes) (m : AbsCache) : AbsCache :=
  setStore m (o.algo.getD .sha256) (Bytes.hex (cfg.H (o.algo.getD .sha256) data)) (some data)

/-- An index action: the index maps the key to the entry of the insertion. -/
def idxA (key : Bytes) (o : WriteOpts) (m : AbsCache) : AbsCache := setIndex m key (insEntry env key o)

/-- The remover's action and answer. -/
def dropA (sri : Integrity) (m : AbsCache) : AbsCache := ⟨m.index, (dropSpec m.store sri).1⟩

theorem aWriter_shape (inj : Res Integrity → γ) (key : Option Bytes) (o : WriteOpts) (data : Bytes) :
    (∃ y, aWriter cfg env inj key o data = one (pubA cfg o data) (fun _ => y)) ∨
    (∃ k rec y, key = some k ∧ aWriter cfg env inj key o data =
      two (pubA cfg o data)
        (idxA env k { o with sri := some rec, size := some (o.size.getD data.length) }) y) := by
  unfold aWriter aTail
  cases declCheck o data.length (Sri.compute cfg.H (o.algo.getD .sha256) data) with
  | error e => exact Or.inl ⟨_, rfl⟩
  | ok rec =>
    cases key with
    | none => exact Or.inl ⟨_, rfl⟩
    | some k => exact Or.inr ⟨k, rec, _, rfl, rfl⟩

theorem aRemove_shape (inj : Res Unit → γ) (sri : Integrity) :
    (∃ y, aRemove inj sri = .done y) ∨
    aRemove inj sri = one (dropA sri) (fun m => inj (dropSpec m.store sri).2) := by
  unfold aRemove
  cases addrOf sri with
  | none => exact Or.inl ⟨_, rfl⟩
  | some x => exact Or.inr rfl

theorem setStore_comm (m : AbsCache) (a0 a1 : Algo) (h0 h1 : Bytes) (v0 v1 : Option Bytes)
    (h : ¬ (a0 = a1 ∧ h0 = h1) ∨ v0 = v1) :
    setStore (setStore m a1 h1 v1) a0 h0 v0 = setStore (setStore m a0 h0 v0) a1 h1 v1 := by
  unfold setStore
  congr 1
  funext a h'
  simp only [AbsStore.set]
  by_cases e0 : a = a0 ∧ h' = h0 <;> by_cases e1 : a = a1 ∧ h' = h1
  · simp only [if_pos e0, if_pos e1]
    rcases h with h | h
    · exact absurd ⟨e0.1.symm.trans e1.1, e0.2.symm.trans e1.2⟩ h
    · exact h
  · simp only [if_pos e0, if_neg e1]
  · simp only [if_neg e0, if_pos e1]
  · simp only [if_neg e0, if_neg e1]

theorem setIndex_comm (m : AbsCache) (k0 k1 : Bytes) (e0 e1 : Option Meta) (h : k0 ≠ k1) :
    setIndex (setIndex m k1 e1) k0 e0 = setIndex (setIndex m k0 e0) k1 e1 := by
  unfold setIndex
  congr 1
  funext k
  show (if k = k0 then e0 else if k = k1 then e1 else m.index k) =
    (if k = k1 then e1 else if k = k0 then e0 else m.index k)
  by_cases a0 : k = k0 <;> by_cases a1 : k = k1
  · exact absurd (a0.symm.trans a1) h
  · simp only [if_pos a0, if_neg a1]
  · simp only [if_neg a0, if_pos a1]
  · simp only [if_neg a0, if_neg a1]

/-- **writer ∥ remover** (abstractly): the remover's one action commutes with the index action. -/
theorem aser_writer_remove (i0 : Res Integrity → γ) (i1 : Res Unit → γ) (key : Option Bytes)
    (o : WriteOpts) (data : Bytes) (sri : Integrity) :
    ASerializable (aWriter cfg env i0 key o data) (aRemove i1 sri) := by
  rcases aRemove_shape i1 sri with ⟨y, e⟩ | e
  · rw [e]; exact aser_done_right _ _
  · rw [e]
    rcases aWriter_shape cfg env i0 key o data with ⟨y, e'⟩ | ⟨k, rec, y, _, e'⟩
    · rw [e']; exact aser_one_one _ _ _ _
    · rw [e']
      exact aser_two_one _ _ _ _ _ (Or.inl (fun m => ⟨rfl, rfl⟩))

/-- **writer ∥ index operation** (abstractly): the index operation commutes with the publication. -/
theorem aser_writer_index (i0 : Res Integrity → γ) (key : Option Bytes) (o : WriteOpts) (data : Bytes)
    (key' : Bytes) (o' : WriteOpts) (y : γ) :
    ASerializable (aWriter cfg env i0 key o data) (one (idxA env key' o') (fun _ => y)) := by
  rcases aWriter_shape cfg env i0 key o data with ⟨y', e'⟩ | ⟨k, rec, y', _, e'⟩
  · rw [e']; exact aser_one_one _ _ _ _
  · rw [e']
    exact aser_two_one _ _ _ _ _ (Or.inr (fun m => ⟨rfl, rfl⟩))

/-- **writer ∥ writer** (abstractly): the publications commute unless they hit one address with
different bytes; the index actions commute unless they are for one key. -/
theorem aser_writer_writer (i0 i1 : Res Integrity → γ) (key0 key1 : Option Bytes) (o0 o1 : WriteOpts)
    (d0 d1 : Bytes)
    (hc : (∀ k, key0 = some k → key1 = some k → False) ∨
      ¬ (o0.algo.getD .sha256 = o1.algo.getD .sha256 ∧
        Bytes.hex (cfg.H (o0.algo.getD .sha256) d0) = Bytes.hex (cfg.H (o1.algo.getD .sha256) d1)) ∨
      d0 = d1) :
    ASerializable (aWriter cfg env i0 key0 o0 d0) (aWriter cfg env i1 key1 o1 d1) := by
  rcases aWriter_shape cfg env i0 key0 o0 d0 with ⟨y0, e0⟩ | ⟨k0, r0, y0, hk0, e0⟩ <;>
    rcases aWriter_shape cfg env i1 key1 o1 d1 with ⟨y1, e1⟩ | ⟨k1, r1, y1, hk1, e1⟩ <;> rw [e0, e1]
  · exact aser_one_one _ _ _ _
  · exact aser_one_two _ _ _ _ _ (Or.inl (fun m => ⟨rfl, rfl⟩))
  · exact aser_two_one _ _ _ _ _ (Or.inl (fun m => ⟨rfl, rfl⟩))
  · refine aser_two_two _ _ _ _ _ _ ?_ ?_ ?_
    · intro m; rfl
    · intro m; rfl
    rcases hc with hc | hc | hc
    · right
      intro m
      exact setIndex_comm m _ _ _ _ (fun e => hc k0 hk0 (by rw [hk1, e]))
    · left
      intro m
      exact setStore_comm m _ _ _ _ _ _ (Or.inl hc)
    · left
      intro m
      exact setStore_comm m _ _ _ _ _ _ (Or.inr (by rw [hc]))

end Shapes

/-! ### schedules that finish both processes (non-vacuity), and a genuinely interleaved one -/

section Schedules
variable (cfg : Cfg) (env : Env) (cache : Path) {γ : Type}

/-- `n` small steps of one program alone. -/
def stepsN (p : Prog γ) (s : FS) : Nat → Prog γ × FS
  | 0 => (p, s)
  | n + 1 => stepsN (step env p s).1 (step env p s).2 n

theorem interleave_steps0 (p0 p1 : Prog γ) (s : FS) (n : Nat) (rest : List Nat) :
    interleave env [p0, p1] s (List.replicate n 0 ++ rest) =
      interleave env [(stepsN env p0 s n).1, p1] (stepsN env p0 s n).2 rest := by
  induction n generalizing p0 s with
  | zero => rfl
  | succ n ih =>
    simp only [List.replicate_succ, List.cons_append, interleave, List.getElem?_cons_zero,
      List.set_cons_zero]
    exact ih _ _

theorem interleave_steps1 (p0 p1 : Prog γ) (s : FS) (n : Nat) (rest : List Nat) :
    interleave env [p0, p1] s (List.replicate n 1 ++ rest) =
      interleave env [p0, (stepsN env p1 s n).1] (stepsN env p1 s n).2 rest := by
  induction n generalizing p1 s with
  | zero => rfl
  | succ n ih =>
    simp only [List.replicate_succ, List.cons_append, interleave, List.getElem?_cons_succ,
      List.getElem?_cons_zero, List.set_cons_succ, List.set_cons_zero]
    exact ih _ _

/-- Every program finishes after finitely many steps, with the result and state of its run. -/
theorem steps_run (p : Prog γ) (s : FS) :
    ∃ n, stepsN env p s n = (.done (run env p s).1, (run env p s).2.1) := by
  induction p generalizing s with
  | done a => exact ⟨0, rfl⟩
  | sys c k ih =>
    obtain ⟨n, hn⟩ := ih (exec env s c).2 (exec env s c).1
    exact ⟨n + 1, hn⟩

/-- **Non-vacuity, generic**: for any two programs and any filesystem there is a schedule after
which both have finished (here: the serial one, "all of process 0, then all of process 1"). -/
theorem serial_schedule_finishes (p0 p1 : Prog γ) (s : FS) :
    ∃ sched, Linearize.FinishedWith env [p0, p1] s sched 0 (run env p0 s).1 ∧
      Linearize.FinishedWith env [p0, p1] s sched 1 (run env p1 (run env p0 s).2.1).1 := by
  obtain ⟨n0, h0⟩ := steps_run env p0 s
  obtain ⟨n1, h1⟩ := steps_run env p1 (run env p0 s).2.1
  refine ⟨List.replicate n0 0 ++ (List.replicate n1 1 ++ []), ?_, ?_⟩ <;>
  · unfold Linearize.FinishedWith
    rw [interleave_steps0, h0, interleave_steps1, h1]
    rfl

/-- Running a simulating program alone up to and including its first abstract action. -/
theorem sim_first_action {p : Prog γ} {K : Know} {u : AbsCache → AbsCache} {nx : AbsCache → AProg γ}
    (h : Sim cfg env cache p K (.act u nx)) {s : FS} (hH : Healthy cfg cache s)
    (hK : K.holds cfg cache s) :
    ∃ n K', Healthy cfg cache (stepsN env p s n).2 ∧ K'.holds cfg cache (stepsN env p s n).2 ∧
      Sim cfg env cache (stepsN env p s n).1 K' (nx (absCache cfg cache s)) ∧
      absCache cfg cache (stepsN env p s n).2 = u (absCache cfg cache s) := by
  induction p generalizing K s with
  | done a => exact absurd h.1 (by intro e; cases e)
  | sys c k ih =>
    obtain ⟨hH1, K', hK', _, hrest⟩ := h s hH hK
    rcases hrest with ⟨habs, hk⟩ | ⟨u', nx', e, habs, hk⟩
    · obtain ⟨n, K'', g1, g2, g3, g4⟩ := ih _ hk hH1 hK'
      rw [habs] at g3 g4
      exact ⟨n + 1, K'', g1, g2, g3, g4⟩
    · cases e
      exact ⟨1, K', hH1, hK', hk, habs⟩

/-- **A genuinely interleaved schedule**: process 0 runs up to and including its first abstract
action (for a writer: the publication), then process 1 runs from start to end, then process 0
finishes.  Both finish; the answers and the final abstract state are those of the corresponding
interleaving of the abstract programs. -/
theorem nested_schedule {p0 p1 : Prog γ} {u : AbsCache → AbsCache} {nx : AbsCache → AProg γ}
    {A1 : AProg γ} (h0 : Sim cfg env cache p0 {} (.act u nx)) (h1 : Sim cfg env cache p1 {} A1)
    (s : FS) (hH : Healthy cfg cache s) :
    ∃ sched c0 c1, Linearize.FinishedWith env [p0, p1] s sched 0 c0 ∧
      Linearize.FinishedWith env [p0, p1] s sched 1 c1 ∧
      c1 = (A1.run (u (absCache cfg cache s))).1 ∧
      c0 = ((nx (absCache cfg cache s)).run (A1.run (u (absCache cfg cache s))).2).1 ∧
      absCache cfg cache (interleave env [p0, p1] s sched).2 =
        ((nx (absCache cfg cache s)).run (A1.run (u (absCache cfg cache s))).2).2 := by
  obtain ⟨n, K', hH1, hK1, hs1, ha1⟩ := sim_first_action cfg env cache h0 hH (Know.holds_empty cfg cache s)
  obtain ⟨n1, hn1⟩ := steps_run env p1 (stepsN env p0 s n).2
  obtain ⟨r1, r2, hH2, hm2, ht2⟩ := sim_run cfg env cache h1 hH1 (Know.holds_empty cfg cache _)
  have hK2 : K'.holds cfg cache (run env p1 (stepsN env p0 s n).2).2.1 := by
    apply hK1.stable cfg cache
    refine ⟨hm2, ?_⟩
    intro t ht
    have hlt := hK1.tok_lt cfg cache ht
    rcases ht2 _ (Nat.le_refl _) (fun t' h' => by cases h') (tmpName t) with g | ⟨n', e, g⟩
    · exact g
    · have := tmpName_injective e
      omega
  obtain ⟨n2, hn2⟩ := steps_run env (stepsN env p0 s n).1 (run env p1 (stepsN env p0 s n).2).2.1
  obtain ⟨q1, q2, _, _, _⟩ := sim_run cfg env cache hs1 hH2 hK2
  refine ⟨List.replicate n 0 ++ (List.replicate n1 1 ++ (List.replicate n2 0 ++ [])),
    (run env (stepsN env p0 s n).1 (run env p1 (stepsN env p0 s n).2).2.1).1,
    (run env p1 (stepsN env p0 s n).2).1, ?_, ?_, ?_, ?_, ?_⟩
  · unfold Linearize.FinishedWith
    rw [interleave_steps0, interleave_steps1, hn1, interleave_steps0, hn2]
    rfl
  · unfold Linearize.FinishedWith
    rw [interleave_steps0, interleave_steps1, hn1, interleave_steps0, hn2]
    rfl
  · rw [r1, ha1]
  · rw [q1, r2, ha1]
  · rw [interleave_steps0, interleave_steps1, hn1, interleave_steps0, hn2]
    show absCache cfg cache (run env (stepsN env p0 s n).1 (run env p1 (stepsN env p0 s n).2).2.1).2.1 = _
    rw [q2, r2, ha1]

end Schedules

/-! ### the theorems -/

section Main
variable (cfg : Cfg) (env : Env) (cache : Path)

/-- An index insertion as a process: one atomic action. -/
theorem insert_proc_sim {γ : Type} (inj : Res Integrity → γ) (key : Bytes) (o : WriteOpts)
    (hw : OptsWF key o) (hsri : SriOK cfg o) :
    Sim cfg env cache ((insert cfg cache key o).mapRes inj) {}
      (one (idxA env key o) (fun _ => inj (.ok (o.sri.getD defaultSri)))) := by
  unfold Prog.mapRes one
  apply SimP.bind cfg env cache (insert_sim cfg env cache key o hw hsri
    (Post := fun r K' ap' => r = .ok (o.sri.getD defaultSri) ∧ K'.tok = none ∧
      ap' = .done (inj (.ok (o.sri.getD defaultSri))))
    (fun m => rfl) (fun m ds' bs' => ⟨rfl, rfl, rfl⟩))
  rintro r K' ap' ⟨rfl, hK, rfl⟩
  exact ⟨rfl, hK⟩

/-- An index removal (`delete` = insertion of a tombstone) as a process. -/
theorem delete_proc_sim {γ : Type} (inj : Res Unit → γ) (key : Bytes) (hk : Json.utf8Valid key = true) :
    Sim cfg env cache ((delete cfg cache key).mapRes inj) {}
      (one (idxA env key {}) (fun _ => inj (.ok ()))) := by
  rw [Linearize.delete_eq_mapRes, Linearize.mapRes_mapRes]
  exact insert_proc_sim cfg env cache _ key {} (optsWF_default hk) (sriOK_default cfg)

/-- The conclusion of all theorems below, for the processes `p0`, `p1`: after the schedule the
cache is `Healthy`, `cache/tmp` holds no leftover temp file (`TmpClean`), and both answers and the
final abstract cache are those of one of the two serial executions (`SerialOutcome`). -/
def Serializable {α β : Type} (p0 : Prog α) (p1 : Prog β) (fs : FS) (sched : List Nat) (c0 c1 : α ⊕ β) : Prop :=
  Healthy cfg cache (interleave env [p0.mapRes Sum.inl, p1.mapRes Sum.inr] fs sched).2 ∧
  TmpClean cache fs (interleave env [p0.mapRes Sum.inl, p1.mapRes Sum.inr] fs sched).2 ∧
  SerialOutcome cfg env cache p0 p1 fs c0 c1 (interleave env [p0.mapRes Sum.inl, p1.mapRes Sum.inr] fs sched).2

/-- **(T1/T2, general form) A whole streamed writer ∥ `remove_hash`.**  Process 0 is ANY whole
writer — `writeStream`: any flavour, keyed (`PutWF`) or by address, any options, any chunking;
process 1 is `removeHash cache sri` for ANY integrity `sri` (the address being written, the address
the key's old entry names, any other, even an unparsable one).  From a healthy cache, after EVERY
schedule that finishes both: the cache is healthy, no temp file is left, and both answers and the
final abstract cache (index map, content store) are those of "write, then remove" or of "remove,
then write". -/
theorem writeStream_removeHash_serializable (hl : HexLen cfg) (fl : Flavour) (key : Option Bytes)
    (o : WriteOpts) (chunks : List Bytes) (hwf : ∀ k, key = some k → PutWF k o chunks)
    (sri : Integrity) (fs : FS) (hH : Healthy cfg cache fs) (sched : List Nat)
    (c0 c1 : Res Integrity ⊕ Res Unit)
    (f0 : Linearize.FinishedWith env [(writeStream cfg cache fl key o chunks).mapRes Sum.inl,
      (removeHash cache sri).mapRes Sum.inr] fs sched 0 c0)
    (f1 : Linearize.FinishedWith env [(writeStream cfg cache fl key o chunks).mapRes Sum.inl,
      (removeHash cache sri).mapRes Sum.inr] fs sched 1 c1) :
    Serializable cfg env cache (writeStream cfg cache fl key o chunks) (removeHash cache sri) fs sched c0 c1 :=
  two_proc_serializable cfg env cache _ _ _ _
    (writeStream_sim cfg env cache Sum.inl fl key o chunks hl hwf)
    (removeHash_sim cfg env cache Sum.inr sri)
    (aser_writer_remove cfg env _ _ key o _ sri) fs hH sched c0 c1 f0 f1

theorem write_putWF (fl : Flavour) (key : Bytes) (a : Algo) (data : Bytes)
    (hk : Json.utf8Valid key = true) (hd : data.length ≤ Rec.u64Max) :
    PutWF key (match fl with
      | .async => { algo := some a, size := some data.length }
      | .sync => { algo := some a }) [data] :=
  write_wf ⟨fun _ _ => [], 0⟩ fl key a data hk hd

/-- **(T1) `write` ∥ `remove_hash`**: the one-shot keyed writer of either flavour. -/
theorem write_removeHash_serializable (hl : HexLen cfg) (fl : Flavour) (algo : Algo) (key data : Bytes)
    (hk : Json.utf8Valid key = true) (hd : data.length ≤ Rec.u64Max)
    (sri : Integrity) (fs : FS) (hH : Healthy cfg cache fs) (sched : List Nat)
    (c0 c1 : Res Integrity ⊕ Res Unit)
    (f0 : Linearize.FinishedWith env [(write cfg fl cache algo key data).mapRes Sum.inl,
      (removeHash cache sri).mapRes Sum.inr] fs sched 0 c0)
    (f1 : Linearize.FinishedWith env [(write cfg fl cache algo key data).mapRes Sum.inl,
      (removeHash cache sri).mapRes Sum.inr] fs sched 1 c1) :
    Serializable cfg env cache (write cfg fl cache algo key data) (removeHash cache sri) fs sched c0 c1 := by
  rw [write_eq_stream] at f0 f1 ⊢
  exact writeStream_removeHash_serializable cfg env cache hl fl (some key) _ [data]
    (fun k e => by cases e; exact write_putWF fl key algo data hk hd) sri fs hH sched c0 c1 f0 f1

/-- **(T2) `write_hash` ∥ `remove_hash`**: the by-address writer. -/
theorem writeHash_removeHash_serializable (hl : HexLen cfg) (fl : Flavour) (algo : Algo) (data : Bytes)
    (sri : Integrity) (fs : FS) (hH : Healthy cfg cache fs) (sched : List Nat)
    (c0 c1 : Res Integrity ⊕ Res Unit)
    (f0 : Linearize.FinishedWith env [(writeHash cfg fl cache algo data).mapRes Sum.inl,
      (removeHash cache sri).mapRes Sum.inr] fs sched 0 c0)
    (f1 : Linearize.FinishedWith env [(writeHash cfg fl cache algo data).mapRes Sum.inl,
      (removeHash cache sri).mapRes Sum.inr] fs sched 1 c1) :
    Serializable cfg env cache (writeHash cfg fl cache algo data) (removeHash cache sri) fs sched c0 c1 := by
  rw [writeHash_eq_stream] at f0 f1 ⊢
  exact writeStream_removeHash_serializable cfg env cache hl fl none _ [data]
    (fun k e => by cases e) sri fs hH sched c0 c1 f0 f1

/-- **(T3, general form) Two whole streamed writers.**  Any two whole writers (each any flavour,
keyed or by address, any options, any chunking).  The one hypothesis `hc` excludes the single
situation in which the statement is FALSE in the model (`writer_writer_collision_counterexample`
below): the SAME key, the SAME address, DIFFERENT bytes — i.e. a collision of the digest function on
the two data.  Covers: (a) different keys, different data; (b) different keys, the same data (one
address, the second rename replaces the file by an identical one); (c) the same key (the final
index maps the key to the entry of whichever writer appended its record last — that is the serial
order chosen). -/
theorem writeStream_writeStream_serializable (hl : HexLen cfg) (fl0 fl1 : Flavour)
    (key0 key1 : Option Bytes) (o0 o1 : WriteOpts) (ch0 ch1 : List Bytes)
    (hwf0 : ∀ k, key0 = some k → PutWF k o0 ch0) (hwf1 : ∀ k, key1 = some k → PutWF k o1 ch1)
    (hc : (∀ k, key0 = some k → key1 = some k → False) ∨
      ¬ (o0.algo.getD .sha256 = o1.algo.getD .sha256 ∧
        Bytes.hex (cfg.H (o0.algo.getD .sha256) ch0.flatten) =
          Bytes.hex (cfg.H (o1.algo.getD .sha256) ch1.flatten)) ∨
      ch0.flatten = ch1.flatten)
    (fs : FS) (hH : Healthy cfg cache fs) (sched : List Nat)
    (c0 c1 : Res Integrity ⊕ Res Integrity)
    (f0 : Linearize.FinishedWith env [(writeStream cfg cache fl0 key0 o0 ch0).mapRes Sum.inl,
      (writeStream cfg cache fl1 key1 o1 ch1).mapRes Sum.inr] fs sched 0 c0)
    (f1 : Linearize.FinishedWith env [(writeStream cfg cache fl0 key0 o0 ch0).mapRes Sum.inl,
      (writeStream cfg cache fl1 key1 o1 ch1).mapRes Sum.inr] fs sched 1 c1) :
    Serializable cfg env cache (writeStream cfg cache fl0 key0 o0 ch0)
      (writeStream cfg cache fl1 key1 o1 ch1) fs sched c0 c1 :=
  two_proc_serializable cfg env cache _ _ _ _
    (writeStream_sim cfg env cache Sum.inl fl0 key0 o0 ch0 hl hwf0)
    (writeStream_sim cfg env cache Sum.inr fl1 key1 o1 ch1 hl hwf1)
    (aser_writer_writer cfg env _ _ key0 key1 o0 o1 _ _ hc) fs hH sched c0 c1 f0 f1

/-- **(T3) `write` ∥ `write`**: two one-shot keyed writers of any flavours, keys, algorithms and
data — different keys and different data, different keys and the same data, or the same key.
`hcoll`: when the keys are equal, the digest function does not collide on the two data. -/
theorem write_write_serializable (hl : HexLen cfg) (fl0 fl1 : Flavour) (a0 a1 : Algo)
    (key0 key1 d0 d1 : Bytes)
    (hk0 : Json.utf8Valid key0 = true) (hd0 : d0.length ≤ Rec.u64Max)
    (hk1 : Json.utf8Valid key1 = true) (hd1 : d1.length ≤ Rec.u64Max)
    (hcoll : key0 = key1 → a0 = a1 → Bytes.hex (cfg.H a0 d0) = Bytes.hex (cfg.H a1 d1) → d0 = d1)
    (fs : FS) (hH : Healthy cfg cache fs) (sched : List Nat)
    (c0 c1 : Res Integrity ⊕ Res Integrity)
    (f0 : Linearize.FinishedWith env [(write cfg fl0 cache a0 key0 d0).mapRes Sum.inl,
      (write cfg fl1 cache a1 key1 d1).mapRes Sum.inr] fs sched 0 c0)
    (f1 : Linearize.FinishedWith env [(write cfg fl0 cache a0 key0 d0).mapRes Sum.inl,
      (write cfg fl1 cache a1 key1 d1).mapRes Sum.inr] fs sched 1 c1) :
    Serializable cfg env cache (write cfg fl0 cache a0 key0 d0) (write cfg fl1 cache a1 key1 d1)
      fs sched c0 c1 := by
  rw [write_eq_stream, write_eq_stream] at f0 f1 ⊢
  refine writeStream_writeStream_serializable cfg env cache hl fl0 fl1 (some key0) (some key1) _ _
    [d0] [d1] (fun k e => by cases e; exact write_putWF fl0 key0 a0 d0 hk0 hd0)
    (fun k e => by cases e; exact write_putWF fl1 key1 a1 d1 hk1 hd1) ?_ fs hH sched c0 c1 f0 f1
  simp only [List.flatten_cons, List.flatten_nil, List.append_nil]
  have key : (∀ k, some key0 = some k → some key1 = some k → False) ∨
      ¬ (a0 = a1 ∧ Bytes.hex (cfg.H a0 d0) = Bytes.hex (cfg.H a1 d1)) ∨ d0 = d1 := by
    by_cases hk : key0 = key1
    · by_cases ha : a0 = a1 ∧ Bytes.hex (cfg.H a0 d0) = Bytes.hex (cfg.H a1 d1)
      · exact Or.inr (Or.inr (hcoll hk ha.1 ha.2))
      · exact Or.inr (Or.inl ha)
    · left
      intro k e0 e1
      cases e0; cases e1
      exact hk rfl
  cases fl0 <;> cases fl1 <;> exact key

/-- **(T4, general form) A whole streamed writer ∥ an index insertion** on ANY key (the
writer's or another; `OptsWF` options, an integrity absent or computed by the library). -/
theorem writeStream_insert_serializable (hl : HexLen cfg) (fl : Flavour) (key : Option Bytes)
    (o : WriteOpts) (chunks : List Bytes) (hwf : ∀ k, key = some k → PutWF k o chunks)
    (key' : Bytes) (o' : WriteOpts) (hw' : OptsWF key' o') (hsri' : SriOK cfg o')
    (fs : FS) (hH : Healthy cfg cache fs) (sched : List Nat)
    (c0 c1 : Res Integrity ⊕ Res Integrity)
    (f0 : Linearize.FinishedWith env [(writeStream cfg cache fl key o chunks).mapRes Sum.inl,
      (insert cfg cache key' o').mapRes Sum.inr] fs sched 0 c0)
    (f1 : Linearize.FinishedWith env [(writeStream cfg cache fl key o chunks).mapRes Sum.inl,
      (insert cfg cache key' o').mapRes Sum.inr] fs sched 1 c1) :
    Serializable cfg env cache (writeStream cfg cache fl key o chunks) (insert cfg cache key' o')
      fs sched c0 c1 :=
  two_proc_serializable cfg env cache _ _ _ _
    (writeStream_sim cfg env cache Sum.inl fl key o chunks hl hwf)
    (insert_proc_sim cfg env cache Sum.inr key' o' hw' hsri')
    (aser_writer_index cfg env _ key o _ key' o' _) fs hH sched c0 c1 f0 f1

/-- **(T4, general form) A whole streamed writer ∥ an index removal** (`delete`) of ANY key. -/
theorem writeStream_delete_serializable (hl : HexLen cfg) (fl : Flavour) (key : Option Bytes)
    (o : WriteOpts) (chunks : List Bytes) (hwf : ∀ k, key = some k → PutWF k o chunks)
    (key' : Bytes) (hk' : Json.utf8Valid key' = true)
    (fs : FS) (hH : Healthy cfg cache fs) (sched : List Nat)
    (c0 c1 : Res Integrity ⊕ Res Unit)
    (f0 : Linearize.FinishedWith env [(writeStream cfg cache fl key o chunks).mapRes Sum.inl,
      (delete cfg cache key').mapRes Sum.inr] fs sched 0 c0)
    (f1 : Linearize.FinishedWith env [(writeStream cfg cache fl key o chunks).mapRes Sum.inl,
      (delete cfg cache key').mapRes Sum.inr] fs sched 1 c1) :
    Serializable cfg env cache (writeStream cfg cache fl key o chunks) (delete cfg cache key')
      fs sched c0 c1 :=
  two_proc_serializable cfg env cache _ _ _ _
    (writeStream_sim cfg env cache Sum.inl fl key o chunks hl hwf)
    (delete_proc_sim cfg env cache Sum.inr key' hk')
    (aser_writer_index cfg env _ key o _ key' {} _) fs hH sched c0 c1 f0 f1

/-- **(T4) `write` ∥ `insert`.** -/
theorem write_insert_serializable (hl : HexLen cfg) (fl : Flavour) (algo : Algo) (key data : Bytes)
    (hk : Json.utf8Valid key = true) (hd : data.length ≤ Rec.u64Max)
    (key' : Bytes) (o' : WriteOpts) (hw' : OptsWF key' o') (hsri' : SriOK cfg o')
    (fs : FS) (hH : Healthy cfg cache fs) (sched : List Nat)
    (c0 c1 : Res Integrity ⊕ Res Integrity)
    (f0 : Linearize.FinishedWith env [(write cfg fl cache algo key data).mapRes Sum.inl,
      (insert cfg cache key' o').mapRes Sum.inr] fs sched 0 c0)
    (f1 : Linearize.FinishedWith env [(write cfg fl cache algo key data).mapRes Sum.inl,
      (insert cfg cache key' o').mapRes Sum.inr] fs sched 1 c1) :
    Serializable cfg env cache (write cfg fl cache algo key data) (insert cfg cache key' o')
      fs sched c0 c1 := by
  rw [write_eq_stream] at f0 f1 ⊢
  exact writeStream_insert_serializable cfg env cache hl fl (some key) _ [data]
    (fun k e => by cases e; exact write_putWF fl key algo data hk hd) key' o' hw' hsri'
    fs hH sched c0 c1 f0 f1

/-- **(T4) `write` ∥ `remove`** (`delete`: the index removal). -/
theorem write_delete_serializable (hl : HexLen cfg) (fl : Flavour) (algo : Algo) (key data : Bytes)
    (hk : Json.utf8Valid key = true) (hd : data.length ≤ Rec.u64Max)
    (key' : Bytes) (hk' : Json.utf8Valid key' = true)
    (fs : FS) (hH : Healthy cfg cache fs) (sched : List Nat)
    (c0 c1 : Res Integrity ⊕ Res Unit)
    (f0 : Linearize.FinishedWith env [(write cfg fl cache algo key data).mapRes Sum.inl,
      (delete cfg cache key').mapRes Sum.inr] fs sched 0 c0)
    (f1 : Linearize.FinishedWith env [(write cfg fl cache algo key data).mapRes Sum.inl,
      (delete cfg cache key').mapRes Sum.inr] fs sched 1 c1) :
    Serializable cfg env cache (write cfg fl cache algo key data) (delete cfg cache key')
      fs sched c0 c1 := by
  rw [write_eq_stream] at f0 f1 ⊢
  exact writeStream_delete_serializable cfg env cache hl fl (some key) _ [data]
    (fun k e => by cases e; exact write_putWF fl key algo data hk hd) key' hk'
    fs hH sched c0 c1 f0 f1

/-! ### the excluded case of T3 is really false in the model: a digest collision -/

theorem aWriter_sync_shape {γ : Type} (inj : Res Integrity → γ) (key : Bytes) (a : Algo) (d : Bytes) :
    aWriter cfg env inj (some key) { algo := some a } d =
      two (pubA cfg { algo := some a } d)
        (idxA env key { algo := some a, sri := some (Sri.compute cfg.H a d), size := some d.length })
        (inj (.ok (Sri.compute cfg.H a d))) := by
  unfold aWriter aTail two pubA idxA
  rw [declCheck_ok (o := { algo := some a }) (n := d.length) _ rfl (Or.inl rfl)]
  rfl

/-- **Counterexample (model level): without `hcoll`, T3 is false.**  If the digest function
collides on two data of different lengths (`hcol`; the model's `cfg.H` is an arbitrary function, so
this is possible — for SHA-256 it would be a collision), then for two `write`s of these data under
the SAME key there is a schedule — writer 0 up to and including its rename, then writer 1 from
start to end, then the rest of writer 0 (its index append) — after which both have finished
(both answer `ok`), and the final abstract cache is that of NEITHER serial order: the store holds
the bytes of writer 1 at the common address (as after "0 then 1"), the index maps the key to the
entry of writer 0 (size of ITS data; as after "1 then 0").  A read by key then returns writer 1's
bytes for writer 0's entry.  Not a finding about the real code unless the digest collides. -/
theorem writer_writer_collision_counterexample (hl : HexLen cfg) (a : Algo) (key d0 d1 : Bytes)
    (hk : Json.utf8Valid key = true) (hd0 : d0.length ≤ Rec.u64Max) (hd1 : d1.length ≤ Rec.u64Max)
    (hcol : Bytes.hex (cfg.H a d0) = Bytes.hex (cfg.H a d1)) (hne : d0.length ≠ d1.length)
    (fs : FS) (hH : Healthy cfg cache fs) :
    ∃ sched c0 c1,
      Linearize.FinishedWith env [(write cfg .sync cache a key d0).mapRes Sum.inl,
        (write cfg .sync cache a key d1).mapRes Sum.inr] fs sched 0 c0 ∧
      Linearize.FinishedWith env [(write cfg .sync cache a key d0).mapRes Sum.inl,
        (write cfg .sync cache a key d1).mapRes Sum.inr] fs sched 1 c1 ∧
      ¬ SerialOutcome cfg env cache (write cfg .sync cache a key d0) (write cfg .sync cache a key d1)
        fs c0 c1 (interleave env [(write cfg .sync cache a key d0).mapRes Sum.inl,
          (write cfg .sync cache a key d1).mapRes Sum.inr] fs sched).2 := by
  rw [write_eq_stream, write_eq_stream]
  have hf : ∀ d : Bytes, [d].flatten = d := by intro d; simp
  have h0 := writeStream_sim cfg env cache (Sum.inl : _ → Res Integrity ⊕ Res Integrity) .sync (some key)
    { algo := some a } [d0] hl (fun k e => by cases e; exact write_putWF .sync key a d0 hk hd0)
  have h1 := writeStream_sim cfg env cache (Sum.inr : _ → Res Integrity ⊕ Res Integrity) .sync (some key)
    { algo := some a } [d1] hl (fun k e => by cases e; exact write_putWF .sync key a d1 hk hd1)
  rw [hf, aWriter_sync_shape] at h0 h1
  obtain ⟨sched, c0, c1, f0, f1, -, -, habs⟩ := nested_schedule cfg env cache h0 h1 fs hH
  refine ⟨sched, c0, c1, f0, f1, ?_⟩
  -- the serial runs, abstractly
  obtain ⟨-, a2, a3, -⟩ := sim_run cfg env cache h0 hH (Know.holds_empty cfg cache fs)
  obtain ⟨-, b2, b3, -⟩ := sim_run cfg env cache h1 hH (Know.holds_empty cfg cache fs)
  rw [(Linearize.run_mapRes env Sum.inl _ fs).2] at a2 a3
  rw [(Linearize.run_mapRes env Sum.inr _ fs).2] at b2 b3
  obtain ⟨-, d2, -⟩ := sim_run cfg env cache h1 a3 (Know.holds_empty cfg cache _)
  obtain ⟨-, g2, -⟩ := sim_run cfg env cache h0 b3 (Know.holds_empty cfg cache _)
  rw [(Linearize.run_mapRes env Sum.inr _ _).2, a2] at d2
  rw [(Linearize.run_mapRes env Sum.inl _ _).2, b2] at g2
  simp only [two, AProg.run] at habs d2 g2
  rintro (⟨-, -, hA⟩ | ⟨-, -, hA⟩)
  · -- "0 then 1": the index differs
    unfold Linearize.serialWR at hA
    rw [habs, d2] at hA
    have := congrArg (fun c : AbsCache => c.index key) hA
    simp only [idxA, pubA, setIndex, setStore, if_true, insEntry, Option.map_some, Option.some.injEq,
      Option.getD_some] at this
    exact hne (congrArg Meta.size this)
  · -- "1 then 0": the store differs
    unfold Linearize.serialRW at hA
    rw [habs, g2] at hA
    have := congrArg (fun c : AbsCache => c.store a (Bytes.hex (cfg.H a d0))) hA
    simp only [idxA, pubA, setIndex, setStore, AbsStore.set, Option.getD_some, hcol, and_self, if_true,
      Option.some.injEq] at this
    exact hne (congrArg List.length this).symm

/-! ### non-vacuity -/

/-- The options of the one-shot `write`. -/
def writeOpts (fl : Flavour) (a : Algo) (n : Nat) : WriteOpts :=
  match fl with
  | .async => { algo := some a, size := some n }
  | .sync => { algo := some a }

/-- `write` simulates the abstract writer. -/
theorem write_sim {γ : Type} (inj : Res Integrity → γ) (hl : HexLen cfg) (fl : Flavour) (algo : Algo)
    (key data : Bytes) (hk : Json.utf8Valid key = true) (hd : data.length ≤ Rec.u64Max) :
    Sim cfg env cache ((write cfg fl cache algo key data).mapRes inj) {}
      (aWriter cfg env inj (some key) (writeOpts fl algo data.length) data) := by
  have h := writeStream_sim cfg env cache inj fl (some key) (writeOpts fl algo data.length) [data] hl
    (fun k e => by cases e; exact write_putWF fl key algo data hk hd)
  have hf : [data].flatten = data := by simp
  rw [hf] at h
  rw [write_eq_stream]
  exact h

/-- The empty filesystem is a healthy cache, for every cache path and every configuration. -/
theorem healthy_empty : Healthy cfg cache FS.empty :=
  healthy_of_empty_cache cfg cache FS.empty (fun _ _ _ => Or.inl rfl) (fun _ _ _ => rfl)

/-- A concrete configuration: the constant digest `00 00` (hex `0000`, four characters) — the
smallest one satisfying `HexLen`; it collides on all data. -/
def cfg0 : Cfg := { H := fun _ _ => [0, 0] }

theorem hexLen_cfg0 : HexLen cfg0 := by
  intro a d
  show 4 ≤ (Bytes.hex [0, 0]).length
  decide

/-- **T1 is not vacuous.**  On the empty filesystem (healthy), `write` of any data under the key
"k" next to `remove_hash` of ANY integrity — e.g. the address being written: under the schedule
"writer up to and including its rename, then the `unlink`, then the writer's index phase" both
processes finish, and the theorem applies: answers and final abstract state are those of a serial
order (here "write, then remove": the key is recorded, its content is gone).  Also under the serial
schedule. -/
example (hl : HexLen cfg) (fl : Flavour) (algo : Algo) (data : Bytes) (hd : data.length ≤ Rec.u64Max)
    (sri : Integrity) :
    ∃ sched c0 c1,
      Linearize.FinishedWith env [(write cfg fl cache algo [107] data).mapRes Sum.inl,
        (removeHash cache sri).mapRes Sum.inr] FS.empty sched 0 c0 ∧
      Linearize.FinishedWith env [(write cfg fl cache algo [107] data).mapRes Sum.inl,
        (removeHash cache sri).mapRes Sum.inr] FS.empty sched 1 c1 ∧
      Serializable cfg env cache (write cfg fl cache algo [107] data) (removeHash cache sri)
        FS.empty sched c0 c1 := by
  have hk : Json.utf8Valid [107] = true := by decide
  have h0 := write_sim cfg env cache (Sum.inl : _ → Res Integrity ⊕ Res Unit) hl fl algo [107] data hk hd
  obtain ⟨sched, c0, c1, f0, f1, -⟩ := nested_schedule cfg env cache h0
    (removeHash_sim cfg env cache Sum.inr sri) FS.empty (healthy_empty cfg cache)
  exact ⟨sched, c0, c1, f0, f1, write_removeHash_serializable cfg env cache hl fl algo [107] data hk hd
    sri FS.empty (healthy_empty cfg cache) sched c0 c1 f0 f1⟩

/-- **T2 is not vacuous** (serial schedule; by-address writer of any data, any integrity removed). -/
example (hl : HexLen cfg) (fl : Flavour) (algo : Algo) (data : Bytes) (sri : Integrity) :
    ∃ sched c0 c1,
      Linearize.FinishedWith env [(writeHash cfg fl cache algo data).mapRes Sum.inl,
        (removeHash cache sri).mapRes Sum.inr] FS.empty sched 0 c0 ∧
      Linearize.FinishedWith env [(writeHash cfg fl cache algo data).mapRes Sum.inl,
        (removeHash cache sri).mapRes Sum.inr] FS.empty sched 1 c1 ∧
      Serializable cfg env cache (writeHash cfg fl cache algo data) (removeHash cache sri)
        FS.empty sched c0 c1 := by
  obtain ⟨sched, f0, f1⟩ := serial_schedule_finishes env ((writeHash cfg fl cache algo data).mapRes Sum.inl)
    ((removeHash cache sri).mapRes (Sum.inr : _ → Res Integrity ⊕ Res Unit)) FS.empty
  exact ⟨sched, _, _, f0, f1, writeHash_removeHash_serializable cfg env cache hl fl algo data sri FS.empty
    (healthy_empty cfg cache) sched _ _ f0 f1⟩

/-- **T3 is not vacuous**: two `write`s of the SAME key "k" with data that do not collide, on the
empty filesystem, under the schedule "writer 0 up to and including its rename, writer 1 from start to
end, then the index phase of writer 0" — both finish, and the outcome is that of a serial order
(here "1 then 0": writer 0 appended last). -/
example (hl : HexLen cfg) (fl0 fl1 : Flavour) (a0 a1 : Algo) (d0 d1 : Bytes)
    (hd0 : d0.length ≤ Rec.u64Max) (hd1 : d1.length ≤ Rec.u64Max)
    (hcoll : a0 = a1 → Bytes.hex (cfg.H a0 d0) = Bytes.hex (cfg.H a1 d1) → d0 = d1) :
    ∃ sched c0 c1,
      Linearize.FinishedWith env [(write cfg fl0 cache a0 [107] d0).mapRes Sum.inl,
        (write cfg fl1 cache a1 [107] d1).mapRes Sum.inr] FS.empty sched 0 c0 ∧
      Linearize.FinishedWith env [(write cfg fl0 cache a0 [107] d0).mapRes Sum.inl,
        (write cfg fl1 cache a1 [107] d1).mapRes Sum.inr] FS.empty sched 1 c1 ∧
      Serializable cfg env cache (write cfg fl0 cache a0 [107] d0) (write cfg fl1 cache a1 [107] d1)
        FS.empty sched c0 c1 := by
  have hk : Json.utf8Valid [107] = true := by decide
  have h0 := write_sim cfg env cache (Sum.inl : _ → Res Integrity ⊕ Res Integrity) hl fl0 a0 [107] d0 hk hd0
  have h1 := write_sim cfg env cache (Sum.inr : _ → Res Integrity ⊕ Res Integrity) hl fl1 a1 [107] d1 hk hd1
  obtain ⟨sched, c0, c1, f0, f1, -⟩ := nested_schedule cfg env cache h0 h1 FS.empty (healthy_empty cfg cache)
  exact ⟨sched, c0, c1, f0, f1, write_write_serializable cfg env cache hl fl0 fl1 a0 a1 [107] [107] d0 d1
    hk hd0 hk hd1 (fun _ => hcoll) FS.empty (healthy_empty cfg cache) sched c0 c1 f0 f1⟩

/-- **T4 is not vacuous** (serial schedules): `write` next to an index insertion with default
options and next to an index removal, any keys. -/
example (hl : HexLen cfg) (fl : Flavour) (algo : Algo) (data : Bytes) (hd : data.length ≤ Rec.u64Max)
    (key' : Bytes) (hk' : Json.utf8Valid key' = true) :
    (∃ sched c0 c1,
      Linearize.FinishedWith env [(write cfg fl cache algo [107] data).mapRes Sum.inl,
        (insert cfg cache key' {}).mapRes Sum.inr] FS.empty sched 0 c0 ∧
      Linearize.FinishedWith env [(write cfg fl cache algo [107] data).mapRes Sum.inl,
        (insert cfg cache key' {}).mapRes Sum.inr] FS.empty sched 1 c1 ∧
      Serializable cfg env cache (write cfg fl cache algo [107] data) (insert cfg cache key' {})
        FS.empty sched c0 c1) ∧
    (∃ sched c0 c1,
      Linearize.FinishedWith env [(write cfg fl cache algo [107] data).mapRes Sum.inl,
        (delete cfg cache key').mapRes Sum.inr] FS.empty sched 0 c0 ∧
      Linearize.FinishedWith env [(write cfg fl cache algo [107] data).mapRes Sum.inl,
        (delete cfg cache key').mapRes Sum.inr] FS.empty sched 1 c1 ∧
      Serializable cfg env cache (write cfg fl cache algo [107] data) (delete cfg cache key')
        FS.empty sched c0 c1) := by
  have hk : Json.utf8Valid [107] = true := by decide
  constructor
  · obtain ⟨sched, f0, f1⟩ := serial_schedule_finishes env ((write cfg fl cache algo [107] data).mapRes Sum.inl)
      ((insert cfg cache key' {}).mapRes (Sum.inr : _ → Res Integrity ⊕ Res Integrity)) FS.empty
    exact ⟨sched, _, _, f0, f1, write_insert_serializable cfg env cache hl fl algo [107] data hk hd key' {}
      (optsWF_default hk') (sriOK_default cfg) FS.empty (healthy_empty cfg cache) sched _ _ f0 f1⟩
  · obtain ⟨sched, f0, f1⟩ := serial_schedule_finishes env ((write cfg fl cache algo [107] data).mapRes Sum.inl)
      ((delete cfg cache key').mapRes (Sum.inr : _ → Res Integrity ⊕ Res Unit)) FS.empty
    exact ⟨sched, _, _, f0, f1, write_delete_serializable cfg env cache hl fl algo [107] data hk hd key' hk'
      FS.empty (healthy_empty cfg cache) sched _ _ f0 f1⟩

/-- The counterexample is concrete: the constant digest `cfg0`, the empty filesystem, the key "k",
the data `[1]` and `[2, 2]`, the SHA-256 slot. -/
example : ∃ sched c0 c1,
    Linearize.FinishedWith env [(write cfg0 .sync cache .sha256 [107] [1]).mapRes Sum.inl,
      (write cfg0 .sync cache .sha256 [107] [2, 2]).mapRes Sum.inr] FS.empty sched 0 c0 ∧
    Linearize.FinishedWith env [(write cfg0 .sync cache .sha256 [107] [1]).mapRes Sum.inl,
      (write cfg0 .sync cache .sha256 [107] [2, 2]).mapRes Sum.inr] FS.empty sched 1 c1 ∧
    ¬ SerialOutcome cfg0 env cache (write cfg0 .sync cache .sha256 [107] [1])
      (write cfg0 .sync cache .sha256 [107] [2, 2]) FS.empty c0 c1
      (interleave env [(write cfg0 .sync cache .sha256 [107] [1]).mapRes Sum.inl,
        (write cfg0 .sync cache .sha256 [107] [2, 2]).mapRes Sum.inr] FS.empty sched).2 :=
  writer_writer_collision_counterexample cfg0 env cache hexLen_cfg0 .sha256 [107] [1] [2, 2] (by decide)
    (by simp [Rec.u64Max]) (by simp [Rec.u64Max]) rfl (by decide) FS.empty (healthy_empty cfg0 cache)

end Main

/-! ### three processes (T5) -/

section Abstract3
variable {γ : Type}

theorem areach3_inv {A B C A' B' C' : AProg γ} {m m' : AbsCache}
    (h : AReach [A, B, C] m [A', B', C'] m') :
    (A' = A ∧ B' = B ∧ C' = C ∧ m' = m) ∨
    (∃ u nx, A = .act u nx ∧ AReach [nx m, B, C] (u m) [A', B', C'] m') ∨
    (∃ u nx, B = .act u nx ∧ AReach [A, nx m, C] (u m) [A', B', C'] m') ∨
    (∃ u nx, C = .act u nx ∧ AReach [A, B, nx m] (u m) [A', B', C'] m') := by
  cases h with
  | refl => exact Or.inl ⟨rfl, rfl, rfl, rfl⟩
  | step j u nx hj hr =>
    match j, hj, hr with
    | 0, hj, hr =>
      simp only [List.getElem?_cons_zero, Option.some.injEq] at hj
      exact Or.inr (Or.inl ⟨u, nx, hj, hr⟩)
    | 1, hj, hr =>
      simp only [List.getElem?_cons_succ, List.getElem?_cons_zero, Option.some.injEq] at hj
      exact Or.inr (Or.inr (Or.inl ⟨u, nx, hj, hr⟩))
    | 2, hj, hr =>
      simp only [List.getElem?_cons_succ, List.getElem?_cons_zero, Option.some.injEq] at hj
      exact Or.inr (Or.inr (Or.inr ⟨u, nx, hj, hr⟩))
    | j + 3, hj, _ => simp at hj

/-- The order of the three store actions. -/
inductive SOrd | p0p1d | p0dp1 | dp0p1 | p1p0d | p1dp0 | dp1p0

def SOrd.apply (P0 P1 D : AbsCache → AbsCache) : SOrd → AbsCache → AbsCache
  | .p0p1d, m => D (P1 (P0 m))
  | .p0dp1, m => P1 (D (P0 m))
  | .dp0p1, m => P1 (P0 (D m))
  | .p1p0d, m => D (P0 (P1 m))
  | .p1dp0, m => P0 (D (P1 m))
  | .dp1p0, m => P0 (P1 (D m))

/-- The state the remover saw. -/
def SOrd.seen (P0 P1 : AbsCache → AbsCache) : SOrd → AbsCache → AbsCache
  | .p0p1d, m => P1 (P0 m)
  | .p0dp1, m => P0 m
  | .dp0p1, m => m
  | .p1p0d, m => P0 (P1 m)
  | .p1dp0, m => P1 m
  | .dp1p0, m => m

inductive IOrd | x0x1 | x1x0

def IOrd.apply (X0 X1 : AbsCache → AbsCache) : IOrd → AbsCache → AbsCache
  | .x0x1, m => X1 (X0 m)
  | .x1x0, m => X0 (X1 m)

set_option hygiene false in
/-- One inversion step on the hypothesis `h : AReach [_, _, _] _ [done _, done _, done _] _`. -/
macro "inv3" : tactic => `(tactic| (
  rcases areach3_inv h with ⟨e0, e1, e2, em⟩ | ⟨u, nx, e, h'⟩ | ⟨u, nx, e, h'⟩ | ⟨u, nx, e, h'⟩
  all_goals first
    | (cases e0; done)
    | (cases e1; done)
    | (cases e2; done)
    | (cases e0; cases e1; cases e2; subst em; clear h)
    | (cases e; done)
    | (cases e; clear h; have h := h'; clear h'; dsimp only at h)))

theorem nf3 (P0 X0 P1 X1 D : AbsCache → AbsCache) (y0 y1 : γ) (g : AbsCache → γ)
    (hP1X0 : ∀ m, P1 (X0 m) = X0 (P1 m)) (hDX0 : ∀ m, D (X0 m) = X0 (D m))
    (hP0X1 : ∀ m, P0 (X1 m) = X1 (P0 m)) (hDX1 : ∀ m, D (X1 m) = X1 (D m))
    (hgX0 : ∀ m, g (X0 m) = g m) (hgX1 : ∀ m, g (X1 m) = g m)
    {m m' : AbsCache} {c0 c1 c2 : γ}
    (h : AReach [two P0 X0 y0, two P1 X1 y1, one D g] m [.done c0, .done c1, .done c2] m') :
    c0 = y0 ∧ c1 = y1 ∧ ∃ so io, m' = IOrd.apply X0 X1 io (SOrd.apply P0 P1 D so m) ∧
      c2 = g (SOrd.seen P0 P1 so m) := by
  unfold two one at h
  inv3
  all_goals inv3
  all_goals inv3
  all_goals inv3
  all_goals inv3
  all_goals inv3
  all_goals (
    refine ⟨rfl, rfl, ?_⟩
    try simp only [hP1X0, hDX0, hP0X1, hDX1, hgX0, hgX1]
    first
      | exact ⟨.p0p1d, .x0x1, rfl, rfl⟩
      | exact ⟨.p0p1d, .x1x0, rfl, rfl⟩
      | exact ⟨.p0dp1, .x0x1, rfl, rfl⟩
      | exact ⟨.p0dp1, .x1x0, rfl, rfl⟩
      | exact ⟨.dp0p1, .x0x1, rfl, rfl⟩
      | exact ⟨.dp0p1, .x1x0, rfl, rfl⟩
      | exact ⟨.p1p0d, .x0x1, rfl, rfl⟩
      | exact ⟨.p1p0d, .x1x0, rfl, rfl⟩
      | exact ⟨.p1dp0, .x0x1, rfl, rfl⟩
      | exact ⟨.p1dp0, .x1x0, rfl, rfl⟩
      | exact ⟨.dp1p0, .x0x1, rfl, rfl⟩
      | exact ⟨.dp1p0, .x1x0, rfl, rfl⟩)

/-- The six serial orders of three processes. -/
inductive Ord3 | o012 | o021 | o102 | o120 | o201 | o210

/-- The six serial executions of three abstract programs: the three answers and the final state. -/
def aSerial3 (A0 A1 A2 : AProg γ) : Ord3 → AbsCache → γ × γ × γ × AbsCache
  | .o012, m => ((A0.run m).1, (A1.run (A0.run m).2).1, (A2.run (A1.run (A0.run m).2).2).1,
      (A2.run (A1.run (A0.run m).2).2).2)
  | .o021, m => ((A0.run m).1, (A1.run (A2.run (A0.run m).2).2).1, (A2.run (A0.run m).2).1,
      (A1.run (A2.run (A0.run m).2).2).2)
  | .o102, m => ((A0.run (A1.run m).2).1, (A1.run m).1, (A2.run (A0.run (A1.run m).2).2).1,
      (A2.run (A0.run (A1.run m).2).2).2)
  | .o120, m => ((A0.run (A2.run (A1.run m).2).2).1, (A1.run m).1, (A2.run (A1.run m).2).1,
      (A0.run (A2.run (A1.run m).2).2).2)
  | .o201, m => ((A0.run (A2.run m).2).1, (A1.run (A0.run (A2.run m).2).2).1, (A2.run m).1,
      (A1.run (A0.run (A2.run m).2).2).2)
  | .o210, m => ((A0.run (A1.run (A2.run m).2).2).1, (A1.run (A2.run m).2).1, (A2.run m).1,
      (A0.run (A1.run (A2.run m).2).2).2)

def ASerializable3 (A0 A1 A2 : AProg γ) : Prop :=
  ∀ m c0 c1 c2 m', AReach [A0, A1, A2] m [.done c0, .done c1, .done c2] m' →
    ∃ o, (c0, c1, c2, m') = aSerial3 A0 A1 A2 o m

set_option linter.unusedSimpArgs false in
/-- Two two-action programs and a one-action program whose answer depends on the state it sees
(`P` = first, `X` = second action of the writers, `D` = the remover's action): serializable if the
`X`s commute with all first actions and with `D` (and the answer does not depend on them) and
* the two `X`s commute, or
* the two `P`s commute and one of them also commutes with `D` (without changing its answer), or
* the two `P`s are the same function. -/
theorem aser_two_two_one (P0 X0 P1 X1 D : AbsCache → AbsCache) (y0 y1 : γ) (g : AbsCache → γ)
    (hP1X0 : ∀ m, P1 (X0 m) = X0 (P1 m)) (hDX0 : ∀ m, D (X0 m) = X0 (D m))
    (hP0X1 : ∀ m, P0 (X1 m) = X1 (P0 m)) (hDX1 : ∀ m, D (X1 m) = X1 (D m))
    (hgX0 : ∀ m, g (X0 m) = g m) (hgX1 : ∀ m, g (X1 m) = g m)
    (hc : (∀ m, X0 (X1 m) = X1 (X0 m)) ∨
      ((∀ m, P0 (P1 m) = P1 (P0 m)) ∧ (∀ m, D (P1 m) = P1 (D m)) ∧ (∀ m, g (P1 m) = g m)) ∨
      ((∀ m, P1 (P0 m) = P0 (P1 m)) ∧ (∀ m, D (P0 m) = P0 (D m)) ∧ (∀ m, g (P0 m) = g m)) ∨
      (∀ m, P0 m = P1 m)) :
    ASerializable3 (two P0 X0 y0) (two P1 X1 y1) (one D g) := by
  intro m c0 c1 c2 m' h
  obtain ⟨rfl, rfl, so, io, rfl, rfl⟩ := nf3 P0 X0 P1 X1 D y0 y1 g hP1X0 hDX0 hP0X1 hDX1 hgX0 hgX1 h
  rcases hc with hc | ⟨h1, h2, h3⟩ | ⟨h1, h2, h3⟩ | hc
  · cases so <;> cases io <;>
      first
        | (refine ⟨.o012, ?_⟩; simp only [aSerial3, two, one, AProg.run, SOrd.apply, SOrd.seen, IOrd.apply, hP1X0, hDX0, hP0X1, hDX1, hgX0, hgX1, hc]; done)
        | (refine ⟨.o021, ?_⟩; simp only [aSerial3, two, one, AProg.run, SOrd.apply, SOrd.seen, IOrd.apply, hP1X0, hDX0, hP0X1, hDX1, hgX0, hgX1, hc]; done)
        | (refine ⟨.o102, ?_⟩; simp only [aSerial3, two, one, AProg.run, SOrd.apply, SOrd.seen, IOrd.apply, hP1X0, hDX0, hP0X1, hDX1, hgX0, hgX1, hc]; done)
        | (refine ⟨.o120, ?_⟩; simp only [aSerial3, two, one, AProg.run, SOrd.apply, SOrd.seen, IOrd.apply, hP1X0, hDX0, hP0X1, hDX1, hgX0, hgX1, hc]; done)
        | (refine ⟨.o201, ?_⟩; simp only [aSerial3, two, one, AProg.run, SOrd.apply, SOrd.seen, IOrd.apply, hP1X0, hDX0, hP0X1, hDX1, hgX0, hgX1, hc]; done)
        | (refine ⟨.o210, ?_⟩; simp only [aSerial3, two, one, AProg.run, SOrd.apply, SOrd.seen, IOrd.apply, hP1X0, hDX0, hP0X1, hDX1, hgX0, hgX1, hc]; done)
  · cases so <;> cases io <;>
      first
        | (refine ⟨.o012, ?_⟩; simp only [aSerial3, two, one, AProg.run, SOrd.apply, SOrd.seen, IOrd.apply, hP1X0, hDX0, hP0X1, hDX1, hgX0, hgX1, h1, h2, h3]; done)
        | (refine ⟨.o021, ?_⟩; simp only [aSerial3, two, one, AProg.run, SOrd.apply, SOrd.seen, IOrd.apply, hP1X0, hDX0, hP0X1, hDX1, hgX0, hgX1, h1, h2, h3]; done)
        | (refine ⟨.o102, ?_⟩; simp only [aSerial3, two, one, AProg.run, SOrd.apply, SOrd.seen, IOrd.apply, hP1X0, hDX0, hP0X1, hDX1, hgX0, hgX1, h1, h2, h3]; done)
        | (refine ⟨.o120, ?_⟩; simp only [aSerial3, two, one, AProg.run, SOrd.apply, SOrd.seen, IOrd.apply, hP1X0, hDX0, hP0X1, hDX1, hgX0, hgX1, h1, h2, h3]; done)
        | (refine ⟨.o201, ?_⟩; simp only [aSerial3, two, one, AProg.run, SOrd.apply, SOrd.seen, IOrd.apply, hP1X0, hDX0, hP0X1, hDX1, hgX0, hgX1, h1, h2, h3]; done)
        | (refine ⟨.o210, ?_⟩; simp only [aSerial3, two, one, AProg.run, SOrd.apply, SOrd.seen, IOrd.apply, hP1X0, hDX0, hP0X1, hDX1, hgX0, hgX1, h1, h2, h3]; done)
  · cases so <;> cases io <;>
      first
        | (refine ⟨.o012, ?_⟩; simp only [aSerial3, two, one, AProg.run, SOrd.apply, SOrd.seen, IOrd.apply, hP1X0, hDX0, hP0X1, hDX1, hgX0, hgX1, h1, h2, h3]; done)
        | (refine ⟨.o021, ?_⟩; simp only [aSerial3, two, one, AProg.run, SOrd.apply, SOrd.seen, IOrd.apply, hP1X0, hDX0, hP0X1, hDX1, hgX0, hgX1, h1, h2, h3]; done)
        | (refine ⟨.o102, ?_⟩; simp only [aSerial3, two, one, AProg.run, SOrd.apply, SOrd.seen, IOrd.apply, hP1X0, hDX0, hP0X1, hDX1, hgX0, hgX1, h1, h2, h3]; done)
        | (refine ⟨.o120, ?_⟩; simp only [aSerial3, two, one, AProg.run, SOrd.apply, SOrd.seen, IOrd.apply, hP1X0, hDX0, hP0X1, hDX1, hgX0, hgX1, h1, h2, h3]; done)
        | (refine ⟨.o201, ?_⟩; simp only [aSerial3, two, one, AProg.run, SOrd.apply, SOrd.seen, IOrd.apply, hP1X0, hDX0, hP0X1, hDX1, hgX0, hgX1, h1, h2, h3]; done)
        | (refine ⟨.o210, ?_⟩; simp only [aSerial3, two, one, AProg.run, SOrd.apply, SOrd.seen, IOrd.apply, hP1X0, hDX0, hP0X1, hDX1, hgX0, hgX1, h1, h2, h3]; done)
  · cases so <;> cases io <;>
      first
        | (refine ⟨.o012, ?_⟩; simp only [aSerial3, two, one, AProg.run, SOrd.apply, SOrd.seen, IOrd.apply, hP1X0, hDX0, hP0X1, hDX1, hgX0, hgX1, hc]; done)
        | (refine ⟨.o021, ?_⟩; simp only [aSerial3, two, one, AProg.run, SOrd.apply, SOrd.seen, IOrd.apply, hP1X0, hDX0, hP0X1, hDX1, hgX0, hgX1, hc]; done)
        | (refine ⟨.o102, ?_⟩; simp only [aSerial3, two, one, AProg.run, SOrd.apply, SOrd.seen, IOrd.apply, hP1X0, hDX0, hP0X1, hDX1, hgX0, hgX1, hc]; done)
        | (refine ⟨.o120, ?_⟩; simp only [aSerial3, two, one, AProg.run, SOrd.apply, SOrd.seen, IOrd.apply, hP1X0, hDX0, hP0X1, hDX1, hgX0, hgX1, hc]; done)
        | (refine ⟨.o201, ?_⟩; simp only [aSerial3, two, one, AProg.run, SOrd.apply, SOrd.seen, IOrd.apply, hP1X0, hDX0, hP0X1, hDX1, hgX0, hgX1, hc]; done)
        | (refine ⟨.o210, ?_⟩; simp only [aSerial3, two, one, AProg.run, SOrd.apply, SOrd.seen, IOrd.apply, hP1X0, hDX0, hP0X1, hDX1, hgX0, hgX1, hc]; done)

set_option linter.unusedSimpArgs false in
/-- The same with a third process that has nothing to do (a remover whose integrity does not
parse makes no call). -/
theorem aser_two_two_done (P0 X0 P1 X1 : AbsCache → AbsCache) (y0 y1 c : γ)
    (hP1X0 : ∀ m, P1 (X0 m) = X0 (P1 m)) (hP0X1 : ∀ m, P0 (X1 m) = X1 (P0 m))
    (hc : (∀ m, X0 (X1 m) = X1 (X0 m)) ∨ (∀ m, P0 (P1 m) = P1 (P0 m))) :
    ASerializable3 (two P0 X0 y0) (two P1 X1 y1) (.done c) := by
  intro m c0 c1 c2 m' h
  unfold two at h
  inv3
  all_goals inv3
  all_goals inv3
  all_goals inv3
  all_goals inv3
  all_goals (
    rcases hc with hc | hc
    all_goals first
      | (refine ⟨.o012, ?_⟩; simp only [aSerial3, two, AProg.run, hP1X0, hP0X1, hc]; done)
      | (refine ⟨.o102, ?_⟩; simp only [aSerial3, two, AProg.run, hP1X0, hP0X1, hc]; done)
      | (refine ⟨.o012, ?_⟩; simp only [aSerial3, two, AProg.run, hP1X0, hP0X1, ← hc]; done)
      | (refine ⟨.o102, ?_⟩; simp only [aSerial3, two, AProg.run, hP1X0, hP0X1, ← hc]; done))

end Abstract3

/-! ### three processes: the generic theorem -/

section ThreeProc
variable (cfg : Cfg) (env : Env) (cache : Path) {γ : Type}

/-- The six serial executions of three real programs (a common answer type): the three answers and
the final filesystem. -/
def serial3 (p0 p1 p2 : Prog γ) : Ord3 → FS → γ × γ × γ × FS
  | .o012, s => ((run env p0 s).1, (run env p1 (run env p0 s).2.1).1,
      (run env p2 (run env p1 (run env p0 s).2.1).2.1).1, (run env p2 (run env p1 (run env p0 s).2.1).2.1).2.1)
  | .o021, s => ((run env p0 s).1, (run env p1 (run env p2 (run env p0 s).2.1).2.1).1,
      (run env p2 (run env p0 s).2.1).1, (run env p1 (run env p2 (run env p0 s).2.1).2.1).2.1)
  | .o102, s => ((run env p0 (run env p1 s).2.1).1, (run env p1 s).1,
      (run env p2 (run env p0 (run env p1 s).2.1).2.1).1, (run env p2 (run env p0 (run env p1 s).2.1).2.1).2.1)
  | .o120, s => ((run env p0 (run env p2 (run env p1 s).2.1).2.1).1, (run env p1 s).1,
      (run env p2 (run env p1 s).2.1).1, (run env p0 (run env p2 (run env p1 s).2.1).2.1).2.1)
  | .o201, s => ((run env p0 (run env p2 s).2.1).1, (run env p1 (run env p0 (run env p2 s).2.1).2.1).1,
      (run env p2 s).1, (run env p1 (run env p0 (run env p2 s).2.1).2.1).2.1)
  | .o210, s => ((run env p0 (run env p1 (run env p2 s).2.1).2.1).1, (run env p1 (run env p2 s).2.1).1,
      (run env p2 s).1, (run env p0 (run env p1 (run env p2 s).2.1).2.1).2.1)

/-- One program run alone from the empty knowledge (`sim_run`, repackaged). -/
theorem run_abs {p : Prog γ} {A : AProg γ} (h : Sim cfg env cache p {} A) {s : FS}
    (hH : Healthy cfg cache s) :
    (run env p s).1 = (A.run (absCache cfg cache s)).1 ∧
    absCache cfg cache (run env p s).2.1 = (A.run (absCache cfg cache s)).2 ∧
    Healthy cfg cache (run env p s).2.1 := by
  obtain ⟨a, b, c, _⟩ := sim_run cfg env cache h hH (Know.holds_empty cfg cache s)
  exact ⟨a, b, c⟩

/-- Every serial execution of three simulating programs is the serial execution of their abstract
programs. -/
theorem serial3_abs {p0 p1 p2 : Prog γ} {A0 A1 A2 : AProg γ} (h0 : Sim cfg env cache p0 {} A0)
    (h1 : Sim cfg env cache p1 {} A1) (h2 : Sim cfg env cache p2 {} A2) (o : Ord3) {s : FS}
    (hH : Healthy cfg cache s) :
    (serial3 env p0 p1 p2 o s).1 = (aSerial3 A0 A1 A2 o (absCache cfg cache s)).1 ∧
    (serial3 env p0 p1 p2 o s).2.1 = (aSerial3 A0 A1 A2 o (absCache cfg cache s)).2.1 ∧
    (serial3 env p0 p1 p2 o s).2.2.1 = (aSerial3 A0 A1 A2 o (absCache cfg cache s)).2.2.1 ∧
    absCache cfg cache (serial3 env p0 p1 p2 o s).2.2.2 = (aSerial3 A0 A1 A2 o (absCache cfg cache s)).2.2.2 := by
  cases o
  · obtain ⟨a1, a2, a3⟩ := run_abs cfg env cache h0 hH
    obtain ⟨b1, b2, b3⟩ := run_abs cfg env cache h1 a3
    obtain ⟨c1, c2, _⟩ := run_abs cfg env cache h2 b3
    simp only [serial3, aSerial3]
    rw [a2] at b1 b2; rw [b2] at c1 c2
    exact ⟨a1, b1, c1, c2⟩
  · obtain ⟨a1, a2, a3⟩ := run_abs cfg env cache h0 hH
    obtain ⟨b1, b2, b3⟩ := run_abs cfg env cache h2 a3
    obtain ⟨c1, c2, _⟩ := run_abs cfg env cache h1 b3
    simp only [serial3, aSerial3]
    rw [a2] at b1 b2; rw [b2] at c1 c2
    exact ⟨a1, c1, b1, c2⟩
  · obtain ⟨a1, a2, a3⟩ := run_abs cfg env cache h1 hH
    obtain ⟨b1, b2, b3⟩ := run_abs cfg env cache h0 a3
    obtain ⟨c1, c2, _⟩ := run_abs cfg env cache h2 b3
    simp only [serial3, aSerial3]
    rw [a2] at b1 b2; rw [b2] at c1 c2
    exact ⟨b1, a1, c1, c2⟩
  · obtain ⟨a1, a2, a3⟩ := run_abs cfg env cache h1 hH
    obtain ⟨b1, b2, b3⟩ := run_abs cfg env cache h2 a3
    obtain ⟨c1, c2, _⟩ := run_abs cfg env cache h0 b3
    simp only [serial3, aSerial3]
    rw [a2] at b1 b2; rw [b2] at c1 c2
    exact ⟨c1, a1, b1, c2⟩
  · obtain ⟨a1, a2, a3⟩ := run_abs cfg env cache h2 hH
    obtain ⟨b1, b2, b3⟩ := run_abs cfg env cache h0 a3
    obtain ⟨c1, c2, _⟩ := run_abs cfg env cache h1 b3
    simp only [serial3, aSerial3]
    rw [a2] at b1 b2; rw [b2] at c1 c2
    exact ⟨b1, c1, a1, c2⟩
  · obtain ⟨a1, a2, a3⟩ := run_abs cfg env cache h2 hH
    obtain ⟨b1, b2, b3⟩ := run_abs cfg env cache h1 a3
    obtain ⟨c1, c2, _⟩ := run_abs cfg env cache h0 b3
    simp only [serial3, aSerial3]
    rw [a2] at b1 b2; rw [b2] at c1 c2
    exact ⟨c1, b1, a1, c2⟩

/-- The conclusion for three processes (answers already in the common type): healthy, no leftover
temp file, and for ONE of the six serial orders the three answers are literally those of the real
programs run one after the other in that order, and the final abstract cache is the same. -/
def Serializable3 (p0 p1 p2 : Prog γ) (fs : FS) (sched : List Nat) (c0 c1 c2 : γ) : Prop :=
  Healthy cfg cache (interleave env [p0, p1, p2] fs sched).2 ∧
  TmpClean cache fs (interleave env [p0, p1, p2] fs sched).2 ∧
  ∃ o, c0 = (serial3 env p0 p1 p2 o fs).1 ∧ c1 = (serial3 env p0 p1 p2 o fs).2.1 ∧
    c2 = (serial3 env p0 p1 p2 o fs).2.2.1 ∧
    absCache cfg cache (interleave env [p0, p1, p2] fs sched).2 =
      absCache cfg cache (serial3 env p0 p1 p2 o fs).2.2.2

theorem interleave_length (ps : List (Prog γ)) (s : FS) (sc : List Nat) :
    (interleave env ps s sc).1.length = ps.length := by
  induction sc generalizing ps s with
  | nil => rfl
  | cons i sc ih =>
    simp only [interleave]
    split
    · exact ih ps s
    · rw [ih, List.length_set]

/-- **Three processes, generic.** -/
theorem three_proc_serializable (p0 p1 p2 : Prog γ) (A0 A1 A2 : AProg γ)
    (h0 : Sim cfg env cache p0 {} A0) (h1 : Sim cfg env cache p1 {} A1)
    (h2 : Sim cfg env cache p2 {} A2) (hser : ASerializable3 A0 A1 A2) (fs : FS)
    (hH : Healthy cfg cache fs) (sched : List Nat) (c0 c1 c2 : γ)
    (f0 : Linearize.FinishedWith env [p0, p1, p2] fs sched 0 c0)
    (f1 : Linearize.FinishedWith env [p0, p1, p2] fs sched 1 c1)
    (f2 : Linearize.FinishedWith env [p0, p1, p2] fs sched 2 c2) :
    Serializable3 cfg env cache p0 p1 p2 fs sched c0 c1 c2 := by
  have hsim : ∀ (j : Nat) (p : Prog γ), [p0, p1, p2][j]? = some p →
      ∃ ap, [A0, A1, A2][j]? = some ap ∧ Sim cfg env cache p {} ap := by
    intro j p hj
    match j, hj with
    | 0, hj => simp at hj; subst hj; exact ⟨A0, rfl, h0⟩
    | 1, hj => simp at hj; subst hj; exact ⟨A1, rfl, h1⟩
    | 2, hj => simp at hj; subst hj; exact ⟨A2, rfl, h2⟩
    | j + 3, hj => simp at hj
  obtain ⟨hHf, aps', hreach, hdone, hclean⟩ :=
    sim_interleave cfg env cache [p0, p1, p2] [A0, A1, A2] fs hH hsim sched
  have hlen := hreach.length
  have e0 := hdone 0 c0 f0
  have e1 := hdone 1 c1 f1
  have e2 := hdone 2 c2 f2
  have haps : aps' = [.done c0, .done c1, .done c2] := by
    match aps', hlen, e0, e1, e2 with
    | [x, y, z], _, e0, e1, e2 =>
      simp at e0 e1 e2
      rw [e0, e1, e2]
  rw [haps] at hreach
  have hlenp := interleave_length env [p0, p1, p2] fs sched
  refine ⟨hHf, hclean ?_, ?_⟩
  · intro j p hj
    match j, hj with
    | 0, hj => exact ⟨c0, by rw [f0] at hj; cases hj; rfl⟩
    | 1, hj => exact ⟨c1, by rw [f1] at hj; cases hj; rfl⟩
    | 2, hj => exact ⟨c2, by rw [f2] at hj; cases hj; rfl⟩
    | j + 3, hj =>
      have := getElem?_lt hj
      simp at hlenp
      omega
  · obtain ⟨o, ho⟩ := hser _ c0 c1 c2 _ hreach
    obtain ⟨s0, s1, s2, s3⟩ := serial3_abs cfg env cache h0 h1 h2 o hH
    refine ⟨o, ?_, ?_, ?_, ?_⟩
    · rw [s0, ← ho]
    · rw [s1, ← ho]
    · rw [s2, ← ho]
    · rw [s3, ← ho]

end ThreeProc
/-! ### (T5) writer ∥ writer ∥ remover -/

section T5
variable (cfg : Cfg) (env : Env) (cache : Path) {γ : Type}

theorem pubA_write (fl : Flavour) (a : Algo) (n : Nat) (d : Bytes) (m : AbsCache) :
    pubA cfg (writeOpts fl a n) d m = setStore m a (Bytes.hex (cfg.H a d)) (some d) := by
  cases fl <;> rfl

/-- The abstract program of a one-shot `write`: two atomic actions, always. -/
theorem aWriter_write_shape (inj : Res Integrity → γ) (fl : Flavour) (key : Bytes) (a : Algo) (d : Bytes) :
    ∃ o' y, aWriter cfg env inj (some key) (writeOpts fl a d.length) d =
      two (pubA cfg (writeOpts fl a d.length) d) (idxA env key o') y := by
  cases fl
  · unfold aWriter aTail writeOpts
    rw [declCheck_ok (o := { algo := some a }) (n := d.length) _ rfl (Or.inl rfl)]
    exact ⟨_, _, rfl⟩
  · unfold aWriter aTail writeOpts
    rw [declCheck_ok (o := { algo := some a, size := some d.length }) (n := d.length) _ rfl (Or.inr rfl)]
    exact ⟨_, _, rfl⟩

/-- Removing one address commutes with publishing at another. -/
theorem dropA_setStore (sri : Integrity) (m : AbsCache) (a : Algo) (h : Bytes) (v : Option Bytes)
    (hne : addrOf sri ≠ some (a, h)) :
    dropA sri (setStore m a h v) = setStore (dropA sri m) a h v ∧
    (dropSpec (setStore m a h v).store sri).2 = (dropSpec m.store sri).2 := by
  unfold dropA dropSpec setStore
  cases e : addrOf sri with
  | none => exact ⟨rfl, rfl⟩
  | some x =>
    obtain ⟨a', h'⟩ := x
    have hne' : ¬ (a' = a ∧ h' = h) := by
      rintro ⟨rfl, rfl⟩; exact hne e
    simp only
    rw [AbsStore.set_other _ _ hne']
    cases m.store a' h' with
    | none => exact ⟨rfl, rfl⟩
    | some b =>
      refine ⟨?_, rfl⟩
      simp only
      congr 1
      funext a'' h''
      simp only [AbsStore.set]
      by_cases e0 : a'' = a' ∧ h'' = h' <;> by_cases e1 : a'' = a ∧ h'' = h
      · exact absurd ⟨e0.1.symm.trans e1.1, e0.2.symm.trans e1.2⟩ hne'
      · simp only [if_pos e0, if_neg e1]
      · simp only [if_neg e0, if_pos e1]
      · simp only [if_neg e0, if_neg e1]

/-- **(T5) `write` ∥ `write` ∥ `remove_hash`** — the three-process shape of the quantifier for one
family.  Three processes: two one-shot keyed writers (any flavours, keys, algorithms, data; `hcoll`
as in T3: the same key + the same address ⟹ the same data) and `remove_hash` of ANY integrity, their
answers embedded into a common type by `i0 i1 i2`.  From a healthy cache, after EVERY schedule that
finishes all three: the cache is healthy, no temp file is left, and for ONE of the six serial orders
all three answers are literally those of the real programs run one after the other in that order
and the final abstract cache is that of the same serial execution. -/
theorem write_write_removeHash_serializable (hl : HexLen cfg) (i0 i1 : Res Integrity → γ)
    (i2 : Res Unit → γ) (fl0 fl1 : Flavour) (a0 a1 : Algo) (key0 key1 d0 d1 : Bytes)
    (hk0 : Json.utf8Valid key0 = true) (hd0 : d0.length ≤ Rec.u64Max)
    (hk1 : Json.utf8Valid key1 = true) (hd1 : d1.length ≤ Rec.u64Max)
    (hcoll : key0 = key1 → a0 = a1 → Bytes.hex (cfg.H a0 d0) = Bytes.hex (cfg.H a1 d1) → d0 = d1)
    (sri : Integrity) (fs : FS) (hH : Healthy cfg cache fs) (sched : List Nat) (c0 c1 c2 : γ)
    (f0 : Linearize.FinishedWith env [(write cfg fl0 cache a0 key0 d0).mapRes i0,
      (write cfg fl1 cache a1 key1 d1).mapRes i1, (removeHash cache sri).mapRes i2] fs sched 0 c0)
    (f1 : Linearize.FinishedWith env [(write cfg fl0 cache a0 key0 d0).mapRes i0,
      (write cfg fl1 cache a1 key1 d1).mapRes i1, (removeHash cache sri).mapRes i2] fs sched 1 c1)
    (f2 : Linearize.FinishedWith env [(write cfg fl0 cache a0 key0 d0).mapRes i0,
      (write cfg fl1 cache a1 key1 d1).mapRes i1, (removeHash cache sri).mapRes i2] fs sched 2 c2) :
    Serializable3 cfg env cache ((write cfg fl0 cache a0 key0 d0).mapRes i0)
      ((write cfg fl1 cache a1 key1 d1).mapRes i1) ((removeHash cache sri).mapRes i2)
      fs sched c0 c1 c2 := by
  have h0 := write_sim cfg env cache i0 hl fl0 a0 key0 d0 hk0 hd0
  have h1 := write_sim cfg env cache i1 hl fl1 a1 key1 d1 hk1 hd1
  have h2 := removeHash_sim cfg env cache i2 sri
  refine three_proc_serializable cfg env cache _ _ _ _ _ _ h0 h1 h2 ?_ fs hH sched c0 c1 c2 f0 f1 f2
  obtain ⟨o0', y0, e0⟩ := aWriter_write_shape cfg env i0 fl0 key0 a0 d0
  obtain ⟨o1', y1, e1⟩ := aWriter_write_shape cfg env i1 fl1 key1 a1 d1
  rw [e0, e1]
  -- the two publications commute, or are the same function, or the keys differ
  have hPP : key0 ≠ key1 ∨
      ¬ (a0 = a1 ∧ Bytes.hex (cfg.H a0 d0) = Bytes.hex (cfg.H a1 d1)) ∨
      (∀ m, pubA cfg (writeOpts fl0 a0 d0.length) d0 m = pubA cfg (writeOpts fl1 a1 d1.length) d1 m) := by
    by_cases hk : key0 = key1
    · by_cases ha : a0 = a1 ∧ Bytes.hex (cfg.H a0 d0) = Bytes.hex (cfg.H a1 d1)
      · right; right
        intro m
        have hd := hcoll hk ha.1 ha.2
        obtain ⟨rfl, _⟩ := ha
        rw [pubA_write, pubA_write, hd]
      · exact Or.inr (Or.inl ha)
    · exact Or.inl hk
  have hXX : key0 ≠ key1 → ∀ m, idxA env key0 o0' (idxA env key1 o1' m) = idxA env key1 o1' (idxA env key0 o0' m) :=
    fun hk m => setIndex_comm m _ _ _ _ hk
  have hPPc : ¬ (a0 = a1 ∧ Bytes.hex (cfg.H a0 d0) = Bytes.hex (cfg.H a1 d1)) →
      ∀ m, pubA cfg (writeOpts fl0 a0 d0.length) d0 (pubA cfg (writeOpts fl1 a1 d1.length) d1 m) =
        pubA cfg (writeOpts fl1 a1 d1.length) d1 (pubA cfg (writeOpts fl0 a0 d0.length) d0 m) := by
    intro ha m
    rw [pubA_write, pubA_write, pubA_write, pubA_write]
    exact setStore_comm m _ _ _ _ _ _ (Or.inl ha)
  rcases aRemove_shape i2 sri with ⟨y, e2⟩ | e2
  · rw [e2]
    refine aser_two_two_done _ _ _ _ _ _ _ (fun m => rfl) (fun m => rfl) ?_
    rcases hPP with hk | ha | he
    · exact Or.inl (hXX hk)
    · exact Or.inr (hPPc ha)
    · exact Or.inr (fun m => by rw [he, he])
  · rw [e2]
    refine aser_two_two_one _ _ _ _ _ _ _ _ (fun m => rfl) (fun m => rfl) (fun m => rfl) (fun m => rfl)
      (fun m => rfl) (fun m => rfl) ?_
    rcases hPP with hk | ha | he
    · exact Or.inl (hXX hk)
    · by_cases hs : addrOf sri = some (a1, Bytes.hex (cfg.H a1 d1))
      · -- the remover aims at writer 1's address: it commutes with writer 0's publication
        right; right; left
        have hs0 : addrOf sri ≠ some (a0, Bytes.hex (cfg.H a0 d0)) := by
          intro e
          rw [hs] at e
          obtain ⟨e1, e2⟩ := Prod.mk.inj (Option.some.inj e)
          exact ha ⟨e1.symm, e2.symm⟩
        refine ⟨fun m => (hPPc ha m).symm, fun m => ?_, fun m => ?_⟩
        · simp only [pubA_write]; exact (dropA_setStore sri m _ _ _ hs0).1
        · simp only [pubA_write]; exact congrArg i2 (dropA_setStore sri m _ _ _ hs0).2
      · right; left
        refine ⟨hPPc ha, fun m => ?_, fun m => ?_⟩
        · simp only [pubA_write]; exact (dropA_setStore sri m _ _ _ hs).1
        · simp only [pubA_write]; exact congrArg i2 (dropA_setStore sri m _ _ _ hs).2
    · exact Or.inr (Or.inr (Or.inr he))

theorem interleave3_steps0 (p0 p1 p2 : Prog γ) (s : FS) (n : Nat) (rest : List Nat) :
    interleave env [p0, p1, p2] s (List.replicate n 0 ++ rest) =
      interleave env [(stepsN env p0 s n).1, p1, p2] (stepsN env p0 s n).2 rest := by
  induction n generalizing p0 s with
  | zero => rfl
  | succ n ih =>
    simp only [List.replicate_succ, List.cons_append, interleave, List.getElem?_cons_zero,
      List.set_cons_zero]
    exact ih _ _

theorem interleave3_steps1 (p0 p1 p2 : Prog γ) (s : FS) (n : Nat) (rest : List Nat) :
    interleave env [p0, p1, p2] s (List.replicate n 1 ++ rest) =
      interleave env [p0, (stepsN env p1 s n).1, p2] (stepsN env p1 s n).2 rest := by
  induction n generalizing p1 s with
  | zero => rfl
  | succ n ih =>
    simp only [List.replicate_succ, List.cons_append, interleave, List.getElem?_cons_succ,
      List.getElem?_cons_zero, List.set_cons_succ, List.set_cons_zero]
    exact ih _ _

theorem interleave3_steps2 (p0 p1 p2 : Prog γ) (s : FS) (n : Nat) (rest : List Nat) :
    interleave env [p0, p1, p2] s (List.replicate n 2 ++ rest) =
      interleave env [p0, p1, (stepsN env p2 s n).1] (stepsN env p2 s n).2 rest := by
  induction n generalizing p2 s with
  | zero => rfl
  | succ n ih =>
    simp only [List.replicate_succ, List.cons_append, interleave, List.getElem?_cons_succ,
      List.getElem?_cons_zero, List.set_cons_succ, List.set_cons_zero]
    exact ih _ _

/-- Non-vacuity for three processes: a schedule after which all three have finished. -/
theorem serial_schedule_finishes3 (p0 p1 p2 : Prog γ) (s : FS) :
    ∃ sched c0 c1 c2, Linearize.FinishedWith env [p0, p1, p2] s sched 0 c0 ∧
      Linearize.FinishedWith env [p0, p1, p2] s sched 1 c1 ∧
      Linearize.FinishedWith env [p0, p1, p2] s sched 2 c2 := by
  obtain ⟨n0, h0⟩ := steps_run env p0 s
  obtain ⟨n1, h1⟩ := steps_run env p1 (run env p0 s).2.1
  obtain ⟨n2, h2⟩ := steps_run env p2 (run env p1 (run env p0 s).2.1).2.1
  refine ⟨List.replicate n0 0 ++ (List.replicate n1 1 ++ (List.replicate n2 2 ++ [])),
    (run env p0 s).1, (run env p1 (run env p0 s).2.1).1,
    (run env p2 (run env p1 (run env p0 s).2.1).2.1).1, ?_, ?_, ?_⟩ <;>
  · unfold Linearize.FinishedWith
    rw [interleave3_steps0, h0, interleave3_steps1, h1, interleave3_steps2, h2]
    rfl

/-- **T5 is not vacuous**: on the empty filesystem, two `write`s of one key and a `remove_hash`,
under a schedule that finishes all three. -/
example (hl : HexLen cfg) (fl0 fl1 : Flavour) (a0 a1 : Algo) (d0 d1 : Bytes)
    (hd0 : d0.length ≤ Rec.u64Max) (hd1 : d1.length ≤ Rec.u64Max)
    (hcoll : a0 = a1 → Bytes.hex (cfg.H a0 d0) = Bytes.hex (cfg.H a1 d1) → d0 = d1) (sri : Integrity) :
    ∃ sched c0 c1 c2,
      Serializable3 cfg env cache
        ((write cfg fl0 cache a0 [107] d0).mapRes (Sum.inl : _ → Res Integrity ⊕ Res Integrity ⊕ Res Unit))
        ((write cfg fl1 cache a1 [107] d1).mapRes (fun r => Sum.inr (Sum.inl r)))
        ((removeHash cache sri).mapRes (fun r => Sum.inr (Sum.inr r))) FS.empty sched c0 c1 c2 := by
  have hk : Json.utf8Valid [107] = true := by decide
  obtain ⟨sched, c0, c1, c2, f0, f1, f2⟩ := serial_schedule_finishes3 env
    ((write cfg fl0 cache a0 [107] d0).mapRes (Sum.inl : _ → Res Integrity ⊕ Res Integrity ⊕ Res Unit))
    ((write cfg fl1 cache a1 [107] d1).mapRes (fun r => Sum.inr (Sum.inl r)))
    ((removeHash cache sri).mapRes (fun r => Sum.inr (Sum.inr r))) FS.empty
  exact ⟨sched, c0, c1, c2, write_write_removeHash_serializable cfg env cache hl _ _ _ fl0 fl1 a0 a1
    [107] [107] d0 d1 hk hd0 hk hd1 (fun _ => hcoll) sri FS.empty (healthy_empty cfg cache) sched c0 c1 c2
    f0 f1 f2⟩

end T5

end Cacache.TwoWriters

section AxiomCheck
open Cacache.TwoWriters
#print axioms sim_interleave
#print axioms two_proc_serializable
#print axioms writeStream_sim
#print axioms writeStream_removeHash_serializable
#print axioms write_removeHash_serializable
#print axioms writeHash_removeHash_serializable
#print axioms writeStream_writeStream_serializable
#print axioms write_write_serializable
#print axioms writeStream_insert_serializable
#print axioms writeStream_delete_serializable
#print axioms write_insert_serializable
#print axioms write_delete_serializable
#print axioms writer_writer_collision_counterexample
#print axioms three_proc_serializable
#print axioms write_write_removeHash_serializable
#print axioms nested_schedule
#print axioms serial_schedule_finishes
end AxiomCheck
