/-
Interleavings: several programs stepping against one filesystem under an arbitrary schedule.
-/
import Cacache.Lemmas.Stream
import Cacache.Lemmas.Index

namespace Cacache
open Prog

variable {α : Type}

/-- One small step keeps `AllCallsR`. -/
theorem Prog.AllCallsR.step {P : Call → Prop} {Ok : α → Prop} {p : Prog α} (h : AllCallsR P Ok p)
    (env : Env) (fs : FS) : AllCallsR P Ok (Prog.step env p fs).1 := by
  cases p with
  | done a => exact h
  | sys c k => exact h.2 _ (answer_exec env fs c)

/-- **Invariants survive every schedule.**  If every call any of the programs can issue preserves
`Inv` (in every state), then `Inv` holds after any interleaving of any number of them, however the
scheduler picks — calls are the atomic steps. -/
theorem interleave_invariant (env : Env) (P : Call → Prop) (Inv : FS → Prop)
    (hstep : ∀ c fs, P c → Inv fs → Inv (exec env fs c).1)
    (ps : List (Prog α)) (hp : ∀ p ∈ ps, AllCalls P p) (fs : FS) (hi : Inv fs) (sched : List Nat) :
    Inv (interleave env ps fs sched).2 ∧ ∀ p ∈ (interleave env ps fs sched).1, AllCalls P p := by
  induction sched generalizing ps fs with
  | nil => exact ⟨hi, hp⟩
  | cons i sched ih =>
    simp only [interleave]
    split
    · exact ih ps hp fs hi
    · rename_i p hget
      have hpm : p ∈ ps := List.mem_of_getElem? hget
      have hap := hp p hpm
      apply ih
      · intro q hq
        rcases List.mem_or_eq_of_mem_set hq with h | h
        · exact hp q h
        · rw [h]; exact hap.step env fs
      · cases p with
        | done a => exact hi
        | sys c k => exact hstep c fs hap.1 hi

/-- The call cannot create or change a regular file at a content address. -/
def Call.noPublish (cache : Path) (c : Call) : Prop := ∀ fs, ∀ q ∈ c.fileTargets fs, ¬ IsAddr cache q

/-- Every call is either off the bucket or appends one whole framed record to it (or opens it). -/
def Call.wholeRecords {R M : Type} (cd : Codec R M) (W : R → Prop) (bucket : Path) (c : Call) : Prop :=
  (∀ fs, ¬ c.touches fs bucket) ∨ c = .openAppend bucket ∨
    ∃ r, W r ∧ c = .appendWrite bucket (cd.frame r)

/-- "The bucket is the initial bytes followed by whole framed records." -/
def WholeRecords {R M : Type} (cd : Codec R M) (W : R → Prop) (bucket : Path) (b0 : Bytes) (fs : FS) : Prop :=
  ∃ rs, (∀ r ∈ rs, W r) ∧ BucketIs fs bucket (cd.appendAll b0 rs)

theorem wholeRecords_step {R M : Type} (cd : Codec R M) (W : R → Prop) (env : Env) (bucket : Path)
    (b0 : Bytes) (c : Call) (fs : FS) (hc : c.wholeRecords cd W bucket)
    (hi : WholeRecords cd W bucket b0 fs) : WholeRecords cd W bucket b0 (exec env fs c).1 := by
  obtain ⟨rs, hWs, hb⟩ := hi
  rcases hc with h | rfl | ⟨r, hWr, rfl⟩
  · exact ⟨rs, hWs, hb.frame (step_frame env fs _ c _ .ok bucket (h fs))⟩
  · refine ⟨rs, hWs, ?_⟩
    simp only [exec]
    rcases hb with hf | ⟨he, hn⟩
    · simp [hf]; exact Or.inl hf
    · simp only [hn]
      split
      · left; rw [he]; simp
      · exact Or.inr ⟨he, hn⟩
  · simp only [exec]
    rcases hb with hf | ⟨he, hn⟩
    · refine ⟨rs ++ [r], ?_, Or.inl ?_⟩
      · intro x hx
        rcases List.mem_append.mp hx with h | h
        · exact hWs x h
        · rw [List.mem_singleton.mp h]; exact hWr
      · simp [hf, Codec.appendAll_append, Codec.appendAll]
    · exact ⟨rs, hWs, by simp [hn]; exact Or.inr ⟨he, hn⟩⟩

end Cacache
