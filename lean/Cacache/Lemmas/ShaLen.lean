/-
Output lengths of the SHA implementations of `Cacache/Sha.lean`, for ALL inputs, and `HexLen` for the
configuration of the executable driver (`mkCfg` of `Cacache/ShaCfg.lean`).

Nothing here is about the compression functions: the length of a digest is fixed by the final
serialisation `words32ToBytes h n` / `words64ToBytes h n` alone, whatever the array `h` is (even
one that is too short: `h[i]!` then reads the default word).
-/
import Cacache.ShaCfg
import Cacache.Lemmas.Hex
import Cacache.Lemmas.CacheRefine

namespace Cacache

/-! ### `ByteArray` facts missing from core -/

namespace ShaLen

theorem toList_loop_length (bs : ByteArray) : ∀ (k i : Nat) (r : List UInt8), bs.size - i = k →
    (ByteArray.toList.loop bs i r).length = r.length + k := by
  intro k
  induction k with
  | zero =>
    intro i r hk
    rw [ByteArray.toList.loop]
    have : ¬ i < bs.size := by omega
    simp [this]
  | succ k ih =>
    intro i r hk
    rw [ByteArray.toList.loop]
    have : i < bs.size := by omega
    simp only [this, if_true]
    rw [ih (i + 1) _ (by omega)]
    simp only [List.length_cons]; omega

/-- `ByteArray.toList` has as many elements as the array has bytes. -/
theorem length_toList (bs : ByteArray) : bs.toList.length = bs.size := by
  unfold ByteArray.toList
  rw [toList_loop_length bs bs.size 0 [] (by omega)]; simp

theorem size_emptyWithCapacity (c : Nat) : (ByteArray.emptyWithCapacity c).size = 0 := rfl

/-- A fold whose step grows the array by exactly `c` bytes grows it by `c` per element. -/
theorem foldl_size {α : Type} (l : List α) (f : ByteArray → α → ByteArray) (c : Nat)
    (hf : ∀ b a, (f b a).size = b.size + c) (init : ByteArray) :
    (l.foldl f init).size = init.size + c * l.length := by
  induction l generalizing init with
  | nil => simp
  | cons a l ih => simp only [List.foldl_cons, ih, hf, List.length_cons, Nat.mul_add]; omega

end ShaLen

/-! ### the serialisation loops -/

namespace Sha
open ShaLen

/-- `words32ToBytes h n` has exactly `4 * n` bytes, for every array `h` and every `n`. -/
theorem size_words32ToBytes (h : Array UInt32) (n : Nat) : (words32ToBytes h n).size = 4 * n := by
  unfold words32ToBytes
  simp only [Std.Legacy.Range.forIn_eq_forIn_range', Std.Legacy.Range.size,
    List.forIn_pure_yield_eq_foldl, Id.run_pure, pure_bind]
  rw [foldl_size _ _ 4]
  · simp [size_emptyWithCapacity]
  · intro b a; simp only [ByteArray.size_push]

/-- `words64ToBytes h n` has exactly `8 * n` bytes, for every array `h` and every `n`. -/
theorem size_words64ToBytes (h : Array UInt64) (n : Nat) : (words64ToBytes h n).size = 8 * n := by
  unfold words64ToBytes
  simp only [Std.Legacy.Range.forIn_eq_forIn_range', Std.Legacy.Range.size, bind_pure_comp, map_pure,
    List.forIn_pure_yield_eq_foldl, Id.run_pure, pure_bind]
  rw [foldl_size _ _ 8]
  · simp [size_emptyWithCapacity]
  · intro b a
    rw [foldl_size _ _ 1]
    · simp
    · intro b a; simp only [ByteArray.size_push]

theorem size_sha1BA (d : ByteArray) : (sha1BA d).size = 20 := by
  unfold sha1BA
  simp [size_words32ToBytes]

theorem size_sha256BA (d : ByteArray) : (sha256BA d).size = 32 := by
  unfold sha256BA
  simp [size_words32ToBytes]

theorem size_sha512Core (iv : Array UInt64) (n : Nat) (d : ByteArray) :
    (sha512Core iv n d).size = 8 * n := by
  unfold sha512Core
  simp [size_words64ToBytes]

/-- SHA-1 digests have 20 bytes. -/
theorem length_sha1 (d : Bytes) : (sha1 d).length = 20 := by
  rw [sha1, length_toList, size_sha1BA]

/-- SHA-256 digests have 32 bytes. -/
theorem length_sha256 (d : Bytes) : (sha256 d).length = 32 := by
  rw [sha256, length_toList, size_sha256BA]

/-- SHA-384 digests have 48 bytes. -/
theorem length_sha384 (d : Bytes) : (sha384 d).length = 48 := by
  rw [sha384, length_toList, sha384BA, size_sha512Core]

/-- SHA-512 digests have 64 bytes. -/
theorem length_sha512 (d : Bytes) : (sha512 d).length = 64 := by
  rw [sha512, length_toList, sha512BA, size_sha512Core]

end Sha

/-! ### the driver's digest function -/

open ShaLen

/-- Exact digest lengths of the driver's digest function for the four SHA algorithms: `Algo.dlen`
bytes (20 / 32 / 48 / 64), for every oracle table and all data. -/
theorem length_sha_of_ne_xxh3 (xx : List (Bytes × Bytes)) (a : Algo) (d : Bytes) (ha : a ≠ .xxh3) :
    (sha xx a d).length = a.dlen := by
  cases a with
  | sha1 => exact Sha.length_sha1 d
  | sha256 => exact Sha.length_sha256 d
  | sha384 => exact Sha.length_sha384 d
  | sha512 => exact Sha.length_sha512 d
  | xxh3 => exact absurd rfl ha

/-- The XXH3 answer is an entry of the oracle table or the 16 zero bytes. -/
theorem sha_xxh3_cases (xx : List (Bytes × Bytes)) (d : Bytes) :
    sha xx .xxh3 d = List.replicate 16 0 ∨ ∃ e ∈ xx, sha xx .xxh3 d = e.2 := by
  unfold sha
  cases hf : xx.find? (fun e => e.1 == d) with
  | none => left; simp
  | some e => right; exact ⟨e, List.mem_of_find?_eq_some hf, by simp⟩

/-- XXH3-128: 16 bytes when every entry of the oracle table has 16 bytes (the default for data
not in the table, `List.replicate 16 0`, has 16). -/
theorem length_sha_xxh3 (xx : List (Bytes × Bytes)) (hxx : ∀ e ∈ xx, e.2.length = 16) (d : Bytes) :
    (sha xx .xxh3 d).length = 16 := by
  rcases sha_xxh3_cases xx d with h | ⟨e, he, h⟩
  · rw [h]; simp
  · rw [h]; exact hxx e he

/-- All five algorithms: `Algo.dlen` bytes, when every oracle entry has 16 bytes. -/
theorem length_sha (xx : List (Bytes × Bytes)) (hxx : ∀ e ∈ xx, e.2.length = 16) (a : Algo)
    (d : Bytes) : (sha xx a d).length = a.dlen := by
  by_cases ha : a = .xxh3
  · subst ha; exact length_sha_xxh3 xx hxx d
  · exact length_sha_of_ne_xxh3 xx a d ha

/-- Every digest of the driver's digest function has at least 2 bytes, provided the oracle table
has no entry shorter than 2 bytes. -/
theorem two_le_length_sha (xx : List (Bytes × Bytes)) (hxx : ∀ e ∈ xx, 2 ≤ e.2.length) (a : Algo)
    (d : Bytes) : 2 ≤ (sha xx a d).length := by
  by_cases ha : a = .xxh3
  · subst ha
    rcases sha_xxh3_cases xx d with h | ⟨e, he, h⟩
    · rw [h]; simp
    · rw [h]; exact hxx e he
  · rw [length_sha_of_ne_xxh3 xx a d ha]; cases a <;> simp [Algo.dlen]

@[simp] theorem mkCfg_H (xx : List (Bytes × Bytes)) : (mkCfg xx).H = sha xx := rfl

/-- **The driver's configuration satisfies `HexLen`**, the hypothesis of the refinement theorems:
every hex digest has at least 4 characters.  The only condition is on the harness-supplied XXH3
oracle table (no entry shorter than 2 bytes; real XXH3-128 digests have 16). -/
theorem hexLen_mkCfg (xx : List (Bytes × Bytes)) (hxx : ∀ e ∈ xx, 2 ≤ e.2.length) :
    CacheRefine.HexLen (mkCfg xx) := by
  intro a d
  rw [Bytes.hex_length, mkCfg_H]
  have := two_le_length_sha xx hxx a d
  omega

/-- Exact hex length for the four SHA algorithms: 40 / 64 / 96 / 128 characters. -/
theorem hex_length_mkCfg_sha (xx : List (Bytes × Bytes)) (a : Algo) (d : Bytes) (ha : a ≠ .xxh3) :
    (Bytes.hex ((mkCfg xx).H a d)).length = 2 * a.dlen := by
  rw [Bytes.hex_length, mkCfg_H, length_sha_of_ne_xxh3 xx a d ha]

/-- Exact hex length for XXH3-128: 32 characters when every oracle entry has 16 bytes. -/
theorem hex_length_mkCfg_xxh3 (xx : List (Bytes × Bytes)) (hxx : ∀ e ∈ xx, e.2.length = 16)
    (d : Bytes) : (Bytes.hex ((mkCfg xx).H .xxh3 d)).length = 32 := by
  rw [Bytes.hex_length, mkCfg_H, length_sha_xxh3 xx hxx d]

/-- Exact hex length for all five algorithms, when every oracle entry has 16 bytes. -/
theorem hex_length_mkCfg (xx : List (Bytes × Bytes)) (hxx : ∀ e ∈ xx, e.2.length = 16) (a : Algo)
    (d : Bytes) : (Bytes.hex ((mkCfg xx).H a d)).length = 2 * a.dlen := by
  rw [Bytes.hex_length, mkCfg_H, length_sha xx hxx a d]

/-- The spelled-out version: 40, 64, 96, 128 hex characters. -/
theorem hex_length_mkCfg_values (xx : List (Bytes × Bytes)) (d : Bytes) :
    (Bytes.hex ((mkCfg xx).H .sha1 d)).length = 40 ∧
    (Bytes.hex ((mkCfg xx).H .sha256 d)).length = 64 ∧
    (Bytes.hex ((mkCfg xx).H .sha384 d)).length = 96 ∧
    (Bytes.hex ((mkCfg xx).H .sha512 d)).length = 128 :=
  ⟨hex_length_mkCfg_sha xx .sha1 d (by decide), hex_length_mkCfg_sha xx .sha256 d (by decide),
   hex_length_mkCfg_sha xx .sha384 d (by decide), hex_length_mkCfg_sha xx .sha512 d (by decide)⟩

end Cacache

namespace AxiomCheckShaLen
open Cacache
#print axioms ShaLen.length_toList
#print axioms Sha.size_words32ToBytes
#print axioms Sha.size_words64ToBytes
#print axioms Sha.length_sha1
#print axioms Sha.length_sha256
#print axioms Sha.length_sha384
#print axioms Sha.length_sha512
#print axioms length_sha_of_ne_xxh3
#print axioms length_sha_xxh3
#print axioms length_sha
#print axioms hexLen_mkCfg
#print axioms hex_length_mkCfg_sha
#print axioms hex_length_mkCfg_xxh3
#print axioms hex_length_mkCfg
#print axioms hex_length_mkCfg_values
end AxiomCheckShaLen
