/-
Total correctness of the link commit (`lcommit`, the model of `link_to`'s `commit`) for linkers WITH
declared options (`l.opts.size = some n` and / or `l.opts.sri = some s`), in the healthy semantics
`Prog.run` — the part of C19 "… and declared size/integrity options are enforced as for ordinary
writes" that `LinkRefine` (no declarations) leaves open.

What the model does (`Ops.lcommit`): `content_path`, `create_dir_all` of the address's directory, the
symlink at the address with the repair of an earlier link — THEN the declared-integrity check, the
declared-size check (`go`), and, keyed, the index insert.  So a rejected commit has already linked:
the address holds unreferenced, valid content — as after a rejected write (`DeclRefine`), and as in
the real code.  The order of the checks is that of ordinary writers: integrity first, then size.

How it is proved
* `lcommit_split`: `lcommit l = lcommit (bare l) >>= after l`, an equation of PROGRAMS, where
  `bare l` is `l` without key and declarations (its commit is the link phase alone, answering the
  computed integrity) and `after l` is `declTail l` on success: `CacheRefine.declCheck` — the very
  function `commitChecks` of ordinary writers equals (`CacheRefine.commitChecks_eq`) — followed by
  `insert` for a keyed linker.  `LinkRefine`'s phase lemmas (`fresh_phase`, `relink_phase`,
  `same_phase`, `file_phase`) are stated for `opts.size = none ∧ opts.sri = none`; they are reused
  through their by-address corollaries applied to `bare l` (`phase_total`).
* `Situation fs l cpath nd mv`: the four cases at the content address `LinkRefine` distinguishes
  (nothing / a regular file / an earlier link that is the same file / one that is not), indexed by
  the node `nd` at the address AFTER the link phase and by `mv` (was a temp link used);
  `PhaseOut`: the filesystem the link phase leaves.  Every main theorem is stated once, for all
  four situations; `hcp` / `hd` / `ht` / `hI` are the hypotheses of the `LinkRefine` theorems
  (`ht` sits inside `Situation.relink`, the only leg that needs `cache/tmp`).

Main results
* T1 `link_declared_size_mismatch_total`, T2 `link_declared_integrity_mismatch_total` — the exact
  error; `OnlyLinked`: the filesystem is that of the link phase, no path of the index area changed,
  every existing node but the address / temp name (the target!) is unchanged, on a healthy index
  every lookup of every key answers as before.  By address or keyed alike (`l.key` arbitrary).
* T3 `link_declared_match_total` (by address: answers the COMPUTED integrity),
  `link_declared_match_total_keyed` (answers the DECLARED integrity if there is one, `KeyedOut`,
  index), `link_declared_match_find_keyed` (the entry: `sri` = recorded, `size = l.data.length`),
  `link_declared_match_readHash`, `link_declared_match_readable_keyed` (`read` of the key answers the
  target's bytes under `AddrCoincides`: the declaration's only hash of the linker's algorithm is the
  computed one — `declaredOk_single_eq` / `declaredOk_single_contentPath` / `addrCoincides_single`:
  an accepted SINGLE-hash declaration always is; the multi-hash case is the known finding F24).
* T4 `lopenAuto_reads_commit_total(_keyed)`: `ToLinker::open` + any `read`s + `commit`.
* T5 `lcommit_ok_iff` (general: link phase ok ∧ `SizeOk` ∧ `IntegrityOk`), `lcommit_answer`,
  `link_commit_decision` (in the four situations the link phase IS ok).
Not covered: `ls` after a rejected commit (its model walks `FS.dom`, which `PhaseOut` does not
describe; what is proved instead is that NO path of the index area changes, `OnlyLinked.indexArea`).
-/
import Cacache.Lemmas.LinkRefine
import Cacache.Lemmas.DeclRefine

namespace Cacache.LinkDecl
open Prog Refine CacheRefine LinkRefine DeclRefine

variable (cfg : Cfg) (env : Env)

theorem bind_assoc {α β γ : Type} (p : Prog α) (f : α → Prog β) (g : β → Prog γ) :
    Prog.bind (Prog.bind p f) g = Prog.bind p (fun a => Prog.bind (f a) g) := by
  induction p with
  | done a => rfl
  | sys c k ih =>
    simp only [bind_sys]
    congr 1
    funext r
    exact ih r

/-- The linker with its key and its declarations taken away: its commit is the link phase alone. -/
def bare (l : Linker) : Linker :=
  { l with key := none, opts := { l.opts with sri := none, size := none } }

/-- What follows the link phase. -/
def declTail (l : Linker) : Prog (Res Integrity) :=
  match declCheck l.opts l.data.length (Sri.compute cfg.H l.algo l.data) with
  | .error e => pure (.error e)
  | .ok recorded =>
    match l.key with
    | some k => insert cfg l.cache k { l.opts with sri := some recorded,
                                                   size := some (l.opts.size.getD l.data.length) }
    | none => pure (.ok (Sri.compute cfg.H l.algo l.data))

def after (l : Linker) : Res Integrity → Prog (Res Integrity)
  | .error e => pure (.error e)
  | .ok _ => declTail cfg l

theorem lcommit_split (l : Linker) :
    lcommit cfg l = Prog.bind (lcommit cfg (bare l)) (after cfg l) := by
  unfold lcommit
  simp only [bare]
  cases hcp : contentPath l.cache (Sri.compute cfg.H l.algo l.data) with
  | none => rfl
  | some cpath =>
    simp only [bind_eq, pure_eq, call, bind_sys, bind_done]
    congr 1
    funext r
    have key : ∀ (X : Prog (Res Unit)),
        (X.bind fun r => match r with
          | Except.error e => done (Except.error e)
          | Except.ok PUnit.unit =>
            match l.opts.sri with
            | some s =>
              if (Sri.declaredOk s (Sri.compute cfg.H l.algo l.data)).isNone = true then
                done (Except.error Err.integrity)
              else
                match
                  (match l.opts.size with
                  | some n =>
                    if n ≠ List.length l.data then Except.error (Err.size n (List.length l.data)) else Except.ok ()
                  | none => Except.ok () : Res Unit) with
                | Except.error e => done (Except.error e)
                | Except.ok PUnit.unit =>
                  match l.key with
                  | some k =>
                    insert cfg l.cache k
                      { algo := l.opts.algo, sri := some s, size := some (l.opts.size.getD (List.length l.data)),
                        time := l.opts.time, metadata := l.opts.metadata, raw := l.opts.raw }
                  | none => done (Except.ok (Sri.compute cfg.H l.algo l.data))
            | none =>
              match
                (match l.opts.size with
                | some n =>
                  if n ≠ List.length l.data then Except.error (Err.size n (List.length l.data)) else Except.ok ()
                | none => Except.ok () : Res Unit) with
              | Except.error e => done (Except.error e)
              | Except.ok PUnit.unit =>
                match l.key with
                | some k =>
                  insert cfg l.cache k
                    { algo := l.opts.algo, sri := some (Sri.compute cfg.H l.algo l.data),
                      size := some (l.opts.size.getD (List.length l.data)), time := l.opts.time,
                      metadata := l.opts.metadata, raw := l.opts.raw }
                | none => done (Except.ok (Sri.compute cfg.H l.algo l.data))) =
        (X.bind fun r => match r with
          | Except.error e => done (Except.error e)
          | Except.ok PUnit.unit => done (Except.ok (Sri.compute cfg.H l.algo l.data))).bind (after cfg l) := by
      intro X
      rw [bind_assoc]
      congr 1
      funext x
      cases x with
      | error e => rfl
      | ok u =>
        cases u
        simp only [bind_done, after, declTail, declCheck, pure_eq]
        cases l.opts.sri with
        | none =>
          cases l.opts.size with
          | none => rfl
          | some n => by_cases hn : n = l.data.length <;> simp [hn]
        | some s =>
          by_cases hd : (Sri.declaredOk s (Sri.compute cfg.H l.algo l.data)).isNone = true
          · simp only [hd, if_true]
          · simp only [hd]
            cases l.opts.size with
            | none => rfl
            | some n => by_cases hn : n = l.data.length <;> simp [hn]
    cases r <;> simp only [bind_sys, bind_done] <;> (try rfl) <;> (congr 1; funext r2; exact key _)

/-- Running the commit: the link phase (the commit of the bare linker), then `after`. -/
theorem run_lcommit_split (l : Linker) (fs : FS) :
    (run env (lcommit cfg l) fs).1 =
      (run env (after cfg l (run env (lcommit cfg (bare l)) fs).1)
        (run env (lcommit cfg (bare l)) fs).2.1).1 ∧
    (run env (lcommit cfg l) fs).2.1 =
      (run env (after cfg l (run env (lcommit cfg (bare l)) fs).1)
        (run env (lcommit cfg (bare l)) fs).2.1).2.1 := by
  rw [lcommit_split cfg l, run_bind_res, run_bind_fs]
  exact ⟨rfl, rfl⟩

/-- … when the link phase succeeded: the declaration checks and the index step, on what the link
phase left. -/
theorem run_lcommit_of_phase (l : Linker) (fs : FS) (s0 : Integrity)
    (h : (run env (lcommit cfg (bare l)) fs).1 = .ok s0) :
    (run env (lcommit cfg l) fs).1 =
      (run env (declTail cfg l) (run env (lcommit cfg (bare l)) fs).2.1).1 ∧
    (run env (lcommit cfg l) fs).2.1 =
      (run env (declTail cfg l) (run env (lcommit cfg (bare l)) fs).2.1).2.1 := by
  obtain ⟨h1, h2⟩ := run_lcommit_split cfg env l fs
  rw [h1, h2, h]
  exact ⟨rfl, rfl⟩

/-- … when it failed: its error, its filesystem. -/
theorem run_lcommit_of_phase_error (l : Linker) (fs : FS) (e : Err)
    (h : (run env (lcommit cfg (bare l)) fs).1 = .error e) :
    (run env (lcommit cfg l) fs).1 = .error e ∧
    (run env (lcommit cfg l) fs).2.1 = (run env (lcommit cfg (bare l)) fs).2.1 := by
  obtain ⟨h1, h2⟩ := run_lcommit_split cfg env l fs
  rw [h1, h2, h]
  exact ⟨rfl, rfl⟩

/-! ### the tail: declaration checks, then the index step -/

/-- The options a keyed link commit records: the integrity the checks hand on (`recorded`: the
declared one if there is one, else the computed one) and the declared size, else the byte count. -/
def declOpts (l : Linker) (recorded : Integrity) : WriteOpts :=
  { l.opts with sri := some recorded, size := some (l.opts.size.getD l.data.length) }

theorem run_declTail_error (l : Linker) (e : Err)
    (h : declCheck l.opts l.data.length (Sri.compute cfg.H l.algo l.data) = .error e) (fsL : FS) :
    (run env (declTail cfg l) fsL).1 = .error e ∧ (run env (declTail cfg l) fsL).2.1 = fsL := by
  unfold declTail
  rw [h]
  exact ⟨rfl, rfl⟩

theorem run_declTail_none (l : Linker) (r : Integrity)
    (h : declCheck l.opts l.data.length (Sri.compute cfg.H l.algo l.data) = .ok r)
    (hk : l.key = none) (fsL : FS) :
    (run env (declTail cfg l) fsL).1 = .ok (Sri.compute cfg.H l.algo l.data) ∧
    (run env (declTail cfg l) fsL).2.1 = fsL := by
  unfold declTail
  rw [h, hk]
  exact ⟨rfl, rfl⟩

theorem declTail_keyed (l : Linker) (r : Integrity) (k : Bytes)
    (h : declCheck l.opts l.data.length (Sri.compute cfg.H l.algo l.data) = .ok r)
    (hk : l.key = some k) : declTail cfg l = insert cfg l.cache k (declOpts l r) := by
  unfold declTail declOpts
  rw [h, hk]

/-- The recorded options are as Rust's types allow them when the caller's are. -/
theorem declOpts_wf (l : Linker) (r : Integrity) (k : Bytes)
    (h : declCheck l.opts l.data.length (Sri.compute cfg.H l.algo l.data) = .ok r)
    (hw : OptsWF k l.opts) (hlen : l.data.length ≤ Rec.u64Max) : OptsWF k (declOpts l r) := by
  have hrec := declCheck_recorded h
  have hsz : l.opts.size.getD l.data.length ≤ Rec.u64Max := by
    cases hs : l.opts.size with
    | none => exact hlen
    | some n => exact hw.size n hs
  have hrwf : Sri.WF r := by
    rw [hrec]
    cases hs : l.opts.sri with
    | none => exact Sri.compute_wf _ _ _
    | some s => exact hw.sri s hs
  exact ⟨hw.key, hw.time, fun m hm => by cases hm; exact hsz, fun s hs => by cases hs; exact hrwf,
    hw.md⟩

/-! ### the four situations at the content address, and what the link phase does in each -/

/-- The temp name a re-pointing goes through. -/
def tmpP (l : Linker) (fs : FS) : Path := (l.cache ++ [dTmp]) ++ [tmpName fs.next]

/-- **What lives at the content address before the commit** (the cases `LinkRefine` distinguishes),
indexed by the node that is there AFTER the link phase and by whether a temp link was used:
nothing (the address is linked to the target), a regular file (kept), an earlier link that already
leads to the target's file (kept), an earlier link that does not (re-pointed through
`cache/tmp/#<next>`; this leg alone needs `cache/tmp` creatable). -/
inductive Situation (fs : FS) (l : Linker) (cpath : Path) : Node → Bool → Prop
  | fresh (h : fs.get cpath = none) : Situation fs l cpath (.link l.target) false
  | file (b : Bytes) (h : fs.get cpath = some (.file b)) : Situation fs l cpath (.file b) false
  | same (t0 : Target) (h : fs.get cpath = some (.link t0)) (hsm : SameFile fs cpath l.target) :
      Situation fs l cpath (.link t0) false
  | relink (t0 : Target) (h : fs.get cpath = some (.link t0)) (hns : NotSameFile fs cpath l.target)
      (ht : ∀ q, q ≠ [] → q <+: l.cache ++ [dTmp] → NoneOrDir fs q) :
      Situation fs l cpath (.link l.target) true

/-- **The filesystem the link phase leaves**: `nd` at the address; the temp name absent after a
re-pointing and untouched otherwise (the temp counter likewise); every other path keeps its node or
turns from absent into a directory on the way to the address's directory or to `cache/tmp`. -/
structure PhaseOut (l : Linker) (fs : FS) (cpath : Path) (nd : Node) (mv : Bool) (fsL : FS) : Prop where
  addr : fsL.get cpath = some nd
  frame : ∀ q, q ≠ cpath → q ≠ tmpP l fs → Grow2 fs fsL q (FS.parent cpath) (l.cache ++ [dTmp])
  tmp : fsL.get (tmpP l fs) = if mv = true then none else fs.get (tmpP l fs)
  next : fsL.next = if mv = true then fs.next + 1 else fs.next

theorem grow_tmp_eq {l : Linker} {fs fs' : FS} {a : Algo} {hx : Bytes}
    (h : Grow fs fs' (tmpP l fs) (FS.parent (addrPath l.cache a hx))) :
    fs'.get (tmpP l fs) = fs.get (tmpP l fs) := by
  rcases h with g | ⟨_, _, g⟩
  · exact g
  · exact absurd g (tmp_not_prefix_parent_addr _ _ _ _)

/-- **The link phase, totally, in each of the four situations**: it answers ok and leaves
`PhaseOut`.  (`LinkRefine`'s by-address theorems, applied to the bare linker.) -/
theorem phase_total (l : Linker) (fs : FS) (cpath : Path) (nd : Node) (mv : Bool)
    (hcp : contentPath l.cache (Sri.compute cfg.H l.algo l.data) = some cpath)
    (hd : ∀ q, q ≠ [] → q <+: FS.parent cpath → NoneOrDir fs q)
    (hsit : Situation fs l cpath nd mv) :
    (run env (lcommit cfg (bare l)) fs).1 = .ok (Sri.compute cfg.H l.algo l.data) ∧
    PhaseOut l fs cpath nd mv (run env (lcommit cfg (bare l)) fs).2.1 := by
  have hc := cpath_eq cfg hcp
  have hne : tmpP l fs ≠ cpath := by rw [hc]; exact tmp_ne_addr _ _ _ _
  cases hsit with
  | fresh h =>
    obtain ⟨r, a, f, n⟩ := link_fresh_address cfg env (bare l) fs cpath rfl rfl rfl hcp hd h
    refine ⟨r, a, fun q hq _ => grow_to2 _ (f q hq), ?_, n⟩
    have := f _ hne
    rw [hc] at this
    exact grow_tmp_eq this
  | file b h =>
    obtain ⟨r, a, f, n⟩ := link_keeps_regular_content cfg env (bare l) fs cpath b rfl rfl rfl hcp hd h
    refine ⟨r, a, fun q _ _ => grow_to2 _ (f q), ?_, n⟩
    have := f (tmpP l fs)
    rw [hc] at this
    exact grow_tmp_eq this
  | same t0 h hsm =>
    obtain ⟨r, a, f, n⟩ := relink_same_file_kept cfg env (bare l) fs cpath t0 rfl rfl rfl hcp hd h hsm
    refine ⟨r, a, fun q _ _ => grow_to2 _ (f q), ?_, n⟩
    have := f (tmpP l fs)
    rw [hc] at this
    exact grow_tmp_eq this
  | relink t0 h hns ht =>
    obtain ⟨r, a, t, f, n⟩ :=
      relink_replaces_old_link cfg env (bare l) fs cpath t0 rfl rfl rfl hcp hd ht h hns
    exact ⟨r, a, f, t, n⟩

/-! ### what `PhaseOut` means for the index and for everything that existed -/

/-- **No path of the index area changes in the link phase** (no hypothesis on the index). -/
theorem PhaseOut.index_area_kept {l : Linker} {fs fsL : FS} {cpath : Path} {nd : Node} {mv : Bool}
    {a : Algo} {hx : Bytes} (hc : cpath = addrPath l.cache a hx)
    (h : PhaseOut l fs cpath nd mv fsL) (q : Path) (hq : InArea l.cache dIndex q) :
    fsL.get q = fs.get q := by
  subst hc
  have h1 : q ≠ addrPath l.cache a hx := area_ne dIndex_ne_dContent hq (inArea_addr _ _ _)
  have h2 : q ≠ tmpP l fs := area_ne dIndex_ne_dTmp hq (inArea_tmp _ _)
  rcases h.frame q h1 h2 with g | ⟨_, _, g | g⟩
  · exact g
  · exact absurd g (area_sep dIndex_ne_dContent hq (inArea_parent_addr _ _ _))
  · exact absurd g (area_sep dIndex_ne_dTmp hq (inArea_tmpDir _))

/-- **Every node that existed — other than at the address and under the temp name — is unchanged**
(in particular the target file, wherever it lives). -/
theorem PhaseOut.keeps_existing {l : Linker} {fs fsL : FS} {cpath : Path} {nd : Node} {mv : Bool}
    (h : PhaseOut l fs cpath nd mv fsL) (q : Path) (x : Node) (hq : fs.get q = some x)
    (h1 : q ≠ cpath) (h2 : q ≠ tmpP l fs) : fsL.get q = some x := by
  rcases h.frame q h1 h2 with g | ⟨g, _⟩
  · rw [g, hq]
  · rw [hq] at g; cases g

/-- A healthy index stays healthy, with the same abstract index and the same bucket files. -/
theorem PhaseOut.index {l : Linker} {fs fsL : FS} {cpath : Path} {nd : Node} {mv : Bool}
    {a : Algo} {hx : Bytes} (hc : cpath = addrPath l.cache a hx)
    (h : PhaseOut l fs cpath nd mv fsL) (hI : HealthyIndex cfg l.cache fs) :
    HealthyIndex cfg l.cache fsL ∧ absIndex cfg l.cache fsL = absIndex cfg l.cache fs ∧
      ∀ key, fsL.get (bucketPath cfg l.cache key) = fs.get (bucketPath cfg l.cache key) := by
  subst hc
  exact index_untouched cfg (tmpName fs.next) hI h.frame

/-- … hence every lookup answers as before. -/
theorem PhaseOut.find_same {l : Linker} {fs fsL : FS} {cpath : Path} {nd : Node} {mv : Bool}
    {a : Algo} {hx : Bytes} (hc : cpath = addrPath l.cache a hx)
    (h : PhaseOut l fs cpath nd mv fsL) (hI : HealthyIndex cfg l.cache fs) (env' : Env) (k' : Bytes) :
    (run env' (find cfg l.cache k') fsL).1 = (run env' (find cfg l.cache k') fs).1 := by
  obtain ⟨hIL, hA, _⟩ := h.index cfg hc hI
  rw [(run_find cfg l.cache env' k' fsL hIL).1, (run_find cfg l.cache env' k' fs hI).1, hA]

/-- **What a link commit that writes no index record leaves** (a rejected one, or an accepted one
by address): the link phase has happened (`PhaseOut`: the address
holds `nd` — unreferenced but valid content, exactly as after a rejected write), and nothing else:
no path of the index area changed, every other existing node is unchanged, and on a healthy index
the index is healthy, abstractly the same, and every lookup of every key answers as before. -/
structure OnlyLinked (l : Linker) (fs : FS) (cpath : Path) (nd : Node) (mv : Bool) (fs' : FS) :
    Prop where
  phase : PhaseOut l fs cpath nd mv fs'
  indexArea : ∀ q, InArea l.cache dIndex q → fs'.get q = fs.get q
  existing : ∀ q x, fs.get q = some x → q ≠ cpath → q ≠ tmpP l fs → fs'.get q = some x
  healthy : HealthyIndex cfg l.cache fs →
    HealthyIndex cfg l.cache fs' ∧ absIndex cfg l.cache fs' = absIndex cfg l.cache fs
  lookups : HealthyIndex cfg l.cache fs → ∀ (env' : Env) (k' : Bytes),
    (run env' (find cfg l.cache k') fs').1 = (run env' (find cfg l.cache k') fs).1

theorem PhaseOut.onlyLinked {l : Linker} {fs fsL : FS} {cpath : Path} {nd : Node} {mv : Bool}
    {a : Algo} {hx : Bytes} (hc : cpath = addrPath l.cache a hx)
    (h : PhaseOut l fs cpath nd mv fsL) : OnlyLinked cfg l fs cpath nd mv fsL :=
  ⟨h, h.index_area_kept hc, h.keeps_existing,
    fun hI => ⟨(h.index cfg hc hI).1, (h.index cfg hc hI).2.1⟩,
    fun hI env' k' => h.find_same cfg hc hI env' k'⟩

/-- A commit whose declaration check fails: the check's error, the link phase's filesystem. -/
theorem link_rejected_total (l : Linker) (fs : FS) (cpath : Path) (nd : Node) (mv : Bool) (e : Err)
    (hck : declCheck l.opts l.data.length (Sri.compute cfg.H l.algo l.data) = .error e)
    (hcp : contentPath l.cache (Sri.compute cfg.H l.algo l.data) = some cpath)
    (hd : ∀ q, q ≠ [] → q <+: FS.parent cpath → NoneOrDir fs q)
    (hsit : Situation fs l cpath nd mv) :
    (run env (lcommit cfg l) fs).1 = .error e ∧
    OnlyLinked cfg l fs cpath nd mv (run env (lcommit cfg l) fs).2.1 := by
  obtain ⟨r, ph⟩ := phase_total cfg env l fs cpath nd mv hcp hd hsit
  obtain ⟨e1, e2⟩ := run_lcommit_of_phase cfg env l fs _ r
  obtain ⟨t1, t2⟩ := run_declTail_error cfg env l e hck (run env (lcommit cfg (bare l)) fs).2.1
  rw [e1, e2, t1, t2]
  exact ⟨rfl, ph.onlyLinked cfg (cpath_eq cfg hcp)⟩

/-! ### T1, T2: declarations that fail -/

/-- The size check, after an absent or accepted integrity declaration. -/
theorem declCheck_size_mismatch {o : WriteOpts} {n len : Nat} {wsri : Integrity}
    (hz : o.size = some n) (hne : n ≠ len)
    (hs : o.sri = none ∨ ∃ s, o.sri = some s ∧ (Sri.declaredOk s wsri).isSome) :
    declCheck o len wsri = .error (.size n len) := by
  unfold declCheck
  rcases hs with hs | ⟨s, hs, hm⟩
  · rw [hs, hz]; simp only [hne, ne_eq, not_false_eq_true, if_true]
  · have : (Sri.declaredOk s wsri).isNone = false := by
      cases hx : Sri.declaredOk s wsri with
      | none => rw [hx] at hm; cases hm
      | some _ => rfl
    rw [hs, hz]
    simp only [this, Bool.false_eq_true, if_false, hne, ne_eq, not_false_eq_true, if_true]

/-- **T1. A declared size that is not the target's length, totally** — in each of the four
situations at the address, by address or keyed (`l.key` is arbitrary), the integrity declaration
absent or accepted (a rejected one is reported first: T2).  The commit answers EXACTLY
`.error (.size n l.data.length)`.  The link phase has already happened (as in the real code: the
address now holds `nd` — the link to the target, or what `LinkRefine` says is kept —, unreferenced
valid content); NO index record is written: no path of the index area changed, every existing node
other than the address / temp name — the target file in particular — is unchanged, and on a healthy
index every lookup of every key (the linker's own included) answers what it answered before. -/
theorem link_declared_size_mismatch_total (l : Linker) (fs : FS) (cpath : Path) (nd : Node) (mv : Bool)
    (n : Nat) (hz : l.opts.size = some n) (hne : n ≠ l.data.length)
    (hs : l.opts.sri = none ∨ ∃ s, l.opts.sri = some s ∧
      (Sri.declaredOk s (Sri.compute cfg.H l.algo l.data)).isSome)
    (hcp : contentPath l.cache (Sri.compute cfg.H l.algo l.data) = some cpath)
    (hd : ∀ q, q ≠ [] → q <+: FS.parent cpath → NoneOrDir fs q)
    (hsit : Situation fs l cpath nd mv) :
    (run env (lcommit cfg l) fs).1 = .error (.size n l.data.length) ∧
    OnlyLinked cfg l fs cpath nd mv (run env (lcommit cfg l) fs).2.1 :=
  link_rejected_total cfg env l fs cpath nd mv _ (declCheck_size_mismatch hz hne hs) hcp hd hsit

/-- **T2. A declared integrity the target's bytes do not satisfy, totally** — whatever the size
declaration (the integrity is checked first), in each of the four situations, by address or keyed:
the commit answers exactly `.error .integrity`; the filesystem is that of the link phase; no lookup
of any key changes (`OnlyLinked`). -/
theorem link_declared_integrity_mismatch_total (l : Linker) (fs : FS) (cpath : Path) (nd : Node)
    (mv : Bool) (s : Integrity) (hs : l.opts.sri = some s)
    (hm : Sri.declaredOk s (Sri.compute cfg.H l.algo l.data) = none)
    (hcp : contentPath l.cache (Sri.compute cfg.H l.algo l.data) = some cpath)
    (hd : ∀ q, q ≠ [] → q <+: FS.parent cpath → NoneOrDir fs q)
    (hsit : Situation fs l cpath nd mv) :
    (run env (lcommit cfg l) fs).1 = .error .integrity ∧
    OnlyLinked cfg l fs cpath nd mv (run env (lcommit cfg l) fs).2.1 :=
  link_rejected_total cfg env l fs cpath nd mv _ (declCheck_mismatch _ hs hm) hcp hd hsit

/-- The target file of a rejected commit is unchanged (a target outside the cache is neither the
address nor the temp name). -/
theorem OnlyLinked.target_kept {l : Linker} {fs fs' : FS} {cpath : Path} {nd : Node} {mv : Bool}
    {a : Algo} {hx : Bytes} (hc : cpath = addrPath l.cache a hx)
    (h : OnlyLinked cfg l fs cpath nd mv fs') (tp : Path) (x : Node) (hout : ¬ l.cache <+: tp)
    (hfile : fs.get tp = some x) : fs'.get tp = some x := by
  refine h.existing tp x hfile ?_ ?_
  · intro e; apply hout; rw [e, hc]; exact cache_prefix_addr _ _ _
  · intro e; apply hout; rw [e]; unfold tmpP; rw [List.append_assoc]; exact List.prefix_append _ _

/-! ### T3: declarations that hold -/

/-- Size declaration absent or right, integrity declaration absent or accepted: the check hands on
the DECLARED integrity if there is one, else the computed one. -/
theorem declCheck_accept {o : WriteOpts} {len : Nat} {wsri : Integrity}
    (hz : o.size = none ∨ o.size = some len)
    (hs : o.sri = none ∨ ∃ s, o.sri = some s ∧ (Sri.declaredOk s wsri).isSome) :
    declCheck o len wsri = .ok (o.sri.getD wsri) := by
  rcases hs with hs | ⟨s, hs, hm⟩
  · rw [hs]
    unfold declCheck
    rw [hs]
    rcases hz with hz | hz <;> rw [hz] <;> simp
  · rw [declCheck_match hs hm hz, hs]
    rfl

/-- **T3, by address.  Declarations that hold, totally**: the commit answers `.ok` of the COMPUTED
integrity (an unkeyed commit returns `sri`; the declared one is only checked — as the by-address
writer, `DeclRefine.declared_putHash_match`), the address holds `nd` — the link to the target in the
situations `fresh` / `relink`, what was there in `file` / `same`, exactly as in `LinkRefine` —, and
nothing else happened (`OnlyLinked`: index area untouched, lookups as before, target unchanged). -/
theorem link_declared_match_total (l : Linker) (fs : FS) (cpath : Path) (nd : Node) (mv : Bool)
    (hk : l.key = none)
    (hz : l.opts.size = none ∨ l.opts.size = some l.data.length)
    (hs : l.opts.sri = none ∨ ∃ s, l.opts.sri = some s ∧
      (Sri.declaredOk s (Sri.compute cfg.H l.algo l.data)).isSome)
    (hcp : contentPath l.cache (Sri.compute cfg.H l.algo l.data) = some cpath)
    (hd : ∀ q, q ≠ [] → q <+: FS.parent cpath → NoneOrDir fs q)
    (hsit : Situation fs l cpath nd mv) :
    (run env (lcommit cfg l) fs).1 = .ok (Sri.compute cfg.H l.algo l.data) ∧
    OnlyLinked cfg l fs cpath nd mv (run env (lcommit cfg l) fs).2.1 := by
  obtain ⟨r, ph⟩ := phase_total cfg env l fs cpath nd mv hcp hd hsit
  obtain ⟨e1, e2⟩ := run_lcommit_of_phase cfg env l fs _ r
  obtain ⟨t1, t2⟩ := run_declTail_none cfg env l _ (declCheck_accept hz hs) hk
    (run env (lcommit cfg (bare l)) fs).2.1
  rw [e1, e2, t1, t2]
  exact ⟨rfl, ph.onlyLinked cfg (cpath_eq cfg hcp)⟩

/-- **The filesystem a keyed, accepted link commit leaves**: `nd` at the address; the key's bucket
is its old bytes followed by the frame of the new record — carrying the recorded integrity `r` and
the declared size (else the byte count); the temp name as after the link phase; every other path
keeps its node or turns from absent into a directory on the way to the address's directory, to
`cache/tmp` or to the bucket's directory. -/
structure KeyedOut (l : Linker) (k : Bytes) (fs : FS) (cpath : Path) (nd : Node) (mv : Bool)
    (r : Integrity) (fs' : FS) : Prop where
  addr : fs'.get cpath = some nd
  bucket : fs'.get (bucketPath cfg l.cache k) =
    some (.file (bytesAt fs (bucketPath cfg l.cache k) ++
      (codec cfg).frame (mkRec k (declOpts l r) (stamp env l.opts))))
  frame : ∀ q, q ≠ cpath → q ≠ tmpP l fs → q ≠ bucketPath cfg l.cache k →
    Grow3 fs fs' q (FS.parent cpath) (l.cache ++ [dTmp]) (FS.parent (bucketPath cfg l.cache k))
  tmp : fs'.get (tmpP l fs) = if mv = true then none else fs.get (tmpP l fs)

/-- The entry a keyed link commit records. -/
def linkEntry (l : Linker) (k : Bytes) (r : Integrity) : Meta :=
  { key := k, sri := r, time := stamp env l.opts, size := l.data.length,
    metadata := l.opts.metadata.getD .null, raw := l.opts.raw }

/-- **T3, keyed.  Declarations that hold, totally** — in each of the four situations, on a healthy
index: the commit answers `.ok r` where `r` is the DECLARED integrity when one was declared and the
computed one otherwise (`lcommit`: `go s` / `go sri`, `insert` answers what it recorded); the
filesystem is `KeyedOut`; and with options as Rust's types allow them (`OptsWF`, a `u64` byte
count) the index is healthy again, every OTHER key looks up as before, and — if a declared integrity
survives its text form (`SriRT`; `DeclRefine.parse_print_canon`) — the key maps to the entry
carrying `r` and `size = l.data.length` (= the declared size, when one was declared). -/
theorem link_declared_match_total_keyed (l : Linker) (k : Bytes) (fs : FS) (cpath : Path) (nd : Node)
    (mv : Bool) (hk : l.key = some k)
    (hz : l.opts.size = none ∨ l.opts.size = some l.data.length)
    (hs : l.opts.sri = none ∨ ∃ s, l.opts.sri = some s ∧
      (Sri.declaredOk s (Sri.compute cfg.H l.algo l.data)).isSome)
    (hcp : contentPath l.cache (Sri.compute cfg.H l.algo l.data) = some cpath)
    (hd : ∀ q, q ≠ [] → q <+: FS.parent cpath → NoneOrDir fs q)
    (hI : HealthyIndex cfg l.cache fs)
    (hsit : Situation fs l cpath nd mv) :
    (run env (lcommit cfg l) fs).1 = .ok (l.opts.sri.getD (Sri.compute cfg.H l.algo l.data)) ∧
    KeyedOut cfg env l k fs cpath nd mv (l.opts.sri.getD (Sri.compute cfg.H l.algo l.data))
      (run env (lcommit cfg l) fs).2.1 ∧
    (OptsWF k l.opts → l.data.length ≤ Rec.u64Max →
      HealthyIndex cfg l.cache (run env (lcommit cfg l) fs).2.1 ∧
      (∀ k', k' ≠ k → absIndex cfg l.cache (run env (lcommit cfg l) fs).2.1 k' =
        absIndex cfg l.cache fs k') ∧
      ((∀ s, l.opts.sri = some s → SriRT s) →
        absIndex cfg l.cache (run env (lcommit cfg l) fs).2.1 k =
          some (linkEntry env l k (l.opts.sri.getD (Sri.compute cfg.H l.algo l.data))))) := by
  have hc := cpath_eq cfg hcp
  have hck := declCheck_accept (len := l.data.length) (wsri := Sri.compute cfg.H l.algo l.data) hz hs
  obtain ⟨r, ph⟩ := phase_total cfg env l fs cpath nd mv hcp hd hsit
  obtain ⟨e1, e2⟩ := run_lcommit_of_phase cfg env l fs _ r
  obtain ⟨hIL, hA, hb⟩ := ph.index cfg hc hI
  rw [e1, e2, declTail_keyed cfg l _ k hck hk]
  generalize (run env (lcommit cfg (bare l)) fs).2.1 = fsL at ph hIL hA hb ⊢
  obtain ⟨r1, r2, r3⟩ := run_insert cfg l.cache env k
    (declOpts l (l.opts.sri.getD (Sri.compute cfg.H l.algo l.data))) fsL hIL
  have hby : bytesAt fsL (bucketPath cfg l.cache k) = bytesAt fs (bucketPath cfg l.cache k) := by
    unfold bytesAt; rw [hb]
  have hbc : cpath ≠ bucketPath cfg l.cache k := by rw [hc]; exact (bucket_ne_addr cfg _ _ _ _).symm
  have hbt : tmpP l fs ≠ bucketPath cfg l.cache k := (bucket_ne_tmp cfg _ _ _).symm
  refine ⟨r1, ⟨?_, ?_, ?_, ?_⟩, ?_⟩
  · rcases r3 cpath hbc with g | ⟨g, _⟩
    · rw [g]; exact ph.addr
    · rw [ph.addr] at g; cases g
  · rw [r2, hby]; rfl
  · intro q hq1 hq2 hq3
    exact (ph.frame q hq1 hq2).andThen (r3 q hq3)
  · rcases r3 _ hbt with g | ⟨_, _, g⟩
    · rw [g]; exact ph.tmp
    · exact absurd g (tmp_not_prefix_parent_bucket cfg _ _ _)
  · intro hw hlen
    obtain ⟨hH, hO, hK⟩ := insert_refines_gen cfg l.cache env k _ fsL hIL
      (declOpts_wf cfg l _ k hck hw hlen)
    refine ⟨hH, ?_, ?_⟩
    · intro k' hk'
      rw [hO k' hk', hA]
    · intro hrt
      rw [hK ?_]
      · have : l.opts.size.getD l.data.length = l.data.length := by
          rcases hz with hz | hz <;> rw [hz] <;> rfl
        simp only [insEntry, declOpts, Option.map_some, Option.getD_some, linkEntry, this]
        rfl
      · intro s hs'
        have : s = l.opts.sri.getD (Sri.compute cfg.H l.algo l.data) := (Option.some.inj hs').symm
        rw [this]
        cases hx : l.opts.sri with
        | none => exact sriRT_compute _ _ _
        | some s' => exact hrt s' hx

/-- … so `find` of the key afterwards answers the entry with `sri = r` and `size = l.data.length`,
and `find` of every other key answers what it answered before. -/
theorem link_declared_match_find_keyed (l : Linker) (k : Bytes) (fs : FS) (cpath : Path) (nd : Node)
    (mv : Bool) (hk : l.key = some k)
    (hz : l.opts.size = none ∨ l.opts.size = some l.data.length)
    (hs : l.opts.sri = none ∨ ∃ s, l.opts.sri = some s ∧
      (Sri.declaredOk s (Sri.compute cfg.H l.algo l.data)).isSome)
    (hcp : contentPath l.cache (Sri.compute cfg.H l.algo l.data) = some cpath)
    (hd : ∀ q, q ≠ [] → q <+: FS.parent cpath → NoneOrDir fs q)
    (hI : HealthyIndex cfg l.cache fs)
    (hsit : Situation fs l cpath nd mv)
    (hw : OptsWF k l.opts) (hlen : l.data.length ≤ Rec.u64Max)
    (hrt : ∀ s, l.opts.sri = some s → SriRT s) (env' : Env) :
    (run env' (find cfg l.cache k) (run env (lcommit cfg l) fs).2.1).1 =
      .ok (some (linkEntry env l k (l.opts.sri.getD (Sri.compute cfg.H l.algo l.data)))) ∧
    ∀ k', k' ≠ k →
      (run env' (find cfg l.cache k') (run env (lcommit cfg l) fs).2.1).1 =
        (run env' (find cfg l.cache k') fs).1 := by
  obtain ⟨_, _, h3⟩ :=
    link_declared_match_total_keyed cfg env l k fs cpath nd mv hk hz hs hcp hd hI hsit
  obtain ⟨hH, hO, hK⟩ := h3 hw hlen
  refine ⟨?_, ?_⟩
  · rw [(run_find cfg l.cache env' k _ hH).1, hK hrt]
  · intro k' hk'
    rw [(run_find cfg l.cache env' k' _ hH).1, (run_find cfg l.cache env' k' fs hI).1, hO k' hk']

/-! ### reading back: the address of the recorded integrity -/

/-- **A SINGLE-hash declaration that the check accepts IS the computed integrity** … -/
theorem declaredOk_single_eq (d c : Hash) (h : (Sri.declaredOk [d] [c]).isSome) : d = c := by
  have hm := (C08.declaredOk_sound [d] c h).2
  simp only [List.mem_singleton] at hm
  exact hm.symm

/-- … hence resolves to the same content address (`content_path`). -/
theorem declaredOk_single_contentPath (cache : Path) (d : Hash) (a : Algo) (data : Bytes)
    (h : (Sri.declaredOk [d] (Sri.compute cfg.H a data)).isSome) :
    [d] = Sri.compute cfg.H a data ∧
    contentPath cache [d] = contentPath cache (Sri.compute cfg.H a data) := by
  have : d = { algo := a, digest := B64.encode (cfg.H a data) } := declaredOk_single_eq d _ h
  subst this
  exact ⟨rfl, rfl⟩

/-- The hash the linker computes. -/
def linkHash (l : Linker) : Hash := { algo := l.algo, digest := B64.encode (cfg.H l.algo l.data) }

/-- **The declaration names the computed hash as its only hash of the linker's algorithm** — the
hypothesis under which the recorded integrity resolves to the address the link was made at (as
`C08.accepted_resolves`, `DeclRefine.declared_match_readable`).  Without it — several digests of
the strongest algorithm — the content path is derived from the FIRST digest, where nothing was
linked: the known finding F24 of the real code. -/
def AddrCoincides (l : Linker) : Prop :=
  ∀ s, l.opts.sri = some s → ∀ x ∈ s, x.algo = l.algo → x = linkHash cfg l

/-- A single-hash declaration that the check accepts satisfies it. -/
theorem addrCoincides_single (l : Linker) (d : Hash) (hs : l.opts.sri = some [d])
    (hm : (Sri.declaredOk [d] (Sri.compute cfg.H l.algo l.data)).isSome) : AddrCoincides cfg l := by
  intro s hs' x hx _
  rw [hs] at hs'
  cases hs'
  simp only [List.mem_singleton] at hx
  rw [hx]
  exact declaredOk_single_eq d _ hm

theorem addrCoincides_none (l : Linker) (hs : l.opts.sri = none) : AddrCoincides cfg l := by
  intro s hs'; rw [hs] at hs'; cases hs'

/-- Under `AddrCoincides` the recorded integrity of an accepted commit starts with the computed
hash: it resolves to the computed integrity's address, and the read's verification accepts the
target's bytes for it. -/
theorem recorded_resolves (l : Linker)
    (hs : l.opts.sri = none ∨ ∃ s, l.opts.sri = some s ∧
      (Sri.declaredOk s (Sri.compute cfg.H l.algo l.data)).isSome)
    (h1 : AddrCoincides cfg l) :
    contentPath l.cache (l.opts.sri.getD (Sri.compute cfg.H l.algo l.data)) =
      contentPath l.cache (Sri.compute cfg.H l.algo l.data) ∧
    (Sri.check cfg.H (l.opts.sri.getD (Sri.compute cfg.H l.algo l.data)) l.data).isSome = true := by
  rcases hs with hs | ⟨s, hs, hm⟩
  · rw [hs]
    exact ⟨rfl, by rw [Option.getD_none, check_compute]; rfl⟩
  · obtain ⟨ds, rfl⟩ := accepted_head s (linkHash cfg l) hm (h1 s hs)
    rw [hs]
    refine ⟨C08.accepted_resolves l.cache _ (linkHash cfg l) hm (h1 _ hs), ?_⟩
    rw [Option.getD_some]
    unfold linkHash
    rw [check_cons_computed]
    rfl

/-- A plain regular file reads as itself. -/
theorem readFile_file {fs : FS} {p : Path} {b : Bytes} (hp : p ≠ []) (h : fs.get p = some (.file b)) :
    fs.readFile p = .ok b :=
  readFile_of_resolve (by
    unfold FS.resolveFuel
    exact resolve_succ_nonlink _ (by rw [h]; intro t e; cases e)) hp h

/-- **Opening the address after the commit yields the target's bytes** — for any filesystem `fs'`
that holds `nd` at the address, still holds the target file, and (needed where a link was KEPT) has
the links of `fs` everywhere else.  In the situation `file` the address holds regular content `b`,
which is what is read: the bytes are the target's iff `b = l.data` (`hreg`; true in a valid store
for a collision-free digest). -/
theorem addr_reads_target {l : Linker} {fs fs' : FS} {cpath : Path} {nd : Node} {mv : Bool}
    (hsit : Situation fs l cpath nd mv) (hcne : cpath ≠ []) (haddr : fs'.get cpath = some nd)
    (hlinks : mv = false → ∀ q, q ≠ cpath → ∀ t,
      (fs'.get q = some (.link t) ↔ fs.get q = some (.link t)))
    (tp : Path) (htgt : l.target = .abs tp) (htp : tp ≠ [])
    (hfile : fs.get tp = some (.file l.data)) (hfile' : fs'.get tp = some (.file l.data))
    (hreg : ∀ b, nd = .file b → b = l.data) :
    fs'.readFile cpath = .ok l.data := by
  cases hsit with
  | fresh h =>
    rw [htgt] at haddr
    exact readFile_through_link haddr hfile' htp
  | file b h =>
    rw [hreg b rfl] at haddr
    exact readFile_file hcne haddr
  | same t0 h hsm =>
    obtain ⟨a, ha, hb, _⟩ := hsm
    have hr : FS.resolve fs FS.resolveFuel (FS.targetPath cpath l.target) = some tp := by
      rw [htgt]
      show FS.resolve fs FS.resolveFuel tp = some tp
      unfold FS.resolveFuel
      exact resolve_succ_nonlink _ (by rw [hfile]; intro t e; cases e)
    rw [hr] at hb
    cases hb
    have hall : ∀ q t, fs'.get q = some (.link t) ↔ fs.get q = some (.link t) := by
      intro q t
      by_cases e : q = cpath
      · subst e; rw [haddr, h]
      · exact hlinks rfl q e t
    have hr' := resolve_linkEq hall FS.resolveFuel cpath
    rw [ha] at hr'
    exact readFile_of_resolve hr' htp hfile'
  | relink t0 h hns ht =>
    rw [htgt] at haddr
    exact readFile_through_link haddr hfile' htp

/-- **T3, by address: the returned address reads the target's bytes** through the library's
verified `read_hash` — after an accepted commit with declarations, in each situation (in `file`:
when the regular content there is the target's bytes). -/
theorem link_declared_match_readHash (l : Linker) (fs : FS) (cpath : Path) (nd : Node) (mv : Bool)
    (hk : l.key = none)
    (hz : l.opts.size = none ∨ l.opts.size = some l.data.length)
    (hs : l.opts.sri = none ∨ ∃ s, l.opts.sri = some s ∧
      (Sri.declaredOk s (Sri.compute cfg.H l.algo l.data)).isSome)
    (hcp : contentPath l.cache (Sri.compute cfg.H l.algo l.data) = some cpath)
    (hd : ∀ q, q ≠ [] → q <+: FS.parent cpath → NoneOrDir fs q)
    (hsit : Situation fs l cpath nd mv)
    (tp : Path) (htgt : l.target = .abs tp) (htp : tp ≠ []) (hout : ¬ l.cache <+: tp)
    (hfile : fs.get tp = some (.file l.data)) (hreg : ∀ b, nd = .file b → b = l.data) (env' : Env) :
    (run env' (readHash cfg l.cache (Sri.compute cfg.H l.algo l.data))
      (run env (lcommit cfg l) fs).2.1).1 = .ok l.data := by
  have hc := cpath_eq cfg hcp
  obtain ⟨_, ho⟩ := link_declared_match_total cfg env l fs cpath nd mv hk hz hs hcp hd hsit
  have hfile' := ho.target_kept cfg hc tp _ hout hfile
  have hr : (run env (lcommit cfg l) fs).2.1.readFile cpath = .ok l.data := by
    refine addr_reads_target hsit (by rw [hc]; exact addr_ne_nil _ _ _) ho.phase.addr ?_ tp htgt htp
      hfile hfile' hreg
    intro hmv q hq t
    by_cases e : q = tmpP l fs
    · rw [e, ho.phase.tmp, hmv]; simp
    · rcases ho.phase.frame q hq e with g | ⟨g1, g2, _⟩
      · rw [g]
      · rw [g1, g2]; constructor <;> (intro x; cases x)
  unfold readHash
  simp only [hcp, bind_eq, pure_eq, call, bind_sys, bind_done, run_sys_res, exec, hr, check_compute,
    Option.isSome_some, if_true, run_done_res]

/-- **T3, keyed: the key reads the target's bytes.**  After an accepted keyed commit — size
declaration absent or right, integrity declaration absent or accepted AND naming the computed hash
as its only hash of the linker's algorithm (`AddrCoincides`; a single accepted hash always does:
`addrCoincides_single`) — `read` of the key (lookup, then the verified read by the RECORDED
integrity) answers exactly the target's bytes, in each of the four situations (in `file`: when the
regular content at the address is the target's bytes). -/
theorem link_declared_match_readable_keyed (l : Linker) (k : Bytes) (fs : FS) (cpath : Path)
    (nd : Node) (mv : Bool) (hk : l.key = some k)
    (hz : l.opts.size = none ∨ l.opts.size = some l.data.length)
    (hs : l.opts.sri = none ∨ ∃ s, l.opts.sri = some s ∧
      (Sri.declaredOk s (Sri.compute cfg.H l.algo l.data)).isSome)
    (h1 : AddrCoincides cfg l)
    (hcp : contentPath l.cache (Sri.compute cfg.H l.algo l.data) = some cpath)
    (hd : ∀ q, q ≠ [] → q <+: FS.parent cpath → NoneOrDir fs q)
    (hI : HealthyIndex cfg l.cache fs)
    (hsit : Situation fs l cpath nd mv)
    (hw : OptsWF k l.opts) (hlen : l.data.length ≤ Rec.u64Max)
    (hrt : ∀ s, l.opts.sri = some s → SriRT s)
    (tp : Path) (htgt : l.target = .abs tp) (htp : tp ≠ []) (hout : ¬ l.cache <+: tp)
    (hfile : fs.get tp = some (.file l.data)) (hreg : ∀ b, nd = .file b → b = l.data) (env' : Env) :
    (run env' (read cfg l.cache k) (run env (lcommit cfg l) fs).2.1).1 = .ok l.data := by
  have hc := cpath_eq cfg hcp
  obtain ⟨_, ko, _⟩ :=
    link_declared_match_total_keyed cfg env l k fs cpath nd mv hk hz hs hcp hd hI hsit
  obtain ⟨hf, _⟩ := link_declared_match_find_keyed cfg env l k fs cpath nd mv hk hz hs hcp hd hI hsit
    hw hlen hrt env'
  obtain ⟨ha, hchk⟩ := recorded_resolves cfg l hs h1
  have hq1 : tp ≠ cpath := by
    intro e; apply hout; rw [e, hc]; exact cache_prefix_addr _ _ _
  have hq2 : tp ≠ tmpP l fs := by
    intro e; apply hout; rw [e]; unfold tmpP; rw [List.append_assoc]; exact List.prefix_append _ _
  have hq3 : tp ≠ bucketPath cfg l.cache k := by
    intro e; apply hout; rw [e]; exact List.prefix_append _ _
  have hfile' : (run env (lcommit cfg l) fs).2.1.get tp = some (.file l.data) := by
    rcases ko.frame tp hq1 hq2 hq3 with g | ⟨g, _⟩
    · rw [g, hfile]
    · rw [hfile] at g; cases g
  have hr : (run env (lcommit cfg l) fs).2.1.readFile cpath = .ok l.data := by
    refine addr_reads_target hsit (by rw [hc]; exact addr_ne_nil _ _ _) ko.addr ?_ tp htgt htp
      hfile hfile' hreg
    intro hmv q hq t
    by_cases e : q = tmpP l fs
    · rw [e, ko.tmp, hmv]; simp
    · by_cases e3 : q = bucketPath cfg l.cache k
      · rw [e3, ko.bucket]
        constructor
        · intro x; cases x
        · intro x
          rcases hI.buckets k with g | ⟨b, g, _⟩ <;> (rw [g] at x; cases x)
      · rcases ko.frame q hq e e3 with g | ⟨g1, g2, _⟩
        · rw [g]
        · rw [g1, g2]; constructor <;> (intro x; cases x)
  unfold read
  simp only [bind_eq, run_bind_res, hf, pure_eq]
  unfold readHash
  have hfs : (run env' (find cfg l.cache k) (run env (lcommit cfg l) fs).2.1).2.1 =
      (run env (lcommit cfg l) fs).2.1 := by
    obtain ⟨_, _, h3⟩ :=
      link_declared_match_total_keyed cfg env l k fs cpath nd mv hk hz hs hcp hd hI hsit
    exact (run_find cfg l.cache env' k _ (h3 hw hlen).1).2
  simp only [linkEntry, ha, hcp, bind_eq, pure_eq, call, bind_sys, bind_done, run_sys_res, exec,
    hfs, hr, hchk, if_true, run_done_res]

/-! ### T4: `ToLinker::open*` (`lopenAuto`), any partial reads, commit -/

/-- The linker `lopenAuto` hands out for a target that reads `b`: SHA-256, the absolute link text,
the target's bytes, and the target's CURRENT size as the declared size. -/
def autoLinker (cache : Path) (key : Option Bytes) (t : Target) (b : Bytes) : Linker :=
  { cache := cache, key := key, algo := .sha256, target := .abs (targetFromCwd t), data := b, pos := 0,
    opts := { algo := some .sha256, size := some b.length } }

/-- `lopenAuto` on a readable target: it succeeds with `autoLinker` and changes nothing. -/
theorem run_lopenAuto (cache : Path) (key : Option Bytes) (t : Target) (fs : FS) (b : Bytes)
    (h : fs.readFile (targetFromCwd t) = .ok b) :
    (run env (lopenAuto cache key t) fs).1 = .ok (autoLinker cache key t b) ∧
    (run env (lopenAuto cache key t) fs).2.1 = fs := by
  unfold lopenAuto lopen autoLinker
  simp only [bind_eq, pure_eq, call, bind_sys, bind_done, run_sys_res, run_sys_fs, exec, h,
    run_done_res, run_done_fs, Option.getD_some]
  exact ⟨trivial, trivial⟩

/-- … and on an unreadable one it reports the error (nothing changes). -/
theorem run_lopenAuto_error (cache : Path) (key : Option Bytes) (t : Target) (fs : FS) (e : EK)
    (h : fs.readFile (targetFromCwd t) = .error e) :
    (run env (lopenAuto cache key t) fs).1 = .error (.io e) ∧
    (run env (lopenAuto cache key t) fs).2.1 = fs := by
  unfold lopenAuto
  simp only [bind_eq, pure_eq, call, bind_sys, bind_done, run_sys_res, run_sys_fs, exec, h,
    run_done_res, run_done_fs]
  exact ⟨trivial, trivial⟩

/-- Any number of `read`s with any buffer sizes. -/
def readsN (l : Linker) : List Nat → Linker
  | [] => l
  | n :: ns => readsN (l.read n).1 ns

/-- Reading moves the cursor only. -/
theorem readsN_eq (l : Linker) (ns : List Nat) : readsN l ns = { l with pos := (readsN l ns).pos } := by
  induction ns generalizing l with
  | nil => rfl
  | cons n ns ih =>
    show readsN (l.read n).1 ns = { l with pos := (readsN (l.read n).1 ns).pos }
    rw [ih (l.read n).1]
    rfl

/-- The commit does not look at the cursor (it hashes the whole target: what was not read by the
caller is consumed by `commit`). -/
theorem lcommit_pos (l : Linker) (p : Nat) : lcommit cfg { l with pos := p } = lcommit cfg l := rfl

theorem lcommit_readsN (l : Linker) (ns : List Nat) : lcommit cfg (readsN l ns) = lcommit cfg l := by
  rw [readsN_eq, lcommit_pos]

/-- The reads hand out consecutive pieces of the target's bytes, never more than is there. -/
theorem read_chunk (l : Linker) (n : Nat) :
    (l.read n).2 = (l.data.drop l.pos).take n ∧ (l.read n).1.pos = l.pos + (l.read n).2.length ∧
    (l.read n).1.data = l.data := ⟨rfl, rfl, rfl⟩

theorem optsWF_auto (k : Bytes) (n : Nat) (hk : Json.utf8Valid k = true) (hn : n ≤ Rec.u64Max) :
    OptsWF k { algo := some .sha256, size := some n } :=
  ⟨hk, by simp, fun m hm => by cases hm; exact hn, by simp, by simp⟩

/-- **T4, by address.**  `lopenAuto` of a readable target (it declares the size the target has at
open time), any number of `read`s, then `commit`, on the unchanged filesystem, in each of the four
situations at the address of the target's bytes: the commit SUCCEEDS (the declared size is the
number of bytes hashed) with the SHA-256 integrity of the target's bytes; nothing but the link phase
happened. -/
theorem lopenAuto_reads_commit_total (cache : Path) (t : Target) (fs : FS) (b : Bytes) (ns : List Nat)
    (cpath : Path) (nd : Node) (mv : Bool)
    (hread : fs.readFile (targetFromCwd t) = .ok b)
    (hcp : contentPath cache (Sri.compute cfg.H .sha256 b) = some cpath)
    (hd : ∀ q, q ≠ [] → q <+: FS.parent cpath → NoneOrDir fs q)
    (hsit : Situation fs (autoLinker cache none t b) cpath nd mv) :
    ∃ l, (run env (lopenAuto cache none t) fs).1 = .ok l ∧
      (run env (lopenAuto cache none t) fs).2.1 = fs ∧
      l.opts.size = some b.length ∧
      (run env (lcommit cfg (readsN l ns)) fs).1 = .ok (Sri.compute cfg.H .sha256 b) ∧
      OnlyLinked cfg l fs cpath nd mv (run env (lcommit cfg (readsN l ns)) fs).2.1 := by
  obtain ⟨o1, o2⟩ := run_lopenAuto env cache none t fs b hread
  refine ⟨autoLinker cache none t b, o1, o2, rfl, ?_⟩
  rw [lcommit_readsN]
  exact link_declared_match_total cfg env (autoLinker cache none t b) fs cpath nd mv rfl (Or.inr rfl)
    (Or.inl rfl) hcp hd hsit

/-- **T4, keyed.**  … and for a key `k` on a healthy index: the commit succeeds, the key then maps
to an entry whose SIZE IS THE TARGET'S LENGTH (and whose integrity is the SHA-256 of its bytes),
and every other key looks up as before. -/
theorem lopenAuto_reads_commit_total_keyed (cache : Path) (k : Bytes) (t : Target) (fs : FS) (b : Bytes)
    (ns : List Nat) (cpath : Path) (nd : Node) (mv : Bool)
    (hread : fs.readFile (targetFromCwd t) = .ok b)
    (hcp : contentPath cache (Sri.compute cfg.H .sha256 b) = some cpath)
    (hd : ∀ q, q ≠ [] → q <+: FS.parent cpath → NoneOrDir fs q)
    (hI : HealthyIndex cfg cache fs)
    (hsit : Situation fs (autoLinker cache (some k) t b) cpath nd mv)
    (hk : Json.utf8Valid k = true) (hlen : b.length ≤ Rec.u64Max) (env' : Env) :
    ∃ l, (run env (lopenAuto cache (some k) t) fs).1 = .ok l ∧
      (run env (lopenAuto cache (some k) t) fs).2.1 = fs ∧
      (run env (lcommit cfg (readsN l ns)) fs).1 = .ok (Sri.compute cfg.H .sha256 b) ∧
      (run env' (find cfg cache k) (run env (lcommit cfg (readsN l ns)) fs).2.1).1 =
        .ok (some { key := k, sri := Sri.compute cfg.H .sha256 b, time := env.clock % (timeMax + 1),
                    size := b.length, metadata := .null, raw := none }) ∧
      ∀ k', k' ≠ k →
        (run env' (find cfg cache k') (run env (lcommit cfg (readsN l ns)) fs).2.1).1 =
          (run env' (find cfg cache k') fs).1 := by
  obtain ⟨o1, o2⟩ := run_lopenAuto env cache (some k) t fs b hread
  refine ⟨autoLinker cache (some k) t b, o1, o2, ?_⟩
  rw [lcommit_readsN]
  have hz : (autoLinker cache (some k) t b).opts.size = none ∨
      (autoLinker cache (some k) t b).opts.size = some (autoLinker cache (some k) t b).data.length :=
    Or.inr rfl
  obtain ⟨r, _, _⟩ := link_declared_match_total_keyed cfg env (autoLinker cache (some k) t b) k fs cpath
    nd mv rfl hz (Or.inl rfl) hcp hd hI hsit
  obtain ⟨f1, f2⟩ := link_declared_match_find_keyed cfg env (autoLinker cache (some k) t b) k fs cpath
    nd mv rfl hz (Or.inl rfl) hcp hd hI hsit (optsWF_auto k _ hk hlen) hlen
    (fun s hs => by cases hs) env'
  exact ⟨r, f1, f2⟩

/-! ### T5: when does the commit succeed, and what does it answer -/

/-- The size declaration is absent or names the number of bytes of the target. -/
def SizeOk (l : Linker) : Prop := l.opts.size = none ∨ l.opts.size = some l.data.length

/-- The integrity declaration is absent or accepted for the computed integrity (`declaredOk`:
the commit-time check of ordinary writers). -/
def IntegrityOk (l : Linker) : Prop :=
  l.opts.sri = none ∨ ∃ s, l.opts.sri = some s ∧
    (Sri.declaredOk s (Sri.compute cfg.H l.algo l.data)).isSome

/-- The declaration check accepts exactly when both declarations are absent or hold. -/
theorem declCheck_ok_iff (o : WriteOpts) (len : Nat) (wsri : Integrity) :
    (∃ r, declCheck o len wsri = .ok r) ↔
      ((o.size = none ∨ o.size = some len) ∧
        (o.sri = none ∨ ∃ s, o.sri = some s ∧ (Sri.declaredOk s wsri).isSome)) := by
  constructor
  · rintro ⟨r, h⟩
    have hI : o.sri = none ∨ ∃ s, o.sri = some s ∧ (Sri.declaredOk s wsri).isSome := by
      cases hs : o.sri with
      | none => exact Or.inl rfl
      | some s =>
        cases hm : Sri.declaredOk s wsri with
        | none => rw [declCheck_mismatch len hs hm] at h; cases h
        | some a => exact Or.inr ⟨s, rfl, by rw [hm]; rfl⟩
    refine ⟨?_, hI⟩
    cases hz : o.size with
    | none => exact Or.inl rfl
    | some n =>
      by_cases hn : n = len
      · exact Or.inr (by rw [hn])
      · rw [declCheck_size_mismatch hz hn hI] at h; cases h
  · rintro ⟨hz, hs⟩
    exact ⟨_, declCheck_accept hz hs⟩

/-- The answer of a link commit whose link phase succeeds (and whose index insertion, if any,
runs on a healthy index): the error of the declaration check — integrity before size, exactly the
function `declCheck` that `commitChecks` of ordinary writers is (`CacheRefine.commitChecks_eq`) —,
else the recorded integrity for a keyed linker and the computed one for a linker by address. -/
def linkAnswer (l : Linker) : Res Integrity :=
  match declCheck l.opts l.data.length (Sri.compute cfg.H l.algo l.data) with
  | .error e => .error e
  | .ok r =>
    match l.key with
    | some _ => .ok r
    | none => .ok (Sri.compute cfg.H l.algo l.data)

theorem lcommit_answer (l : Linker) (fs : FS) (s0 : Integrity)
    (hph : (run env (lcommit cfg (bare l)) fs).1 = .ok s0)
    (hins : l.key = none ∨ HealthyIndex cfg l.cache (run env (lcommit cfg (bare l)) fs).2.1) :
    (run env (lcommit cfg l) fs).1 = linkAnswer cfg l := by
  obtain ⟨e1, _⟩ := run_lcommit_of_phase cfg env l fs _ hph
  rw [e1]
  unfold linkAnswer
  cases hck : declCheck l.opts l.data.length (Sri.compute cfg.H l.algo l.data) with
  | error e => exact (run_declTail_error cfg env l e hck _).1
  | ok r =>
    cases hk : l.key with
    | none => exact (run_declTail_none cfg env l r hck hk _).1
    | some k =>
      rcases hins with hn | hI
      · rw [hk] at hn; cases hn
      · rw [declTail_keyed cfg l r k hck hk, (run_insert cfg l.cache env k _ _ hI).1]
        rfl

/-- **T5. The decision, packaged.**  `commit` answers `.ok _` IF AND ONLY IF the link phase (the
commit of the bare linker: `content_path`, `create_dir_all`, symlink / repair) answers ok, the size
declaration is absent or equals the target's length, and the integrity declaration is absent or
accepted by `declaredOk` — provided the index insertion of a keyed linker runs on a healthy index
(where it cannot fail). -/
theorem lcommit_ok_iff (l : Linker) (fs : FS)
    (hins : l.key = none ∨ HealthyIndex cfg l.cache (run env (lcommit cfg (bare l)) fs).2.1) :
    (∃ s, (run env (lcommit cfg l) fs).1 = .ok s) ↔
      ((∃ s0, (run env (lcommit cfg (bare l)) fs).1 = .ok s0) ∧ SizeOk l ∧ IntegrityOk cfg l) := by
  cases hph : (run env (lcommit cfg (bare l)) fs).1 with
  | error e =>
    rw [(run_lcommit_of_phase_error cfg env l fs e hph).1]
    constructor
    · rintro ⟨s, h⟩; cases h
    · rintro ⟨⟨s0, h⟩, _⟩; cases h
  | ok s0 =>
    rw [lcommit_answer cfg env l fs s0 hph hins]
    unfold linkAnswer SizeOk IntegrityOk
    rw [← declCheck_ok_iff]
    constructor
    · rintro ⟨s, h⟩
      refine ⟨⟨s0, rfl⟩, ?_⟩
      cases hck : declCheck l.opts l.data.length (Sri.compute cfg.H l.algo l.data) with
      | error e => rw [hck] at h; cases h
      | ok r => exact ⟨r, rfl⟩
    · rintro ⟨_, r, hck⟩
      rw [hck]
      cases l.key with
      | none => exact ⟨_, rfl⟩
      | some k => exact ⟨_, rfl⟩

/-- **T5 in the four situations**, on a healthy index: the link phase succeeds there, so the commit
answers `linkAnswer`, and it answers `.ok _` iff the size declaration is absent or right and the
integrity declaration is absent or accepted. -/
theorem link_commit_decision (l : Linker) (fs : FS) (cpath : Path) (nd : Node) (mv : Bool)
    (hcp : contentPath l.cache (Sri.compute cfg.H l.algo l.data) = some cpath)
    (hd : ∀ q, q ≠ [] → q <+: FS.parent cpath → NoneOrDir fs q)
    (hI : l.key = none ∨ HealthyIndex cfg l.cache fs)
    (hsit : Situation fs l cpath nd mv) :
    (run env (lcommit cfg l) fs).1 = linkAnswer cfg l ∧
    ((∃ s, (run env (lcommit cfg l) fs).1 = .ok s) ↔ (SizeOk l ∧ IntegrityOk cfg l)) := by
  obtain ⟨r, ph⟩ := phase_total cfg env l fs cpath nd mv hcp hd hsit
  have hins : l.key = none ∨ HealthyIndex cfg l.cache (run env (lcommit cfg (bare l)) fs).2.1 := by
    rcases hI with h | h
    · exact Or.inl h
    · exact Or.inr (ph.index cfg (cpath_eq cfg hcp) h).1
  refine ⟨lcommit_answer cfg env l fs _ r hins, ?_⟩
  rw [lcommit_ok_iff cfg env l fs hins]
  constructor
  · exact fun h => h.2
  · exact fun h => ⟨⟨_, r⟩, h⟩

/-! ### non-vacuity -/

section NonVacuity

/-- Each of the four situations arises, for every digest function and every linker: nothing at the
address (the empty filesystem), a regular file there, a dangling earlier link there … -/
example (l : Linker) (a : Algo) (hx : Bytes) : Situation FS.empty l (addrPath l.cache a hx) (.link l.target) false :=
  .fresh rfl

example (l : Linker) (a : Algo) (hx : Bytes) (b : Bytes) :
    Situation (FS.empty.put (addrPath l.cache a hx) (.file b)) l (addrPath l.cache a hx) (.file b) false :=
  .file b (FS.get_put_same _ _ _)

example (l : Linker) (a : Algo) (hx : Bytes) :
    Situation (FS.empty.put (addrPath l.cache a hx) (.link (.abs (addrPath l.cache a hx ++ [[120]]))))
      l (addrPath l.cache a hx) (.link l.target) true :=
  .relink _ (FS.get_put_same _ _ _) (seed_notSame _ _ _ _ _)
    (put_keeps_chain FS.empty _ _ _ (addr_not_prefix_tmpDir _ _ _) (empty_chain _))

/-- … and an earlier link that already leads to the target file `/t` of `LinkRefine.l0`. -/
example :
    let cpath := addrPath l0.cache l0.algo (Bytes.hex (LinkRefine.cfg0.H l0.algo l0.data))
    Situation ((FS.empty.put cpath (.link (.abs [[116]]))).put [[116]] (.file [1, 2, 3])) l0 cpath
      (.link (.abs [[116]])) false := by
  intro cpath
  have hne : ([[116]] : Path) ≠ cpath := by
    intro e
    have := congrArg List.length e
    rw [addrPath_length] at this
    simp at this
  have hold : ((FS.empty.put cpath (.link (.abs [[116]]))).put [[116]] (.file [1, 2, 3])).get cpath =
      some (.link (.abs [[116]])) := by
    rw [FS.get_put_ne _ _ hne.symm, FS.get_put_same]
  have hfile : ((FS.empty.put cpath (.link (.abs [[116]]))).put [[116]] (.file [1, 2, 3])).get [[116]] =
      some (.file [1, 2, 3]) := FS.get_put_same _ _ _
  exact .same _ hold (sameFile_of_eq hold rfl (by
      show (FS.get _ [[116]]).isSome = true
      rw [hfile]; rfl)
    (by intro t; show FS.get _ [[116]] ≠ _; rw [hfile]; intro e; cases e))

section
variable (l : Linker) (hl : 4 ≤ (Bytes.hex (cfg.H l.algo l.data)).length)
include hl

/-- T1 on the empty filesystem, for EVERY digest function with ≥ 4 hex digits and every linker
(keyed or not) with a wrong declared size and no declared integrity: the size error; the address
links to the target nevertheless; every lookup answers as on the empty filesystem. -/
example (n : Nat) (hz : l.opts.size = some n) (hne : n ≠ l.data.length) (hs : l.opts.sri = none)
    (env' : Env) (k' : Bytes) :
    (run env (lcommit cfg l) FS.empty).1 = .error (.size n l.data.length) ∧
    (run env (lcommit cfg l) FS.empty).2.1.get
      (addrPath l.cache l.algo (Bytes.hex (cfg.H l.algo l.data))) = some (.link l.target) ∧
    (run env' (find cfg l.cache k') (run env (lcommit cfg l) FS.empty).2.1).1 =
      (run env' (find cfg l.cache k') FS.empty).1 := by
  obtain ⟨r, o⟩ := link_declared_size_mismatch_total cfg env l FS.empty _ _ _ n hz hne (Or.inl hs)
    (contentPath_of_len cfg l hl) (empty_chain _) (.fresh rfl)
  exact ⟨r, o.phase.addr, o.lookups
    (Refine.healthy_of_empty_cache cfg l.cache FS.empty (fun _ _ _ => Or.inl rfl) (fun _ _ _ => rfl))
    env' k'⟩

/-- T1 onto a dangling earlier link: the size error, the address re-pointed at the target, the temp
link gone. -/
example (n : Nat) (hz : l.opts.size = some n) (hne : n ≠ l.data.length) (hs : l.opts.sri = none) :
    let cpath := addrPath l.cache l.algo (Bytes.hex (cfg.H l.algo l.data))
    let fs := FS.empty.put cpath (.link (.abs (cpath ++ [[120]])))
    (run env (lcommit cfg l) fs).1 = .error (.size n l.data.length) ∧
    (run env (lcommit cfg l) fs).2.1.get cpath = some (.link l.target) ∧
    (run env (lcommit cfg l) fs).2.1.get (tmpP l fs) = none := by
  intro cpath fs
  have hd := put_keeps_chain FS.empty cpath (FS.parent cpath) (.link (.abs (cpath ++ [[120]])))
    (addr_not_prefix_parent _ _ _ _ _) (empty_chain _)
  obtain ⟨r, o⟩ := link_declared_size_mismatch_total cfg env l fs cpath _ _ n hz hne (Or.inl hs)
    (contentPath_of_len cfg l hl) hd
    (.relink _ (FS.get_put_same _ _ _) (seed_notSame _ _ _ _ _)
      (put_keeps_chain FS.empty _ _ _ (addr_not_prefix_tmpDir _ _ _) (empty_chain _)))
  exact ⟨r, o.phase.addr, o.phase.tmp⟩

/-- T2 on the empty filesystem, for every digest function with ≥ 4 hex digits and every linker
whose declared integrity is not accepted — whatever its declared size. -/
example (s : Integrity) (hs : l.opts.sri = some s)
    (hm : Sri.declaredOk s (Sri.compute cfg.H l.algo l.data) = none) (env' : Env) (k' : Bytes) :
    (run env (lcommit cfg l) FS.empty).1 = .error .integrity ∧
    (run env' (find cfg l.cache k') (run env (lcommit cfg l) FS.empty).2.1).1 =
      (run env' (find cfg l.cache k') FS.empty).1 := by
  obtain ⟨r, o⟩ := link_declared_integrity_mismatch_total cfg env l FS.empty _ _ _ s hs hm
    (contentPath_of_len cfg l hl) (empty_chain _) (.fresh rfl)
  exact ⟨r, o.lookups
    (Refine.healthy_of_empty_cache cfg l.cache FS.empty (fun _ _ _ => Or.inl rfl) (fun _ _ _ => rfl))
    env' k'⟩

end

/-- Concrete linkers over `LinkRefine.cfg0`, cache `/c`, target `/t` holding `[1, 2, 3]`, key `k`:
a wrong declared size; a declared SHA-512 hash (the linker hashes with SHA-256); the right single
hash together with the right size. -/
def lSize : Linker := { l1 with opts := { size := some 7 } }
def lSri : Linker := { l1 with opts := { sri := some [{ algo := .sha512, digest := [65, 65, 65, 65] }] } }
def lBoth : Linker :=
  { l1 with opts := { sri := some (Sri.compute LinkRefine.cfg0.H .sha256 [1, 2, 3]), size := some 3 } }

/-- The filesystem holding nothing but the target file `/t`. -/
def fsT : FS := FS.empty.put [[116]] (.file [1, 2, 3])

theorem t_not_below_cache (d : Path) : ¬ ([[116]] : Path) <+: ([[99]] : Path) ++ d := by
  intro h
  have := List.cons_prefix_cons.mp (show ([116] : Bytes) :: [] <+: [99] :: d from h)
  simp at this

theorem cache_not_prefix_t : ¬ ([[99]] : Path) <+: ([[116]] : Path) := by
  intro h
  have := List.cons_prefix_cons.mp (show ([99] : Bytes) :: [] <+: [116] :: [] from h)
  simp at this

theorem healthy_fsT : HealthyIndex LinkRefine.cfg0 [[99]] fsT := by
  have hI0 : HealthyIndex LinkRefine.cfg0 [[99]] FS.empty :=
    Refine.healthy_of_empty_cache _ _ FS.empty (fun _ _ _ => Or.inl rfl) (fun _ _ _ => rfl)
  refine (healthyIndex_grow LinkRefine.cfg0 [[99]] hI0 ?_ ?_).1
  · intro key
    have h1 : bucketPath LinkRefine.cfg0 [[99]] key ≠ [[116]] := by
      intro e
      have := congrArg List.length e
      rw [bucket_length] at this
      simp at this
    exact FS.get_put_ne _ _ h1
  · intro key q _ hq
    left
    have h1 : q ≠ [[116]] := by
      intro e; subst e
      have hp : FS.parent (bucketPath LinkRefine.cfg0 [[99]] key) = [[99]] ++
          [dIndex, (keyHex LinkRefine.cfg0 key).take 2, ((keyHex LinkRefine.cfg0 key).drop 2).take 2] := by
        simp [bucketPath, FS.parent]
      rw [hp] at hq
      exact t_not_below_cache _ hq
    exact FS.get_put_ne _ _ h1

theorem chain_fsT (a : Algo) (hx : Bytes) :
    ∀ q, q ≠ [] → q <+: FS.parent (addrPath [[99]] a hx) → NoneOrDir fsT q :=
  put_keeps_chain _ [[116]] _ _ (by rw [parent_addr_eq]; exact t_not_below_cache _) (empty_chain _)

theorem fresh_fsT (l : Linker) (a : Algo) (hx : Bytes) :
    Situation fsT l (addrPath [[99]] a hx) (.link l.target) false := by
  refine .fresh ?_
  have hne : addrPath [[99]] a hx ≠ ([[116]] : Path) := by
    intro e
    have := congrArg List.length e
    rw [addrPath_length] at this
    simp at this
  exact FS.get_put_ne _ _ hne

/-- T1, concretely (keyed): declared size 7, target of 3 bytes: `.error (.size 7 3)`; the address
links to `/t`; the key is not found afterwards; `/t` is unchanged. -/
example :
    (run env (lcommit LinkRefine.cfg0 lSize) fsT).1 = .error (.size 7 3) ∧
    (run env (lcommit LinkRefine.cfg0 lSize) fsT).2.1.get
      (addrPath [[99]] .sha256 (Bytes.hex [0, 0])) = some (.link (.abs [[116]])) ∧
    (run env (find LinkRefine.cfg0 [[99]] [107]) (run env (lcommit LinkRefine.cfg0 lSize) fsT).2.1).1 =
      .ok none ∧
    (run env (lcommit LinkRefine.cfg0 lSize) fsT).2.1.get [[116]] = some (.file [1, 2, 3]) := by
  obtain ⟨r, o⟩ := link_declared_size_mismatch_total LinkRefine.cfg0 env lSize fsT _ _ _ 7 rfl
    (by decide) (Or.inl rfl) (contentPath_of_len LinkRefine.cfg0 lSize (len0 lSize)) (chain_fsT _ _)
    (fresh_fsT lSize _ _)
  refine ⟨r, o.phase.addr, ?_, ?_⟩
  · refine (o.lookups healthy_fsT env [107]).trans ?_
    show (run env (find LinkRefine.cfg0 [[99]] [107]) fsT).1 = .ok none
    rw [(run_find LinkRefine.cfg0 [[99]] env [107] fsT healthy_fsT).1]
    have : fsT.get (bucketPath LinkRefine.cfg0 [[99]] [107]) = none := by
      have h1 : bucketPath LinkRefine.cfg0 [[99]] [107] ≠ [[116]] := by
        intro e
        have := congrArg List.length e
        rw [bucket_length] at this
        simp at this
      exact FS.get_put_ne _ _ h1
    unfold absIndex
    rw [this]
  · exact o.target_kept LinkRefine.cfg0 rfl [[116]] _
      cache_not_prefix_t (FS.get_put_same _ _ _)

/-- T2, concretely (keyed): a declared SHA-512 hash, the linker hashing with SHA-256:
`.error .integrity`, the abstract index unchanged. -/
example :
    (run env (lcommit LinkRefine.cfg0 lSri) fsT).1 = .error .integrity ∧
    absIndex LinkRefine.cfg0 [[99]] (run env (lcommit LinkRefine.cfg0 lSri) fsT).2.1 =
      absIndex LinkRefine.cfg0 [[99]] fsT := by
  obtain ⟨r, o⟩ := link_declared_integrity_mismatch_total LinkRefine.cfg0 env lSri fsT _ _ _ _ rfl
    (C08.declaredOk_other_algorithm _ _ _ _ rfl)
    (contentPath_of_len LinkRefine.cfg0 lSri (len0 lSri)) (chain_fsT _ _) (fresh_fsT lSri _ _)
  exact ⟨r, (o.healthy healthy_fsT).2⟩

theorem optsWF_lBoth : OptsWF [107] lBoth.opts :=
  ⟨by decide, by simp [lBoth, l1, l0],
    by intro n hn; simp [lBoth, l1, l0] at hn; subst hn; simp [Rec.u64Max],
    by intro s hs; simp [lBoth, l1, l0] at hs; subst hs; exact Sri.compute_wf _ _ _,
    by simp [lBoth, l1, l0]⟩

/-- T3, concretely (keyed): the right single hash and the right size declared: the commit answers
the declared integrity, the key's entry carries it and `size = 3`, and `read` of the key answers
the target's bytes. -/
example :
    (run env (lcommit LinkRefine.cfg0 lBoth) fsT).1 = .ok (Sri.compute LinkRefine.cfg0.H .sha256 [1, 2, 3]) ∧
    (run env (find LinkRefine.cfg0 [[99]] [107]) (run env (lcommit LinkRefine.cfg0 lBoth) fsT).2.1).1 =
      .ok (some { key := [107], sri := Sri.compute LinkRefine.cfg0.H .sha256 [1, 2, 3],
                  time := env.clock % (timeMax + 1), size := 3, metadata := .null, raw := none }) ∧
    (run env (read LinkRefine.cfg0 [[99]] [107]) (run env (lcommit LinkRefine.cfg0 lBoth) fsT).2.1).1 =
      .ok [1, 2, 3] := by
  have hz : lBoth.opts.size = none ∨ lBoth.opts.size = some lBoth.data.length := Or.inr rfl
  have hm : (Sri.declaredOk (Sri.compute LinkRefine.cfg0.H .sha256 [1, 2, 3])
      (Sri.compute LinkRefine.cfg0.H lBoth.algo lBoth.data)).isSome := declaredOk_cons_self _ []
  have hs : lBoth.opts.sri = none ∨ ∃ s, lBoth.opts.sri = some s ∧
      (Sri.declaredOk s (Sri.compute LinkRefine.cfg0.H lBoth.algo lBoth.data)).isSome :=
    Or.inr ⟨_, rfl, hm⟩
  have hcp := contentPath_of_len LinkRefine.cfg0 lBoth (len0 lBoth)
  have hrt : ∀ s, lBoth.opts.sri = some s → SriRT s := by
    intro s hs'; cases hs'; exact sriRT_compute _ _ _
  refine ⟨(link_declared_match_total_keyed LinkRefine.cfg0 env lBoth [107] fsT _ _ _ rfl hz hs hcp
      (chain_fsT _ _) healthy_fsT (fresh_fsT lBoth _ _)).1,
    (link_declared_match_find_keyed LinkRefine.cfg0 env lBoth [107] fsT _ _ _ rfl hz hs hcp
      (chain_fsT _ _) healthy_fsT (fresh_fsT lBoth _ _) optsWF_lBoth (by simp [lBoth, l1, l0, Rec.u64Max])
      hrt env).1,
    link_declared_match_readable_keyed LinkRefine.cfg0 env lBoth [107] fsT _ _ _ rfl hz hs
      (addrCoincides_single LinkRefine.cfg0 lBoth _ rfl hm) hcp (chain_fsT _ _) healthy_fsT
      (fresh_fsT lBoth _ _) optsWF_lBoth (by simp [lBoth, l1, l0, Rec.u64Max]) hrt [[116]] rfl (by simp)
      cache_not_prefix_t (FS.get_put_same _ _ _)
      (by intro b hb; cases hb) env⟩

/-- T4, concretely: `lopenAuto` of `/t` under key `k`, a 1-byte read and a 5-byte read, commit:
ok, and the entry's size is 3. -/
example :
    ∃ l, (run env (lopenAuto [[99]] (some [107]) (.abs [[116]])) fsT).1 = .ok l ∧
      (run env (lcommit LinkRefine.cfg0 (readsN l [1, 5])) fsT).1 =
        .ok (Sri.compute LinkRefine.cfg0.H .sha256 [1, 2, 3]) ∧
      (run env (find LinkRefine.cfg0 [[99]] [107])
        (run env (lcommit LinkRefine.cfg0 (readsN l [1, 5])) fsT).2.1).1 =
        .ok (some { key := [107], sri := Sri.compute LinkRefine.cfg0.H .sha256 [1, 2, 3],
                    time := env.clock % (timeMax + 1), size := 3, metadata := .null, raw := none }) := by
  have hread : fsT.readFile (targetFromCwd (.abs [[116]])) = .ok [1, 2, 3] :=
    readFile_file (by simp [targetFromCwd]) (FS.get_put_same _ _ _)
  obtain ⟨l, h1, _, h3, h4, _⟩ := lopenAuto_reads_commit_total_keyed LinkRefine.cfg0 env [[99]] [107]
    (.abs [[116]]) fsT [1, 2, 3] [1, 5] _ _ _ hread
    (contentPath_of_len LinkRefine.cfg0 (autoLinker [[99]] (some [107]) (.abs [[116]]) [1, 2, 3])
      (len0 _))
    (chain_fsT _ _) healthy_fsT (fresh_fsT _ _ _) (by decide) (by simp [Rec.u64Max]) env
  exact ⟨l, h1, h3, h4⟩

/-- T5, concretely: of the three linkers above exactly the one whose declarations hold commits. -/
example :
    (¬ ∃ s, (run env (lcommit LinkRefine.cfg0 lSize) fsT).1 = .ok s) ∧
    (¬ ∃ s, (run env (lcommit LinkRefine.cfg0 lSri) fsT).1 = .ok s) ∧
    (∃ s, (run env (lcommit LinkRefine.cfg0 lBoth) fsT).1 = .ok s) := by
  refine ⟨?_, ?_, ?_⟩
  · rw [(link_commit_decision LinkRefine.cfg0 env lSize fsT _ _ _
      (contentPath_of_len LinkRefine.cfg0 lSize (len0 lSize)) (chain_fsT _ _) (Or.inr healthy_fsT)
      (fresh_fsT lSize _ _)).2]
    rintro ⟨h | h, _⟩ <;> cases h
  · rw [(link_commit_decision LinkRefine.cfg0 env lSri fsT _ _ _
      (contentPath_of_len LinkRefine.cfg0 lSri (len0 lSri)) (chain_fsT _ _) (Or.inr healthy_fsT)
      (fresh_fsT lSri _ _)).2]
    rintro ⟨_, h | ⟨s, h, hm⟩⟩
    · cases h
    · cases h
      exact absurd hm (by decide)
  · rw [(link_commit_decision LinkRefine.cfg0 env lBoth fsT _ _ _
      (contentPath_of_len LinkRefine.cfg0 lBoth (len0 lBoth)) (chain_fsT _ _) (Or.inr healthy_fsT)
      (fresh_fsT lBoth _ _)).2]
    exact ⟨Or.inr rfl, Or.inr ⟨_, rfl, declaredOk_cons_self _ []⟩⟩

end NonVacuity

end Cacache.LinkDecl

section AxiomCheck
open Cacache.LinkDecl
#print axioms lcommit_split
#print axioms phase_total
#print axioms link_declared_size_mismatch_total
#print axioms link_declared_integrity_mismatch_total
#print axioms link_declared_match_total
#print axioms link_declared_match_total_keyed
#print axioms link_declared_match_find_keyed
#print axioms declaredOk_single_contentPath
#print axioms link_declared_match_readHash
#print axioms link_declared_match_readable_keyed
#print axioms lopenAuto_reads_commit_total
#print axioms lopenAuto_reads_commit_total_keyed
#print axioms lcommit_answer
#print axioms lcommit_ok_iff
#print axioms link_commit_decision
end AxiomCheck
