/-
Line-protocol driver for the model (see /verif/PROTOCOL.md).  Imports model files only, so it
links as a `lean_exe`.  One ops line in, one result line out.
-/
import Cacache.Ops
import Cacache.Sha
import Cacache.ShaCfg

open Cacache

/-! ### token helpers -/

def hexOfBytes (b : Bytes) : String :=
  String.ofList ((Bytes.hex b).map (fun c => Char.ofNat c.toNat))

def tokB (b : Bytes) : String := "x" ++ hexOfBytes b

def strBytes (s : String) : Bytes := s.toUTF8.toList

def parseB (t : String) : Option Bytes :=
  match strBytes t with
  | 120 :: rest => Bytes.unhex rest
  | _ => none

def parseOptB (t : String) : Option (Option Bytes) :=
  if t == "-" then some none else (parseB t).map some

def parsePath (t : String) : Path :=
  (t.splitOn "/").filter (· ≠ "") |>.map strBytes

def pathStr (p : Path) : String :=
  "/".intercalate (p.map (fun c => String.ofList (c.map (fun b => Char.ofNat b.toNat))))

def parseTarget (t : String) : Option Target :=
  if t.startsWith "abs:" then some (.abs (parsePath (t.drop 4).toString))
  else if t.startsWith "rel:" then some (.rel (parsePath (t.drop 4).toString))
  else none

def parseAlgo (t : String) : Option Algo := Algo.ofName (strBytes t)

def parseFl (t : String) : Option Flavour :=
  if t == "s" then some .sync else if t == "a" then some .async else none

/-- `key=value` option tokens. -/
def optVal (toks : List String) (name : String) : Option String :=
  (toks.find? (fun t => t.startsWith (name ++ "="))).map (fun t => (t.drop (name.length + 1)).toString)

-- The digest function `sha` and the configuration `mkCfg` are in `Cacache/ShaCfg.lean` (`Lemmas/ShaLen.lean` proves the
-- digest lengths, hence `HexLen (mkCfg xx)` - given that every oracle entry has 16 bytes, which `oracle` checks).

/-! ### result formatting -/

def ekStr : EK → String
  | .notFound => "notfound" | .exists => "exists" | .other => "other"

def errStr : Err → String
  | .notFound => "err notfound"
  | .size w a => s!"err size {w} {a}"
  | .integrity => "err integrity"
  | .io e => "err io " ++ ekStr e
  | .stdio e => "err stdio " ++ ekStr e
  | .panic => "panic"

def metaStr (m : Meta) : String :=
  let raw := match m.raw with | none => "-" | some b => tokB b
  s!"meta key={tokB m.key} sri={tokB (Sri.print m.sri)} time={m.time} size={m.size} json={tokB (Json.render m.metadata)} raw={raw}"

def bytesLt : Bytes → Bytes → Bool
  | [], [] => false
  | [], _ :: _ => true
  | _ :: _, [] => false
  | a :: as, b :: bs => if a < b then true else if b < a then false else bytesLt as bs

def insertSorted {α : Type} (lt : α → α → Bool) (x : α) : List α → List α
  | [] => [x]
  | y :: ys => if lt x y then x :: y :: ys else y :: insertSorted lt x ys

def sortBy {α : Type} (lt : α → α → Bool) (l : List α) : List α := l.foldr (insertSorted lt) []

/-! ### driver state -/

structure St where
  fs : FS := FS.empty
  lastTrace : List String := []
  xx : List (Bytes × Bytes) := []
  writers : List (String × Flavour × Writer) := []
  readers : List (String × Reader) := []
  linkers : List (String × Linker) := []

def lookupId {α : Type} (l : List (String × α)) (id : String) : Option α :=
  (l.find? (·.1 == id)).map (·.2)

def eraseId {α : Type} (l : List (String × α)) (id : String) : List (String × α) :=
  l.filter (·.1 != id)

def parseWriteOpts (toks : List String) : Option WriteOpts := do
  let get (n : String) : Option (Option String) :=
    match optVal toks n with
    | none => some none
    | some "-" => some none
    | some v => some (some v)
  let algo ← match ← get "algo" with
    | none => some none
    | some v => (parseAlgo v).map some
  let size ← match ← get "size" with
    | none => some none
    | some v => v.toNat?.map some
  let time ← match ← get "time" with
    | none => some none
    | some v => v.toNat?.map some
  let sri ← match ← get "sri" with
    | none => some none
    | some v => do
      let b ← parseB v
      if !Json.utf8Valid b then none
      let s ← Sri.parse b
      some (some s)
  let md ← match ← get "meta" with
    | none => some none
    | some v => do
      let b ← parseB v
      if !Json.utf8Valid b then none
      let j ← Json.parse b
      some (some j)
  let raw ← match ← get "raw" with
    | none => some none
    | some v => (parseB v).map some
  pure { algo := algo, sri := sri, size := size, time := time, metadata := md, raw := raw }

def parseSriTok (t : String) : Option Integrity := do
  let b ← parseB t
  if !Json.utf8Valid b then none
  Sri.parse b

def parseKey (t : String) : Option Bytes := do
  let b ← parseB t
  if !Json.utf8Valid b then none
  some b

/-! ### the model's call trace as canonical mutation events (TRACE.md) -/

def pathEv (p : Path) : String :=
  if p.length ≥ 2 && p.getD (p.length - 2) [] == dTmp then pathStr (FS.parent p) ++ "/*" else pathStr p

def callEvents (env : Env) (fs : FS) (c : Call) : List String :=
  let r := (exec env fs c).2
  let ok := match r with | .err _ => false | _ => true
  match c with
  | .mkdirP p =>
    -- one event per level that is actually created (whether or not a later level fails)
    let created := (FS.prefixes p).filter (fun q => (fs.get q).isNone)
    let upto := match fs.mkdirP p with
      | .ok _ => created
      | .error _ => created.takeWhile (fun q => ((FS.prefixes q).all (fun x => match fs.get x with | some (.file _) => false | _ => true)))
    upto.map (fun q => "mkdir " ++ pathStr q)
  | .mkTemp dir => if ok then ["mktemp " ++ pathStr dir ++ "/*"] else []
  | .fallocate p n => if ok then [s!"fallocate {pathEv p} {n}"] else []
  | .writeAt p _ d => if ok && d.length > 0 then [s!"write {pathEv p} {d.length}"] else []
  | .truncate p n => if ok then [s!"truncate {pathEv p} {n}"] else []
  | .rename s d => if ok then [s!"rename {pathEv s} {pathEv d}"] else []
  | .openAppend p => if ok then ["open-append-create " ++ pathEv p] else []
  | .appendWrite p d => if ok && d.length > 0 then [s!"write {pathEv p} {d.length}"] else []
  | .unlink p => if ok then ["unlink " ++ pathEv p] else []
  | .hardLink s d => if ok then [s!"link {pathEv s} {pathEv d}"] else []
  | .symlink t p =>
    let tt := match t with | .abs q => "abs:" ++ pathStr q | .rel q => "rel:" ++ pathStr q
    if ok then [s!"symlink {tt} {pathEv p}"] else []
  | .mkTempLink dir t =>
    let tt := match t with | .abs q => "abs:" ++ pathStr q | .rel q => "rel:" ++ pathStr q
    if ok then [s!"symlink {tt} {pathStr dir}/*"] else []
  | .renameLink s d => if ok then [s!"rename {pathEv s} {pathEv d}"] else []
  | .copyFile s d =>
    match r with
    | .nat n => [s!"open-create {pathEv d} O_WRONLY|O_CREAT|O_TRUNC", s!"copy {pathEv s} {pathEv d} {n}"]
    | _ => []
  | .reflink _ _ => []
  | .removeTree p =>
    if ok then
      let below := fs.below p
      let evs := (p :: below).map (fun q => match fs.get q with
        | some .dir => "rmdir " ++ pathEv q
        | some _ => "unlink " ++ pathEv q
        | none => "")
      evs.filter (· ≠ "")
    else []
  | _ => []

def traceEvents (env : Env) : FS → List Call → List String
  | _, [] => []
  | fs, c :: cs => callEvents env fs c ++ traceEvents env (exec env fs c).1 cs

/-- Run a program, thread the filesystem, and report whether the clock was read. -/
def runP {α : Type} (env : Env) (st : St) (p : Prog α) : α × St × Bool :=
  let (a, fs', tr) := Prog.run env p st.fs
  (a, { st with fs := fs', lastTrace := st.lastTrace ++ traceEvents env st.fs tr },
   tr.any (fun c => match c with | .now => true | _ => false))

def nowSuffix (env : Env) (took : Bool) : String :=
  if took then s!" @now={env.clock} @fresh=1" else ""

def resSri (env : Env) (r : Res Integrity) (took : Bool) : String :=
  match r with
  | .ok s => "ok " ++ tokB (Sri.print s) ++ nowSuffix env took
  | .error e => errStr e

def resUnit (env : Env) (r : Res Unit) (took : Bool) : String :=
  match r with
  | .ok _ => "ok" ++ nowSuffix env took
  | .error e => errStr e

def resBytes (r : Res Bytes) : String :=
  match r with
  | .ok b => "ok " ++ tokB b
  | .error e => errStr e

def resNat (r : Res Nat) (show_ : Bool) : String :=
  match r with
  | .ok n => if show_ then s!"ok {n}" else "ok"
  | .error e => errStr e

def lsItemStr : LsItem → String
  | .entry m => metaStr m
  | .err e => errStr e

def lsItemKey : LsItem → Bytes × Bytes
  | .entry m => (1 :: m.key, strBytes (metaStr m))      -- metas first, by key then text
  | .err e => ([2], strBytes (errStr e))

def pairLt (a b : Bytes × Bytes) : Bool :=
  if bytesLt a.1 b.1 then true else if bytesLt b.1 a.1 then false else bytesLt a.2 b.2

/-! ### environment ops on the model filesystem -/

def fsPutFile (fs : FS) (p : Path) (b : Bytes) : FS :=
  match fs.mkdirP (FS.parent p) with
  | .ok fs' => fs'.put p (.file b)
  | .error _ => fs

def dumpEntries (fs : FS) (root : Path) : List String :=
  let ps := fs.below root
  -- canonical names for temp files: rank by content
  let isTmp (p : Path) : Bool := p.length ≥ 2 && p.getD (p.length - 2) [] == dTmp &&
    (match fs.get p with | some (.file _) => true | _ => false)
  let tmps := ps.filter isTmp
  let tmpSorted := sortBy (fun a b =>
      let ca := match fs.get a with | some (.file x) => x | _ => []
      let cb := match fs.get b with | some (.file x) => x | _ => []
      pairLt (strBytes (pathStr (FS.parent a)), ca) (strBytes (pathStr (FS.parent b)), cb)) tmps
  let rankIn (p : Path) : Nat :=
    ((tmpSorted.filter (fun q => FS.parent q == FS.parent p)).findIdx? (· == p)).getD 0
  let name (p : Path) : String :=
    if isTmp p then pathStr (FS.parent p) ++ "/#" ++ toString (rankIn p) else pathStr p
  let items := ps.map (fun p =>
    let n := name p
    match fs.get p with
    | some (.file b) => (strBytes n, s!"f:{n}={tokB b}")
    | some (.link (.abs t)) => (strBytes n, s!"l:{n}=abs:{pathStr t}")
    | some (.link (.rel t)) => (strBytes n, s!"l:{n}=rel:{tokB (strBytes (pathStr t))}")
    | some .dir => (strBytes n, s!"d:{n}")
    | none => (strBytes n, ""))
  (sortBy (fun a b => bytesLt a.1 b.1) items).map (·.2)

/-! ### one step -/

def step (st : St) (line : String) : St × String :=
  let cfg := mkCfg st.xx
  let toks0 := (line.trimAscii.toString.splitOn " ").filter (· ≠ "")
  -- trailing hints
  let nowTok := optVal (toks0.map (fun t => if t.startsWith "@" then (t.drop 1).toString else "")) "now"
  let env : Env := { clock := (nowTok.bind (·.toNat?)).getD 0 }
  let toks1 := toks0.filter (fun t => !t.startsWith "@")
  -- the absolute-cache / other-working-directory spellings of the linker ops denote the same model
  -- operations: the model's linker holds the absolute target from `lopen` on (C19.link_text_absolute)
  let toks := match toks1 with
    | "lopen_abs" :: r => "lopen" :: r
    | "lopen_auto_abs" :: r => "lopen_auto" :: r
    | ["lcommit_cd", l, _] => ["lcommit", l]
    -- with absolute paths the (vanished) working directory plays no part
    | ["link_to_gone", f, c, k, t] => ["link_to", f, c, k, t]
    -- a pending write polled again with a longer slice, the rest handed to write_all: all the bytes, once, in order
    | ["wwrite_grow", w, d1, d2] => ["wwrite", w, d1 ++ (d2.drop 1).toString]
    -- the constructors `Writer::create(_with_algo)` / `SyncWriter::create(_with_algo)` are `open` with nothing declared
    -- chunks handed over with `write_vectored` are the same bytes in the same order
    | "wwritev" :: w :: ds => ["wwrite", w, "x" ++ String.join (ds.map (fun (d : String) => (d.drop 1).toString))]
    -- reading to the end into a vector that already holds something returns the same bytes
    | ["rreadall", rid, _] => ["rreadall", rid]
    -- read_exact of N bytes that are there is one read of N bytes
    | ["rreadexact", rid, n] => ["rread", rid, n]
    -- the removal builder without `remove_fully(true)` is a plain removal
    | ["remove_opts", f, c, k, _] => ["remove", f, c, k]
    | ["lreadexact", lid, n] => ["lread", lid, n]
    | ["lreadall", lid] => ["lread", lid, "67108864"]
    | ["lreadall", lid, _] => ["lread", lid, "67108864"]
    | ["wcreate", f, c, w, k, a] => ["wopen", f, c, w, k, "algo=" ++ a, "size=-", "sri=-", "time=-", "meta=-", "raw=-"]
    -- a target named relative to another working directory is the file <dir>/<rel> below the scratch root
    | ["link_to_cd", f, c, k, rel, dir] => ["link_to", f, c, k, "rel:" ++ dir ++ "/" ++ rel]
    | t => t
  let bad := (st, "err badarg")
  match toks with
  | ["write", f, c, a, k, d] =>
    match parseFl f, parseAlgo a, parseKey k, parseB d with
    | some fl, some al, some key, some data =>
      let (r, st', took) := runP env st (write cfg fl (parsePath c) al key data)
      (st', resSri env r (took && r.isOk))
    | _, _, _, _ => bad
  | ["write_hash", f, c, a, d] =>
    match parseFl f, parseAlgo a, parseB d with
    | some fl, some al, some data =>
      let (r, st', _) := runP env st (writeHash cfg fl (parsePath c) al data)
      (st', resSri env r false)
    | _, _, _ => bad
  | "wopen" :: f :: c :: w :: k :: opts =>
    match parseFl f, parseWriteOpts opts with
    | some fl, some o =>
      let key? : Option (Option Bytes) := if k == "-" then some none else (parseKey k).map some
      match key? with
      | none => bad
      | some key =>
        let (r, st', _) := runP env st (wopen cfg fl (parsePath c) key o)
        match r with
        | .ok wr => ({ st' with writers := (w, fl, wr) :: st'.writers }, "ok")
        | .error e => (st', errStr e)
    | _, _ => bad
  | ["wwrite", w, d] =>
    match lookupId st.writers w, parseB d with
    | some (fl, wr), some data =>
      let (r, st', _) := runP env st (wwriteAll wr [data])
      match r with
      | .ok wr' => ({ st' with writers := (w, fl, wr') :: eraseId st'.writers w }, "ok")
      | .error e => (st', "err stdio " ++ ekStr e)
    | none, some _ => (st, "err badid")
    | _, _ => bad
  | ["wwrite1", w, d] =>
    match lookupId st.writers w, parseB d with
    | some (fl, wr), some data =>
      let (r, st', _) := runP env st (wwrite wr data)
      match r with
      | .ok (wr', n) => ({ st' with writers := (w, fl, wr') :: eraseId st'.writers w }, s!"ok {n}")
      | .error e => (st', "err stdio " ++ ekStr e)
    | none, some _ => (st, "err badid")
    | _, _ => bad
  | ["wflush", w] =>
    match lookupId st.writers w with
    | some _ => (st, "ok")
    | none => (st, "err badid")
  | ["wcommit", w] =>
    match lookupId st.writers w with
    | some (_, wr) =>
      let (r, st', took) := runP env st (wcommit cfg wr)
      ({ st' with writers := eraseId st'.writers w }, resSri env r (took && r.isOk))
    | none => (st, "err badid")
  | ["wcommit_cd", w, dir] =>
    -- the cache was named by a relative path: committed from another working directory, content and index record
    -- both go below THAT directory (the temp file stays where it was created)
    match lookupId st.writers w with
    | some (_, wr) =>
      let (r, st', took) := runP env st (wcommit cfg { wr with cache := parsePath dir ++ wr.cache })
      ({ st' with writers := eraseId st'.writers w }, resSri env r (took && r.isOk))
    | none => (st, "err badid")
  | ["wdrop", w] =>
    match lookupId st.writers w with
    | some (_, wr) =>
      let (_, st', _) := runP env st (dropTmp wr.tmp)
      ({ st' with writers := eraseId st'.writers w }, "ok")
    | none => (st, "err badid")
  | ["read", _, c, k] =>
    match parseKey k with
    | some key => let (r, st', _) := runP env st (read cfg (parsePath c) key); (st', resBytes r)
    | none => bad
  | ["read_hash", _, c, s] =>
    match parseSriTok s with
    | some sri => let (r, st', _) := runP env st (readHash cfg (parsePath c) sri); (st', resBytes r)
    | none => bad
  | ["ropen", _, c, rid, k] =>
    match parseKey k with
    | some key =>
      let (r, st', _) := runP env st (ropen cfg (parsePath c) key)
      match r with
      | .ok rd => ({ st' with readers := (rid, rd) :: st'.readers }, "ok")
      | .error e => (st', errStr e)
    | none => bad
  | ["ropen_hash", _, c, rid, s] =>
    match parseSriTok s with
    | some sri =>
      let (r, st', _) := runP env st (ropenHash (parsePath c) sri)
      match r with
      | .ok rd => ({ st' with readers := (rid, rd) :: st'.readers }, "ok")
      | .error e => (st', errStr e)
    | none => bad
  | ["rread", rid, n] =>
    match lookupId st.readers rid, n.toNat? with
    | some rd, some k =>
      let (rd', chunk) := rd.read k
      ({ st with readers := (rid, rd') :: eraseId st.readers rid }, "ok " ++ tokB chunk)
    | none, some _ => (st, "err badid")
    | _, _ => bad
  | ["rreadall", rid] =>
    match lookupId st.readers rid with
    | some rd =>
      let (rd', chunk) := rd.read (rd.data.length - rd.pos)
      ({ st with readers := (rid, rd') :: eraseId st.readers rid }, "ok " ++ tokB chunk)
    | none => (st, "err badid")
  | ["rcheck", rid] =>
    match lookupId st.readers rid with
    | some rd =>
      let out := match rd.check cfg with
        | .ok a => "ok " ++ String.ofList (a.name.map (fun b => Char.ofNat b.toNat))
        | .error e => errStr e
      ({ st with readers := eraseId st.readers rid }, out)
    | none => (st, "err badid")
  | ["rdrop", rid] =>
    match lookupId st.readers rid with
    | some _ => ({ st with readers := eraseId st.readers rid }, "ok")
    | none => (st, "err badid")
  | [op, f, c, k, p] =>
    -- extraction by key / by hash; exists-less 5-token ops
    let cache := parsePath c
    let dest := parsePath p
    let byKey (checked : Bool) (how : Extract) (showN : Bool) : St × String :=
      match parseKey k with
      | some key => let (r, st', _) := runP env st (extract cfg checked how cache key dest); (st', resNat r showN)
      | none => bad
    let byHash (checked : Bool) (how : Extract) (showN : Bool) : St × String :=
      match parseSriTok k with
      | some sri =>
        let prog := if checked then extractHash cfg how cache sri dest else extractUnchecked how cache sri dest
        let (r, st', _) := runP env st prog; (st', resNat r showN)
      | none => bad
    let syncOnly (x : St × String) : St × String := if f == "s" then x else bad
    match op with
    | "copy" => byKey true .copy true
    | "copy_unchecked" => byKey false .copy true
    | "copy_hash" => byHash true .copy true
    | "copy_hash_unchecked" => byHash false .copy true
    | "hard_link" => byKey true .hardLink false
    | "hard_link_unchecked" => syncOnly (byKey false .hardLink false)
    | "hard_link_hash" => syncOnly (byHash true .hardLink false)
    | "hard_link_hash_unchecked" => syncOnly (byHash false .hardLink false)
    | "reflink" => byKey true .reflink false
    | "reflink_unchecked" => byKey false .reflink false
    | "reflink_hash" => byHash true .reflink false
    | "reflink_hash_unchecked" => syncOnly (byHash false .reflink false)
    | "link_to" =>
      match parseKey k, parseTarget p with
      | some key, some t =>
        let prog : Prog (Res Integrity) := do
          match ← lopenAuto cache (some key) t with
          | .ok l => lcommit cfg l
          | .error e => pure (.error e)
        let (r, st', took) := runP env st prog
        (st', resSri env r (took && r.isOk))
      | _, _ => bad
    | _ => (st, "err badline")
  | ["metadata", _, c, k] | ["index_find", _, c, k] =>
    match parseKey k with
    | some key =>
      let (r, st', _) := runP env st (find cfg (parsePath c) key)
      let out := match r with
        | .ok none => "ok none"
        | .ok (some m) => "ok " ++ metaStr m
        | .error e => errStr e
      (st', out)
    | none => bad
  | ["exists", _, c, s] =>
    match parseSriTok s with
    | some sri =>
      let (r, st', _) := runP env st (existsHash (parsePath c) sri)
      let out := match r with
        | .ok b => if b then "ok true" else "ok false"
        | .error e => errStr e
      (st', out)
    | none => bad
  | ["list", c] =>
    let (items, st', _) := runP env st (ls cfg (parsePath c))
    let sorted := sortBy (fun a b => pairLt (lsItemKey a) (lsItemKey b)) items
    (st', if sorted.isEmpty then "ok" else "ok " ++ ";".intercalate (sorted.map lsItemStr))
  | ["remove", _, c, k] | ["index_delete", _, c, k] =>
    match parseKey k with
    | some key =>
      let (r, st', took) := runP env st (delete cfg (parsePath c) key)
      (st', resUnit env r (took && r.isOk))
    | none => bad
  | ["remove_hash", _, c, s] =>
    match parseSriTok s with
    | some sri => let (r, st', _) := runP env st (removeHash (parsePath c) sri); (st', resUnit env r false)
    | none => bad
  | ["remove_fully", _, c, k] =>
    match parseKey k with
    | some key => let (r, st', _) := runP env st (removeFully cfg (parsePath c) key); (st', resUnit env r false)
    | none => bad
  | ["clear", _, c] =>
    let (r, st', _) := runP env st (clear (parsePath c)); (st', resUnit env r false)
  | "index_insert" :: _ :: c :: k :: opts =>
    match parseKey k, parseWriteOpts opts with
    | some key, some o =>
      let (r, st', took) := runP env st (insert cfg (parsePath c) key o)
      (st', resSri env r (took && r.isOk))
    | _, _ => bad
  | ["link_to_hash", _, c, t] =>
    match parseTarget t with
    | some tg =>
      let prog : Prog (Res Integrity) := do
        match ← lopenAuto (parsePath c) none tg with
        | .ok l => lcommit cfg l
        | .error e => pure (.error e)
      let (r, st', _) := runP env st prog
      (st', resSri env r false)
    | none => bad
  | "lopen" :: _ :: c :: lid :: k :: t :: opts =>
    match parseTarget t, parseWriteOpts opts with
    | some tg, some o =>
      let key? : Option (Option Bytes) := if k == "-" then some none else (parseKey k).map some
      match key? with
      | none => bad
      | some key =>
        let (r, st', _) := runP env st (lopen (parsePath c) key tg o)
        match r with
        | .ok l => ({ st' with linkers := (lid, l) :: st'.linkers }, "ok")
        | .error e => (st', errStr e)
    | _, _ => bad
  | ["lopen_auto", _, c, lid, k, t] =>
    match parseTarget t with
    | some tg =>
      let key? : Option (Option Bytes) := if k == "-" then some none else (parseKey k).map some
      match key? with
      | none => bad
      | some key =>
        let (r, st', _) := runP env st (lopenAuto (parsePath c) key tg)
        match r with
        | .ok l => ({ st' with linkers := (lid, l) :: st'.linkers }, "ok")
        | .error e => (st', errStr e)
    | none => bad
  | ["lread", lid, n] =>
    match lookupId st.linkers lid, n.toNat? with
    | some l, some k =>
      let (l', chunk) := l.read k
      ({ st with linkers := (lid, l') :: eraseId st.linkers lid }, "ok " ++ tokB chunk)
    | none, some _ => (st, "err badid")
    | _, _ => bad
  | ["lcommit", lid] =>
    match lookupId st.linkers lid with
    | some l =>
      let (r, st', took) := runP env st (lcommit cfg l)
      ({ st' with linkers := eraseId st'.linkers lid }, resSri env r (took && r.isOk))
    | none => (st, "err badid")
  | ["ldrop", lid] =>
    match lookupId st.linkers lid with
    | some _ => ({ st with linkers := eraseId st.linkers lid }, "ok")
    | none => (st, "err badid")
  -- environment ops
  | ["put", p, d] =>
    match parseB d with
    | some data => ({ st with fs := fsPutFile st.fs (parsePath p) data }, "ok")
    | none => bad
  | ["append", p, d] =>
    match parseB d, st.fs.get (parsePath p) with
    | some data, some (.file b) => ({ st with fs := st.fs.put (parsePath p) (.file (b ++ data)) }, "ok")
    | some _, _ => (st, "err io notfound")
    | none, _ => bad
  | ["truncate", p, n] =>
    match n.toNat?, st.fs.get (parsePath p) with
    | some k, some (.file b) => ({ st with fs := st.fs.put (parsePath p) (.file (b.take k)) }, "ok")
    | some _, _ => (st, "err io notfound")
    | none, _ => bad
  | ["del", p] =>
    match st.fs.get (parsePath p) with
    | some (.file _) | some (.link _) => ({ st with fs := st.fs.del (parsePath p) }, "ok")
    | _ => (st, "err io notfound")
  | ["rmtree", p] =>
    let pp := parsePath p
    ({ st with fs := st.fs.delAll (pp :: st.fs.below pp) }, "ok")
  | ["mkdir", p] =>
    match st.fs.mkdirP (parsePath p) with
    | .ok fs' => ({ st with fs := fs' }, "ok")
    | .error e => (st, "err io " ++ ekStr e)
  | ["hardlink", p, q] =>
    -- a second name for the file at p (the model has no inodes: the node is copied; programs that then change one
    -- of the two names in place are implementation-only)
    match st.fs.get (parsePath p) with
    | some (.file b) => ({ st with fs := fsPutFile st.fs (parsePath q) b }, "ok")
    | _ => (st, "err io notfound")
  | ["symlink", p, t] =>
    match parseTarget t with
    | some tg =>
      let pp := parsePath p
      let fs1 := match st.fs.mkdirP (FS.parent pp) with | .ok f => f | .error _ => st.fs
      ({ st with fs := (fs1.del pp).put pp (.link tg) }, "ok")
    | none => bad
  | ["cat", p] =>
    match st.fs.readFile (parsePath p) with
    | .ok b => (st, "ok " ++ tokB b)
    | .error e => (st, "err io " ++ ekStr e)
  | ["stat", p] =>
    match st.fs.get (parsePath p) with
    | some (.file b) => (st, s!"ok file {b.length}")
    | some (.link _) => (st, "ok symlink")
    | some .dir => (st, "ok dir")
    | none => (st, if parsePath p == [] then "ok dir" else "ok absent")
  | ["oracle", "xxh3", d, h] =>
    match parseB d, parseB h with
    | some data, some dig =>
      if dig.length = 16 then ({ st with xx := (data, dig) :: st.xx }, "ok") else bad
    | _, _ => bad
  | ["dump", p] =>
    let es := dumpEntries st.fs (parsePath p)
    (st, if es.isEmpty then "ok" else "ok " ++ ";".intercalate es)
  | _ => (st, "err badline")

/-- Programs of the one-line operations, for the crash semantics (`crash <n> <t> <op …>`). -/
def opProg (cfg : Cfg) (toks : List String) : Option (Prog Unit) :=
  match toks with
  | ["write", f, c, a, k, d] =>
    match parseFl f, parseAlgo a, parseKey k, parseB d with
    | some fl, some al, some key, some data => some (do let _ ← write cfg fl (parsePath c) al key data; pure ())
    | _, _, _, _ => none
  | ["write_hash", f, c, a, d] =>
    match parseFl f, parseAlgo a, parseB d with
    | some fl, some al, some data => some (do let _ ← writeHash cfg fl (parsePath c) al data; pure ())
    | _, _, _ => none
  | ["remove", _, c, k] | ["index_delete", _, c, k] =>
    (parseKey k).map (fun key => do let _ ← delete cfg (parsePath c) key; pure ())
  | "index_insert" :: _ :: c :: k :: opts =>
    match parseKey k, parseWriteOpts opts with
    | some key, some o => some (do let _ ← insert cfg (parsePath c) key o; pure ())
    | _, _ => none
  | ["remove_fully", _, c, k] =>
    (parseKey k).map (fun key => do let _ ← removeFully cfg (parsePath c) key; pure ())
  | ["remove_hash", _, c, s] =>
    (parseSriTok s).map (fun sri => do let _ ← removeHash (parsePath c) sri; pure ())
  | ["clear", _, c] => some (do let _ ← clear (parsePath c); pure ())
  | _ => none

/-- Programs of one-line operations with their result rendered (class only), for `faultset`. -/
def opProgS (cfg : Cfg) (toks : List String) : Option (Prog String) :=
  let cls {α : Type} (r : Res α) : String := match r with | .ok _ => "ok" | .error e => errStr e
  match toks with
  | ["write", f, c, a, k, d] =>
    match parseFl f, parseAlgo a, parseKey k, parseB d with
    | some fl, some al, some key, some data => some (do let r ← write cfg fl (parsePath c) al key data; pure (cls r))
    | _, _, _, _ => none
  | ["write_hash", f, c, a, d] =>
    match parseFl f, parseAlgo a, parseB d with
    | some fl, some al, some data => some (do let r ← writeHash cfg fl (parsePath c) al data; pure (cls r))
    | _, _, _ => none
  | ["remove", _, c, k] | ["index_delete", _, c, k] =>
    (parseKey k).map (fun key => do let r ← delete cfg (parsePath c) key; pure (cls r))
  | ["remove_hash", _, c, s] =>
    (parseSriTok s).map (fun sri => do let r ← removeHash (parsePath c) sri; pure (cls r))
  | "index_insert" :: _ :: c :: k :: opts =>
    match parseKey k, parseWriteOpts opts with
    | some key, some o => some (do let r ← insert cfg (parsePath c) key o; pure (cls r))
    | _, _ => none
  | ["remove_fully", _, c, k] =>
    (parseKey k).map (fun key => do let r ← removeFully cfg (parsePath c) key; pure (cls r))
  | ["clear", _, c] => some (do let r ← clear (parsePath c); pure (cls r))
  | ["read", _, c, k] =>
    (parseKey k).map (fun key => do let r ← read cfg (parsePath c) key; pure (cls r))
  | ["read_hash", _, c, s] =>
    (parseSriTok s).map (fun sri => do let r ← readHash cfg (parsePath c) sri; pure (cls r))
  | ["metadata", _, c, k] | ["index_find", _, c, k] =>
    (parseKey k).map (fun key => do
      let r ← find cfg (parsePath c) key
      pure (match r with | .ok none => "ok none" | .ok (some _) => "ok meta" | .error e => errStr e))
  | ["list", c] => some (do let _ ← ls cfg (parsePath c); pure "ok")
  | [op, _, c, k, p] =>
    -- extractions: result class only (the destination lies outside the cache, which is what `faultset` compares)
    let cache := parsePath c
    let dest := parsePath p
    let byKey (checked : Bool) (how : Extract) : Option (Prog String) :=
      (parseKey k).map (fun key => do let r ← extract cfg checked how cache key dest; pure (cls r))
    let byHash (checked : Bool) (how : Extract) : Option (Prog String) :=
      (parseSriTok k).map (fun sri => do
        let r ← (if checked then extractHash cfg how cache sri dest else extractUnchecked how cache sri dest)
        pure (cls r))
    match op with
    | "copy" => byKey true .copy
    | "copy_unchecked" => byKey false .copy
    | "copy_hash" => byHash true .copy
    | "copy_hash_unchecked" => byHash false .copy
    | "hard_link" => byKey true .hardLink
    | "hard_link_unchecked" => byKey false .hardLink
    | "hard_link_hash" => byHash true .hardLink
    | "hard_link_hash_unchecked" => byHash false .hardLink
    | _ => none
  | _ => none

/-- `faultset <op …>`: every outcome the model allows for the op when exactly one of its calls
fails — each call index of the healthy run × each error kind × a few partial-write lengths — as
`<result class>|<files and links of the cache afterwards>`, de-duplicated.  The real outcome of an
injected errno must be one of these (that is what carries the fault theorems over to the code). -/
def insertEverywhere {α : Type} (x : α) : List α → List (List α)
  | [] => [[x]]
  | y :: ys => (x :: y :: ys) :: (insertEverywhere x ys).map (y :: ·)

def permsOf {α : Type} : List α → List (List α)
  | [] => [[]]
  | x :: xs => (permsOf xs).flatMap (insertEverywhere x)

/-- The variants of an operation whose order of work is not determined by the code: `clear` removes
the children of the cache directory in the order the directory happens to list them. -/
def opVariants (cfg : Cfg) (toks : List String) : List (Prog String) :=
  let cls {α : Type} (r : Res α) : String := match r with | .ok _ => "ok" | .error e => errStr e
  match toks with
  | ["clear", _, c] =>
    (permsOf [0, 1, 2]).map (fun (perm : List Nat) => do
      match ← Prog.call (.readDir (parsePath c)) with
      | .entries es =>
        let es' := if es.length == 3 then perm.filterMap (fun i => es[i]?) else es
        let r ← removeEach es'
        pure (cls r)
      | .err e => pure (errStr (.io e))
      | _ => pure (errStr (.io .other)))
  | _ => match opProgS cfg toks with
    | some p => [p]
    | none => []

def faultSet1 (st : St) (env : Env) (toks : List String) (p : Prog String) : List String :=
    let healthy := Prog.run env p st.fs
    let n := healthy.2.2.length
    let cache := parsePath (toks.getD 2 "c0")
    let show_ (r : String) (fs : FS) : String :=
      r ++ "|" ++ ",".intercalate ((dumpEntries fs cache).filter (fun e => !e.startsWith "d:" && e ≠ ""))
    let outcomes := (List.range n).flatMap (fun i =>
      let call := healthy.2.2.getD i .now
      let lens : List Nat := match call with
        | .writeAt _ _ d | .appendWrite _ d => [0, 1, d.length / 2, d.length - 1, d.length]
        | .removeTree q =>
          -- every subset of the (at most 7) files and links below the tree
          List.range (2 ^ (min 7 ((healthy.2.1.below q).length + ((Prog.crash env p st.fs i 0).below q).length)))
        | _ => [0]
      [EK.other, EK.notFound, EK.exists].flatMap (fun e =>
        lens.map (fun sh =>
          let plan : Nat → Option Prog.Fault := fun j => if j == i then some { e := e, short := sh } else none
          let r := Prog.runFault env plan p st.fs 0
          show_ r.1 r.2.1)))
    (show_ healthy.1 healthy.2.1 :: outcomes).eraseDups

def faultSet (st : St) (env : Env) (toks : List String) : Option (List String) :=
  match opVariants (mkCfg st.xx) toks with
  | [] => none
  | ps => some ((ps.flatMap (faultSet1 st env toks)).eraseDups)

/-- `crashset <op …>`: the files and links of the cache in every state a process kill can leave
according to the model — on entry to each call of the op, with the in-flight call torn at every
page-sized (4096) step, every `mkdir` level, every deletion — de-duplicated.  The real tree found
after a SIGKILL at any system call must be one of these. -/
def crashSet (st : St) (env : Env) (toks : List String) : Option (List String) :=
  match opProgS (mkCfg st.xx) toks with
  | none => none
  | some p =>
    let healthy := Prog.run env p st.fs
    let n := healthy.2.2.length
    let cache := parsePath (toks.getD 2 "c0")
    let show_ (fs : FS) : String :=
      ",".intercalate ((dumpEntries fs cache).filter (fun e => !e.startsWith "d:" && e ≠ ""))
    let states := (List.range (n + 1)).flatMap (fun i =>
      let call : Call := healthy.2.2.getD i .now
      let torn : List Nat := match call with
        | .writeAt _ _ d | .appendWrite _ d =>
          ((List.range (d.length / 4096 + 1)).map (· * 4096)) ++ [d.length]
        | .mkdirP q => List.range (q.length + 1)
        | .removeTree _ => List.range 64
        | .copyFile _ _ => [0, 4096, 1000000000]
        | _ => [0]
      torn.map (fun t => show_ (Prog.crash env p st.fs i t)))
    some states.eraseDups

/-- `crash <n> <t> <op …>`: leave the model filesystem in the state a kill on entry to the op's
`n`-th call (torn at `t`) produces; prints the number of calls of the healthy run. -/
def stepOrCrash (st : St) (line : String) : St × String :=
  let toks0 := (line.trimAscii.toString.splitOn " ").filter (· ≠ "")
  match toks0 with
  | "faultset" :: rest =>
    let nowTok := optVal (rest.map (fun x => if x.startsWith "@" then (x.drop 1).toString else "")) "now"
    let env : Env := { clock := (nowTok.bind (·.toNat?)).getD 0 }
    match faultSet st env (rest.filter (fun x => !x.startsWith "@")) with
    | some outs => (st, "ok " ++ " ;; ".intercalate outs)
    | none => (st, "err badarg")
  | "crashset" :: rest =>
    let nowTok := optVal (rest.map (fun x => if x.startsWith "@" then (x.drop 1).toString else "")) "now"
    let env : Env := { clock := (nowTok.bind (·.toNat?)).getD 0 }
    match crashSet st env (rest.filter (fun x => !x.startsWith "@")) with
    | some outs => (st, "ok " ++ " ;; ".intercalate outs)
    | none => (st, "err badarg")
  | "crash" :: n :: t :: rest =>
    let nowTok := optVal (rest.map (fun x => if x.startsWith "@" then (x.drop 1).toString else "")) "now"
    let env : Env := { clock := (nowTok.bind (·.toNat?)).getD 0 }
    match n.toNat?, t.toNat?, opProg (mkCfg st.xx) (rest.filter (fun x => !x.startsWith "@")) with
    | some nn, some tt, some p =>
      let len := (Prog.run env p st.fs).2.2.length
      ({ st with fs := Prog.crash env p st.fs nn tt }, s!"ok {len}")
    | _, _, _ => (st, "err badarg")
  | _ => step st line

partial def loop (h : IO.FS.Stream) (out : IO.FS.Stream) (st : St) : IO Unit := do
  let line ← h.getLine
  if line.isEmpty then return ()
  let t := line.trimAscii.toString
  if t.isEmpty || t.startsWith "#" then
    loop h out st
  else
    let wantTrace := (t.splitOn " ").any (· == "@trace")
    let (st', res) := stepOrCrash { st with lastTrace := [] } t
    let res := if wantTrace then res ++ " @trace=" ++ ";".intercalate st'.lastTrace else res
    out.putStrLn res
    out.flush
    loop h out st'

def main : IO Unit := do
  let st : St := { fs := { FS.empty with } }
  -- scratch layout created by the harness at start-up
  let fs0 := match FS.empty.mkdirP [strBytes "out"] with | .ok f => f | .error _ => FS.empty
  let fs1 := match fs0.mkdirP [strBytes "tgt"] with | .ok f => f | .error _ => fs0
  loop (← IO.getStdin) (← IO.getStdout) { st with fs := fs1 }
