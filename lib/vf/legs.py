"""System-call level legs built on trace.py: skeleton correspondence, confinement, kill sweeps,
errno injection.  Each leg returns a dict {failures, disagreements, evaluations, distinct_nontrivial,
samples, ...} that bin/check merges into the evidence."""
import re, os, sys, shutil, hashlib, json, itertools, time
from concurrent.futures import ThreadPoolExecutor
from . import common as C
from . import engine as E
from . import trace as T
from . import layout as L
from . import gen as G
from .props import Failure, parse_dump, hx, unhx, toks, meta_of_line, w_oneshot, sri_tok
from .gen import Rng

TRACE_RE = re.compile(r" @trace=(.*)$")
SORT_OPS = ("clear", "remove_fully", "rmtree")
ENV_OPS = ("put", "append", "truncate", "del", "rmtree", "mkdir", "symlink", "cat", "stat", "dump", "fsize", "wait_until", "chmod", "mode", "hardlink")


def direct_content_writes(events, op=""):
    """C03: a file may appear under content-v2 only by rename of a temp file (or as a link_to symlink);
    creating / writing / copying a file at a content path directly exposes partial data."""
    out = []
    for e in events:
        t = e.split(" ")
        kind = t[0]
        if kind in ("open-create", "open-append-create", "write", "fallocate", "truncate", "mmap-write") and len(t) > 1 and "/content-v2/" in t[1]:
            out.append(e)
        elif kind == "copy" and len(t) > 2 and "/content-v2/" in t[2]:
            out.append(e)
        elif kind == "link" and len(t) > 2 and "/content-v2/" in t[2]:
            out.append(e)
        elif kind == "rename" and len(t) > 2 and "/content-v2/" in t[2] and "/tmp/" not in t[1]:
            out.append(e)
    return out


def trace_monitor(r, ops, where=""):
    fs_ = []
    for i, ev in enumerate(r.events):
        if i < len(ops) and ops[i].split(" ")[0] in ENV_OPS:
            continue          # the test's own manipulation of the directory, not a library call
        bad = direct_content_writes(ev)
        if bad:
            op = ops[i] if i < len(ops) else "?"
            f = Failure("direct_content_write", i, f"{where}{op[:60]}: a content path is created/filled in place ({bad[0][:80]})",
                        sig={"op": op.split(" ")[0], "event": bad[0].split(" ")[0]})
            f.replay_text = "\n".join(ops) + "\n"
            fs_.append(f)
        for e in ev:
            if e.startswith("OUTSIDE"):
                op = ops[i] if i < len(ops) else "?"
                f = Failure("outside_cache_dir", i, f"{where}{op[:60]}: {e[:120]}", sig={"op": op.split(" ")[0]})
                f.replay_text = "\n".join(ops) + "\n"
                fs_.append(f)
    return fs_


def model_events(ann_ops):
    """Run the model with @trace on every op; returns (result lines without the suffix, events per op)."""
    out = E.run_model([o + " @trace" for o in ann_ops])
    lines, evs = [], []
    for l in out:
        m = TRACE_RE.search(l)
        if m:
            evs.append([e for e in m.group(1).split(";") if e])
            lines.append(l[:m.start()])
        else:
            evs.append([])
            lines.append(l)
    return lines, evs


def canon_events(op, events):
    sk = T.skeleton(events)
    # record lengths depend on the number of digits of the default timestamp only when it is the clock;
    # both sides use the same time (the model is given @now), so lengths are compared exactly.
    if op.split(" ")[0] in SORT_OPS:
        sk = sorted(sk)
    return sk


def model_skeleton(op, events):
    sk = [e for e in events if not (e.startswith("write ") and "/tmp/*" in e.split(" ")[1])]
    sk = [e for e in sk if not e.startswith("fallocate ")] + [e for e in sk if e.startswith("fallocate ")] if False else sk
    if op.split(" ")[0] in SORT_OPS:
        sk = sorted(sk)
    return sk


def leg_skeleton(progs, flavour, jobs=8):
    """Real mutation skeleton of every op == the model's call trace reduced the same way."""
    failures, disagreements, samples = [], [], []
    sigs = set()
    n_ops = 0

    def one(p):
        pre = E.xxh3_oracle_lines(p.ops) if any("xxh3" in o for o in p.ops) else []
        if pre:
            p = E.Program(p.name, pre + p.ops, model=p.model, tags=p.tags)
        r = T.run_traced(flavour, p.ops)
        ann = E.annotate(p.ops, r.impl_lines)
        mlines, mevs = model_events(ann)
        return p, r, ann, mlines, mevs
    with ThreadPoolExecutor(max_workers=jobs) as ex:
        results = list(ex.map(one, progs))
    for p, r, ann, mlines, mevs in results:
        for i, op in enumerate(p.ops):
            if i >= len(r.events) or i >= len(mevs):
                break
            if op.split(" ")[0] in ENV_OPS or op.startswith("oracle "):
                continue
            n_ops += 1
            real = canon_events(op, r.events[i])
            # events between this op's end and the next op (drops of handles) belong to it too
            model = model_skeleton(op, mevs[i])
            if i == 0:
                failures += trace_monitor(r, p.ops)
            outside = [e for e in r.events[i] if e.startswith("OUTSIDE")]
            for e in outside:
                f = Failure("outside_cache_dir", i, f"{op[:80]}: {e}", sig={"op": op.split(' ')[0]})
                f.replay_text = p.text()
                failures.append(f)
            # mmap stores are invisible to strace; fallocate/mmap only appear on the real side when the
            # writer is mapped: the model prints fallocate too.  chmod / utimens are dropped by skeleton().
            real_c = [e for e in real if not e.startswith("mmap-write")]
            # an index record must reach the bucket with ONE write(2) (C07: no splice under concurrency)
            bw = [e for e in real_c if e.startswith("write ") and "/index-v5/" in e]
            paths = {}
            for e in bw:
                paths.setdefault(e.split(" ")[1], []).append(int(e.split(" ")[2]))
            split = {pth: ns for pth, ns in paths.items() if len(ns) > 1 and op.split(" ")[0] in
                     ("write", "wcommit", "index_insert", "remove", "index_delete", "link_to", "lcommit")}
            if split:
                pth, ns = next(iter(split.items()))
                f = Failure("record_split", i, f"{op[:60]}: one index record written with {len(ns)} write(2) calls {ns} ({flavour})",
                            sig={"op": op.split(" ")[0], "binary": flavour, "record_bytes": sum(ns), "api": op.split(" ")[1]})
                f.replay_text = p.text()
                failures.append(f)
                continue
            if real_c != model:
                disagreements.append({"prog": p.name, "op_index": i, "op": op[:200], "real": real_c[:40], "model": model[:40],
                                      "ops": p.ops})
            sigs.add((op.split(" ")[0], tuple(x.split(" ")[0] for x in real_c)))
        if len(samples) < 3:
            samples.append({"binary": flavour, "op": p.ops[0][:120], "real_skeleton": T.skeleton(r.events[0])[:14] if r.events else []})
    return {"failures": failures, "disagreements": disagreements, "evaluations": n_ops, "distinct_nontrivial": len(sigs),
            "samples": samples, "skeleton_ops": n_ops}


# ---------------------------------------------------------------------------------------------
# kill sweeps (C03 / C04)
# ---------------------------------------------------------------------------------------------

KILL_SET = "mkdir,mkdirat,openat,write,fallocate,ftruncate,renameat,renameat2,rename,unlink,unlinkat,linkat,symlinkat"
# strace keeps the `when=N` counter PER SYSTEM CALL (and per thread): `inject=a,b:when=3` fires at the third `a` and at
# the third `b`, whichever comes first.  A sweep over "the N-th call of the set" therefore never stops at, say, the one
# write(2) of an index append that comes after three mkdirs.  The sweeps below go class by class instead: for every
# system call of the set and every occurrence of it on any thread of the operation.
KILL_CLASSES = ["mkdir", "mkdirat", "openat", "write", "fallocate", "ftruncate", "renameat", "renameat2", "rename", "unlink",
                "unlinkat", "linkat", "symlinkat"]


def kill_points(base, max_points=None):
    """(syscall, n) for every occurrence n of every syscall of KILL_CLASSES on the busiest non-main thread."""
    pids = list(base.counts_by_pid)
    threads = pids
    pts = []
    for nm in KILL_CLASSES:
        mx = max([base.counts_by_pid[t].get(nm, 0) for t in threads] or [0])
        pts += [(nm, n) for n in range(1, mx + 1)]
    if max_points and len(pts) > max_points:
        step = len(pts) / max_points
        pts = [pts[int(i * step)] for i in range(max_points)]
    return pts


def content_valid_monitor(dump_line, where):
    """Every regular file under content-v2 hashes to its path (hashlib); returns failures."""
    out = []
    files, links, dirs = parse_dump(dump_line)
    for p, b in files.items():
        m = re.match(r"^(c\d+)/content-v2/([a-z0-9]+)/([0-9a-f]{2})/([0-9a-f]{2})/([0-9a-f]*)$", p)
        if not m:
            continue
        algo = m.group(2)
        if algo not in L.ALGOS:
            continue
        if L.digest(algo, b).hex() != m.group(3) + m.group(4) + m.group(5):
            out.append(Failure("partial_or_wrong_content_file", 0, f"{where}: {p} holds {len(b)} bytes whose {algo} digest is not its address",
                               sig={"where": where.split(' ')[0]}))
    return out


def leg_kill_sweep(cases, flavour, max_points=40, jobs=8):
    """cases: list of dict(setup=[ops], victim=op, key=bytes, old=(algo,data)|None, new=(algo,data)|None).
    For every kill point N of the victim (sync flavour: main-thread syscalls of KILL_SET) kill the real
    process there, then inspect the directory with a fresh process."""
    failures, samples, disagreements = [], [], []
    points = 0
    crash_compared = 0
    states = set()

    def sweep(case):
        # The setup runs in a process of its own; the victim alone is swept, its op loop on a fresh
        # thread (DRIVE_WORKER): strace keeps `when=N` per thread, so N = 1..(calls of the operation on
        # that thread) reaches every mutating system call of the operation and nothing else.
        res = []
        W = {"DRIVE_WORKER": "1", "BLOCKING_MAX_THREADS": "1", "DRIVE_BLOCKING_THREADS": "1"}
        tmpl = os.path.join(C.scratch_root(), f"kill-tmpl{next(E._counter)}")
        rs = T.run_traced(flavour, case["setup"], scratch=tmpl)
        try:
            case["_crash_set"] = (model_crash_set(case["setup"], rs.impl_lines, case["victim"])
                                  if isinstance(case["victim"], str) else None)
        except Exception:
            case["_crash_set"] = None

        def fresh():
            d = os.path.join(C.scratch_root(), f"kill{next(E._counter)}")
            shutil.rmtree(d, ignore_errors=True)
            copy_tree(tmpl, d)
            return d
        vops = case["victim"] if isinstance(case["victim"], list) else [case["victim"]]
        if len(vops) > 1:
            case["_crash_set"] = None          # the model's crash sets are per single operation
        sc = fresh()
        base = T.run_traced(flavour, vops, scratch=sc, reuse=True, env_extra=W)
        shutil.rmtree(sc, ignore_errors=True)
        for n in kill_points(base, max_points):
            scratch = fresh()
            r = T.run_traced(flavour, vops, scratch=scratch, reuse=True, env_extra=W,
                             inject=f"inject={n[0]}:signal=SIGKILL:when={n[1]}", keep=False)
            # look at what is left, with a fresh process
            key = case["key"]
            probe = ["dump c0", f"metadata s c0 {hx(key)}", f"metadata a c0 {hx(key)}", f"read s c0 {hx(key)}", "list c0"]
            for k2, (a2, d2) in case.get("others", {}).items():
                probe.append(f"read s c0 {hx(k2)}")
            # the cache stays usable: write the key again and read it back
            probe += [w_oneshot("s", "sha256", key, b"after the crash"), f"read a c0 {hx(key)}", "dump c0/content-v2"]
            r2 = T.run_traced(flavour, probe, scratch=scratch, reuse=True, keep=False)
            shutil.rmtree(scratch, ignore_errors=True)
            res.append((n, r, r2, probe))
        shutil.rmtree(tmpl, ignore_errors=True)
        return case, res
    with ThreadPoolExecutor(max_workers=jobs) as ex:
        allres = list(ex.map(sweep, cases))
    for case, res in allres:
        for n, r, r2, probe in res:
            if not r.killed:
                continue
            points += 1
            during_setup = False          # the setup ran (unharmed) in a process of its own
            vtxt = case["victim"] if isinstance(case["victim"], str) else " ; ".join(case["victim"])
            vlist = [case["victim"]] if isinstance(case["victim"], str) else case["victim"]
            where = f"kill at {n[0]} #{n[1]} of `{vtxt[:60]}`"
            il = r2.impl_lines
            if len(il) < len(probe):
                f = Failure("unusable_after_crash", n[1], f"{where}: inspection stopped after {len(il)} ops", sig={"victim": vtxt.split(' ')[0]})
                f.replay_text = "\n".join(case["setup"] + vlist) + f"\n# killed with inject={n[0]}:signal=SIGKILL:when={n[1]}\n"
                failures.append(f)
                continue
            fs_ = content_valid_monitor(il[0], where)
            fs_ += content_valid_monitor(il[-1], where + " (after a further write)")
            fs_ += trace_monitor(r, vlist, where + ": ")
            # crash correspondence: the tree a real SIGKILL leaves is one of the model's crash states
            cs = case.get("_crash_set")
            if cs is not None:
                files0, links0, _ = parse_dump(il[0])
                real = _mask_state({p_: b_ for p_, b_ in files0.items() if p_.startswith("c0/")},
                                   {p_: v_ for p_, v_ in links0.items() if p_.startswith("c0/")})
                crash_compared += 1
                if real not in cs:
                    best = sorted(cs, key=lambda m_: len(m_ ^ real))[0]
                    disagreements.append({"prog": vtxt[:40], "op_index": len(case["setup"]), "op": vtxt[:200],
                                          "what": f"the tree left by a real SIGKILL ({where}) is not among the model's crash states",
                                          "real": sorted(f"{k_}:{p_}:{len(b_)}" for k_, p_, b_ in real - best)[:8],
                                          "model": [f"{len(cs)} crash states; nearest differs in"] + sorted(f"{k_}:{p_}:{len(b_)}" for k_, p_, b_ in best - real)[:8],
                                          "ops": case["setup"] + vlist + [f"# killed with inject={n[0]}:signal=SIGKILL:when={n[1]}"]})
            # old or new
            old, new = case.get("old"), case.get("new")
            for j in (1, 2):
                m = meta_of_line(il[j])
                okset = [None] if during_setup else []
                for v in (old, new):
                    okset.append(None if v is None else L.sri_of(*v))
                got = "ERR" if m == "ERR" else (None if m is None else m["sri"])
                if got not in okset:
                    fs_.append(Failure("mixed_or_broken_entry", n, f"{where}: lookup gives {str(got)[:40]}, neither the old nor the new entry",
                                       sig={"victim": vtxt.split(' ')[0]}))
            rd = toks(il[3])
            if rd[0] == "ok":
                okdata = [v[1] for v in (old, new) if v is not None]
                if unhx(rd[1]) not in okdata:
                    fs_.append(Failure("mixed_or_broken_entry", n, f"{where}: read returns bytes that are neither old nor new"))
            elif rd[:2] != ["err", "notfound"] and not (rd[:2] == ["err", "io"]):
                fs_.append(Failure("mixed_or_broken_entry", n, f"{where}: read -> {' '.join(rd[:3])}"))
            m_new_visible = any(meta_of_line(il[j]) not in (None, "ERR") and new is not None and
                                meta_of_line(il[j])["sri"] == L.sri_of(*new) and (old is None or L.sri_of(*old) != L.sri_of(*new))
                                for j in (1, 2))
            if m_new_visible and rd[0] != "ok":
                fs_.append(Failure("entry_visible_before_content", n, f"{where}: the new entry is visible but its content is not readable"))
            k = 5
            for k2, (a2, d2) in case.get("others", {}).items():
                ro = toks(il[k]); k += 1
                if during_setup:
                    continue
                if ro[0] != "ok" or unhx(ro[1]) != d2:
                    fs_.append(Failure("other_key_affected", n, f"{where}: another key no longer reads its value"))
            w_after, r_after = toks(il[k]), toks(il[k + 1])
            if w_after[0] != "ok" or r_after[0] != "ok" or unhx(r_after[1]) != b"after the crash":
                fs_.append(Failure("unusable_after_crash", n, f"{where}: a later write to the same key is not visible ({' '.join(w_after[:2])} / {' '.join(r_after[:2])[:40]})"))
            for f in fs_:
                f.replay_text = "\n".join(case["setup"] + vlist) + f"\n# killed with inject={n[0]}:signal=SIGKILL:when={n[1]}; then:\n" + "\n".join(probe) + "\n"
            failures += fs_
            states.add(hashlib.sha1(re.sub(r"time\D{1,6}\d+", "", il[0]).encode()).hexdigest())
            if len(samples) < 3:
                samples.append({"victim": vtxt[:100], "kill_at_syscall": n, "killed": r.killed,
                                "events_before_kill": T.skeleton(r.events[-1] if r.events else [])[-4:],
                                "lookup_after": il[1][:80]})
    return {"failures": failures, "disagreements": disagreements, "evaluations": points, "distinct_nontrivial": len(states),
            "samples": samples, "kill_points": points, "crash_states_compared_with_model": crash_compared}


def kill_cases(r, n):
    cases = []
    # always present: a keyed write (async, sync) of bytes that another key already holds, and a re-write
    # of the key's own unchanged value - publication over an existing content file, at every kill point
    for vf, own in (("a", False), ("s", False), ("a", True)):
        key = b"kshared"
        shared = ("sha256", b"other value")
        setup = [w_oneshot("s", "sha256", b"other", b"other value")]
        old = shared if own else None
        if own:
            setup.append(w_oneshot("s", "sha256", key, shared[1]))
        cases.append({"setup": setup, "victim": w_oneshot(vf, "sha256", key, shared[1]), "key": key, "old": old,
                      "new": shared, "others": {b"other": shared}})
    # an OVERWRITE with other bytes: at every kill point the key still reads its old value or already the new one (the old
    # content is not given up before the new record is in), and a key SHARING the old bytes is never harmed
    for vf, shared_old in (("s", False), ("a", False), ("s", True)):
        key = b"kover"
        oldv = ("sha256", b"other value") if shared_old else ("sha512", b"the value before the overwrite")
        newv = ("sha256", b"the value after the overwrite, a little longer")
        setup = [w_oneshot("s", "sha256", b"other", b"other value"), w_oneshot("s", oldv[0], key, oldv[1])]
        cases.append({"setup": setup, "victim": w_oneshot(vf, newv[0], key, newv[1]), "key": key, "old": oldv,
                      "new": newv, "others": {b"other": ("sha256", b"other value")}})
    # a streamed writer with a declared size that receives FEWER bytes (its commit is rejected), the bytes being
    # another key's value: at no kill point of open / write / commit may that key's content be harmed
    for vf, keyed in (("s", True), ("s", False), ("a", False)):
        shared = ("sha256", b"other value")
        kk = b"kshort"
        victim = [f"wopen {vf} c0 W1 {hx(kk) if keyed else '-'} algo=sha256 size={len(shared[1]) + 1000} sri=- time=- meta=- raw=-",
                  f"wwrite W1 {hx(shared[1])}", "wcommit W1"]
        cases.append({"setup": [w_oneshot("s", "sha256", b"other", b"other value")], "victim": victim, "key": kk,
                      "old": None, "new": None, "others": {b"other": shared}})
    for i in range(max(0, n - 9)):
        key = r.pick([b"k", "ключ-é".encode(), b"tab\tkey", b"key with spaces"])
        algo = r.pick(L.ALGOS)
        old = (r.pick(L.ALGOS), b"old value " + bytes([i])) if r.chance(0.6) else None
        new = (algo, G.data(r, r.pick([0, 1, 5, 300, 5000])) + b"N")
        # sometimes the bytes being written are already in the cache under another key (or are the key's own
        # current value): publishing them again must not put that copy at risk at any kill point
        if r.chance(0.3):
            new = ("sha256", b"other value")
        elif old and r.chance(0.2):
            new = old
        algo = new[0]
        setup = [w_oneshot("s", "sha256", b"other", b"other value")]
        if old:
            setup.append(w_oneshot("s", old[0], key, old[1]))
        kind = r.pick(["write", "write", "stream", "remove"])
        vf = r.pick("ssa")          # the victim also through the async API (kill counters are per thread)
        if kind == "remove" and old:
            victim, newv = f"remove {vf} c0 {hx(key)}", None
        elif kind == "stream":
            md = {"note": "é日本", "n": i}
            victim = f"index_insert {vf} c0 {hx(key)} sri={hx(L.sri_of(*new).encode())} time=- size={len(new[1])} meta={hx(L.render_json(md).encode())} raw=-"
            # index_insert alone does not store content: put it there first so that 'visible => readable' is meaningful
            setup.append(f"write_hash s c0 {new[0]} {hx(new[1])}")
            newv = new
        else:
            victim, newv = w_oneshot(vf, algo, key, new[1]), new
        cases.append({"setup": setup, "victim": victim, "key": key, "old": old, "new": newv,
                      "others": {b"other": ("sha256", b"other value")}})
    return cases


# ---------------------------------------------------------------------------------------------
# an observer between any two system calls of a mutating operation (C07, two-operation interleavings)
# ---------------------------------------------------------------------------------------------
_OBS_TIME = re.compile(r"time=\d+")


def observer_cases():
    k, other = b"ok", b"other"
    old, new = b"the old value", b"the NEW value, a little longer"
    warm = [w_oneshot("s", "sha256", other, b"other value"), w_oneshot("s", "sha256", k, old)]
    s_old, s_new = sri_tok("sha256", old), sri_tok("sha512", new)
    obs = [f"metadata s c0 {hx(k)}", f"metadata a c0 {hx(k)}", f"read s c0 {hx(k)}", f"read a c0 {hx(k)}", "list c0",
           f"exists s c0 {s_old}", f"exists s c0 {s_new}", f"read_hash s c0 {s_old}", f"read_hash a c0 {s_new}",
           f"read s c0 {hx(other)}"]
    cases = []
    for vf in "sa":
        cases += [
            {"name": f"first-write/{vf}", "cold": True, "setup": [], "victim": w_oneshot(vf, "sha512", k, new), "observers": obs},
            {"name": f"first-write-hash/{vf}", "cold": True, "setup": [], "victim": f"write_hash {vf} c0 sha512 {hx(new)}", "observers": obs},
            {"name": f"overwrite/{vf}", "cold": False, "setup": warm, "victim": w_oneshot(vf, "sha512", k, new), "observers": obs},
            {"name": f"same-content/{vf}", "cold": False, "setup": warm, "victim": w_oneshot(vf, "sha256", b"k2", old), "observers": obs},
            {"name": f"remove/{vf}", "cold": False, "setup": warm, "victim": f"remove {vf} c0 {hx(k)}", "observers": obs},
            {"name": f"remove-hash/{vf}", "cold": False, "setup": warm, "victim": f"remove_hash {vf} c0 {s_old}", "observers": obs},
        ]
    return cases


def leg_observer_sweep(flavour, tier, jobs=8):
    """Two-operation interleavings at system-call granularity, one of the two read-only: the mutating
    operation is stopped (SIGKILL) on entry to its N-th mutating system call, for every N, and each
    observer (lookup, read, listing, exists, read by address - sync and async) runs on the directory as
    it stands.  Every observer answer must be its answer BEFORE the operation or its answer AFTER it
    (times masked): anything else is a result no sequential order of the two operations produces."""
    failures, samples = [], []
    points, states = 0, set()
    W = {"DRIVE_WORKER": "1", "BLOCKING_MAX_THREADS": "1", "DRIVE_BLOCKING_THREADS": "1"}

    def norm_obs(line):
        return _OBS_TIME.sub("time=T", E.norm(line))

    def sweep(case):
        out = []
        tmpl = os.path.join(C.scratch_root(), f"obs-tmpl{next(E._counter)}")
        if case["setup"]:
            T.run_traced(flavour, case["setup"], scratch=tmpl)
        else:
            shutil.rmtree(tmpl, ignore_errors=True); os.makedirs(tmpl)

        def fresh():
            d = os.path.join(C.scratch_root(), f"obs{next(E._counter)}")
            shutil.rmtree(d, ignore_errors=True)
            copy_tree(tmpl, d)
            return d
        sc = fresh()
        before = E.run_impl(flavour, "\n".join(case["observers"]) + "\n", scratch=sc, reuse=True)[0]
        shutil.rmtree(sc, ignore_errors=True)
        sc = fresh()
        base = T.run_traced(flavour, [case["victim"]], scratch=sc, reuse=True, env_extra=W)
        after = E.run_impl(flavour, "\n".join(case["observers"]) + "\n", scratch=sc, reuse=True)[0]
        shutil.rmtree(sc, ignore_errors=True)
        for n in kill_points(base):
            scratch = fresh()
            r = T.run_traced(flavour, [case["victim"]], scratch=scratch, reuse=True, env_extra=W,
                             inject=f"inject={n[0]}:signal=SIGKILL:when={n[1]}")
            got = E.run_impl(flavour, "\n".join(case["observers"]) + "\n", scratch=scratch, reuse=True)[0]
            shutil.rmtree(scratch, ignore_errors=True)
            out.append((n, r, got))
        shutil.rmtree(tmpl, ignore_errors=True)
        return case, before, after, out
    with ThreadPoolExecutor(max_workers=jobs) as ex:
        allres = list(ex.map(sweep, observer_cases()))
    for case, before, after, out in allres:
        for n, r, got in out:
            if not r.killed:
                continue
            points += 1
            where = f"`{case['victim'][:40]}` ({case['name']}) stopped at its {n[0]} #{n[1]}"
            for j, o in enumerate(case["observers"]):
                g = norm_obs(got[j]) if j < len(got) else "missing"
                allowed = {norm_obs(before[j]) if j < len(before) else "?", norm_obs(after[j]) if j < len(after) else "?"}
                states.add((case["name"].split("/")[0], o.split(" ")[0], g.split(" ")[0], g in allowed))
                if g not in allowed:
                    f = Failure("not_serializable", n, f"{where}: `{o[:40]}` answers {g[:70]} - before the operation it answers "
                                f"{norm_obs(before[j])[:50]}, after it {norm_obs(after[j])[:50]}",
                                sig={"victim": case["victim"].split(" ")[0], "observer": o.split(" ")[0], "cold": case["cold"],
                                     "answer": E.rclass(g)})
                    f.replay_text = "\n".join(case["setup"] + [case["victim"]]) + f"\n# stopped with inject={n[0]}:signal=SIGKILL:when={n[1]} (DRIVE_WORKER=1); then:\n{o}\n"
                    failures.append(f)
            if len(samples) < 3:
                samples.append({"victim": case["victim"][:60], "stopped_at": n, "observers": [norm_obs(x)[:40] for x in got[:5]]})
    return {"failures": failures, "disagreements": [], "evaluations": points * len(observer_cases()[0]["observers"]),
            "distinct_nontrivial": len(states), "samples": samples, "observer_points": points}


def interference_cases():
    """(victim, interferers): pairs of MUTATING operations on one warm cache."""
    k, k2, other = b"vk", b"vk2", b"other"
    V, V2, old = b"victim value " * 5, b"the interferer's value", b"the value before"
    sV, sOld = sri_tok("sha256", V), sri_tok("sha256", old)
    warm = [w_oneshot("s", "sha256", other, b"other value"), w_oneshot("s", "sha256", k, old)]
    obs = [f"metadata s c0 {hx(k)}", f"read s c0 {hx(k)}", f"read a c0 {hx(k)}", f"metadata a c0 {hx(k2)}", f"read s c0 {hx(k2)}",
           f"read_hash s c0 {sV}", f"exists a c0 {sV}", f"read_hash a c0 {sOld}", "list c0", f"read s c0 {hx(other)}", "dump c0/tmp"]
    cases = []
    for vf in "sa":
        i_f = "a" if vf == "s" else "s"
        cases += [
            {"name": f"write/{vf}", "setup": warm, "victim": w_oneshot(vf, "sha256", k, V),
             "interferers": [f"remove_hash {i_f} c0 {sV}", f"remove {i_f} c0 {hx(k)}", w_oneshot(i_f, "sha256", k, V2),
                             w_oneshot(i_f, "sha256", k2, V), f"write_hash {i_f} c0 sha256 {hx(V)}"], "observers": obs},
            {"name": f"rewrite/{vf}", "setup": warm + [w_oneshot("s", "sha256", k2, V)], "victim": w_oneshot(vf, "sha256", k, V),
             "interferers": [f"remove_hash {i_f} c0 {sV}"], "observers": obs},
            {"name": f"write-hash/{vf}", "setup": warm, "victim": f"write_hash {vf} c0 sha256 {hx(V)}",
             "interferers": [f"remove_hash {i_f} c0 {sV}", w_oneshot(i_f, "sha256", k2, V), f"write_hash {i_f} c0 sha256 {hx(V)}"], "observers": obs},
            {"name": f"remove/{vf}", "setup": warm, "victim": f"remove {vf} c0 {hx(k)}",
             "interferers": [w_oneshot(i_f, "sha256", k, V2), f"remove {i_f} c0 {hx(k)}", f"remove_hash {i_f} c0 {sOld}"], "observers": obs},
            {"name": f"remove-hash/{vf}", "setup": warm, "victim": f"remove_hash {vf} c0 {sOld}",
             "interferers": [w_oneshot(i_f, "sha256", k2, old), f"write_hash {i_f} c0 sha256 {hx(old)}", f"remove_hash {i_f} c0 {sOld}"], "observers": obs},
        ]
    return cases


def leg_pause_interfere(flavour, tier, jobs=8):
    """Two MUTATING operations of two processes, interleaved at system-call granularity: the victim is STOPPED (an
    injected SIGSTOP: the whole process, between two of its system calls) after its N-th call of every mutating
    class, the interferer - a write, a removal, a removal by address, on the same key / the same content - runs to
    completion in another process, the victim is continued.  (victim's answer, interferer's answer, what lookups /
    reads / the listing answer afterwards) must be what "victim, then interferer" or "interferer, then victim" give
    (times masked).  A check-then-act on the content area or the index shows here as an answer no order produces."""
    failures, samples = [], []
    points, states = 0, set()
    W = {"DRIVE_WORKER": "1", "BLOCKING_MAX_THREADS": "1", "DRIVE_BLOCKING_THREADS": "1"}

    def norm_obs(line):
        return _OBS_TIME.sub("time=T", re.sub(r" @now=\d+", "", E.norm(line)))

    def sweep(case):
        out = []
        tmpl = os.path.join(C.scratch_root(), f"pi-tmpl{next(E._counter)}")
        T.run_traced(flavour, case["setup"], scratch=tmpl)

        def fresh():
            d = os.path.join(C.scratch_root(), f"pi{next(E._counter)}")
            shutil.rmtree(d, ignore_errors=True)
            copy_tree(tmpl, d)
            return d
        sc = fresh()
        base = T.run_traced(flavour, [case["victim"]], scratch=sc, reuse=True, env_extra=W)
        shutil.rmtree(sc, ignore_errors=True)
        pts = kill_points(base)
        if tier == "quick" and len(pts) > 10:
            pts = pts[::max(1, len(pts) // 10)]
        for itf in case["interferers"]:
            serial = []
            for order in ([case["victim"], itf], [itf, case["victim"]]):
                sc = fresh()
                o = E.run_impl(flavour, "\n".join(order + case["observers"]) + "\n", scratch=sc, reuse=True)[0]
                shutil.rmtree(sc, ignore_errors=True)
                v, i_ = (o[0], o[1]) if order[0] == case["victim"] else (o[1], o[0])
                serial.append(tuple(norm_obs(x) for x in [v, i_] + o[2:]))
            for n in pts:
                scratch = fresh()
                got_i = []
                def hook():
                    got_i.extend(E.run_impl(flavour, itf + "\n", scratch=scratch, reuse=True)[0])
                r = T.run_traced(flavour, [case["victim"]], scratch=scratch, reuse=True, env_extra=W, timeout=90,
                                 inject=f"inject={n[0]}:signal=SIGSTOP:when={n[1]}", pause_hook=hook)
                obs = E.run_impl(flavour, "\n".join(case["observers"]) + "\n", scratch=scratch, reuse=True)[0]
                shutil.rmtree(scratch, ignore_errors=True)
                out.append((itf, n, r, got_i, obs, serial))
        shutil.rmtree(tmpl, ignore_errors=True)
        return case, out
    with ThreadPoolExecutor(max_workers=jobs) as ex:
        allres = list(ex.map(sweep, interference_cases()))
    for case, out in allres:
        for itf, n, r, got_i, obs, serial in out:
            if not r.paused or not got_i:
                continue
            points += 1
            v = r.impl_lines[0] if r.impl_lines else "missing"
            got = tuple(norm_obs(x) for x in [v, got_i[0]] + obs)
            ok = got in serial
            states.add((case["name"], itf.split(" ")[0], n[0], E.rclass(v), E.rclass(got_i[0]), ok))
            if not ok:
                # name the first component that fits neither order
                names = ["the victim's answer", "the interferer's answer"] + [f"`{o[:40]}` afterwards" for o in case["observers"]]
                bad = next((names[j] for j in range(min(len(got), len(names)))
                            if all(j >= len(sr) or got[j] != sr[j] for sr in serial)), "the combination of the answers")
                f = Failure("not_serializable", n, f"`{case['victim'][:36]}` ({case['name']}) stopped after its {n[0]} #{n[1]} while "
                            f"`{itf[:36]}` ran: {bad} fits neither order - victim {E.rclass(v)[:30]}, interferer {E.rclass(got_i[0])[:30]}",
                            sig={"victim": case["victim"].split(" ")[0], "interferer": itf.split(" ")[0], "paused": True,
                                 "victim_answer": E.rclass(v), "interferer_answer": E.rclass(got_i[0])})
                f.replay_text = ("\n".join(case["setup"] + [case["victim"]]) + f"\n# stopped with inject={n[0]}:signal=SIGSTOP:when={n[1]} "
                                 f"(DRIVE_WORKER=1); meanwhile, in another process:\n{itf}\n# continued; then:\n" + "\n".join(case["observers"]) + "\n")
                failures.append(f)
            if len(samples) < 3:
                samples.append({"victim": case["victim"][:50], "stopped_after": list(n), "interferer": itf[:50], "fits_an_order": ok})
    return {"failures": failures, "disagreements": [], "evaluations": points, "distinct_nontrivial": len(states),
            "samples": samples, "pause_points": points}


# ---------------------------------------------------------------------------------------------
# errno injection (C13)
# ---------------------------------------------------------------------------------------------

FAULT_CALLS = ["mkdir", "openat", "write", "fallocate", "ftruncate", "renameat,renameat2,rename", "unlink,unlinkat", "read", "linkat",
               "copy_file_range", "newfstatat,statx", "getdents64", "fsync,fdatasync"]
ERRNOS = ["EIO", "ENOSPC", "EACCES", "EMFILE"]


def ops_of(case):
    return case["setup"] + [case["victim"]]


def leg_fault_injection(cases, flavour, tier, jobs=8):
    """cases: list of dict(setup, victim, key, data (or None), kind).  Inject every errno at the k-th
    occurrence of every syscall class during the victim; judge result and post-state."""
    failures, samples = [], []
    injections = 0
    classes = set()
    fault_dis = []
    compared = 0

    ALLNAMES = sum((c.split(",") for c in FAULT_CALLS), [])
    WORKER = {"DRIVE_WORKER": "1", "BLOCKING_MAX_THREADS": "1", "DRIVE_BLOCKING_THREADS": "1"}

    def run_case(case):
        # The setup runs in a process of its own; the victim alone runs under injection, its op loop on
        # a fresh thread (DRIVE_WORKER): strace keeps the `when=N` counter per thread, so N ranges over
        # the calls of the operation itself — on the worker thread (sync API, async front half) and on
        # every pool thread of the async runtimes — and never hits the process start-up.
        out = []
        tmpl = os.path.join(C.scratch_root(), f"flt-tmpl{next(E._counter)}")
        rs = T.run_traced(flavour, case["setup"], scratch=tmpl)
        try:
            case["_model_set"] = model_fault_set(case["setup"], rs.impl_lines, case["victim"])
        except Exception as ex:          # the correspondence must never take the leg down
            case["_model_set"] = None

        def fresh():
            d = os.path.join(C.scratch_root(), f"flt{next(E._counter)}")
            shutil.rmtree(d, ignore_errors=True)
            copy_tree(tmpl, d)
            return d
        sc = fresh()
        base = T.run_traced(flavour, [case["victim"]], scratch=sc, reuse=True, env_extra=WORKER, extra_trace=ALLNAMES)
        shutil.rmtree(sc, ignore_errors=True)
        pids = list(base.counts_by_pid)
        threads = pids      # every thread: with an attached tracer the first thread seen need not be the main one
        for cls in FAULT_CALLS:
            names = cls.split(",")
            # strace keeps the `when=N` counter per system call NAME (and thread): N ranges up to the largest count of
            # any one name of the class
            mx = max([base.counts_by_pid[t].get(nm, 0) for t in threads for nm in names] or [0])
            occ = list(range(1, mx + 1))
            if tier == "quick" and len(occ) > 3 and case["kind"] != "list":
                occ = [occ[0], occ[len(occ) // 2], occ[-1]]
            elif tier == "quick" and len(occ) > 12:
                occ = occ[:12]              # a listing: every call of the walk over the first buckets
            for n in occ:
                for en in (ERRNOS if tier == "thorough" else ERRNOS[:2]):
                    if en == "EMFILE" and names[0] not in ("openat",):
                        continue
                    scratch = fresh()
                    r = T.run_traced(flavour, [case["victim"]], scratch=scratch, reuse=True, env_extra=WORKER,
                                     extra_trace=names, inject=f"inject={cls}:error={en}:when={n}")
                    key = case["key"]
                    probe = ["dump c0", "dump c0/tmp", case["victim"]]
                    if key is not None:
                        probe += [f"read s c0 {hx(key)}"]
                    for k2, d2 in case.get("others", {}).items():
                        probe.append(f"read a c0 {hx(k2)}")
                    r2 = T.run_traced(flavour, probe, scratch=scratch, reuse=True)
                    shutil.rmtree(scratch, ignore_errors=True)
                    out.append((cls, n, en, r, r2, probe))
        shutil.rmtree(tmpl, ignore_errors=True)
        return case, out
    with ThreadPoolExecutor(max_workers=jobs) as ex:
        allres = list(ex.map(run_case, cases))
    for case, out in allres:
        vi = 0
        for cls, n, en, r, r2, probe in out:
            injected = any(e.startswith("injected") for ev in r.events for e in ev)
            if not injected or runtime_channel_hit(r):
                continue
            injections += 1
            where = f"{en} injected into {cls.split(',')[0]} #{n} during `{case['victim'][:50]}`"
            res = toks(r.impl_lines[vi]) if vi < len(r.impl_lines) else ["missing"]
            sig = {"victim": case["victim"].split(" ")[0], "call": cls.split(",")[0], "errno": en}
            fs_ = trace_monitor(r, [case["victim"]], where + ": ")
            if res[0] in ("panic", "hang", "missing") or r.killed:
                fs_.append(Failure("panic_or_hang_on_fault", n, f"{where}: {res[0]}", sig=sig))
            il = r2.impl_lines
            if len(il) < len(probe):
                fs_.append(Failure("unusable_after_fault", n, f"{where}: inspection stopped", sig=sig))
            else:
                fs_ += content_valid_monitor(il[0], where)
                # C14: the operation has returned and its writer is gone: no temp file of it remains
                # (unless the injected failure was the deletion itself)
                if case["kind"] == "write" and not cls.startswith("unlink"):
                    tfiles, _, _ = parse_dump(il[1])
                    if tfiles:
                        fs_.append(Failure("temp_left_after_fault", n, f"{where}: result {' '.join(res[:3])}; left in tmp: {sorted(tfiles)[:2]}",
                                           sig=dict(sig, api=case["victim"].split(" ")[1])))
                retry = toks(il[2])
                if retry[0] != "ok" and case.get("retry_ok", True):
                    fs_.append(Failure("retry_fails", n, f"{where}: the same call without the fault -> {' '.join(retry[:3])}", sig=sig))
                if case["kind"] == "remove_fully":
                    files_, _, _ = parse_dump(il[0])
                    left = [p_ for p_ in ("c0/" + L.content_rel(L.sri_of(case["algo"], case["rf_data"])), "c0/" + L.bucket_rel(case["rf_key"]))
                            if p_ in files_]
                    if res[0] == "ok" and left:
                        fs_.append(Failure("untruthful_remove_fully", n, f"{where}: remove_fully answered ok but {left[0]} is still there", sig=sig))
                    if res[0] == "err" and retry[0] != "ok":
                        fs_.append(Failure("retry_fails", n, f"{where}: remove_fully answered {' '.join(res[:3])}; the same call without the fault -> "
                                           f"{' '.join(retry[:3])}", sig=sig))
                if case["kind"] == "list" and res[0] == "ok":
                    # a listing under a fault may contain error items, but must not silently leave out a live entry
                    items = r.impl_lines[vi].split(" ", 1)[1].split(";") if " " in r.impl_lines[vi] else []
                    keys_listed = {x.split("key=")[1].split(" ")[0] for x in items if x.startswith("meta ") and "key=" in x}
                    has_err = any(not x.startswith("meta ") for x in items)
                    want_keys = {hx(k_) for k_ in [case["key"]] + list(case.get("others", {}))}
                    if not has_err and not want_keys <= keys_listed:
                        fs_.append(Failure("listing_omits_under_fault", n, f"{where}: the listing has no error item and leaves out "
                                           f"{len(want_keys - keys_listed)} of {len(want_keys)} live entries", sig=sig))
                k = 3
                if case["key"] is not None and case.get("data") is not None:
                    rd = toks(il[k]); k += 1
                    if retry[0] == "ok" and (rd[0] != "ok" or unhx(rd[1]) != case["data"]):
                        fs_.append(Failure("write_not_retrievable", n, f"{where}: after the retry the data is not read back", sig=sig))
                    if res[0] == "ok" and case["kind"] == "write":
                        pass
                elif case["key"] is not None:
                    k += 1
                for k2, d2 in case.get("others", {}).items():
                    ro = toks(il[k]); k += 1
                    if ro[0] != "ok" or unhx(ro[1]) != d2:
                        fs_.append(Failure("other_entry_affected", n, f"{where}: another entry no longer reads its value", sig=sig))
                # C14: data becomes reachable under a key only through a commit that REPORTED success - a keyed
                # write that answered an error must not have mapped the key to the new data
                if res[0] == "err" and case["kind"] == "write" and case["key"] is not None and case.get("data") is not None:
                    files, _, _ = parse_dump(il[0])
                    bucket = files.get("c0/" + L.bucket_rel(case["key"]))
                    cur = L.lookup(L.decode_bucket(bucket), case["key"].decode("utf-8", "replace")) if bucket is not None else None
                    if cur is not None and cur.get("integrity") == L.sri_of(case["algo"], case["data"]):
                        fs_.append(Failure("failed_write_visible", n, f"{where}: the write answered {' '.join(res[:3])} but the key is mapped to "
                                           "the new data all the same", sig=dict(sig, api=case["victim"].split(" ")[1])))
                # false success of a write: the faulty run said ok but a read (before the retry) would not have found it
                if res[0] == "ok" and case["kind"] == "write" and case.get("data") is not None:
                    files, _, _ = parse_dump(il[0])
                    cp = "c0/" + L.content_rel(L.sri_of(case["algo"], case["data"]))
                    if files.get(cp) != case["data"]:
                        fs_.append(Failure("false_success", n, f"{where}: write answered ok but the content is not stored", sig=sig))
                if case["kind"] == "read" and res[0] == "ok" and case.get("data") is not None:
                    if unhx(res[1]) != case["data"]:
                        fs_.append(Failure("wrong_bytes_under_fault", n, f"{where}: read returned wrong bytes", sig=sig))
                if case["kind"] == "clear" and res[0] == "ok":
                    # a clear that answers ok has cleared: nothing is left below the cache directory
                    files, links, _ = parse_dump(il[0])
                    left = sorted(p_ for p_ in list(files) + list(links) if p_.startswith("c0/"))
                    if left:
                        fs_.append(Failure("untruthful_clear", n, f"{where}: clear answered ok but {len(left)} files are still there, e.g. {left[0]}", sig=sig))
                if case["kind"] in ("lookup",) and res[0] == "ok":
                    # a faulty lookup may fail, but must not claim 'not found' / stale for a live key
                    m = meta_of_line(r.impl_lines[vi])
                    if m is None:
                        fs_.append(Failure("untruthful_lookup_under_fault", n, f"{where}: lookup of a live key answered 'not found'", sig=sig))
            # correspondence of the fault semantics: the real outcome (result class, files of the cache)
            # must be one the model allows for a single failing call of this operation
            ms = case.get("_model_set")
            if ms is not None and len(il) >= len(probe) and not r.killed and res[0] not in ("panic", "hang", "missing"):
                files0, links0, _ = parse_dump(il[0])
                cfiles = {p_: b_ for p_, b_ in files0.items() if p_.startswith("c0/")}
                clinks = {p_: v_ for p_, v_ in links0.items() if p_.startswith("c0/")}
                real = (E.rclass(r.impl_lines[vi]), _mask_state(cfiles, clinks))
                compared += 1
                if real not in ms:
                    same_res = [m_ for m_ in ms if m_[0] == real[0]]
                    fault_dis.append({"prog": case["victim"][:40], "op_index": 0, "op": case["victim"][:200],
                                      "what": f"outcome of a real injected fault ({where}) is not among the model's single-fault outcomes",
                                      "real": [real[0]] + sorted(f"{k_}:{p_}" for k_, p_, _ in real[1])[:12],
                                      "model": [f"{len(ms)} outcomes; {len(same_res)} with this result class"] +
                                               (sorted(f"{k_}:{p_}" for k_, p_, _ in sorted(same_res, key=lambda m_: len(m_[1] ^ real[1]))[0][1])[:12] if same_res else []),
                                      "ops": case["setup"] + [case["victim"], f"# strace -e inject={cls}:error={en}:when={n}"]})
            for f in fs_:
                f.replay_text = "\n".join(case["setup"] + [case["victim"]]) + f"\n# with strace -e inject={cls}:error={en}:when={n}; then:\n" + "\n".join(probe) + "\n"
            failures += fs_
            classes.add((case["victim"].split(" ")[0], cls.split(",")[0], en, res[0] if res[0] != "err" else " ".join(res[:3])))
            if len(samples) < 4:
                samples.append({"victim": case["victim"][:80], "inject": f"{cls.split(',')[0]}#{n}:{en}", "result": " ".join(res[:3])})
    by_call = {}
    for v, c, en, rs in classes:
        by_call[f"{v}/{c}"] = by_call.get(f"{v}/{c}", 0) + 1
    return {"failures": failures, "disagreements": fault_dis, "evaluations": injections, "distinct_nontrivial": len(classes),
            "samples": samples, "injections": injections, "fault_classes": by_call,
            "fault_outcomes_compared_with_model": compared}



# ---------------------------------------------------------------------------------------------
# a streamed writer whose caller carries on after a failed call (C13 / C14 / C01)
# ---------------------------------------------------------------------------------------------
WRITER_FAULT_CALLS = ["write", "ftruncate", "msync", "lseek", "fallocate", "renameat,renameat2,rename", "mkdir", "openat"]
WRITER_ERRNOS = ["EINTR", "EIO", "ENOSPC"]


def writer_fault_cases():
    """Streamed writes (no declared size / exact / too small = the mapping overflows / too large = short)
    whose caller tries a failed `write` again with the unacknowledged bytes (`wwrite_p`: what `write_all`
    does by itself on EINTR) and then commits."""
    a, b = b"first part of the stream;", b" and the second part of it, somewhat longer than the first."
    cases = []
    for fl in "sa":
        for name, size in (("undeclared", None), ("exact", len(a) + len(b)), ("overflow", len(a) + 7), ("short", len(a) + len(b) + 9),
                           ("overflow0", 0)):
            if name == "overflow0":
                continue            # declared size 0 never maps (F13 family is judged by C20)
            sz = f"size={size}" if size is not None else "size=-"
            ops = [f"wopen {fl} c0 W1 {hx(b'wk')} algo=sha256 {sz} sri=- time=- meta=- raw=-",
                   f"wwrite_p W1 {hx(a)}", f"wwrite_p W1 {hx(b)}", "wcommit W1"]
            cases.append({"name": f"{name}/{fl}", "ops": ops, "data": a + b, "size": size, "key": b"wk", "algo": "sha256"})
    return cases


def leg_writer_faults(flavour, tier, jobs=8):
    """One errno at every occurrence of every syscall class during a streamed write whose caller persists.
    Judged from a fresh process: the content area is valid whatever happened (no file whose bytes are not
    the address's digest - F17: a failed truncation while leaving the mapping used to leave a writer that
    published padding); a commit that answers ok means the key reads back exactly the stream, an error means
    the key is not mapped to it; nothing panics or hangs; no temp file stays."""
    failures, classes, samples = [], set(), []
    injections = 0
    WORKER = {"DRIVE_WORKER": "1", "BLOCKING_MAX_THREADS": "1", "DRIVE_BLOCKING_THREADS": "1"}
    ALLNAMES = sum((c.split(",") for c in WRITER_FAULT_CALLS), [])

    def run_case(case):
        out = []
        sc = os.path.join(C.scratch_root(), f"wf{next(E._counter)}")
        base = T.run_traced(flavour, case["ops"], scratch=sc, env_extra=WORKER, extra_trace=ALLNAMES)
        shutil.rmtree(sc, ignore_errors=True)
        pids = list(base.counts_by_pid)
        threads = pids
        for cls in WRITER_FAULT_CALLS:
            names = cls.split(",")
            mx = max([base.counts_by_pid[t].get(nm, 0) for t in threads for nm in names] or [0])
            occ = list(range(1, mx + 1))
            if tier == "quick" and len(occ) > 4:
                occ = [occ[0], occ[1], occ[len(occ) // 2], occ[-1]]
            for n in occ:
                for en in (WRITER_ERRNOS if tier == "thorough" or cls in ("ftruncate", "msync", "lseek") else WRITER_ERRNOS[:2]):
                    scratch = os.path.join(C.scratch_root(), f"wf{next(E._counter)}")
                    r = T.run_traced(flavour, case["ops"], scratch=scratch, env_extra=WORKER, extra_trace=names,
                                     inject=f"inject={cls}:error={en}:when={n}")
                    probe = ["dump c0", "dump c0/tmp", f"read s c0 {hx(case['key'])}"]
                    r2 = T.run_traced(flavour, probe, scratch=scratch, reuse=True)
                    shutil.rmtree(scratch, ignore_errors=True)
                    out.append((cls, n, en, r, r2, probe))
        return case, out
    with ThreadPoolExecutor(max_workers=jobs) as ex:
        allres = list(ex.map(run_case, writer_fault_cases()))
    for case, out in allres:
        for cls, n, en, r, r2, probe in out:
            if not any(e.startswith("injected") for ev in r.events for e in ev) or runtime_channel_hit(r):
                continue
            injections += 1
            where = f"{en} injected into {cls.split(',')[0]} #{n} during the streamed write {case['name']} (declared size {case['size']})"
            sig = {"victim": "stream-" + case["name"].split("/")[0], "call": cls.split(",")[0], "errno": en}
            lines = [toks(x) for x in r.impl_lines]
            fs_ = trace_monitor(r, case["ops"], where + ": ")
            if r.killed or any(t[0] in ("panic", "hang") for t in lines) or len(lines) < len(case["ops"]):
                fs_.append(Failure("panic_or_hang_on_fault", n, f"{where}: {[' '.join(t[:3]) for t in lines][-2:]}", sig=sig))
            il = r2.impl_lines
            if len(il) < len(probe):
                fs_.append(Failure("unusable_after_fault", n, f"{where}: inspection stopped", sig=sig))
            else:
                fs_ += content_valid_monitor(il[0], where)
                commit = lines[len(case["ops"]) - 1] if len(lines) >= len(case["ops"]) else ["missing"]
                acked = all(t[0] == "ok" for t in lines[1:len(case["ops"]) - 1])
                rd = toks(il[2])
                good_size = case["size"] is None or case["size"] == len(case["data"])
                if commit[0] == "ok":
                    if not acked or not good_size:
                        fs_.append(Failure("false_success", n, f"{where}: commit answered ok although "
                                           + ("a write was refused" if not acked else "the declared size is wrong"), sig=sig))
                    elif rd[0] != "ok" or unhx(rd[1]) != case["data"]:
                        fs_.append(Failure("false_success", n, f"{where}: commit answered ok but the key does not read back the stream", sig=sig))
                elif rd[0] == "ok":
                    fs_.append(Failure("failed_write_visible", n, f"{where}: commit answered {' '.join(commit[:3])} but the key reads", sig=sig))
                tfiles, _, _ = parse_dump(il[1])
                if tfiles:
                    fs_.append(Failure("temp_left_after_fault", n, f"{where}: left in tmp: {sorted(tfiles)[:2]}", sig=sig))
            for f in fs_:
                f.replay_text = "\n".join(case["ops"]) + f"\n# with strace -e inject={cls}:error={en}:when={n} (DRIVE_WORKER=1); then:\n" + "\n".join(probe) + "\n"
            failures += fs_
            res = " / ".join(" ".join(t[:3]) if t[0] == "err" else t[0] for t in lines[1:])
            classes.add((case["name"], cls.split(",")[0], en, res))
            if len(samples) < 4:
                samples.append({"stream": case["name"], "inject": f"{cls.split(',')[0]}#{n}:{en}", "results": res})
    by_call = {}
    for nm, c, en, rs in classes:
        by_call[f"stream-{nm.split('/')[0]}/{c}"] = by_call.get(f"stream-{nm.split('/')[0]}/{c}", 0) + 1
    return {"failures": failures, "disagreements": [], "evaluations": injections, "distinct_nontrivial": len(classes),
            "samples": samples, "injections": injections, "fault_classes": by_call}


_TIME_RE = re.compile(rb'"time":\d+')


def _mask_state(files, links):
    """Canonical view of a cache's files for the fault correspondence: bucket lines with checksum and
    time masked (a default time stamp is the wall clock), everything else verbatim."""
    out = []
    for p, b in files.items():
        if "/index-v5/" in p:
            lines = []
            for ln in b.split(b"\n"):
                h, tab, j = ln.partition(b"\t")
                lines.append((b"H" if tab and len(h) == 64 else h) + tab + _TIME_RE.sub(b'"time":T', j))
            b = b"\n".join(lines)
        out.append(("f", p, b))
    for p, v in links.items():
        out.append(("l", p, v))
    return frozenset(out)


def model_fault_set(setup_ops, setup_impl, victim):
    """All single-fault outcomes the model allows for `victim` after `setup_ops`:
    set of (result class, masked files).  None when the driver has no program for the op."""
    pre = E.xxh3_oracle_lines(setup_ops + [victim]) if any("xxh3" in o for o in setup_ops + [victim]) else []
    ann = pre + E.annotate(setup_ops, setup_impl) + ["faultset " + victim]
    out = E.run_model(ann)
    if not out or not out[-1].startswith("ok "):
        return None
    res = set()
    for item in out[-1][3:].split(" ;; "):
        r, _, dump = item.partition("|")
        files, links = {}, {}
        for x in (dump.split(",") if dump else []):
            kind, _, rest = x.partition(":")
            pth, _, v = rest.partition("=")
            if kind == "f":
                files[pth] = unhx(v)
            elif kind == "l":
                links[pth] = v
        res.add((E.rclass(r), _mask_state(files, links)))
    return res


def model_crash_set(setup_ops, setup_impl, victim):
    """Every state (masked files + links of the cache) the model's `crash n t` can leave for `victim`."""
    pre = E.xxh3_oracle_lines(setup_ops + [victim]) if any("xxh3" in o for o in setup_ops + [victim]) else []
    out = E.run_model(pre + E.annotate(setup_ops, setup_impl) + ["crashset " + victim])
    if not out or not out[-1].startswith("ok"):
        return None
    res = set()
    for dump in out[-1][3:].split(" ;; "):
        files, links = {}, {}
        for x in (dump.split(",") if dump else []):
            kind, _, rest = x.partition(":")
            pth, _, v = rest.partition("=")
            if kind == "f":
                files[pth] = unhx(v)
            elif kind == "l":
                links[pth] = v
        res.add(_mask_state(files, links))
    return res


def fault_cases_list(r):
    """Listing victims for C10: three live keys in three buckets."""
    ws = [w_oneshot("s", "sha256", b"la", b"value a"), w_oneshot("a", "sha512", b"lb", b"value b"), w_oneshot("s", "sha1", b"lc", b"value c")]
    return [{"setup": ws, "victim": "list c0", "key": b"la", "data": b"value a", "algo": "sha256", "kind": "list",
             "others": {b"lb": b"value b", b"lc": b"value c"}}]


def fault_cases_removals():
    """C09 ('clearing leaves an empty cache', 'a full removal deletes entry and content'): `clear` and `remove_fully`, sync and
    async, under every injected errno: an ok answer means the thing is gone."""
    d = b"removed under a fault " * 6
    key = b"rk"
    base = [w_oneshot("s", "sha256", b"other", b"other value"), w_oneshot("a", "sha512", key, d)]
    cases = [{"setup": base, "victim": f"clear {fl} c0", "key": None, "data": None, "algo": "sha512", "kind": "clear", "others": {}} for fl in "sa"]
    cases += [{"setup": base, "victim": f"remove_fully {fl} c0 {hx(key)}", "key": None, "data": None, "algo": "sha512", "kind": "remove_fully",
               "rf_key": key, "rf_data": d, "retry_ok": False, "others": {b"other": b"other value"}} for fl in "sa"]
    return cases


def fault_cases_inserts():
    """C06 ('no lookup ever returns an entry that was not written by a SUCCESSFUL insert'): keyed one-shot writes and a
    rewrite of an existing key; whatever call fails, a write that answers an error has not mapped the key to the new data."""
    d = b"inserted under a fault " * 6
    key = b"ik"
    base = [w_oneshot("s", "sha256", b"other", b"other value")]
    others = {b"other": b"other value"}
    return [
        {"setup": base, "victim": w_oneshot("s", "sha256", key, d), "key": key, "data": d, "algo": "sha256", "kind": "write", "others": others},
        {"setup": base + [w_oneshot("s", "sha256", key, b"the old value")], "victim": w_oneshot("a", "sha256", key, d), "key": key, "data": d,
         "algo": "sha256", "kind": "write", "others": others},
    ]


def fault_cases_writes(r):
    """Write-only cases for C14 (temp files after failed commits), all entry points x flavours."""
    d = b"fault data " * 20
    key = b"fk"
    base = [w_oneshot("s", "sha256", b"other", b"other value")]
    others = {b"other": b"other value"}
    cases = []
    for fl in "sa":
        for algo in ("sha256", "sha1"):
            cases.append({"setup": base, "victim": w_oneshot(fl, algo, key, d), "key": key, "data": d, "algo": algo, "kind": "write", "others": others})
        cases.append({"setup": base, "victim": f"write_hash {fl} c0 sha512 {hx(d)}", "key": None, "data": d, "algo": "sha512", "kind": "write", "others": others})
    return cases


def fault_cases(r):
    d = b"fault data " * 20
    key = b"fk"
    base = [w_oneshot("s", "sha256", b"other", b"other value")]
    others = {b"other": b"other value"}
    cases = [
        {"setup": base, "victim": w_oneshot("s", "sha256", key, d), "key": key, "data": d, "algo": "sha256", "kind": "write", "others": others},
        {"setup": base, "victim": w_oneshot("a", "sha512", key, d), "key": key, "data": d, "algo": "sha512", "kind": "write", "others": others},
        {"setup": base, "victim": f"write_hash s c0 sha1 {hx(d)}", "key": None, "data": d, "algo": "sha1", "kind": "write", "others": others},
        {"setup": base + [w_oneshot("s", "sha256", key, d)], "victim": f"read s c0 {hx(key)}", "key": key, "data": d, "algo": "sha256", "kind": "read", "others": others},
        {"setup": base + [w_oneshot("s", "sha256", key, d)], "victim": f"read a c0 {hx(key)}", "key": key, "data": d, "algo": "sha256", "kind": "read", "others": others},
        {"setup": base + [w_oneshot("s", "sha256", key, d)], "victim": f"metadata s c0 {hx(key)}", "key": key, "data": d, "algo": "sha256", "kind": "lookup", "others": others},
        {"setup": base + [w_oneshot("s", "sha256", key, d)], "victim": f"metadata a c0 {hx(key)}", "key": key, "data": d, "algo": "sha256", "kind": "lookup", "others": others},
        {"setup": base + [w_oneshot("s", "sha256", key, d)], "victim": f"copy s c0 {hx(key)} out/dest", "key": key, "data": d, "algo": "sha256", "kind": "copy", "others": others},
        # extraction onto a path that already IS the content file (an earlier hard link of the entry): whatever call
        # of the same-file test or of the copy fails, the stored copy is not the one that pays for it
        {"setup": base + [w_oneshot("s", "sha256", key, d), f"hard_link_hash_unchecked s c0 {sri_tok('sha256', d)} out/dest"],
         "victim": f"copy s c0 {hx(key)} out/dest", "key": key, "data": d, "algo": "sha256", "kind": "copy", "others": others},
        {"setup": base + [w_oneshot("s", "sha256", key, d), f"hard_link_hash_unchecked s c0 {sri_tok('sha256', d)} out/dest"],
         "victim": f"copy a c0 {hx(key)} out/dest", "key": key, "data": d, "algo": "sha256", "kind": "copy", "others": others},
        {"setup": base + [w_oneshot("s", "sha256", key, d), f"hard_link_hash_unchecked s c0 {sri_tok('sha256', d)} out/dest"],
         "victim": f"copy_hash_unchecked s c0 {sri_tok('sha256', d)} out/dest", "key": key, "data": d, "algo": "sha256", "kind": "copy", "others": others},
        # ... and onto a SYMBOLIC link that leads to the content file (no second hard link: the F29 detach does not apply,
        # the same-file test is all that stands between the copy's O_TRUNC and the stored bytes)
        {"setup": base + [w_oneshot("s", "sha256", key, d), f"symlink out/dest rel:../c0/{L.content_rel(L.sri_of('sha256', d))}"],
         "victim": f"copy s c0 {hx(key)} out/dest", "key": key, "data": d, "algo": "sha256", "kind": "copy", "others": others},
        {"setup": base + [w_oneshot("s", "sha256", key, d), f"symlink out/dest rel:../c0/{L.content_rel(L.sri_of('sha256', d))}"],
         "victim": f"copy_hash_unchecked a c0 {sri_tok('sha256', d)} out/dest", "key": key, "data": d, "algo": "sha256", "kind": "copy", "others": others},
        {"setup": base + [w_oneshot("s", "sha256", key, d)], "victim": f"remove s c0 {hx(key)}", "key": None, "data": None, "algo": "sha256", "kind": "remove", "others": others},
        {"setup": base + [w_oneshot("s", "sha256", key, d)], "victim": "list c0", "key": key, "data": d, "algo": "sha256", "kind": "list", "others": others},
        # full removal: an ok answer means entry AND content are gone; after an error answer the same call succeeds
        {"setup": base + [w_oneshot("s", "sha256", key, d)], "victim": f"remove_fully s c0 {hx(key)}", "key": None, "data": None, "algo": "sha256",
         "kind": "remove_fully", "rf_key": key, "rf_data": d, "retry_ok": False, "others": others},
        {"setup": base + [w_oneshot("s", "sha256", key, d)], "victim": f"remove_fully a c0 {hx(key)}", "key": None, "data": None, "algo": "sha256",
         "kind": "remove_fully", "rf_key": key, "rf_data": d, "retry_ok": False, "others": others},
        {"setup": base + [w_oneshot("s", "sha256", key, d)], "victim": "clear s c0", "key": None, "data": None, "algo": "sha256", "kind": "clear", "others": {}},
        {"setup": base + [w_oneshot("s", "sha256", key, d)], "victim": "clear a c0", "key": None, "data": None, "algo": "sha256", "kind": "clear", "others": {}},
    ]
    return cases


# ---------------------------------------------------------------------------------------------
# real concurrency (C07): several harness processes on one cache directory
# ---------------------------------------------------------------------------------------------

def leg_concurrent(r, rounds, flavours, procs=4, ops_per_proc=40):
    """Several processes (sync and async APIs, both runtimes) hammer one cache: writers of the same
    key, writers of different keys with identical content, removers, readers, listers.  Judged
    afterwards: every read is some written value (never partial / mixed), every bucket decodes to
    whole records containing every successful write, the content store is valid."""
    import subprocess
    failures, samples = [], []
    evaluations = 0
    kinds = set()
    for rd in range(rounds):
        scratch = os.path.join(C.scratch_root(), f"conc{next(E._counter)}")
        shutil.rmtree(scratch, ignore_errors=True)
        os.makedirs(os.path.join(scratch, "out")); os.makedirs(os.path.join(scratch, "tgt"))
        keys = [b"shared", b"k1", b"k2", "ключ".encode()]
        values = [b"value-A" * 30, b"value-B" * 300, b"", b"same content", G.data(r, 5000)]
        plans = []
        for pi in range(procs):
            ops = []
            for _ in range(ops_per_proc):
                k = r.pick(keys); v = r.pick(values); fl = r.pick("sa"); a = r.pick(["sha256", "sha512", "sha1"])
                x = r.random()
                if x < 0.4:
                    ops.append(w_oneshot(fl, a, k, v))
                elif x < 0.5:
                    ops.append(f"write_hash {fl} c0 {a} {hx(v)}")
                elif x < 0.55:
                    ops.append(f"remove {fl} c0 {hx(k)}")
                elif x < 0.6:
                    ops.append(f"remove_hash {fl} c0 {sri_tok(a, v)}")
                elif x < 0.8:
                    ops.append(f"read {fl} c0 {hx(k)}")
                elif x < 0.9:
                    ops.append(f"metadata {fl} c0 {hx(k)}")
                elif x < 0.95:
                    ops.append(f"read_hash {fl} c0 {sri_tok(a, v)}")
                else:
                    ops.append("list c0")
            plans.append(ops)
        # ops from a file, results to a file: no pipe can fill up and stall a process (or this one), and all
        # processes start at (nearly) the same moment
        ps = []
        for pi, ops in enumerate(plans):
            fl = flavours[pi % len(flavours)]
            fin = os.path.join(scratch, f".in{pi}"); fout = os.path.join(scratch, f".out{pi}")
            with open(fin, "wb") as fh:
                fh.write(("\n".join(ops) + "\n").encode())
            ps.append((fl, ops, fin, fout))
        procs_ = []
        for fl, ops, fin, fout in ps:
            procs_.append(subprocess.Popen([C.drive_bin(fl), scratch], stdin=open(fin, "rb"), stdout=open(fout, "wb"),
                                           stderr=subprocess.DEVNULL, env=dict(os.environ, DRIVE_REUSE="1")))
        outs = []
        deadline = time.time() + 600
        for p_, (fl, ops, fin, fout) in zip(procs_, ps):
            try:
                p_.wait(timeout=max(1, deadline - time.time()))
                out = open(fout, "rb").read().decode(errors="replace").splitlines()
            except Exception:
                p_.kill()
                out = open(fout, "rb").read().decode(errors="replace").splitlines() + ["hang"]
            outs.append(out)
        for fl, ops, fin, fout in ps:
            for f_ in (fin, fout):
                try:
                    os.unlink(f_)
                except OSError:
                    pass
        ps = [(None, ops, fl) for fl, ops, fin, fout in ps]
        valset = {v for v in values}
        wrote = {}            # key -> set of (algo, value) successfully written
        for (p, ops, fl), out in zip(ps, outs):
            for i, op in enumerate(ops):
                evaluations += 1
                res = toks(out[i]) if i < len(out) else ["missing"]
                t = op.split(" ")
                kinds.add((t[0], res[0] if res[0] != "err" else " ".join(res[:3])))
                if res[0] in ("panic", "hang", "missing"):
                    failures.append(Failure("panic_or_hang_concurrent", i, f"{op[:60]} -> {res[0]} ({fl})", sig={"op": t[0]}))
                elif t[0] in ("write", "write_hash") and res[0] == "ok":
                    if t[0] == "write":
                        wrote.setdefault(unhx(t[4]), set()).add((t[3], unhx(t[5])))
                    # every operation's RESULT is that of some serial order: a write answers the integrity of ITS data
                    a_, v_ = (t[3], unhx(t[5])) if t[0] == "write" else (t[3], unhx(t[4]))
                    if len(res) > 1 and unhx(res[1]).decode(errors="replace") != L.sri_of(a_, v_):
                        failures.append(Failure("wrong_result_concurrent", i, f"{op[:60]} answered {unhx(res[1]).decode(errors='replace')[:40]}, "
                                                f"which is not the integrity of its own data ({fl})", sig={"op": t[0]}))
                elif t[0] == "write" and res[0] != "ok":
                    failures.append(Failure("write_failed_concurrent", i, f"{op[:60]} -> {' '.join(res[:3])} ({fl})", sig={"op": "write"}))
                elif t[0] in ("read", "read_hash") and res[0] == "ok":
                    if unhx(res[1]) not in valset:
                        failures.append(Failure("partial_or_mixed_read", i, f"{op[:60]} returned {len(unhx(res[1]))} bytes that no writer wrote ({fl})", sig={"op": t[0]}))
                elif t[0] in ("read", "read_hash") and res[:2] == ["err", "integrity"]:
                    failures.append(Failure("partial_content_observed", i, f"{op[:60]} -> integrity error: a reader saw a partial content file ({fl})", sig={"op": t[0]}))
                elif t[0] == "list" and res[0] == "ok":
                    for it in (out[i][3:].split(";") if len(out[i]) > 3 else []):
                        if it.startswith("err") and "notfound" not in it:
                            failures.append(Failure("list_error_concurrent", i, it[:60], sig={"op": "list"}))
        # final inspection
        probe = ["dump c0"]
        r2, _ = E.run_impl(flavours[0], "\n".join(probe) + "\n", scratch=scratch) if False else (None, None)
        p = subprocess.run([C.drive_bin(flavours[0]), scratch], input=b"dump c0\n", stdout=subprocess.PIPE,
                           stderr=subprocess.DEVNULL, env=dict(os.environ, DRIVE_REUSE="1"))
        dump = p.stdout.decode(errors="replace").splitlines()
        if dump:
            failures += content_valid_monitor(dump[0], "after the concurrent round")
            files, _, _ = parse_dump(dump[0])
            for k, vs in wrote.items():
                b = files.get("c0/" + L.bucket_rel(k))
                if b is None:
                    failures.append(Failure("lost_write", 0, f"bucket of {k!r} missing although writes succeeded", sig={"op": "write"}))
                    continue
                recs = L.decode_bucket(b)
                have = {(x["integrity"]) for x in recs if x.get("key") == k.decode() and x.get("integrity")}
                for (a, v) in vs:
                    if L.sri_of(a, v) not in have:
                        failures.append(Failure("lost_or_spliced_write", 0, f"a successful write of {k!r} has no whole record in its bucket", sig={"op": "write"}))
                # nothing but whole records: every line must decode
                segs = [s for s in b.split(b"\n") if s]
                if len(segs) != len(recs):
                    failures.append(Failure("spliced_records", 0, f"bucket of {k!r}: {len(segs)} lines but {len(recs)} decode", sig={"op": "write"}))
        for f in failures:
            if not hasattr(f, "replay_text"):
                f.replay_text = "\n".join(f"# process {i} ({fl})\n" + "\n".join(ops) for i, (p_, ops, fl) in enumerate(ps)) + "\n"
        if len(samples) < 2:
            samples.append({"processes": [fl for _, _, fl in ps], "ops_each": ops_per_proc, "first_ops": plans[0][:4]})
        shutil.rmtree(scratch, ignore_errors=True)
    return {"failures": failures, "disagreements": [], "evaluations": evaluations, "distinct_nontrivial": len(kinds),
            "samples": samples, "concurrent_rounds": rounds}


# ---------------------------------------------------------------------------------------------
# flavour equivalence (C12): one program, four executions
# ---------------------------------------------------------------------------------------------

def copy_tree(src, dst):
    """A copy of a prepared scratch directory that keeps symlinks AND hard links as they are (`shutil.copytree` turns
    two names of one inode into two files - and a destination that is a hard link of the content file into a bystander)."""
    import subprocess
    subprocess.run(["cp", "-a", src, dst], check=True)


def runtime_channel_hit(r):
    """strace counts `when=N` per thread: besides the filesystem call aimed at, the N-th call of that name of ANOTHER
    thread is tampered with too - and that may be the async runtime's own wake-up write (eventfd / pipe / socket; the
    `polling` crate ignores a failed eventfd write, so the wake-up is lost and the runtime sleeps for ever).  That is no
    fault of a filesystem operation issued on behalf of a cache call: such a run says nothing and is not counted."""
    hit = [e for ev in r.events for e in ev if e.startswith("nonfs-injected")]
    if hit:
        DISCARDED["runtime_channel"] += 1
        sys.stderr.write(f"fault leg: run discarded, the injection also hit a descriptor that is no file: {hit[0]}; "
                         f"answers were {[l.split(' ')[0] for l in r.impl_lines][:6]}\n")
    return bool(hit)


DISCARDED = {"runtime_channel": 0}


def leg_cold_start_race(flavours, rounds, procs=8):
    """Several processes make their FIRST writes into one cold cache at the same instant (`wait_until`): every
    directory of the cache is created by whoever gets there first, by the others "already there" must be fine.
    Every write must succeed (in every serial order they all do), every key must read back, the content area valid."""
    import subprocess
    failures, samples = [], []
    evaluations, kinds = 0, set()
    rd, retries = -1, 0
    while rd + 1 < rounds:
        rd += 1
        scratch = os.path.join(C.scratch_root(), f"cold{next(E._counter)}")
        shutil.rmtree(scratch, ignore_errors=True)
        os.makedirs(scratch)
        t0 = int(time.time() * 1000) + 400
        plans, ps = [], []
        for pi in range(procs):
            fl = "sa"[(pi + rd) % 2]
            k, v = b"cold%d" % pi, (b"value %d " % pi) * (1 + 40 * (pi % 3))
            shared = b"everybody writes this too"
            ops = [f"wait_until {t0}", w_oneshot(fl, "sha256", k, v), f"write_hash {fl} c0 sha256 {hx(shared)}",
                   w_oneshot(fl, "sha512", b"same-key", shared), f"read {fl} c0 {hx(k)}", "list c0"]
            plans.append((ops, k, v))
            binfl = flavours[pi % len(flavours)]
            fin = os.path.join(scratch, f".in{pi}"); fout = os.path.join(scratch, f".out{pi}")
            with open(fin, "wb") as fh:
                fh.write(("\n".join(ops) + "\n").encode())
            ps.append((subprocess.Popen([C.drive_bin(binfl), scratch], stdin=open(fin, "rb"), stdout=open(fout, "wb"),
                                        stderr=open(fout + ".err", "wb"), env=dict(os.environ, DRIVE_REUSE="1")), fout, binfl))
        for p, fout, binfl in ps:
            try:
                p.wait(timeout=120)
            except subprocess.TimeoutExpired:
                p.kill()
        # a process that printed nothing at all never reached the cache (the harness answers every operation, panics
        # included): the machine could not start it (thread / memory limits under load) - the round says nothing and
        # is repeated, at most three times
        dead = [(p.returncode, open(fout + ".err", "rb").read().decode(errors="replace")[-300:]) for p, fout, _ in ps
                if not open(fout, "rb").read().strip()]
        if dead and retries < 3:
            retries += 1
            rd -= 1
            sys.stderr.write(f"cold start race: round repeated, {len(dead)} processes did not start: {dead[0]}\n")
            shutil.rmtree(scratch, ignore_errors=True)
            time.sleep(2)
            continue
        for (ops, k, v), (p, fout, binfl) in zip(plans, ps):
            out = open(fout, "rb").read().decode(errors="replace").splitlines()
            for i, op in enumerate(ops[1:5], start=1):
                evaluations += 1
                res = toks(out[i]) if i < len(out) else ["missing"]
                kinds.add((op.split(" ")[0], res[0] if res[0] != "err" else " ".join(res[:3])))
                if res[0] != "ok":
                    f = Failure("write_failed_concurrent", i, f"first operations on a cold cache, {procs} processes at once: `{op[:50]}` "
                                f"-> {' '.join(res[:3])} ({binfl})", sig={"op": op.split(" ")[0], "cold": True})
                    f.replay_text = "# each of several processes, released at the same instant on one cold cache:\n" + "\n".join(ops) + "\n"
                    failures.append(f)
                elif op.startswith("read ") and unhx(res[1]) != v:
                    failures.append(Failure("partial_or_mixed_read", i, "a process does not read back its own first write", sig={"op": "read", "cold": True}))
        il = _run_limited(flavours[0], ["dump c0/content-v2"], scratch)
        if il:
            failures += content_valid_monitor(il[0], "after a cold start race")
        if len(samples) < 2:
            samples.append({"processes": procs, "start_line_ms": t0})
        shutil.rmtree(scratch, ignore_errors=True)
    return {"failures": failures, "disagreements": [], "evaluations": evaluations, "distinct_nontrivial": len(kinds),
            "samples": samples, "cold_start_rounds": rounds}


def leg_flavours(progs, flavours, jobs=16):
    """Each program is executed with all flavour tokens set to `s` and to `a`, on every binary
    (async-std, tokio): the canonical result streams must be equal step by step.  Mixed form: the
    first half of the program through one API, the second half through the other."""
    from . import props as P
    failures, samples = [], []
    variants = []
    for p in progs:
        half = len(p.ops) // 2
        forms = {
            "sync": P.with_flavour(p.ops, "s"),
            "async": P.with_flavour(p.ops, "a"),
            "mixed-sa": P.with_flavour(p.ops[:half], "s") + P.with_flavour(p.ops[half:], "a"),
            "mixed-as": P.with_flavour(p.ops[:half], "a") + P.with_flavour(p.ops[half:], "s"),
        }
        if p.tags.get("async_only"):
            # calls that exist on the async side only: the all-async form, compared ACROSS the two runtimes
            forms = {"async": forms["async"]}
        for name, ops in forms.items():
            for fl in flavours:
                variants.append((p, name, fl, ops))
    with ThreadPoolExecutor(max_workers=jobs) as ex:
        outs = list(ex.map(lambda v: E.run_impl(v[2], "\n".join(v[3]) + "\n")[0], variants))
    by_prog = {}
    for (p, name, fl, ops), out in zip(variants, outs):
        by_prog.setdefault(id(p), []).append((p, name, fl, ops, out))
    evaluations, kinds = 0, set()
    for runs in by_prog.values():
        p0, n0, f0, ops0, out0 = runs[0]
        ref = [P.canon_for_flavour_compare(o, l) for o, l in zip(ops0, out0)]
        for p, name, fl, ops, out in runs[1:]:
            evaluations += 1
            cur = [P.canon_for_flavour_compare(o, l) for o, l in zip(ops, out)]
            for i, (a, b) in enumerate(zip(ref, cur)):
                if a != b:
                    opn = ops[i].split(" ")[0]
                    f = Failure("flavours_differ", i, f"{n0}/{f0} vs {name}/{fl} at `{ops[i][:70]}`: {a[:60]} | {b[:60]}",
                                sig={"op": opn, "form": name, "binary": fl})
                    f.replay_text = f"# {n0} on {f0}:\n" + "\n".join(ops0) + f"\n# {name} on {fl}:\n" + "\n".join(ops) + "\n"
                    failures.append(f)
                    break
            kinds.add((name, fl, tuple(E.rclass(l) for l in out[:6])))
        if len(samples) < 2:
            samples.append({"forms": [f"{n}/{fl}" for _, n, fl, _, _ in runs], "ops": ops0[:5], "results": out0[:5]})
    return {"failures": failures, "disagreements": [], "evaluations": evaluations, "distinct_nontrivial": len(kinds),
            "samples": samples, "flavour_variants": len(variants)}


# ---------------------------------------------------------------------------------------------
# a failing mmap(2) (C13 / C03): the writers fall back to plain writes
# ---------------------------------------------------------------------------------------------

def leg_mmap_failure(progs, flavours, monitors, jobs=8, fail_env="FAIL_SHARED_MMAP"):
    """Every program runs with an LD_PRELOAD shim that makes each file-backed MAP_SHARED mapping fail
    (ENODEV), i.e. on the writers' fall-back path after `MmapMut::map_mut` failed.  The same monitors
    as without the fault judge the outcome (declared sizes honoured, content area valid, read-back)."""
    failures, samples = [], []
    kinds = set()
    wrapper = ["env", f"LD_PRELOAD={C.build_shim()}", f"{fail_env}=1"]
    what = "mmap(2)" if fail_env == "FAIL_SHARED_MMAP" else "msync(2)"
    tasks = [(p, fl) for p in progs for fl in flavours[:1]]

    def one(t):
        p, fl = t
        out, rc = E.run_impl(fl, p.text(), wrapper=wrapper)
        return E.RunResult(p, fl, out, None, p.ops)
    with ThreadPoolExecutor(max_workers=jobs) as ex:
        results = list(ex.map(one, tasks))
    for rr in results:
        for m in monitors:
            try:
                for f in m(rr):
                    f.detail = f"with failing {what}: " + f.detail
                    f.replay_text = f"# run with LD_PRELOAD=harness/target/failmmap.so {fail_env}=1\n" + rr.prog.text()
                    failures.append(f)
            except KeyError:
                pass
        kinds.add(E.signature(rr))
        if len(samples) < 2:
            samples.append({"binary": rr.flavour, "ops": rr.prog.ops[:4], "impl": [l[:100] for l in rr.impl[:4]], what: "fails"})
    return {"failures": failures, "disagreements": [], "evaluations": len(results), "distinct_nontrivial": len(kinds),
            "samples": samples, "mmap_failure_runs": len(results)}


# ---------------------------------------------------------------------------------------------
# short writes (C13): RLIMIT_FSIZE makes a write(2) return short, the retry fail with EFBIG
# ---------------------------------------------------------------------------------------------

def _run_limited(flavour, ops, scratch, limit=None, reuse=True):
    import subprocess, resource, signal

    def pre():
        signal.signal(signal.SIGXFSZ, signal.SIG_IGN)
        if limit is not None:
            resource.setrlimit(resource.RLIMIT_FSIZE, (limit, limit))
    env = dict(os.environ)
    if reuse:
        env["DRIVE_REUSE"] = "1"
    p = subprocess.run([C.drive_bin(flavour), scratch], input=("\n".join(ops) + "\n").encode(), stdout=subprocess.PIPE,
                       stderr=subprocess.DEVNULL, env=env, preexec_fn=pre, timeout=120)
    return p.stdout.decode(errors="replace").splitlines()


def leg_short_write(r, flavour, n_cases):
    """The index append (and the temp-file write) is cut short by a file-size limit: a real short
    write followed by EFBIG.  The call must fail or succeed truthfully; nothing may be corrupted."""
    failures, samples = [], []
    evals, kinds = 0, set()
    for ci in range(n_cases):
        key = r.pick([b"sk", "clé".encode()])
        old = b"old value"
        new = G.data(r, r.pick([40, 3000])) + b"N"
        # every (flavour, operation) pair in turn: the sync and the async appenders are separate code
        fl, victim_kind = [(f_, v_) for v_ in ("write", "remove", "insert") for f_ in "sa"][ci % 6]
        setup = [w_oneshot("s", "sha256", b"other", b"other value"), w_oneshot("s", "sha256", key, old)]
        if victim_kind == "write":
            victim = w_oneshot(fl, "sha256", key, new)
        elif victim_kind == "remove":
            victim = f"remove {fl} c0 {hx(key)}"
        else:
            mtxt = hx(b'{"note":"x"}')
            victim = f"index_insert {fl} c0 {hx(key)} sri={hx(L.sri_of('sha256', old).encode())} time=5 size=9 meta={mtxt} raw=-"
        scratch = os.path.join(C.scratch_root(), f"short{next(E._counter)}")
        shutil.rmtree(scratch, ignore_errors=True)
        _run_limited(flavour, setup, scratch, reuse=False)
        bpath = os.path.join(scratch, "c0", L.bucket_rel(key))
        try:
            bsize = os.path.getsize(bpath)
        except OSError:
            continue
        # limits: cut the bucket append at several points; for a write also cut the temp file
        limits = [bsize + k for k in (1, 30, 70, 150)]
        if victim_kind == "write" and len(new) > 200:
            limits.append(max(bsize + 150, len(new) // 2))
        for lim in limits:
            sc2 = scratch + f"-{lim}"
            copy_tree(scratch, sc2)
            out = _run_limited(flavour, [victim], sc2, limit=lim)
            probe = ["dump c0", f"metadata s c0 {hx(key)}", f"metadata a c0 {hx(key)}", f"read s c0 {hx(key)}",
                     f"read a c0 {hx(b'other')}", victim, f"read s c0 {hx(key)}", "dump c0/tmp",
                     f"metadata s c0 {hx(key)}", f"metadata a c0 {hx(key)}", f"read a c0 {hx(key)}"]
            il = _run_limited(flavour, probe, sc2)
            shutil.rmtree(sc2, ignore_errors=True)
            evals += 1
            res = toks(out[0]) if out else ["missing"]
            where = f"file-size limit {lim} (bucket was {bsize}) during `{victim[:50]}`"
            sig = {"victim": victim_kind, "api": fl}
            fs_ = []
            kinds.add((victim_kind, fl, res[0] if res[0] != "err" else " ".join(res[:3]), lim - bsize if lim - bsize < 200 else "tmp"))
            if res[0] in ("panic", "hang", "missing"):
                fs_.append(Failure("panic_or_hang_on_fault", 0, f"{where}: {res[0]}", sig=sig))
            if len(il) < len(probe):
                fs_.append(Failure("unusable_after_fault", 0, f"{where}: inspection stopped", sig=sig))
            else:
                fs_ += content_valid_monitor(il[0], where)
                m1, m2 = meta_of_line(il[1]), meta_of_line(il[2])
                old_sri = L.sri_of("sha256", old)
                new_state = {"write": L.sri_of("sha256", new), "remove": None, "insert": old_sri}[victim_kind]
                for m in (m1, m2):
                    got = "ERR" if m == "ERR" else (None if m is None else m["sri"])
                    if res[0] == "ok":
                        if got != new_state:
                            fs_.append(Failure("false_success", 0, f"{where}: the call answered ok but a lookup shows {str(got)[:30]}", sig=sig))
                    elif got not in (old_sri, new_state):
                        fs_.append(Failure("mixed_or_broken_entry", 0, f"{where}: lookup after the failed call gives {str(got)[:30]}", sig=sig))
                if m1 != m2:
                    fs_.append(Failure("flavours_differ", 0, f"{where}: sync and async lookups differ afterwards", sig=sig))
                ro = toks(il[4])
                if ro[0] != "ok" or unhx(ro[1]) != b"other value":
                    fs_.append(Failure("other_entry_affected", 0, f"{where}: another entry no longer reads its value", sig=sig))
                retry = toks(il[5])
                if retry[0] != "ok":
                    fs_.append(Failure("retry_fails", 0, f"{where}: the same call without the limit -> {' '.join(retry[:3])}", sig=sig))
                elif victim_kind == "write":
                    rr_ = toks(il[6])
                    if rr_[0] != "ok" or unhx(rr_[1]) != new:
                        fs_.append(Failure("write_not_retrievable", 0, f"{where}: after the retry the data is not read back", sig=sig))
                if norm_line(il[7]) != "ok":
                    fs_.append(Failure("tmp_left", 0, f"{where}: temp file left behind", sig=sig))
                # after the retry (appended behind whatever the failed call left): both flavours see the same, new state
                if retry[0] == "ok":
                    if _OBS_TIME.sub("time=T", E.norm(il[8])) != _OBS_TIME.sub("time=T", E.norm(il[9])):
                        fs_.append(Failure("flavours_differ", 0, f"{where}: after the retry sync and async lookups differ "
                                           f"({E.norm(il[8])[:40]} | {E.norm(il[9])[:40]})", sig=sig))
                    if toks(il[10])[:2] != toks(il[6])[:2]:
                        fs_.append(Failure("flavours_differ", 0, f"{where}: after the retry sync and async reads differ", sig=sig))
            for f in fs_:
                f.replay_text = "\n".join(setup) + f"\n# next op run with RLIMIT_FSIZE={lim}, SIGXFSZ ignored:\n{victim}\n# then:\n" + "\n".join(probe) + "\n"
            failures += fs_
            if len(samples) < 3:
                samples.append({"victim": victim[:80], "limit": lim, "bucket_size_before": bsize, "result": " ".join(res[:3])})
        shutil.rmtree(scratch, ignore_errors=True)
    return {"failures": failures, "disagreements": [], "evaluations": evals, "distinct_nontrivial": len(kinds),
            "samples": samples, "short_writes": evals}


def leg_resumed_writer(flavours):
    """A REAL short write on an open handle, after which the fault goes away and the caller carries on: a file-size
    limit set inside the harness process cuts one write of a streamed writer short (the call answers ok <n> with
    n < len, or fails with EFBIG), the limit is lifted, the caller supplies the bytes not yet acknowledged and
    commits.  The commit must answer the integrity of exactly the acknowledged bytes, the key must read them
    back, and the content area must be valid."""
    failures, samples = [], []
    evals, kinds = 0, set()
    data = bytes((i * 7 + 3) % 251 for i in range(10000))
    for flavour in flavours:
        for api in "sa":
            for keyed in (True, False):
                for lim in (0, 1, 4096, 9999):
                    for declared in (None, len(data)):
                        if declared is not None and lim == 0:
                            continue
                        scratch = os.path.join(C.scratch_root(), f"resume{next(E._counter)}")
                        k = hx(b"rk") if keyed else "-"
                        sz = f"size={declared}" if declared is not None else "size=-"
                        ops = [f"wopen {api} c0 W1 {k} algo=sha256 {sz} sri=- time=- meta=- raw=-", f"fsize {lim}",
                               f"wwrite1 W1 {hx(data)}"]
                        out, _ = E.run_impl(flavour, "\n".join(ops) + "\n", scratch=scratch)
                        r1 = toks(out[2]) if len(out) > 2 else ["missing"]
                        acked = int(r1[1]) if r1[0] == "ok" and len(r1) > 1 else 0
                        # second process image is not possible (the handle lives in the first): run the whole program again
                        rest = data[acked:]
                        ops2 = ops + ["fsize -"] + ([f"wwrite W1 {hx(rest)}"] if rest else []) + ["wcommit W1", "dump c0/content-v2", "dump c0/tmp"]
                        if keyed:
                            ops2.append(f"read s c0 {hx(b'rk')}")
                        ops2.append(f"read_hash a c0 {sri_tok('sha256', data)}")
                        out2, _ = E.run_impl(flavour, "\n".join(ops2) + "\n", scratch=scratch)
                        shutil.rmtree(scratch, ignore_errors=True)
                        evals += 1
                        where = (f"{flavour}: streamed writer ({api}, {'keyed' if keyed else 'by address'}, declared {declared}) under a file-size "
                                 f"limit of {lim}: first write -> {' '.join(r1[:2])}; limit lifted, rest supplied")
                        sig = {"victim": "resumed-writer", "api": api, "keyed": keyed, "mapped": declared is not None}
                        kinds.add((flavour, api, keyed, lim, declared, r1[0], acked))
                        lines = [toks(x) for x in out2]
                        if len(lines) < len(ops2) or any(t[0] in ("panic", "hang") for t in lines):
                            failures.append(Failure("panic_or_hang_on_fault", 0, f"{where}: {[' '.join(t[:2]) for t in lines][-3:]}", sig=sig)); continue
                        ci = ops2.index("wcommit W1")
                        commit = lines[ci]
                        fs_ = content_valid_monitor(out2[ci + 1], where)
                        if norm_line(out2[ci + 2]) != "ok":
                            fs_.append(Failure("tmp_left", 0, f"{where}: temp file left behind", sig=sig))
                        if commit[0] != "ok":
                            fs_.append(Failure("retry_fails", 0, f"{where}: commit -> {' '.join(commit[:3])}", sig=sig))
                        else:
                            if unhx(commit[1]).decode(errors="replace") != L.sri_of("sha256", data):
                                fs_.append(Failure("wrong_address", 0, f"{where}: the commit answers an integrity that is not the digest of the "
                                                   "bytes that were acknowledged", sig=sig))
                            for j in range(ci + 3, len(ops2)):
                                rd = lines[j]
                                if rd[0] != "ok" or unhx(rd[1]) != data:
                                    fs_.append(Failure("write_not_retrievable", 0, f"{where}: `{ops2[j][:30]}` -> {' '.join(rd[:2])[:40]}", sig=sig))
                        for f in fs_:
                            f.replay_text = "\n".join(ops2) + "\n"
                        failures += fs_
                        if len(samples) < 3:
                            samples.append({"program": [o[:60] for o in ops2], "results": [" ".join(t[:2])[:40] for t in lines]})
    return {"failures": failures, "disagreements": [], "evaluations": evals, "distinct_nontrivial": len(kinds),
            "samples": samples, "resumed_writers": evals}


def norm_line(l):
    return E.norm(l)
