"""Per-property program generators and monitors (API-level correspondence).

A monitor judges the *implementation's* output against the property statement, using only
Python-side oracles (hashlib, the reference layout in layout.py, a dictionary model of the index)
— never the Lean model.  Disagreement with the Lean model is detected separately by the engine.
"""
import base64, json, hashlib
from . import layout as L
from . import gen as G
from .gen import Rng, hx, opts_tokens, NOMETA
from .engine import Program, norm, opname, rclass
from .common import unhx


class Failure:
    def __init__(self, kind, idx, detail, sig=None):
        self.kind, self.idx, self.detail = kind, idx, detail
        self.sig = dict(sig or {}, kind=kind)

    def __repr__(self):
        return f"<{self.kind} @{self.idx}: {self.detail}>"


def toks(line):
    return norm(line).split(" ")


def ok_payload(line):
    t = toks(line)
    return t[1] if len(t) > 1 and t[0] == "ok" else None


def parse_meta(text):
    """'meta key=.. sri=.. time=.. size=.. json=.. raw=..' -> dict"""
    d = {}
    for t in text.split(" ")[1:]:
        k, _, v = t.partition("=")
        d[k] = v
    return {
        "key": unhx(d["key"]), "sri": unhx(d["sri"]).decode(), "time": int(d["time"]), "size": int(d["size"]),
        "json": json.loads(unhx(d["json"]).decode()), "raw": None if d["raw"] == "-" else unhx(d["raw"]),
    }


def meta_of_line(line):
    t = norm(line)
    if t == "ok none":
        return None
    if t.startswith("ok meta "):
        return parse_meta(t[3:])
    return "ERR"


def list_items(line):
    t = norm(line)
    if t == "ok":
        return []
    if not t.startswith("ok "):
        return None
    return t[3:].split(";")


# ---------------------------------------------------------------------------------------------
# generic monitor: C20 is re-checked by every stream
# ---------------------------------------------------------------------------------------------

def mon_no_panic(rr):
    out = []
    for i, line in enumerate(rr.impl):
        c = rclass(line)
        if c in ("panic", "hang"):
            op = rr.prog.ops[i] if i < len(rr.prog.ops) else "?"
            out.append(Failure(c, i, f"{op[:120]} -> {c}", sig=panic_sig(rr, i)))
    return out


def panic_sig(rr, i):
    """Structured description of a panicking op, for known-finding matching."""
    op = rr.prog.ops[i] if i < len(rr.prog.ops) else ""
    t = op.split(" ")
    sig = {"op": t[0], "flavour": rr.flavour}
    if t[0] in ("wwrite", "wwrite1", "wwritev", "wcommit"):
        # find the wopen of this writer
        wid = t[1]
        for o in rr.prog.ops[:i]:
            ot = o.split(" ")
            if ot[0] in ("wopen", "wcreate") and ot[3] == wid:
                sig["api"] = ot[1]
                sig["keyed"] = ot[4] != "-"
                for x in ot[5:]:
                    if x.startswith("size=") and x != "size=-":
                        sig["declared_size"] = int(x[5:])
    if t[0] == "list":
        sig["list"] = True
    if rr.prog.tags.get("foreign_integrity"):
        sig["foreign_integrity"] = rr.prog.tags["foreign_integrity"]
    return sig


# ---------------------------------------------------------------------------------------------
# building blocks for programs
# ---------------------------------------------------------------------------------------------

def w_oneshot(fl, algo, key, data):
    return f"write {fl} c0 {algo} {hx(key)} {hx(data)}"


def w_stream(ids, fl, key, data, chunks, algo=None, size=None, sri=None, time=None, meta=NOMETA, raw=None,
             commit=True):
    w = ids.new("W")
    k = hx(key) if key is not None else "-"
    ops = [f"wopen {fl} c0 {w} {k} " + opts_tokens(algo, size, sri, time, meta, raw)]
    if key is not None and size is None and sri is None and time is None and raw is None and meta is NOMETA \
            and (len(key) + len(data)) % 3 == 0:
        # nothing declared but (perhaps) the algorithm: every third such writer is made by the constructors
        ops = [f"wcreate {fl} c0 {w} {k} {algo or '-'}"]
    if len(chunks) >= 2 and (len(data) + len(chunks)) % 4 == 1:
        # every fourth multi-chunk writer hands its chunks over with `write_vectored`, up to eight at a time
        for i in range(0, len(chunks), 8):
            ops.append(f"wwritev {w} " + " ".join(hx(c) for c in chunks[i:i + 8]))
    else:
        # every fifth writer flushes after its first chunk and again before it commits (or is dropped)
        flushes = (len(data) + 3 * len(chunks)) % 5 == 2
        for i, c in enumerate(chunks):
            ops.append(f"wwrite {w} {hx(c)}")
            if flushes and i == 0:
                ops.append(f"wflush {w}")
        if flushes:
            ops.append(f"wflush {w}")
    if commit:
        ops.append(f"wcommit {w}")
    return w, ops


def random_write(r, ids, key, data, fl=None, algo=None, big=False):
    """One of the write entry points, chosen at random.  Returns (ops, algo)."""
    fl = fl or r.pick(["s", "a"])
    algo = algo or r.pick(L.ALL_ALGOS)
    mode = r.randrange(5)
    if mode == 0:
        return [w_oneshot(fl, algo, key, data)], algo
    if mode == 1:
        _, ops = w_stream(ids, fl, key, data, G.chunking(r, data), algo=algo)
        return ops, algo
    if mode == 4:
        # with everything a writer can attach: lookups and listings must hand all of it back
        _, ops = w_stream(ids, fl, key, data, G.chunking(r, data), algo=algo, time=r.pick([7, 2**70]),
                          meta={"tag": "\u00e9", "n": [1, 2.5, None]}, raw=r.pick([b"\x00\xffraw", b""]))
        return ops, algo
    if mode == 2:
        # correctly declared size: exactly one chunk of that size is the only shape that every
        # flavour accepts when the mapping is in play; other chunkings are C02/C08/C20 streams
        _, ops = w_stream(ids, fl, key, data, [data] if data else [], algo=algo, size=len(data))
        return ops, algo
    _, ops = w_stream(ids, fl, key, data, G.chunking(r, data), algo=algo, time=r.pick([0, 1, 1234567, 2**64, 2**128 - 1]))
    return ops, algo


def content_path(algo, data, cache="c0"):
    return f"{cache}/" + L.content_rel(L.sri_of(algo, data))


def bucket_path(key, cache="c0"):
    return f"{cache}/" + L.bucket_rel(key)


def sri_tok(algo, data):
    return hx(L.sri_of(algo, data).encode())


def damage_ops(r, path, original, other=None):
    """One damage of a content file; returns (ops, description)."""
    n = len(original)
    kinds = ["flip", "trunc", "extend", "empty", "replace"]
    if other is not None:
        kinds += ["swap", "symlink", "symlink_rel"]
    k = r.pick(kinds)
    if k == "symlink_rel":
        # symlink substitution of the insidious kind: the content path becomes a RELATIVE link to a sibling that holds
        # the right bytes (what `ln -sr` / a de-duplicating tool leaves) - every checked retrieval verifies fine; a file
        # of the same name with other bytes sits next to the extraction destinations: whatever is handed out there
        # must still be the stored bytes (F28: a hard link of the symlink itself meant the decoy)
        d = path.rsplit("/", 1)[0]
        return [f"put {d}/blob {hx(original)}", f"symlink {path} rel:blob", f"put out/blob {hx(b'decoy ' + other[1][:20])}"], \
            "relative symlink to a good sibling"
    if k == "flip" and n > 0:
        i = r.randrange(n * 8)
        b = bytearray(original); b[i // 8] ^= 1 << (i % 8)
        return [f"put {path} {hx(bytes(b))}"], f"flip bit {i}"
    if k == "trunc" and n > 0:
        m = r.randrange(n)
        return [f"truncate {path} {m}"], f"truncate to {m}"
    if k == "extend":
        return [f"append {path} {hx(r.randbytes(r.pick([1, 2, 64])))}"], "extend"
    if k == "empty":
        return [f"put {path} x"], "empty"
    if k == "swap":
        return [f"put {path} {hx(other[1])}"], "bytes of another entry"
    if k == "symlink":
        return [f"symlink {path} abs:{other[0]}"], "symlink to another entry"
    return [f"put {path} {hx(r.randbytes(max(1, n)))}"], "random replacement"


CHECKED_BY_KEY = ["read", "copy", "hard_link", "reflink", "ropen"]


def retrieval_ops(r, ids, key, sri_t, which=None, pre=None):
    """A set of checked retrievals of one entry through every entry point (both flavours).
    `pre` (dict) collects destinations that are created beforehand, with their previous content."""
    ops = []
    dn = lambda: ids.new("d")

    def dest():
        d = dn()
        if pre is not None and r.chance(0.3):
            old = r.randbytes(r.pick([1, 40, 5000])) + b"OLD"
            pre[f"out/{d}"] = old
            ops.append(f"put out/{d} {hx(old)}")
        return d
    for fl in ("s", "a"):
        ops.append(f"read {fl} c0 {hx(key)}")
        ops.append(f"read_hash {fl} c0 {sri_t}")
        rid = ids.new("R")
        ops.append(f"ropen {fl} c0 {rid} {hx(key)}")
        bufs = r.pick([[1 << 20], [1, 1, 1 << 20], [7, 64, 1 << 20], [1024] * 3 + [1 << 20], [0, 5, 1 << 20]])
        for b in bufs:
            ops.append(f"rread {rid} {b}")
        ops.append(f"rread {rid} 16")
        ops.append(f"rcheck {rid}")
        rid = ids.new("R")
        ops.append(f"ropen_hash {fl} c0 {rid} {sri_t}")
        # half of the time the vector read into already holds something (a frame header, the previous entry's bytes)
        ops.append(f"rreadall {rid}" + (f" {hx(r.pick([b'HDR:', b'x' * 5000, key]))}" if r.chance(0.5) else ""))
        ops.append(f"rcheck {rid}")
        for op in ("copy", "copy_unchecked", "hard_link", "reflink"):
            d = dest(); ops.append(f"{op} {fl} c0 {hx(key)} out/{d}"); ops.append(f"cat out/{d}"); ops.append(f"stat out/{d}")
        for op in ("copy_hash", "copy_hash_unchecked", "reflink_hash"):
            d = dest(); ops.append(f"{op} {fl} c0 {sri_t} out/{d}"); ops.append(f"cat out/{d}"); ops.append(f"stat out/{d}")
    for op in ("hard_link_hash", "hard_link_unchecked"):
        d = dest()
        arg = sri_t if op == "hard_link_hash" else hx(key)
        ops.append(f"{op} s c0 {arg} out/{d}"); ops.append(f"cat out/{d}"); ops.append(f"stat out/{d}")
    return ops


# ---------------------------------------------------------------------------------------------
# C01 / C18: damaged content and checked retrievals, extraction
# ---------------------------------------------------------------------------------------------

def gen_damage_programs(r, n, big=0.02):
    progs = []
    for i in range(n):
        ids = G.Ids()
        algo = r.pick(L.ALL_ALGOS)
        k1, k2 = b"victim", b"other"
        d1 = G.data(r, big=big)
        d2 = G.data(r, G.size(r)) + b"!"
        ops = [w_oneshot(r.pick("sa"), algo, k1, d1), w_oneshot(r.pick("sa"), algo, k2, d2)]
        p1 = content_path(algo, d1)
        p2 = content_path(algo, d2)
        # sometimes the entry was already extracted (linked / copied) while it was still good: a later
        # checked extraction to the SAME destination must verify again, not trust what is there
        prelinked, aliased = None, False
        if r.chance(0.35):
            prelinked = "out/pre"
            how = r.pick(['hard_link', 'hard_link', 'copy'])
            aliased = how == "hard_link"       # shares the content file's inode: in-place damage shows through
            ops.append(f"{how} {r.pick('sa')} c0 {hx(k1)} out/pre")
        if r.chance(0.85):
            dmg, desc = damage_ops(r, p1, d1, other=(p2, d2))
        else:
            dmg, desc = [], "pristine"
        ops += dmg
        pre = {}
        if prelinked:
            for fl in "sa":
                ops += [f"hard_link {fl} c0 {hx(k1)} out/pre", "cat out/pre",
                        f"copy {fl} c0 {hx(k1)} out/pre", "cat out/pre"]
        ops += retrieval_ops(r, ids, k1, sri_tok(algo, d1), pre=pre)
        # the model's hard link copies the node (no inode sharing), so programs that damage an aliased
        # file in place are judged by the monitors only
        progs.append(Program(f"damage{i}", ops, model=not (aliased and bool(dmg)),
                             tags={"algo": algo, "data": d1, "damage": desc, "key": k1, "pre": pre,
                                                       "damaged": bool(dmg), "prelinked": prelinked,
                                                       "variety": ("prelinked", bool(prelinked), desc.split(" ")[0])}))
    return progs


EXTRACT_BY_KEY = ["copy", "copy_unchecked", "hard_link", "hard_link_unchecked", "reflink", "reflink_unchecked"]
EXTRACT_BY_HASH = ["copy_hash", "copy_hash_unchecked", "hard_link_hash", "hard_link_hash_unchecked", "reflink_hash"]


def gen_extraction_programs(r, n):
    """C18 / C03 / C15 / C01: sequences of extractions that REUSE destinations (the same path twice, a
    path that already is a hard link of the content, a longer old file), name destinations whose parent
    directory does not exist, and run after the content was removed by address.  Pristine content only,
    so the model takes part."""
    progs = []
    for i in range(n):
        algo = r.pick(L.ALGOS)
        d = G.data(r, r.pick([0, 1, 40, 3000])) + b"E"
        d2 = G.data(r, r.pick([5, 9000])) + b"other"
        k, k2 = b"ex%d" % i, b"ey%d" % i
        ops = [w_oneshot(r.pick("sa"), algo, k, d), w_oneshot(r.pick("sa"), algo, k2, d2)]
        st = sri_tok(algo, d)
        dests = ["out/x", "out/y", "out/nodir/sub/z"]
        if r.chance(0.4):
            ops.append(f"put out/y {hx(r.randbytes(r.pick([3, 200, 20000])) + b'OLD')}")
        elif r.chance(0.6):
            # one destination already IS an extraction of the OTHER entry (a hard link of its content file: "install v1
            # by hard link, upgrade the same path to v2 by copy"): extracting onto it must not write into that entry
            ops.append(f"hard_link_hash_unchecked s c0 {sri_tok(algo, d2)} out/y")
            # ... and the caller has files of his own next to it, with names a "careful" implementation might use for a
            # backup or a temp copy of the destination
            for sib in ("out/y~", "out/y.tmp", "out/.y", "out/y.bak"):
                ops.append(f"put {sib} {hx(b'the callers own file ' + sib.encode())}")
        # the content path is a symlink to a file outside the cache that holds the same bytes (what link_to makes,
        # and what a de-duplicating tool leaves): extracting the entry ONTO that very file must leave it alone
        if r.chance(0.25):
            ops += [f"put ext/blob{i} {hx(d)}", f"del {content_path(algo, d)}", f"symlink {content_path(algo, d)} abs:ext/blob{i}"]
            dests = dests + [f"ext/blob{i}", f"ext/blob{i}"]
        steps = []
        gone = False
        siblings = any(o.startswith("put out/y~") for o in ops)
        for j in range(r.randrange(3, 8)):
            if not gone and j >= 2 and r.chance(0.15):
                ops.append(f"remove_hash {r.pick('sa')} c0 {st}"); gone = True
                continue
            by_hash = r.chance(0.4)
            name = r.pick(EXTRACT_BY_HASH if by_hash else EXTRACT_BY_KEY)
            fl = "s" if name in SYNC_ONLY else r.pick("sa")
            dest = r.pick(dests if r.chance(0.85) else ["out/x"])
            ops.append(f"{name} {fl} c0 {st if by_hash else hx(k)} {dest}")
            ei = len(ops) - 1
            ops.append(f"cat {dest}")
            steps.append((ei, name, dest, gone))
        ops.append(f"read s c0 {hx(k)}"); rd = len(ops) - 1
        ops.append(f"read a c0 {hx(k2)}")
        ops.append("dump c0/content-v2")
        ops.append("dump out")
        progs.append(Program(f"extract{i}", ops, tags={"data": d, "data2": d2, "steps": steps, "gone": gone, "read": rd, "siblings": siblings,
                                                       "variety": ("extract", tuple(sorted({s_[1] for s_ in steps}))[:3], gone)}))
    return progs


def gen_missing_content_programs():
    """C18 (fixed family): 'missing content yields an I/O error' for EVERY extraction entry point and API, onto a fresh
    destination and onto an existing file: the content is removed by address, then each extraction must answer an error,
    create nothing at the fresh destination and leave the existing file as it was."""
    progs = []
    i = 0
    for name in EXTRACT_BY_KEY + EXTRACT_BY_HASH:
        by_hash = name in EXTRACT_BY_HASH
        for fl in ("s",) if name in SYNC_ONLY else ("s", "a"):
            algo = L.ALGOS[i % len(L.ALGOS)]
            d = b"content that goes missing %d " % i * 7
            d2 = b"the other entry %d" % i
            k, k2 = b"mc%d" % i, b"md%d" % i
            old = b"the callers old file"
            st = sri_tok(algo, d)
            ops = [w_oneshot("s", algo, k, d), w_oneshot("a", algo, k2, d2), f"put out/y {hx(old)}", f"remove_hash {fl} c0 {st}"]
            steps = []
            for dest in ("out/x", "out/y"):
                ops.append(f"{name} {fl} c0 {st if by_hash else hx(k)} {dest}")
                steps.append((len(ops) - 1, name, dest, True))
                ops.append(f"cat {dest}")
            ops.append(f"read s c0 {hx(k)}"); rd = len(ops) - 1
            ops.append(f"read a c0 {hx(k2)}")
            ops.append("dump c0/content-v2")
            ops.append("dump out")
            progs.append(Program(f"missing-content-{name}-{fl}", ops,
                                 tags={"data": d, "data2": d2, "steps": steps, "gone": True, "read": rd, "siblings": False,
                                       "pre": {"out/x": None, "out/y": old}, "both_binaries": i % 4 == 0,
                                       "variety": ("missing-content", name, fl)}))
            i += 1
    return progs


def gen_unsized_record_programs():
    """C18 (fixed family): an entry whose index record carries NO size (made with `index::insert` after a by-address
    write - the record then says size 0): every extraction by key delivers the stored bytes and, for copies, their count,
    whatever the record says."""
    progs = []
    i = 0
    for name in EXTRACT_BY_KEY:
        for fl in ("s",) if name in SYNC_ONLY else ("s", "a"):
            algo = L.ALGOS[i % len(L.ALGOS)]
            d = b"an entry whose record has no size %d " % i * 5
            d2 = b"the other entry %d" % i
            k, k2 = b"us%d" % i, b"ut%d" % i
            ops = [f"write_hash {fl} c0 {algo} {hx(d)}", w_oneshot("a", algo, k2, d2),
                   f"index_insert s c0 {hx(k)} sri={sri_tok(algo, d)} time=9 size=- meta=- raw=-"]
            steps = []
            for dest in ("out/x", "out/x"):
                ops.append(f"{name} {fl} c0 {hx(k)} {dest}")
                steps.append((len(ops) - 1, name, dest, False))
                ops.append(f"cat {dest}")
                if name.startswith("hard_link") or name.startswith("reflink"):
                    ops.append(f"del {dest}")
            ops.append(f"read s c0 {hx(k)}"); rd = len(ops) - 1
            ops.append(f"read a c0 {hx(k2)}")
            ops.append("dump c0/content-v2")
            ops.append("dump out")
            progs.append(Program(f"unsized-record-{name}-{fl}", ops,
                                 tags={"data": d, "data2": d2, "steps": steps, "gone": False, "read": rd, "siblings": False,
                                       "must_succeed": not name.startswith("reflink"), "both_binaries": i % 4 == 0,
                                       "variety": ("unsized-record", name, fl)}))
            i += 1
    return progs


def mon_extraction(rr):
    out = []
    t = rr.prog.tags
    d = t["data"]
    if t.get("must_succeed"):
        for ei, name, dest, gone in t["steps"][:1]:
            if ei < len(rr.impl) and toks(rr.impl[ei])[0] != "ok":
                out.append(Failure("healthy_extraction_failed", ei, f"{name} of a pristine entry (whose record carries no size) -> "
                                   f"{' '.join(toks(rr.impl[ei])[:3])}", sig={"op": name, "api": rr.prog.ops[ei].split(' ')[1]}))
    n = len(rr.impl)
    for ei, name, dest, gone in t["steps"]:
        # a refused extraction of missing content leaves the destination as it was
        if gone and "pre" in t and ei + 1 < n and toks(rr.impl[ei])[0] != "ok":
            cat = toks(rr.impl[ei + 1]); was = t["pre"].get(dest)
            now = unhx(cat[1]) if cat[0] == "ok" and len(cat) > 1 else (b"" if cat[0] == "ok" else None)
            if now != was:
                out.append(Failure("refused_extraction_touched_destination", ei + 1,
                                   f"{name} of missing content answered an error but {dest} is now "
                                   f"{'absent' if now is None else '%d bytes' % len(now)} (was {'absent' if was is None else '%d bytes' % len(was)})",
                                   sig={"op": name, "api": rr.prog.ops[ei].split(" ")[1], "dest": dest.split("/")[1]}))
    for ei, name, dest, gone in t["steps"]:
        if ei + 1 >= n:
            break
        res = toks(rr.impl[ei]); cat = toks(rr.impl[ei + 1])
        sig = {"op": name, "api": rr.prog.ops[ei].split(" ")[1], "dest": dest.split("/")[1] if "/" in dest else dest}
        if res[0] == "ok":
            if gone:
                out.append(Failure("extracted_missing_content", ei, f"{name} -> ok although the content was removed by address", sig=sig))
            elif dest.startswith("out/nodir"):
                out.append(Failure("created_missing_parents", ei, f"{name} to a destination whose parent directory does not exist -> ok", sig=sig))
            elif cat[0] != "ok" or unhx(cat[1]) != d:
                got = "missing" if cat[0] != "ok" else f"{len(unhx(cat[1]))} bytes"
                out.append(Failure("wrong_bytes", ei + 1, f"{name} answered ok but the destination holds {got}, not the {len(d)} stored bytes", sig=sig))
            if name.startswith("copy") and len(res) > 1 and res[1].isdigit() and int(res[1]) != len(d) and not gone:
                out.append(Failure("wrong_count", ei, f"{name} returned {res[1]} for {len(d)} bytes", sig=sig))
    # nothing appeared next to the destinations (no directories created for a destination that could not be written)
    files, links, dirs = parse_dump(rr.impl[-1]) if n == len(rr.prog.ops) else ({}, {}, set())
    if t.get("siblings") and n == len(rr.prog.ops):
        for sib in ("out/y~", "out/y.tmp", "out/.y", "out/y.bak"):
            if files.get(sib) != b"the callers own file " + sib.encode():
                out.append(Failure("outside_destination", n - 1, f"an extraction onto out/y changed the caller's own file {sib} "
                                   f"({'gone' if sib not in files else 'other bytes'})", sig={"op": "dump", "sibling": sib.split('/')[1]}))
    stray = [x for x in list(dirs) + list(files) if x.startswith("out/nodir")]
    if stray:
        out.append(Failure("created_missing_parents", n - 1, f"an extraction created {sorted(stray)[:3]} outside the cache", sig={"op": "dump"}))
    # the entry itself is intact (extractions never harm the cache)
    if n == len(rr.prog.ops) and not t["gone"]:
        rd = toks(rr.impl[t["read"]])
        if rd[0] != "ok" or unhx(rd[1]) != d:
            out.append(Failure("extraction_damaged_entry", t["read"], f"after the extractions the entry reads {' '.join(rd[:2])[:40]}", sig={"op": "read"}))
    if n == len(rr.prog.ops):
        r2 = toks(rr.impl[t["read"] + 1])
        if r2[0] != "ok" or unhx(r2[1]) != t["data2"]:
            out.append(Failure("extraction_damaged_entry", t["read"] + 1, "another entry no longer reads its value", sig={"op": "read"}))
    return out


def mon_checked_retrieval(rr):
    """C01: every ok from a checked retrieval carries exactly the stored bytes (judged by hashlib)."""
    out = []
    data = rr.prog.tags["data"]
    algo = rr.prog.tags["algo"]
    want = L.digest(algo, data)
    streams = {}     # reader id -> bytes read so far
    last_extract = None
    for i, (op, res) in enumerate(zip(rr.prog.ops, rr.impl)):
        t = op.split(" ")
        name = t[0]
        rt = toks(res)
        if name in ("read", "read_hash") and rt[0] == "ok":
            got = unhx(rt[1])
            if L.digest(algo, got) != want or got != data:
                out.append(Failure("wrong_bytes", i, f"{name} returned bytes that are not the stored data",
                                   sig={"op": name, "flavour_tok": t[1]}))
        elif name in ("ropen", "ropen_hash") and rt[0] == "ok":
            streams[t[3]] = b""
        elif name in ("rread", "rreadall") and rt[0] == "ok" and t[1] in streams:
            streams[t[1]] += unhx(rt[1]) if len(rt) > 1 else b""
        elif name == "rcheck" and rt[0] == "ok" and t[1] in streams:
            if streams[t[1]] != data:
                out.append(Failure("wrong_bytes", i, "streamed read + check succeeded on bytes that are not the stored data",
                                   sig={"op": "rcheck"}))
        elif name in ("copy", "copy_hash", "hard_link", "hard_link_hash", "reflink", "reflink_hash",
                      "copy_unchecked", "copy_hash_unchecked", "hard_link_unchecked"):
            last_extract = (name, t[1], rt, t[-1])
        elif name == "cat" and last_extract and last_extract[3] == t[1]:
            ename, efl, ert, edest = last_extract
            old = rr.prog.tags.get("pre", {}).get(edest)
            unchecked = ename.endswith("unchecked")
            if ert[0] == "ok" and unchecked:
                # an unchecked extraction of pristine content must deliver the stored bytes too (C18);
                # of damaged content it delivers whatever is there
                if not rr.prog.tags.get("damaged") and (rt[0] != "ok" or unhx(rt[1]) != data):
                    out.append(Failure("wrong_bytes", i, f"{ename} succeeded on pristine content but the destination does not hold the stored data",
                                       sig={"op": ename, "flavour_tok": efl}))
            elif ert[0] == "ok":
                if rt[0] != "ok" or unhx(rt[1]) != data:
                    out.append(Failure("wrong_bytes", i, f"{ename} succeeded but the destination does not hold the stored data",
                                       sig={"op": ename, "flavour_tok": efl}))
                if ename.startswith("copy") and len(ert) > 1 and int(ert[1]) != len(data):
                    out.append(Failure("wrong_count", i, f"{ename} returned {ert[1]} for {len(data)} bytes", sig={"op": ename}))
            elif ert[:2] == ["err", "integrity"]:
                # C18: a failed check leaves nothing behind (a destination that existed keeps its old bytes;
                # one that was linked to the content before the damage shares its inode and is not judged)
                if edest == rr.prog.tags.get("prelinked"):
                    pass
                elif rt[0] == "ok" and (old is None or unhx(rt[1]) != old):
                    out.append(Failure("unverified_left_behind", i,
                                       f"{ename} failed verification but left a file at the destination",
                                       sig={"op": ename, "flavour_tok": efl}))
    return out


# ---------------------------------------------------------------------------------------------
# C02 / C16: round trips, addresses
# ---------------------------------------------------------------------------------------------

def gen_roundtrip_programs(r, n, big=0.03):
    progs = []
    for i in range(n):
        ids = G.Ids()
        ops, expect = [], []
        for j in range(r.randrange(1, 4)):
            key = G.key(r)
            d = G.data(r, big=big if j == 0 else 0)
            algo = r.pick(L.ALL_ALGOS)
            fl = r.pick("sa")
            mode = r.randrange(6)
            if mode == 0:
                w = [w_oneshot(fl, algo, key, d)]
            elif mode == 1:
                w = [f"write_hash {fl} c0 {algo} {hx(d)}"]; key = None
            elif mode == 2:
                _, w = w_stream(ids, fl, key, d, G.chunking(r, d), algo=algo)
            elif mode == 3:
                _, w = w_stream(ids, fl, None, d, G.chunking(r, d), algo=algo); key = None
            elif mode == 4:
                _, w = w_stream(ids, fl, key, d, G.chunking(r, d), algo=algo, size=len(d))
            else:
                _, w = w_stream(ids, fl, None, d, G.chunking(r, d), algo=algo, size=len(d)); key = None
            ops += w
            widx = len(ops) - 1
            st = sri_tok(algo, d)
            # somebody else then tries to store the SAME bytes and is turned away (wrong declared size, or a
            # declared integrity of other data): the first write's data must still read back
            if algo != "xxh3" and r.chance(0.2):
                wrong = {"size": len(d) + 3} if r.chance(0.5) else {"sri": L.sri_of(algo, d + b"?")}
                _, wr = w_stream(ids, r.pick("sa"), b"turned-away" if r.chance(0.6) else None, d, G.chunking(r, d), algo=algo, **wrong)
                ops += wr
            reads = []
            for rf in ("s", "a"):
                if key is not None:
                    ops.append(f"read {rf} c0 {hx(key)}"); reads.append(len(ops) - 1)
                ops.append(f"read_hash {rf} c0 {st}"); reads.append(len(ops) - 1)
                ops.append(f"exists {rf} c0 {st}")
            expect.append((widx, algo, d, reads, key))
            # the whole cache is cleared (or the entry removed fully) and the SAME bytes are written again through the
            # same entry point: a write on a healthy filesystem succeeds and reads back - whatever the process still
            # remembers about directories it made and addresses it published
            if r.chance(0.2) and len(expect) == 1:
                ops.append(f"clear {r.pick('sa')} c0" if key is None or r.chance(0.6) else f"remove_fully {r.pick('sa')} c0 {hx(key)}")
                again = lambda wid: "W" + str(900 + int(wid[1:]))
                w2 = [(" ".join(t[:3] + [again(t[3])] + t[4:]) if t[0] in ("wopen", "wcreate") else
                       " ".join([t[0], again(t[1])] + t[2:]) if t[0] in ("wwrite", "wwritev", "wflush", "wcommit") else o)
                      for o in w for t in [o.split(" ")]]
                ops += w2
                widx2 = len(ops) - 1
                reads2 = []
                for rf in ("s", "a"):
                    if key is not None:
                        ops.append(f"read {rf} c0 {hx(key)}"); reads2.append(len(ops) - 1)
                    ops.append(f"read_hash {rf} c0 {st}"); reads2.append(len(ops) - 1)
                expect.append((widx2, algo, d, reads2, key))
                continue
            # the key is written again with an explicit time stamp OLDER than its current entry's: position
            # in the index decides what is current, not the clock
            if key is not None and r.chance(0.2):
                dnew = G.data(r, r.pick([1, 50])) + b"newer"
                _, w2 = w_stream(ids, r.pick("sa"), key, dnew, [dnew], algo=algo, time=r.pick([0, 1, 1000]))
                ops += w2
                widx3 = len(ops) - 1
                reads3 = []
                for rf in "sa":
                    ops.append(f"read {rf} c0 {hx(key)}"); reads3.append(len(ops) - 1)
                expect.append((widx3, algo, dnew, reads3, key))
                continue
            # the stored copy is damaged behind the library's back, then the same data is written again:
            # the write must leave the right bytes at the address (re-writing repairs), and read back
            if r.chance(0.25) and len(d) > 0:
                cp = content_path(algo, d)
                ops.append(r.pick([f"truncate {cp} {r.randrange(len(d))}", f"put {cp} {hx(bytes([d[0] ^ 255]) + d[1:])}",
                                   f"put {cp} {hx(d + b'x')}"]))
                fl2 = r.pick("sa")
                k2 = key if key is not None else None
                if k2 is not None and r.chance(0.6):
                    ops.append(w_oneshot(fl2, algo, k2, d))
                else:
                    ops.append(f"write_hash {fl2} c0 {algo} {hx(d)}"); k2 = None
                widx2 = len(ops) - 1
                reads2 = []
                rf = r.pick("sa")
                ops.append(f"read_hash {rf} c0 {st}"); reads2.append(len(ops) - 1)
                if k2 is not None:
                    ops.append(f"read {rf} c0 {hx(k2)}"); reads2.append(len(ops) - 1)
                expect.append((widx2, algo, d, reads2, k2))
        ops.append("dump c0/content-v2")
        progs.append(Program(f"rt{i}", ops, tags={"expect": expect}))
    # fixed shapes: a short header, a large body and a short trailer on one handle (sync / async, keyed / by address)
    body = bytes((j * 11 + 3) % 251 for j in range(100000))
    for hi, (fl, keyed, sizes) in enumerate([("s", True, (16, 20000)), ("s", False, (16, 100000, 3)), ("a", True, (7, 16384, 1)),
                                              ("s", True, (1, 16384)), ("a", False, (100, 70000, 8))]):
        ids = G.Ids()
        cs, off = [], 0
        for n_ in sizes:
            cs.append(body[off:off + n_]); off += n_
        d = b"".join(cs)
        key = b"hdr%d" % hi if keyed else None
        _, w = w_stream(ids, fl, key, d, cs, algo="sha256")
        ops = list(w); widx = len(ops) - 1
        st = sri_tok("sha256", d)
        reads = []
        for rf in "sa":
            if key is not None:
                ops.append(f"read {rf} c0 {hx(key)}"); reads.append(len(ops) - 1)
            ops.append(f"read_hash {rf} c0 {st}"); reads.append(len(ops) - 1)
        ops.append("dump c0/content-v2")
        progs.append(Program(f"rthdr{hi}", ops, tags={"expect": [(widx, "sha256", d, reads, key)], "variety": ("header", hi)}))
    return progs


def gen_streamed_readback_programs():
    """Round trips whose read side is the STREAMING reader used the way callers use it: `read_to_end` into a vector
    that already holds a header or the previous entry's bytes, a few bytes with `read` and the rest with `read_to_end`,
    then `check()`; and the empty value read back after ANOTHER writer - declared size N, no bytes, commit rejected -
    has come and gone (what it preallocated must not end up at the empty value's address)."""
    progs = []
    vals = [(b"sr-a", "sha256", b"first entry " * 3), (b"sr-b", "sha512", bytes(range(256)) * 300), (b"sr-c", "sha1", b"x")]
    for fl in "sa":
        ids = G.Ids()
        ops, exp = [], []
        for k, a, d in vals:
            ops.append(w_oneshot(fl, a, k, d))
        prev = b"FRAME-HEADER:"
        for k, a, d in vals:
            r1, r2 = ids.new("R"), ids.new("R")
            ops += [f"ropen {fl} c0 {r1} {hx(k)}", f"rreadall {r1} {hx(prev)}"]; exp.append((len(ops) - 1, d))
            ops.append(f"rcheck {r1}"); exp.append((len(ops) - 1, None))
            ops += [f"ropen_hash {fl} c0 {r2} {sri_tok(a, d)}", f"rread {r2} 3"]; exp.append((len(ops) - 1, d[:3]))
            ops.append(f"rreadall {r2} {hx(d[:3])}"); exp.append((len(ops) - 1, d[3:]))
            ops.append(f"rcheck {r2}"); exp.append((len(ops) - 1, None))
            prev = d[:40]
        progs.append(Program(f"streamed-readback-{fl}", ops, tags={"sread": exp, "variety": ("sread", fl)}))
    # one `read_exact` of a whole 3 MiB entry: on the async side the runtime hands the file over in pieces (tokio: 2 MiB
    # per poll), so the reader is polled again with a buffer that is already partly filled
    big = bytes((j * 7 + j // 251) % 256 for j in range(3 << 20))
    for fl in "sa":
        ops = [f"write_hash {fl} c0 sha256 {hx(big)}", w_oneshot(fl, "sha256", b"three-mib", big)]
        exp = []
        ops += [f"ropen {fl} c0 R1 {hx(b'three-mib')}", f"rreadexact R1 {len(big)}"]; exp.append((len(ops) - 1, big))
        ops.append("rcheck R1"); exp.append((len(ops) - 1, None))
        ops += [f"ropen_hash {fl} c0 R2 {sri_tok('sha256', big)}", "rread R2 5"]; exp.append((len(ops) - 1, big[:5]))
        ops.append(f"rreadexact R2 {len(big) - 5}"); exp.append((len(ops) - 1, big[5:]))
        ops.append("rcheck R2"); exp.append((len(ops) - 1, None))
        progs.append(Program(f"read-exact-3mib-{fl}", ops, model=False,
                             tags={"sread": exp, "both_binaries": True, "variety": ("read-exact", fl)}))
    for fl in "sa":
        for n_decl in (1, 4096, 1 << 20):
            for keyed in (True, False):
                if keyed and fl == "a":
                    continue                     # keyed async writers never map their temp file
                ops, exp = [], []
                ops.append(w_oneshot(r_fl := ("a" if fl == "s" else "s"), "sha256", b"holds-nothing", b""))
                w = "W1"
                ops.append(f"wopen {fl} c0 {w} {hx(b'rejected') if keyed else '-'} algo=sha256 size={n_decl} sri=- time=- meta=- raw=-")
                ops.append(f"wcommit {w}")
                for f2 in "sa":
                    ops.append(f"read {f2} c0 {hx(b'holds-nothing')}"); exp.append((len(ops) - 1, b""))
                    ops.append(f"read_hash {f2} c0 {sri_tok('sha256', b'')}"); exp.append((len(ops) - 1, b""))
                progs.append(Program(f"empty-after-rejected-{fl}-{n_decl}-{int(keyed)}", ops,
                                     tags={"sread": exp, "variety": ("empty-after-rejected", fl, n_decl, keyed)}))
    return progs


def mon_streamed_readback(rr):
    out = []
    for i, want in rr.prog.tags["sread"]:
        if i >= len(rr.impl):
            break
        res = toks(rr.impl[i])
        op = rr.prog.ops[i].split(" ")[0]
        if want is None:
            if res[0] != "ok":
                out.append(Failure("check_failed", i, f"check() of a streamed read of intact content -> {' '.join(res[:3])}",
                                   sig={"op": "rcheck", "variety": rr.prog.tags["variety"][0]}))
        elif res[0] != "ok" or unhx(res[1] if len(res) > 1 else "x") != want:
            out.append(Failure("wrong_bytes", i, f"`{rr.prog.ops[i][:40]}` -> {' '.join(res[:2])[:50]} instead of the {len(want)} bytes stored",
                               sig={"op": op, "variety": rr.prog.tags["variety"][0]}))
    return out


def gen_unset_option_programs():
    """Writers whose options leave something UNSET that another option could be mistaken to imply: no algorithm but a
    declared integrity of sha512 / sha1 / sha256, no size but a declared integrity, a builder reused for a second
    writer.  Every opener (keyed / by address, both flavours) must treat the unset option alike."""
    progs = []
    d = b"data for a writer with half of its options set"
    for decl in ("sha512", "sha1", "sha256", "sha384"):
        for keyed in (True, False):
            k = hx(b"unset-" + decl.encode()) if keyed else "-"
            sri = hx(L.sri_of(decl, d).encode())
            ops = [f"wopen s c0 W1 {k} algo=- size=- sri={sri} time=- meta=- raw=-", f"wwrite W1 {hx(d)}", "wcommit W1"]
            if keyed:
                ops += [f"metadata s c0 {k}", f"read s c0 {k}"]
            ops += [f"exists s c0 {sri}", f"read_hash s c0 {sri_tok('sha256', d)}"]
            progs.append(Program(f"unset-algo-{decl}-{int(keyed)}", ops, tags={"variety": ("unset", decl, keyed)}))
    return progs


def gen_async_protocol_programs():
    """Calls of the AsyncWrite protocol that only the async handles have - `close()` on async-std, `shutdown()` on tokio -
    issued before / instead of `commit`, between writes, twice: whatever the library answers (closing discards the
    data; a commit afterwards fails), both runtimes answer it, and leave the same cache."""
    progs = []
    d = b"written, then the handle is closed"
    for keyed in (True, False):
        k = hx(b"closed") if keyed else "-"
        for name, tail in (("close-commit", ["wclose W1", "wcommit W1"]), ("close-write-commit", ["wclose W1", f"wwrite W1 {hx(b'more')}", "wcommit W1"]),
                           ("close-twice-drop", ["wclose W1", "wclose W1", "wdrop W1"]), ("flush-close-commit", ["wflush W1", "wclose W1", "wcommit W1"])):
            ops = [f"wopen a c0 W1 {k} algo=sha256 size=- sri=- time=- meta=- raw=-", f"wwrite W1 {hx(d)}"] + tail
            if keyed:
                ops.append(f"metadata a c0 {k}")
            ops += [f"exists a c0 {sri_tok('sha256', d)}", w_oneshot("a", "sha256", b"afterwards", b"x"), f"read a c0 {hx(b'afterwards')}"]
            progs.append(Program(f"asyncproto-{name}-{int(keyed)}", ops, model=False, tags={"async_only": True, "variety": ("asyncproto", name, keyed)}))
    return progs


def gen_link_cycle_programs():
    """A content address that is a symlink CYCLE (onto itself, or two addresses pointing at each other - what a botched
    de-duplication leaves): every read and every extraction of it answers an error and returns - nothing follows links
    without a bound."""
    progs = []
    d1, d2 = b"first of two entries", b"second of two entries"
    cp1, cp2 = ("c0/" + L.content_rel(L.sri_of("sha256", x)) for x in (d1, d2))
    st1 = sri_tok("sha256", d1)
    for shape in ("self", "pair"):
        ops = [w_oneshot("s", "sha256", b"cyc1", d1), w_oneshot("s", "sha256", b"cyc2", d2)]
        if shape == "self":
            ops += [f"del {cp1}", f"symlink {cp1} abs:{cp1}"]
        else:
            ops += [f"del {cp1}", f"del {cp2}", f"symlink {cp1} abs:{cp2}", f"symlink {cp2} abs:{cp1}"]
        for fl in "sa":
            ops += [f"read {fl} c0 {hx(b'cyc1')}", f"read_hash {fl} c0 {st1}", f"exists {fl} c0 {st1}", f"copy {fl} c0 {hx(b'cyc1')} out/c{fl}",
                    f"copy_hash_unchecked {fl} c0 {st1} out/cu{fl}", f"hard_link {fl} c0 {hx(b'cyc1')} out/h{fl}"]
        ops += [f"hard_link_hash_unchecked s c0 {st1} out/hu", f"hard_link_unchecked s c0 {hx(b'cyc1')} out/hk", f"hard_link_hash s c0 {st1} out/hh",
                f"remove_hash s c0 {st1}", "list c0", f"read s c0 {hx(b'cyc2')}" if shape == "self" else "list c0"]
        progs.append(Program(f"link-cycle-{shape}", ops, model=False, tags={"variety": ("cycle", shape)}))
    return progs


def gen_stray_root_programs():
    """Things in the cache directory that the library did not put there - a regular file, a symlink, a FIFO-less
    selection of what `tar`, editors and users leave behind - and then the bulk operations: `clear`, a listing, a
    write.  Whatever the answer is (the implementation's `remove_dir_all` refuses a plain file), BOTH flavours give it,
    and leave the same things behind."""
    progs = []
    strays = [("file", ["put c0/README.txt x68656c6c6f"]), ("link", ["put tgt/elsewhere x01", "symlink c0/shortcut abs:tgt/elsewhere"]),
              ("dir", ["mkdir c0/lost+found/inner"]), ("file-in-index", ["put c0/index-v5/notes.txt x6e6f7465"]),
              ("file-in-content", ["put c0/content-v2/sha256/README x72"]), ("two", ["put c0/a.txt x61", "mkdir c0/zz"])]
    for name, mk in strays:
        ops = [w_oneshot("s", "sha256", b"kept", b"a value")] + mk
        ops += ["clear s c0", "list c0", "stat c0/README.txt", "stat c0/shortcut", "stat c0/lost+found", "stat c0/a.txt", "cat tgt/elsewhere",
                f"read s c0 {hx(b'kept')}", w_oneshot("s", "sha256", b"after", b"written after the clear"), f"read s c0 {hx(b'after')}", "clear s c0",
                "list c0"]
        progs.append(Program(f"stray-{name}", ops, tags={"variety": ("stray", name)}))
    return progs


def gen_msync_programs():
    """Mapped writers (declared size <= 1 MiB) whose caller CARRIES ON after a failed write / flush - for the leg in
    which every msync(2) fails: an overflowing first chunk (the mapping is given up: flush, cut, unmap), then chunks that
    fit; a short stream, a flush, more data.  Nothing may crash the process (a store through a mapping whose file has
    already been cut is SIGBUS), hang, or leave the content area invalid."""
    progs = []
    for fl, keyed in (("s", True), ("s", False), ("a", False)):
        k = hx(b"ms") if keyed else "-"
        shapes = [
            ("overflow-then-fit", 8, [b"twelve bytes", b"four", b"four"]),
            ("overflow-then-fit-big", 4096, [b"x" * 5000, b"y" * 100, b"z" * 3996]),
            ("fit-flush-fit", 16, [b"eight by", None, b"tes more"]),
            ("exact", 8, [b"8 bytes!"]),
            ("nothing", 64, []),
        ]
        for name, size, chunks in shapes:
            ops = [f"wopen {fl} c0 W1 {k} algo=sha256 size={size} sri=- time=- meta=- raw=-"]
            for c in chunks:
                ops.append("wflush W1" if c is None else f"wwrite W1 {hx(c)}")
            ops += ["wcommit W1", w_oneshot(fl, "sha256", b"afterwards", b"an ordinary write afterwards"),
                    f"read {fl} c0 {hx(b'afterwards')}", "dump c0/content-v2", "dump c0/tmp"]
            progs.append(Program(f"msync-{name}-{fl}-{int(keyed)}", ops, model=False, tags={"variety": ("msync", name, fl, keyed)}))
    return progs


def mon_survives(rr):
    """Every operation of the program was answered (the process was not killed, did not hang), the last
    read worked, the content area is valid and no temp file is left."""
    out = []
    sig = {"variety": rr.prog.tags.get("variety", ("?",))[0]}
    if len(rr.impl) < len(rr.prog.ops) or any(toks(l)[0] in ("panic", "hang") for l in rr.impl):
        i = min(len(rr.impl), len(rr.prog.ops) - 1)
        return [Failure("panic_or_crash", i, f"the process stopped answering at `{rr.prog.ops[i][:50]}` ({len(rr.impl)} of "
                        f"{len(rr.prog.ops)} operations answered, last: {rr.impl[-1][:30] if rr.impl else '-'})", sig=sig)]
    rd = toks(rr.impl[-3])
    if rd[0] != "ok" or unhx(rd[1]) != b"an ordinary write afterwards":
        out.append(Failure("unusable_after_fault", len(rr.impl) - 3, f"an ordinary write + read afterwards -> {' '.join(rd[:3])[:50]}", sig=sig))
    if norm(rr.impl[-1]) != "ok":
        out.append(Failure("temp_left_after_fault", len(rr.impl) - 1, "temp file left behind", sig=sig))
    return out


def gen_rewrite_same_programs():
    """The same bytes stored twice through every one-shot and streamed entry point, small and large: the second write
    finds the stored copy and must leave it alone (for the system-call skeleton leg: no call of the second write opens,
    truncates or writes the file at the content address - the copy is published by a rename of a complete temp file or
    not at all)."""
    progs = []
    for size in (0, 5, 4096, 4097, 70000):
        d = bytes((i * 7 + size) % 251 for i in range(size))
        for fl in "sa":
            for how in ("write", "write_hash", "stream"):
                ids = G.Ids()
                key = b"again-%d" % size
                def w():
                    if how == "write":
                        return [w_oneshot(fl, "sha256", key, d)]
                    if how == "write_hash":
                        return [f"write_hash {fl} c0 sha256 {hx(d)}"]
                    return w_stream(ids, fl, key, d, [d[:len(d) // 2], d[len(d) // 2:]], algo="sha256")[1]
                ops = w() + w() + [f"read_hash {fl} c0 {sri_tok('sha256', d)}"]
                progs.append(Program(f"again-{size}-{fl}-{how}", ops, tags={"variety": ("again", size, fl, how)}))
    return progs


def gen_coexist_programs(r, n):
    """C16: the SAME bytes under several algorithms, through mixed entry points and flavours; every
    address must be the digest under the algorithm asked for (whatever the cache already holds), all
    copies readable, and removing one algorithm's copy leaves the others."""
    progs = []
    for i in range(n):
        ids = G.Ids()
        ops, expect, after = [], [], []
        d = G.data(r, big=0)
        algos = r.sample(L.ALL_ALGOS, r.randrange(2, len(L.ALL_ALGOS) + 1))
        if r.chance(0.7) and "sha256" in algos:          # the default algorithm first, the common history
            algos.remove("sha256"); algos.insert(0, "sha256")
        for algo in algos:
            fl = r.pick("sa")
            key = G.key(r)
            mode = r.randrange(4)
            if mode == 0:
                w = [w_oneshot(fl, algo, key, d)]
            elif mode == 1:
                w = [f"write_hash {fl} c0 {algo} {hx(d)}"]; key = None
            elif mode == 2:
                _, w = w_stream(ids, fl, key, d, G.chunking(r, d), algo=algo)
            else:
                _, w = w_stream(ids, fl, None, d, G.chunking(r, d), algo=algo, size=len(d)); key = None
            ops += w
            widx = len(ops) - 1
            reads = []
            rf = r.pick("sa")
            ops.append(f"read_hash {rf} c0 {sri_tok(algo, d)}"); reads.append(len(ops) - 1)
            if key is not None:
                ops.append(f"read {rf} c0 {hx(key)}"); reads.append(len(ops) - 1)
            expect.append((widx, algo, d, reads, key))
        gone = r.pick(algos)
        ops.append(f"remove_hash {r.pick('sa')} c0 {sri_tok(gone, d)}")
        for algo in algos:
            rf = r.pick("sa")
            ops.append(f"read_hash {rf} c0 {sri_tok(algo, d)}")
            after.append((len(ops) - 1, algo, None if algo == gone else d))
            ops.append(f"exists {rf} c0 {sri_tok(algo, d)}")
            after.append((len(ops) - 1, algo, "absent" if algo == gone else "present"))
        ops.append("dump c0/content-v2")
        progs.append(Program(f"coexist{i}", ops, tags={"expect": expect, "after": after}))
    return progs


def mon_coexist(rr):
    out = []
    for idx, algo, want in rr.prog.tags.get("after", []):
        res = toks(rr.impl[idx])
        op = rr.prog.ops[idx].split(" ")
        sig = {"op": op[0], "api": op[1], "algo": algo}
        if want == "present" or want == "absent":
            if res[0] != "ok" or (res[1] == "true") != (want == "present"):
                out.append(Failure("coexist_exists", idx, f"exists({algo}) after removing another algorithm's copy -> {' '.join(res[:2])}, want {want}", sig=sig))
        elif want is None:
            if res[0] == "ok":
                out.append(Failure("removed_copy_readable", idx, f"read_hash({algo}) after remove_hash of that address -> ok", sig=sig))
        else:
            if res[0] != "ok" or unhx(res[1]) != want:
                out.append(Failure("coexist_lost", idx, f"read_hash({algo}) after removing ANOTHER algorithm's copy -> {' '.join(res[:3])[:60]}", sig=sig))
    return out


def mon_roundtrip(rr):
    out = []
    # later writes to the same key supersede earlier ones: only judge reads issued before the next write of that key
    for widx, algo, d, reads, key in rr.prog.tags["expect"]:
        res = toks(rr.impl[widx]) if widx < len(rr.impl) else ["missing"]
        wop = rr.prog.ops[widx].split(" ")
        sig = {"op": wop[0], "len": len(d), "algo": algo}
        if wop[0] == "wcommit":
            sig.update(writer_sig(rr, widx))
        else:
            sig["api"] = wop[1]
        if res[0] != "ok":
            out.append(Failure("write_failed", widx, f"healthy write of {len(d)} bytes -> {' '.join(res[:3])}", sig=sig))
            continue
        if unhx(res[1]).decode() != L.sri_of(algo, d):
            out.append(Failure("wrong_address", widx, "returned integrity is not the digest of the data", sig=sig))
        for ri in reads:
            rres = toks(rr.impl[ri])
            if rres[0] != "ok" or unhx(rres[1]) != d:
                out.append(Failure("readback", ri, f"{rr.prog.ops[ri][:60]} after write -> {' '.join(rres[:3])[:60]}", sig=sig))
    return out


def writer_sig(rr, idx):
    """Describe the writer whose wcommit / wwrite is at idx."""
    t = rr.prog.ops[idx].split(" ")
    wid = t[1]
    sig = {}
    chunks = []
    for o in rr.prog.ops[:idx]:
        ot = o.split(" ")
        if ot[0] in ("wopen", "wcreate") and ot[3] == wid:
            sig["api"] = ot[1]
            sig["keyed"] = ot[4] != "-"
            for x in ot[5:]:
                if x.startswith("size=") and x != "size=-":
                    sig["declared_size"] = int(x[5:])
        if ot[0] in ("wwrite", "wwrite1") and ot[1] == wid:
            chunks.append((len(ot[2]) - 1) // 2)
        if ot[0] == "wwritev" and ot[1] == wid:
            chunks += [(len(x) - 1) // 2 for x in ot[2:]]
            sig["vectored"] = True
    sig["chunks"] = chunks
    sig["total"] = sum(chunks)
    return sig


# ---------------------------------------------------------------------------------------------
# C05 / C09 / C10: histories against a dictionary model
# ---------------------------------------------------------------------------------------------

_SHARD_PAIRS = {}


def shard_pair(algo):
    """Two short distinct values whose digests share the first 4 hex digits (same content shard dir)."""
    if algo not in _SHARD_PAIRS:
        seen = {}
        i = 0
        while True:
            v = b"shard" + str(i).encode()
            h = L.digest(algo, v).hex()[:4]
            if h in seen:
                _SHARD_PAIRS[algo] = (seen[h], v)
                break
            seen[h] = v
            i += 1
    return _SHARD_PAIRS[algo]


def gen_shard_programs(r, n):
    """remove_hash / remove_fully of one of two contents living in the same shard directory."""
    progs = []
    for i in range(n):
        algo = r.pick(L.ALGOS)
        a, b = shard_pair(algo)
        fl = r.pick("sa")
        ops = [w_oneshot(r.pick("sa"), algo, b"ka", a), w_oneshot(r.pick("sa"), algo, b"kb", b)]
        steps = [(0, "write", b"ka", algo, a), (1, "write", b"kb", algo, b)]
        if r.chance(0.5):
            ops.append(f"remove_hash {fl} c0 {sri_tok(algo, a)}"); steps.append((len(ops) - 1, "remove_hash", None, algo, a))
        else:
            ops.append(f"remove_fully {fl} c0 {hx(b'ka')}"); steps.append((len(ops) - 1, "remove_fully", b"ka", None, None))
        for kk in (b"ka", b"kb"):
            for of in "sa":
                ops.append(f"read {of} c0 {hx(kk)}"); steps.append((len(ops) - 1, "read", kk, None, None))
        ops.append(f"exists s c0 {sri_tok(algo, b)}")
        ops.append("list c0"); steps.append((len(ops) - 1, "list", None, None, None))
        progs.append(Program(f"shard{i}", ops, tags={"steps": steps, "keys": [b"ka", b"kb"], "variety": ("shard", algo, fl)}))
    return progs


def gen_history_programs(r, n, maxlen=25, removals=True, full=False):
    progs = []
    for i in range(n):
        ids = G.Ids()
        nkeys = r.randrange(2, 6)
        keys = [G.key(r, hostile=0.2) for _ in range(nkeys)]
        keys = list(dict.fromkeys(keys))
        vals = [G.data(r, r.pick([0, 1, 5, 40, 300])) + bytes([j]) for j in range(3)]
        ops = []
        steps = []          # (index of op, kind, key, algo, data)
        if r.chance(0.3):
            # the bucket of one key starts out holding garbage / a torn record of a foreign key
            gk = r.pick(keys)
            torn = L.frame(L.record_json("someone else", L.sri_of("sha256", b"x"), 1, 1, {"m": "\u00e9\u65e5"}, None))
            junk = r.pick([torn[:r.randrange(1, len(torn))], b"\nnot a record", b"\n\xff\xfe broken \xc3", torn[:len(torn) - 1] + b"X" + torn[:40]])
            ops.append(f"put {bucket_path(gk)} {hx(junk)}")
        for _ in range(r.randrange(3, maxlen)):
            k = r.pick(keys)
            what = r.random()
            fl = r.pick("sa")
            if what < 0.5:
                d = r.pick(vals)
                w, algo = random_write(r, ids, k, d, fl=fl)
                ops += w
                steps.append((len(ops) - 1, "write", k, algo, d))
            elif what < 0.55:
                # a REJECTED write (wrong declared size) of bytes the cache may already hold under other keys:
                # nothing may change for anyone (its content is published by address, which is harmless)
                d = r.pick(vals)
                algo = r.pick(L.ALGOS)
                _, w = w_stream(ids, fl, k if r.chance(0.7) else None, d, G.chunking(r, d), algo=algo, size=len(d) + r.pick([1, 7]))
                ops += w
                steps.append((len(ops) - 1, "rejected", k, algo, d))
            elif what < 0.8 and removals:
                # every third plain removal goes through the builder: `RemoveOpts::new()` as it is, or `.remove_fully(false)`
                ops.append(f"remove {fl} c0 {hx(k)}" if len(ops) % 3 else f"remove_opts {fl} c0 {hx(k)} {('default', 'false')[len(ops) // 3 % 2]}")
                steps.append((len(ops) - 1, "remove", k, None, None))
            elif what < 0.87 and removals and full:
                ops.append(f"remove_fully {fl} c0 {hx(k)}")
                steps.append((len(ops) - 1, "remove_fully", k, None, None))
            elif what < 0.93 and removals and full:
                d = r.pick(vals); algo = r.pick(L.ALGOS)
                ops.append(f"remove_hash {fl} c0 {sri_tok(algo, d)}")
                steps.append((len(ops) - 1, "remove_hash", None, algo, d))
            elif what < 0.95 and removals and full:
                ops.append(f"clear {fl} c0")
                steps.append((len(ops) - 1, "clear", None, None, None))
            # observe everything after each step
            for kk in keys:
                of = r.pick("sa")
                ops.append(f"metadata {of} c0 {hx(kk)}")
                steps.append((len(ops) - 1, "meta", kk, None, None))
                ops.append(f"read {of} c0 {hx(kk)}")
                steps.append((len(ops) - 1, "read", kk, None, None))
            if r.chance(0.5):
                ops.append("list c0")
                steps.append((len(ops) - 1, "list", None, None, None))
        ops.append("list c0")
        steps.append((len(ops) - 1, "list", None, None, None))
        progs.append(Program(f"hist{i}", ops, tags={"steps": steps, "keys": keys}))
    return scripted_histories(r) + progs


def gen_key_matrix_programs(r):
    """Every hostile key through the same short life: written, looked up, removed (tombstone), looked up, written
    again, removed fully, looked up - sync and async.  Deterministic coverage of "whatever the key" for the
    writers, the removers and the listing (a hand-rolled serialisation of one record kind shows here)."""
    progs = []
    for ki, k in enumerate(G.KEYS_HOSTILE):
        for fl in "sa":
            ops, steps = [], []
            other = b"bystander"
            d1, d2 = b"first value", b"second value"
            def obs():
                for kk in (k, other):
                    for of in "sa":
                        ops.append(f"metadata {of} c0 {hx(kk)}"); steps.append((len(ops) - 1, "meta", kk, None, None))
                    ops.append(f"read {fl} c0 {hx(kk)}"); steps.append((len(ops) - 1, "read", kk, None, None))
                ops.append("list c0"); steps.append((len(ops) - 1, "list", None, None, None))
            ops.append(w_oneshot("s", "sha256", other, b"bystander value")); steps.append((len(ops) - 1, "write", other, "sha256", b"bystander value"))
            ops.append(w_oneshot(fl, "sha256", k, d1)); steps.append((len(ops) - 1, "write", k, "sha256", d1)); obs()
            ops.append(f"remove {fl} c0 {hx(k)}"); steps.append((len(ops) - 1, "remove", k, None, None)); obs()
            ops.append(w_oneshot(fl, "sha512", k, d2)); steps.append((len(ops) - 1, "write", k, "sha512", d2)); obs()
            ops.append(f"remove_fully {fl} c0 {hx(k)}"); steps.append((len(ops) - 1, "remove_fully", k, None, None)); obs()
            progs.append(Program(f"keylife{ki}{fl}", ops, tags={"steps": steps, "keys": [k, other], "variety": ("keylife", ki, fl)}))
    # SIBLING keys: keys that differ only in what a "normalising" hash of the key would drop - a trailing slash, NUL or
    # blank, the letter case, the Unicode normal form.  All live side by side; one is removed fully, another gets a
    # tombstone: each operation concerns that key and only that key.
    groups = [
        [b"pkg/a", b"pkg/a/", b"pkg/a//", b"/pkg/a"],
        [b"Key", b"key", b"KEY", b"key ", b" key", b"key\x00", b"key\n"],
        ["caf\u00e9".encode(), "cafe\u0301".encode(), "CAF\u00c9".encode()],
        [b"a/b", b"a\\b", b"a/./b", b"a//b", b"a/b/."],
    ]
    for gi, grp in enumerate(groups):
        for fl in "sa":
            ops, steps = [], []
            def obs2():
                for kk in grp:
                    ops.append(f"metadata {fl} c0 {hx(kk)}"); steps.append((len(ops) - 1, "meta", kk, None, None))
                    ops.append(f"read {'a' if fl == 's' else 's'} c0 {hx(kk)}"); steps.append((len(ops) - 1, "read", kk, None, None))
                ops.append("list c0"); steps.append((len(ops) - 1, "list", None, None, None))
            for vi, kk in enumerate(grp):
                d = b"value of sibling %d" % vi
                ops.append(w_oneshot(fl, "sha256", kk, d)); steps.append((len(ops) - 1, "write", kk, "sha256", d))
            obs2()
            ops.append(f"remove_fully {fl} c0 {hx(grp[0])}"); steps.append((len(ops) - 1, "remove_fully", grp[0], None, None)); obs2()
            ops.append(f"remove {fl} c0 {hx(grp[1])}"); steps.append((len(ops) - 1, "remove", grp[1], None, None)); obs2()
            ops.append(w_oneshot(fl, "sha1", grp[0], b"back again")); steps.append((len(ops) - 1, "write", grp[0], "sha1", b"back again")); obs2()
            progs.append(Program(f"siblings{gi}{fl}", ops, tags={"steps": steps, "keys": list(grp), "variety": ("siblings", gi, fl)}))
    return progs


def scripted_histories(r):
    """A few fixed shapes that random histories hit too rarely: a key re-pointed to bytes it held
    before (A, B, A), re-written after a removal, moved between algorithms and back, all with
    identical (default) options so that the new record differs from an old one in its time only."""
    A, B = b"value A " + r.randbytes(4), b"value B"
    A2 = b"VALUE a " + A[8:]           # another value of exactly A's length
    k, k2 = "кey".encode(), b"k2"
    scripts = [
        [("w", k, "sha256", A), ("w", k, "sha256", B), ("w", k, "sha256", A)],
        [("w", k, "sha512", A), ("rm", k), ("w", k, "sha512", A)],
        [("w", k, "sha1", A), ("w", k, "sha256", A), ("w", k, "sha1", A), ("rh", "sha256", A)],
        [("w", k, "sha256", A), ("w", k2, "sha256", A), ("w", k, "sha256", B), ("w", k2, "sha256", B), ("w", k, "sha256", A)],
        # a bucket / a content directory that DISAPPEARS and comes back (full removal, clear) with a record of exactly the
        # same length, or with the very same bytes: whatever a process remembers about files it has seen (parsed buckets,
        # directories it created, addresses it published) must not outlive them
        [("w", k, "sha256", A), ("rf", k), ("w", k, "sha256", A2)],
        [("w", k, "sha256", A), ("cl",), ("w", k, "sha256", A2)],
        [("w", k, "sha256", A), ("cl",), ("w", k, "sha256", A)],
        [("w", k, "sha256", A), ("rf", k), ("w", k, "sha256", A)],
        [("w", k, "sha256", A), ("rm", k), ("w", k, "sha256", A)],
        [("w", k, "sha512", A), ("w", k2, "sha512", A), ("rf", k), ("w", k, "sha512", A), ("cl",), ("w", k2, "sha512", A2), ("w", k, "sha512", A)],
    ]
    progs = []
    for si, sc in enumerate(scripts):
        for fl in "sa":
            ops, steps = [], []
            keys = [k, k2]
            for st in sc:
                if st[0] == "w":
                    ops.append(w_oneshot(fl, st[2], st[1], st[3])); steps.append((len(ops) - 1, "write", st[1], st[2], st[3]))
                elif st[0] == "rm":
                    ops.append(f"remove_opts {fl} c0 {hx(st[1])} default" if si % 2 else f"remove {fl} c0 {hx(st[1])}")
                    steps.append((len(ops) - 1, "remove", st[1], None, None))
                elif st[0] == "rf":
                    ops.append(f"remove_fully {fl} c0 {hx(st[1])}"); steps.append((len(ops) - 1, "remove_fully", st[1], None, None))
                elif st[0] == "cl":
                    ops.append(f"clear {fl} c0"); steps.append((len(ops) - 1, "clear", None, None, None))
                else:
                    ops.append(f"remove_hash {fl} c0 {sri_tok(st[1], st[2])}"); steps.append((len(ops) - 1, "remove_hash", None, st[1], st[2]))
                # every step is observed through BOTH flavours, by lookup, read and listing
                for kk in keys:
                    for of in "sa":
                        ops.append(f"metadata {of} c0 {hx(kk)}"); steps.append((len(ops) - 1, "meta", kk, None, None))
                        ops.append(f"read {of} c0 {hx(kk)}"); steps.append((len(ops) - 1, "read", kk, None, None))
                ops.append("list c0"); steps.append((len(ops) - 1, "list", None, None, None))
            ops.append("list c0"); steps.append((len(ops) - 1, "list", None, None, None))
            progs.append(Program(f"script{si}{fl}", ops, tags={"steps": steps, "keys": keys, "variety": ("script", si, fl)}))
    return progs


def mon_history(rr):
    """Dictionary model of the cache: idx: key -> (algo, data); store: set of (algo, data)."""
    out = []
    idx, store = {}, set()
    index_dir = False
    for (i, kind, k, algo, d) in rr.prog.tags["steps"]:
        if i >= len(rr.impl):
            break
        res = toks(rr.impl[i])
        if kind == "write":
            if res[0] == "ok":
                idx[k] = (algo, d); store.add((algo, d)); index_dir = True
            else:
                out.append(Failure("write_failed", i, f"write -> {' '.join(res[:3])}", sig={"op": "write"}))
        elif kind == "rejected":
            if res[:2] != ["err", "size"]:
                out.append(Failure("not_rejected", i, f"commit with a wrong declared size -> {' '.join(res[:3])}", sig={"op": "wcommit"}))
            store.add((algo, d))          # the content is published before the declarations are checked
        elif kind == "remove":
            if res[0] == "ok":
                idx.pop(k, None); index_dir = True
            else:
                out.append(Failure("remove_failed", i, f"remove -> {' '.join(res[:3])}"))
        elif kind == "remove_fully":
            if k in idx:
                # a full removal of a live key deletes its entry and its content - also when the content is
                # already gone (removed by address, or shared with a key that was removed fully)
                if res[0] != "ok":
                    out.append(Failure("remove_failed", i, f"remove_fully of a live key -> {' '.join(res[:3])}",
                                       sig={"op": "remove_fully", "content_present": idx[k] in store}))
                else:
                    store.discard(idx[k])
                    idx.pop(k)
            # never-written / removed key: result not constrained by the statement
            if res[0] == "ok":
                # the bucket file is gone: every key sharing it (only k, barring SHA-1 collisions) is absent
                idx.pop(k, None)
        elif kind == "remove_hash":
            if (algo, d) in store:
                if res[0] != "ok":
                    out.append(Failure("remove_failed", i, f"remove_hash of present content -> {' '.join(res[:3])}"))
                store.discard((algo, d))
        elif kind == "clear":
            if res[0] != "ok" and (index_dir or store):      # clearing a directory that was never created is not covered
                out.append(Failure("clear_failed", i, f"clear -> {' '.join(res[:3])}"))
            idx.clear(); store.clear(); index_dir = False
        elif kind == "meta":
            m = meta_of_line(rr.impl[i])
            if k in idx:
                a, dd = idx[k]
                if m in (None, "ERR") or m["key"] != k or m["sri"] != L.sri_of(a, dd):
                    out.append(Failure("stale_or_missing", i, f"metadata of live key {k!r} -> {norm(rr.impl[i])[:80]}",
                                       sig={"op": "metadata"}))
            elif m is not None:
                out.append(Failure("resurrected", i, f"metadata of absent key {k!r} -> {norm(rr.impl[i])[:80]}",
                                   sig={"op": "metadata"}))
        elif kind == "read":
            if k in idx:
                a, dd = idx[k]
                if (a, dd) in store:
                    if res[0] != "ok" or unhx(res[1]) != dd:
                        out.append(Failure("stale_or_missing", i, f"read of live key {k!r} -> {' '.join(res[:2])[:60]}",
                                           sig={"op": "read"}))
                elif res[0] == "ok":
                    out.append(Failure("read_removed_content", i, "read returned data whose content was removed"))
            elif res[:2] != ["err", "notfound"]:
                out.append(Failure("resurrected", i, f"read of absent key {k!r} -> {' '.join(res[:2])[:60]}", sig={"op": "read"}))
        elif kind == "list":
            items = list_items(rr.impl[i])
            if items is None:
                out.append(Failure("list_failed", i, norm(rr.impl[i])[:80], sig={"op": "list"}))
                continue
            metas = [parse_meta(x) for x in items if x.startswith("meta ")]
            errs = [x for x in items if not x.startswith("meta ")]
            if not index_dir:
                continue        # listing a cache without index directory yields one error item (pinned by the repo's tests)
            if errs:
                out.append(Failure("list_error_item", i, ";".join(errs)[:80], sig={"op": "list"}))
            got = sorted((m["key"], m["sri"]) for m in metas)
            want = sorted((kk, L.sri_of(a, dd)) for kk, (a, dd) in idx.items())
            if got != want:
                out.append(Failure("list_mismatch", i, f"listed {len(got)} entries, expected {len(want)}", sig={"op": "list"}))
    # listing must agree with lookup item by item (C10): compare each listed item with the metadata line of that key
    return out


def mon_list_agrees_with_lookup(rr):
    out = []
    last_meta = {}
    for (i, kind, k, algo, d) in rr.prog.tags["steps"]:
        if i >= len(rr.impl):
            break
        if kind in ("write", "remove", "remove_fully", "clear", "remove_hash", "rejected"):
            last_meta = {}
        elif kind == "meta":
            last_meta[k] = norm(rr.impl[i])
        elif kind == "list":
            items = list_items(rr.impl[i]) or []
            listed = {}
            for x in items:
                if x.startswith("meta "):
                    m = parse_meta(x)
                    if m["key"] in listed:
                        out.append(Failure("listed_twice", i, f"key {m['key']!r} listed twice", sig={"op": "list"}))
                    listed[m["key"]] = x
            for kk, ml in last_meta.items():
                if ml == "ok none":
                    if kk in listed:
                        out.append(Failure("list_extra", i, f"{kk!r} listed but lookup finds nothing", sig={"op": "list"}))
                elif ml.startswith("ok meta "):
                    if listed.get(kk) != ml[3:]:
                        out.append(Failure("list_differs_from_lookup", i, f"{kk!r}: listing and lookup differ", sig={"op": "list"}))
    return out


def gen_foreign_listing_programs(r):
    """C10: buckets holding checksummed records whose integrity text is odd (unknown algorithm, empty, no hash at
    all, undecodable digest ...), alone, after / before a valid record and after a tombstone of the same key:
    whatever the library makes of such a record, a lookup and the listing must make the SAME of it."""
    progs = []
    for name, integ in FOREIGN_INTEGRITIES.items():
        for shape in ("alone", "valid-foreign", "valid-tomb-foreign", "foreign-valid", "foreign-tomb"):
            k = f"fl-{name}".encode()
            good = L.frame(L.record_json(k.decode(), L.sri_of("sha256", b"v"), 5, 1, None, None))
            tomb = L.frame(L.record_json(k.decode(), None, 6, 0, None, None))
            odd = L.frame(L.record_json(k.decode(), integ, 7, 0, None, None))
            recs = {"alone": [odd], "valid-foreign": [good, odd], "valid-tomb-foreign": [good, tomb, odd],
                    "foreign-valid": [odd, good], "foreign-tomb": [odd, tomb]}[shape]
            other = b"bystander"
            ops = [w_oneshot("s", "sha256", other, b"x"), f"put c0/{L.bucket_rel(k)} {hx(b''.join(recs))}"]
            steps = []
            for kk in (k, other):
                for fl in "sa":
                    ops.append(f"metadata {fl} c0 {hx(kk)}"); steps.append((len(ops) - 1, "meta", kk, None, None))
                    ops.append("list c0"); steps.append((len(ops) - 1, "list", None, None, None))
            progs.append(Program(f"flist-{name}-{shape}", ops, tags={"steps": steps, "keys": [k, other], "foreign_integrity": name,
                                                                       "listing_only": True, "variety": ("flist", name, shape)}))
    return progs


def gen_shared_removal_programs(r, n):
    """C09 / C10: several keys share one content file (same bytes); the content disappears through one
    of them (remove_fully, remove_hash) and then the others are fully removed / removed / looked up.
    A removal that ANSWERS ok must have removed the key from lookups and listings; one that answers an
    error must have left the key as it was."""
    progs = []
    for i in range(n):
        d = G.data(r, r.pick([0, 3, 200])) + b"shared"
        algo = r.pick(L.ALGOS)
        ks = [b"a%d" % i, b"b%d" % i, "в%d".encode() % i][:r.randrange(2, 4)]
        ops, rem = [], []
        for k in ks:
            ops.append(w_oneshot(r.pick("sa"), algo, k, d))
        first = r.pick(["remove_fully", "remove_hash", "remove_then_fully"])
        if first == "remove_then_fully":
            # the key is removed (tombstone) and THEN removed fully: it owns no content any more, the content the
            # other keys share must survive
            ops.append(f"remove {r.pick('sa')} c0 {hx(ks[0])}")
            ops.append(f"remove_fully {r.pick('sa')} c0 {hx(ks[0])}")
            for k in ks[1:]:
                for fl in "sa":
                    ops.append(f"read {fl} c0 {hx(k)}"); rem.append((len(ops) - 1, ("read", k)))
            ops.append(f"read_hash s c0 {sri_tok(algo, d)}"); rem.append((len(ops) - 1, ("read", None)))
            progs.append(Program(f"sharedrm{i}", ops, tags={"removals": rem, "keys": ks, "data": d,
                                                            "variety": ("sharedrm", first, len(ks))}))
            continue
        if first == "remove_fully":
            ops.append(f"remove_fully {r.pick('sa')} c0 {hx(ks[0])}"); rem.append((len(ops) - 1, ks[0]))
        else:
            ops.append(f"remove_hash {r.pick('sa')} c0 {sri_tok(algo, d)}")
        for k in ks[1:]:
            how = r.pick(["remove_fully", "remove_fully", "remove"])
            ops.append(f"{how} {r.pick('sa')} c0 {hx(k)}"); rem.append((len(ops) - 1, k))
            for fl in "sa":
                ops.append(f"metadata {fl} c0 {hx(k)}")
            ops.append("list c0")
        progs.append(Program(f"sharedrm{i}", ops, tags={"removals": rem, "keys": ks, "variety": ("sharedrm", first, len(ks))}))
    return progs


def mon_shared_removal(rr):
    out = []
    t = rr.prog.tags
    for idx, k in t.get("removals", []):
        if idx >= len(rr.impl):
            continue
        if isinstance(k, tuple):          # ("read", key): content shared with a removed key must still be there
            rdr = toks(rr.impl[idx])
            if rdr[0] != "ok" or unhx(rdr[1]) != t["data"]:
                out.append(Failure("removal_took_shared_content", idx, f"{rr.prog.ops[idx][:40]} after remove + remove_fully of "
                                   f"ANOTHER key with the same bytes -> {' '.join(rdr[:3])[:40]}", sig={"op": "remove_fully"}))
            continue
        res = toks(rr.impl[idx])
        op = rr.prog.ops[idx].split(" ")
        sig = {"op": op[0], "api": op[1]}
        # look at the next observations of k
        later_meta, later_list = None, None
        for j in range(idx + 1, min(len(rr.impl), len(rr.prog.ops))):
            o = rr.prog.ops[j].split(" ")
            if o[0] == "metadata" and unhx(o[3]) == k and later_meta is None:
                later_meta = (j, meta_of_line(rr.impl[j]))
            if o[0] == "list" and later_list is None:
                later_list = (j, list_items(rr.impl[j]))
            if o[0] in ("remove", "remove_opts", "remove_fully", "write") and j > idx and later_meta and later_list:
                break
        if later_meta is None:
            continue
        j, m = later_meta
        listed = later_list is not None and later_list[1] is not None and any(
            x.startswith("meta ") and parse_meta(x)["key"] == k for x in later_list[1])
        if res[0] == "ok" and (m not in (None,) or listed):
            out.append(Failure("removed_key_still_there", j, f"{op[0]} {op[1]} answered ok but the key is still "
                               f"{'found' if m is not None else ''}{' and ' if m is not None and listed else ''}{'listed' if listed else ''}", sig=sig))
        if res[0] == "err" and m is None:
            out.append(Failure("failed_removal_removed", j, f"{op[0]} {op[1]} answered {' '.join(res[:3])} but the key is gone", sig=sig))
        if res[0] == "err":
            # every key of these programs is live when its removal is issued: a (full) removal of a live key
            # deletes its entry and whatever is left of its content - also when the shared content is gone already
            out.append(Failure("removal_of_live_key_fails", idx, f"{op[0]} {op[1]} of a live key whose content was "
                               f"already removed through another key / by address -> {' '.join(res[:3])}", sig=sig))
    return out


# ---------------------------------------------------------------------------------------------
# C08 / C14: declared size / integrity, rejected and abandoned writers
# ---------------------------------------------------------------------------------------------

def gen_commit_programs(r, n, big=0.05):
    progs = []
    for i in range(n):
        ids = G.Ids()
        key = G.key(r, hostile=0.1)
        algo = r.pick(L.ALGOS)
        d = G.data(r, big=big)
        ops, cases = [], []
        prior = r.pick(["absent", "present", "present", "removed"])
        # the previous value is sometimes the very bytes (and algorithm) the new writer supplies: a rejected
        # commit must not disturb content that an existing entry points to
        same = prior == "present" and r.chance(0.5)
        prev_data, prev_algo = (d, algo) if same else (b"previous value", "sha256")
        if prior in ("present", "removed"):
            ops.append(w_oneshot(r.pick("sa"), prev_algo, key, prev_data))
        if prior == "removed":
            ops.append(f"remove {r.pick('sa')} c0 {hx(key)}")
        ops.append(f"metadata s c0 {hx(key)}"); before = len(ops) - 1
        fl = r.pick("sa")
        keyed = r.chance(0.7)
        # declarations
        size_kind = r.pick(["none", "eq", "lt", "gt"])
        n_d = len(d)
        size = {"none": None, "eq": n_d, "lt": max(0, n_d - r.pick([1, 2, 7])), "gt": n_d + r.pick([1, 5, 1000])}[size_kind]
        if size_kind == "lt" and n_d == 0:
            size_kind, size = "gt", 1
        sri_kind = r.pick(["none", "ok", "wrong", "otheralgo", "multi_ok", "multi_wrong", "multi_strong_unverified", "multi_strong_wrong"])
        other = [a for a in L.ALGOS if a != algo][0]
        # a declaration that also names a STRONGER algorithm than the writer's (SRI: the strongest one governs)
        stronger = L.ALGOS[L.ALGOS.index(algo) + 1:] if algo in L.ALGOS else []
        if sri_kind.startswith("multi_strong") and not stronger:
            sri_kind = "multi_ok"
        strong = stronger[-1] if stronger else algo
        sri = {"none": None, "ok": L.sri_of(algo, d), "wrong": L.sri_of(algo, d + b"x"),
               "otheralgo": L.sri_of(other, d),
               "multi_ok": L.sri_of(algo, d + b"y") + " " + L.sri_of(algo, d),
               "multi_wrong": L.sri_of(algo, d + b"y") + " " + L.sri_of(algo, d + b"z"),
               "multi_strong_unverified": L.sri_of(strong, d) + " " + L.sri_of(algo, d),
               "multi_strong_wrong": L.sri_of(strong, d + b"other bytes") + " " + L.sri_of(algo, d)}[sri_kind]
        chunks = G.chunking(r, d)
        w, wops = w_stream(ids, fl, key if keyed else None, d, chunks, algo=algo, size=size, sri=sri)
        ops += wops
        commit_idx = len(ops) - 1
        ops.append(f"metadata s c0 {hx(key)}"); after = len(ops) - 1
        ops.append(f"metadata a c0 {hx(key)}")
        ops.append("list c0")
        ops.append("dump c0/content-v2")          # judged by the content-validity monitor where it is registered
        ops.append("dump c0/tmp")
        ops.append(f"read s c0 {hx(key)}")
        progs.append(Program(f"commit{i}", ops, tags={
            "commit": commit_idx, "before": before, "after": after, "size_kind": size_kind, "sri_kind": sri_kind,
            "keyed": keyed, "algo": algo, "data": d, "declared": sri, "size": size, "key": key, "tmp": len(ops) - 2,
            "prior": prior, "prev_data": prev_data, "final_read": len(ops) - 1}))
    return progs


def mon_commit(rr, readable=True):
    """`readable`: also demand that an accepted keyed commit reads back (C08, C16; C14 is about writers that
    do NOT commit and leaves that to them)."""
    out = []
    t = rr.prog.tags
    ci = t["commit"]
    if ci >= len(rr.impl):
        return out
    res = toks(rr.impl[ci])
    sig = writer_sig(rr, ci)
    sig.update({"size_kind": t["size_kind"], "sri_kind": t["sri_kind"]})
    # did every step up to the commit succeed? (a panic / error before commit is judged as the commit's outcome)
    pre_fail = None
    for j in range(t["before"] + 1, ci):
        c = rclass(rr.impl[j])
        if c != "ok":
            pre_fail = (j, c); break
    # a declaration is checked by its strongest algorithm; when the writer did not hash with it the declaration
    # cannot be verified and is rejected like one "of another algorithm" (also when its digests happen to be right)
    integrity_bad = t["sri_kind"] in ("wrong", "otheralgo", "multi_wrong", "multi_strong_wrong", "multi_strong_unverified")
    size_bad = t["size_kind"] in ("lt", "gt")
    before, after = norm(rr.impl[t["before"]]), norm(rr.impl[t["after"]])
    if integrity_bad or size_bad:
        if pre_fail:
            # the statement wants the commit to fail with the integrity / size error; failing earlier with a
            # panic is C20's business, failing earlier with an error is tolerated only if nothing was mapped
            if pre_fail[1] in ("panic", "hang"):
                out.append(Failure("reject_by_panic", pre_fail[0], "a mismatching write panicked instead of failing at commit", sig=sig))
        else:
            want = ["err", "integrity"] if integrity_bad else ["err", "size"]
            if res[:2] != want and not (integrity_bad and size_bad and res[:2] == ["err", "size"]):
                out.append(Failure("not_rejected", ci, f"commit with {t['sri_kind']}/{t['size_kind']} declarations -> {' '.join(res[:4])[:80]}", sig=sig))
            if size_bad and not integrity_bad and res[:2] == ["err", "size"]:
                if [int(res[2]), int(res[3])] != [t["size"], len(t["data"])]:
                    out.append(Failure("wrong_size_error", ci, f"size error reports {res[2:4]}, expected {[t['size'], len(t['data'])]}", sig=sig))
        if before != after:
            out.append(Failure("rejected_commit_mapped", t["after"], "the key's mapping changed although the commit was rejected", sig=sig))
        if t.get("prior") == "present" and not pre_fail and t["final_read"] < len(rr.impl):
            fr = toks(rr.impl[t["final_read"]])
            if fr[0] != "ok" or unhx(fr[1]) != t["prev_data"]:
                out.append(Failure("rejected_commit_broke_previous", t["final_read"],
                                   f"after a rejected commit the key no longer reads its previous value ({' '.join(fr[:3])[:40]})", sig=sig))
    else:
        if pre_fail:
            out.append(Failure("good_write_failed", pre_fail[0], f"step before commit -> {pre_fail[1]}", sig=sig))
        elif res[0] != "ok":
            out.append(Failure("good_commit_rejected", ci, f"commit with matching declarations -> {' '.join(res[:4])[:80]}", sig=sig))
        elif t["keyed"]:
            m = meta_of_line(rr.impl[t["after"]])
            want_sri = t["declared"] if t["declared"] else L.sri_of(t["algo"], t["data"])
            if m in (None, "ERR") or L.sri_parse(m["sri"]) != L.sri_parse(want_sri):
                out.append(Failure("commit_not_mapped", t["after"], "successful keyed commit is not what the lookup returns", sig=sig))
            if readable and t["final_read"] < len(rr.impl):
                fr = toks(rr.impl[t["final_read"]])
                if fr[0] != "ok" or unhx(fr[1]) != t["data"]:
                    out.append(Failure("committed_unreadable", t["final_read"],
                                       f"the commit answered ok but the key does not read back the data ({' '.join(fr[:3])[:40]})", sig=sig))
    # C14: nothing is left in tmp
    tmp = norm(rr.impl[t["tmp"]])
    if tmp != "ok":
        out.append(Failure("tmp_left", t["tmp"], f"temp area not empty after the writer is gone: {tmp[:80]}", sig=sig))
    return out


def gen_cancel_programs(r):
    """Async writers one of whose `write` futures is polled once and dropped (a lost `select!` branch, a timeout)
    while its blocking operation may still be in flight, after which the caller carries on and commits.  Which
    bytes such a writer ends up holding is the library's business (implementation only, no model); whatever it
    publishes must hash to its address, what the commit returns must be the digest of what the key then reads,
    and no temp file may stay behind."""
    progs = []
    big = bytes((i * 13 + 5) % 253 for i in range(3 << 20))
    shapes = [
        ("plain-keyed", "x6b63", "size=-", [("c", big), ("w", b"tail bytes")]),
        ("plain-keyed-small", "x6b64", "size=-", [("c", b"AAAAA"), ("w", b"world!!")]),
        ("mapped-by-address", "-", "size=7", [("c", b"AAAAA"), ("w", b"BB")]),
        ("mapped-by-address-2", "-", "size=70000", [("c", big[:60000]), ("c", big[:5000]), ("w", big[:5000])]),
        ("plain-by-address", "-", "size=-", [("c", big), ("c", big[:1 << 20]), ("w", b"end")]),
        ("overflow-by-address", "-", "size=16", [("c", big[:12]), ("w", big[:12])]),
    ]
    for name, key, size, chunks in shapes:
        ops = [f"wopen a c0 W1 {key} algo=sha256 {size} sri=- time=- meta=- raw=-"]
        for kind, d in chunks:
            ops.append(f"{'wwrite_cancel' if kind == 'c' else 'wwrite'} W1 {hx(d)}")
        ops.append("wcommit W1"); ci = len(ops) - 1
        if key != "-":
            ops.append(f"read s c0 {key}")
            ops.append(f"metadata a c0 {key}")
        ops += ["dump c0/content-v2", "dump c0/tmp"]
        progs.append(Program(f"cancel-{name}", ops, model=False, tags={"cancel": ci, "keyed": key != "-", "variety": ("cancel", name)}))
    return progs


def mon_cancel(rr):
    out = []
    t = rr.prog.tags
    ci = t["cancel"]
    if len(rr.impl) < len(rr.prog.ops) or any(toks(l)[0] in ("panic", "hang") for l in rr.impl):
        return [Failure("panic", min(len(rr.impl), len(rr.prog.ops)) - 1, "a writer with a cancelled write panicked / hung", sig={"op": "wwrite_cancel"})]
    commit = toks(rr.impl[ci])
    if t["keyed"] and commit[0] == "ok":
        rd = toks(rr.impl[ci + 1])
        if rd[0] != "ok" or L.sri_of("sha256", unhx(rd[1])) != unhx(commit[1]).decode(errors="replace"):
            out.append(Failure("wrong_address", ci, "after a cancelled write the commit's integrity is not the digest of what the key reads "
                               f"({' '.join(rd[:1])})", sig={"op": "wcommit"}))
        # "the size is the number of data bytes written": the bytes the writer ACKNOWLEDGED - every `write_all` in
        # full, a cancelled write only with the count it answered, if it answered at all.  (Which bytes a dropped write
        # leaves in the store is outside every property's quantifier: an abandoned chunk longer than the next
        # caller buffer is stored without ever being acknowledged.)
        acked = 0
        for j, o in enumerate(rr.prog.ops[:ci]):
            ot, res = o.split(" "), toks(rr.impl[j])
            if ot[0] == "wwrite" and res[0] == "ok":
                acked += (len(ot[2]) - 1) // 2
            elif ot[0] == "wwrite_cancel" and res[0] == "ok" and len(res) > 1 and res[1].isdigit():
                acked += int(res[1])
        m = meta_of_line(rr.impl[ci + 2])
        if isinstance(m, dict) and m.get("size") != acked:
            out.append(Failure("wrong_size_recorded", ci, f"after a cancelled write the entry records size {m.get('size')} but the "
                               f"writer acknowledged {acked} bytes", sig={"op": "wcommit", "field": "size"}))
    if norm(rr.impl[-1]) != "ok":
        out.append(Failure("tmp_left", len(rr.impl) - 1, "temp file left behind by a writer with a cancelled write", sig={"op": "wwrite_cancel"}))
    return out


def gen_attach_rewrite_programs(r):
    """One key written several times with everything a writer can attach, the differences between consecutive
    writes being as small as possible - only the raw metadata, only the JSON metadata, only the time, only the bytes
    (same length) - with tombstones, full removals and clears in between, so that a re-created bucket has exactly
    the length of the one that was there before.  After every step lookups (both flavours) and the listing must
    show the attachments of the LAST write (or nothing)."""
    progs = []
    k = "cl\u00e9".encode()
    A, B = b"same length A", b"same length B"
    M1, M2 = {"etag": "aaaa", "n": 1}, {"etag": "bbbb", "n": 2}
    R1, R2 = b"raw-headers-1", b"raw-headers-2"
    scripts = [
        [("w", A, 1000, M1, R1), ("w", A, 1000, M1, R2)],                       # only the raw metadata differs
        [("w", A, 1000, M1, R1), ("w", A, 1000, M2, R1)],                       # only the JSON metadata
        [("w", A, 1000, M1, R1), ("w", A, 2000, M1, R1)],                       # only the time
        [("w", A, 1000, M1, R1), ("w", B, 1000, M1, R1)],                       # only the bytes
        [("w", A, 1000, M1, R1), ("rf",), ("w", B, 2000, M2, R2)],              # bucket re-created, same length
        [("w", A, 1000, M1, R1), ("cl",), ("w", B, 2000, M2, R2)],
        [("w", A, 1000, M1, R1), ("rm",), ("w", A, 1000, M1, R1)],              # identical write after a tombstone
        [("w", A, 1000, M1, R1), ("w", B, 2000, M2, R2), ("rf",), ("w", A, 1000, M1, R1), ("cl",), ("w", B, 2000, M2, R2)],
        [("w", A, 1000, None, None), ("w", A, 1000, None, R1), ("w", A, 1000, M1, None)],
    ]
    for si, sc in enumerate(scripts):
        for fl in "sa":
            ids = G.Ids()
            ops, steps = [], []
            cur = None
            for st in sc:
                if st[0] == "w":
                    _, d, tm, md, raw = st
                    _, w = w_stream(ids, fl, k, d, [d], algo="sha256", time=tm, meta=(md if md is not None else NOMETA), raw=raw)
                    ops += w
                    cur = {"sri": L.sri_of("sha256", d), "time": tm, "size": len(d), "json": md, "raw": raw}
                else:
                    ops.append({"rf": f"remove_fully {fl} c0 {hx(k)}", "cl": f"clear {fl} c0", "rm": f"remove {fl} c0 {hx(k)}"}[st[0]])
                    cur = None
                at = len(ops) - 1
                obs = []
                for of in "sa":
                    ops.append(f"metadata {of} c0 {hx(k)}"); obs.append(len(ops) - 1)
                ops.append("list c0"); obs.append(len(ops) - 1)
                steps.append((at, dict(cur) if cur else None, obs))
            progs.append(Program(f"attach{si}{fl}", ops, tags={"attach": steps, "key": k, "variety": ("attach", si, fl)}))
    return progs


def mon_attach(rr):
    out = []
    k = rr.prog.tags["key"]
    for at, cur, obs in rr.prog.tags["attach"]:
        if obs[-1] >= len(rr.impl):
            break
        res = toks(rr.impl[at])
        if res[0] != "ok":
            out.append(Failure("write_failed", at, f"{rr.prog.ops[at][:40]} -> {' '.join(res[:3])}", sig={"op": rr.prog.ops[at].split(' ')[0]}))
            continue
        def ok_meta(m):
            return (m not in (None, "ERR") and m["sri"] == cur["sri"] and m["time"] == cur["time"] and m["size"] == cur["size"]
                    and m["json"] == cur["json"] and m["raw"] == cur["raw"])
        for j in obs[:-1]:
            m = meta_of_line(rr.impl[j])
            if cur is None:
                if m is not None:
                    out.append(Failure("resurrected", j, f"lookup after a removal -> {norm(rr.impl[j])[:60]}", sig={"op": "metadata"}))
            elif not ok_meta(m):
                out.append(Failure("stale_or_missing", j, "lookup does not return what the LAST write attached "
                                   f"({norm(rr.impl[j])[:90]})", sig={"op": "metadata", "api": rr.prog.ops[j].split(' ')[1]}))
        items = list_items(rr.impl[obs[-1]])
        metas = [parse_meta(x) for x in (items or []) if x.startswith("meta ")]
        mine = [m for m in metas if m["key"] == k]
        if cur is None:
            if mine:
                out.append(Failure("resurrected", obs[-1], "listing shows a removed key", sig={"op": "list"}))
        elif len(mine) != 1 or not ok_meta(mine[0]):
            out.append(Failure("stale_or_missing", obs[-1], "listing does not show what the LAST write attached", sig={"op": "list"}))
    return out


def gen_block_boundary_programs(r):
    """Buckets (written by the reference encoder) in which a read-buffer boundary - 4 KiB ... 64 KiB - falls INSIDE a
    multi-byte character of the record that decides the lookup (the newest record of the key: a live entry, or a
    tombstone over an older live entry).  A reader that decodes UTF-8 block by block loses exactly that record."""
    progs = []
    key = "кл\u00e9-\u20ac".encode()
    ks = key.decode()
    for B in (4096, 8192, 16384, 32768, 65536):
        for last_kind in ("live", "tomb"):
            frames, tm = [], 1000
            def rec(t, pad):
                return L.frame(L.record_json(ks, L.sri_of("sha256", b"v%d" % t), t, 2, {"pad": pad, "e": "\u20ac" * 40}, None))
            # filler records up to a little below the boundary
            while sum(map(len, frames)) + len(rec(tm, "")) < B - 700:
                frames.append(rec(tm, "x" * (tm % 7))); tm += 1
            if last_kind == "live":
                final = L.frame(L.record_json(ks, L.sri_of("sha256", b"final"), 999999, 5, {"e": "\u20ac" * 120}, None))
            else:
                final = L.frame(L.record_json(ks + "", None, 999999, 0, {"e": "\u20ac" * 120} if False else None, None))
            # the boundary goes inside the euro sign of the key (the one multi-byte text a tombstone has, too)
            p = final.index("\u20ac".encode())
            want_prefix = B - p - 1                      # the boundary then lies between byte 1 and byte 2 of a 3-byte character
            have = sum(map(len, frames))
            base = len(rec(tm, ""))
            pad = want_prefix - have - base
            if pad < 0:
                frames.pop(); have = sum(map(len, frames)); pad = want_prefix - have - base
            frames.append(rec(tm, "y" * pad)); tm += 1
            bucket = b"".join(frames) + final
            assert len(b"".join(frames)) == want_prefix, (len(b"".join(frames)), want_prefix)
            assert bucket[B - 1] == 0xE2 and bucket[B] == 0x82, (B, bucket[B - 1:B + 2])
            bp = bucket_path(key)
            ops = [f"put {bp} {hx(bucket)}"]
            look = []
            for fl in "sa":
                ops.append(f"metadata {fl} c0 {hx(key)}"); look.append(len(ops) - 1)
            ops.append("list c0"); look.append(len(ops) - 1)
            progs.append(Program(f"block{B}{last_kind}", ops, tags={"bucket": bucket, "key": ks, "look": look, "ins": len(ops),
                                                                    "damage": f"none (boundary {B} inside a character)",
                                                                    "variety": ("block", B, last_kind)}))
    return progs


def gen_multihash_removal_programs(r):
    """C09: an entry whose (declared, accepted) integrity lists a second, weaker algorithm is removed fully while the
    same bytes are also stored - by other keys, by address - under that weaker algorithm: the removal deletes the
    entry's own content (the strongest hash's address) and nobody else's."""
    progs = []
    for fl in "sa":
        for strong, weak in (("sha512", "sha256"), ("sha256", "sha1"), ("sha512", "sha1")):
            ids = G.Ids()
            d = b"bytes stored twice " + strong.encode()
            decl = L.sri_of(strong, d) + " " + L.sri_of(weak, d)
            ops = [w_oneshot("s", weak, b"plain", d), f"write_hash a c0 {weak} {hx(d)}"]
            _, w = w_stream(ids, fl, b"declared", d, [d], algo=strong, sri=decl)
            ops += w
            expect = []
            ops.append(f"read s c0 {hx(b'declared')}"); expect.append((len(ops) - 1, d))
            ops.append(f"remove_fully {fl} c0 {hx(b'declared')}"); rm = len(ops) - 1
            ops.append(f"read s c0 {hx(b'declared')}"); expect.append((len(ops) - 1, None))
            for of in "sa":
                ops.append(f"read {of} c0 {hx(b'plain')}"); expect.append((len(ops) - 1, d))
                ops.append(f"read_hash {of} c0 {sri_tok(weak, d)}"); expect.append((len(ops) - 1, d))
            ops.append(f"exists s c0 {sri_tok(strong, d)}"); gone = len(ops) - 1
            progs.append(Program(f"mhrm-{strong}-{weak}-{fl}", ops, tags={"expect_reads": expect, "rm": rm, "gone": gone,
                                                                          "variety": ("mhrm", strong, weak, fl)}))
    # remove_hash of an integrity that NAMES several algorithms removes the content at its own address - the strongest
    # hash's, where read_hash / exists look - and not what other entries store under the weaker ones
    for fl in "sa":
        for strong, weak in (("sha512", "sha256"), ("sha256", "sha1")):
            d = b"stored under two algorithms " + weak.encode()
            multi = hx((L.sri_of(strong, d) + " " + L.sri_of(weak, d)).encode())
            ops = [w_oneshot("s", strong, b"strong", d), w_oneshot("a", weak, b"weak", d)]
            expect = []
            ops.append(f"remove_hash {fl} c0 {multi}"); rm = len(ops) - 1
            for of in "sa":
                ops.append(f"read {of} c0 {hx(b'weak')}"); expect.append((len(ops) - 1, d))
                ops.append(f"read_hash {of} c0 {sri_tok(weak, d)}"); expect.append((len(ops) - 1, d))
            ops.append(f"exists s c0 {sri_tok(strong, d)}"); gone = len(ops) - 1
            progs.append(Program(f"mh-removehash-{strong}-{weak}-{fl}", ops, tags={"expect_reads": expect, "rm": rm, "gone": gone,
                                                                                   "variety": ("mh-removehash", strong, weak, fl)}))
    # SUPERSEDED versions: the key was overwritten (no removal in between) and then removed fully.  The removal takes
    # the CURRENT version's content; what the key pointed to earlier - shared with another key, still addressed by
    # callers - is somebody else's
    for fl in "sa":
        for n_old in (1, 2):
            olds = [b"version %d of the value" % j for j in range(n_old)]
            cur = b"the current version"
            ops, expect = [], []
            for j, o in enumerate(olds):
                ops.append(w_oneshot(fl, "sha256", b"versioned", o))
                ops.append(w_oneshot("s", "sha256", b"shares-v%d" % j, o))
            ops.append(w_oneshot(fl, "sha256", b"versioned", cur))
            ops.append(f"remove_fully {fl} c0 {hx(b'versioned')}"); rm = len(ops) - 1
            ops.append(f"read s c0 {hx(b'versioned')}"); expect.append((len(ops) - 1, None))
            for j, o in enumerate(olds):
                for of in "sa":
                    ops.append(f"read {of} c0 {hx(b'shares-v%d' % j)}"); expect.append((len(ops) - 1, o))
                    ops.append(f"read_hash {of} c0 {sri_tok('sha256', o)}"); expect.append((len(ops) - 1, o))
            ops.append(f"exists s c0 {sri_tok('sha256', cur)}"); gone = len(ops) - 1
            progs.append(Program(f"superseded-{n_old}-{fl}", ops, tags={"expect_reads": expect, "rm": rm, "gone": gone,
                                                                        "variety": ("superseded", n_old, fl)}))
    return progs


def mon_expect_reads(rr):
    out = []
    t = rr.prog.tags
    if len(rr.impl) < len(rr.prog.ops):
        return out
    if toks(rr.impl[t["rm"]])[0] != "ok":
        out.append(Failure("remove_failed", t["rm"], f"{rr.prog.ops[t['rm']].split(' ')[0]} -> {norm(rr.impl[t['rm']])[:60]}",
                           sig={"op": rr.prog.ops[t["rm"]].split(" ")[0]}))
    for j, want in t["expect_reads"]:
        res = toks(rr.impl[j])
        if want is None:
            if res[0] == "ok":
                out.append(Failure("removed_key_still_there", j, "a fully removed key still reads", sig={"op": "read"}))
        elif res[0] != "ok" or unhx(res[1]) != want:
            out.append(Failure("other_entry_affected", j, f"`{rr.prog.ops[j][:40]}` -> {' '.join(res[:2])[:50]} after the full removal of "
                               "ANOTHER key (one whose integrity also lists this algorithm / whose earlier version these bytes were)",
                               sig={"op": rr.prog.ops[j].split(' ')[0], "variety": t["variety"][0]}))
    if norm(rr.impl[t["gone"]]) != "ok false":
        out.append(Failure("content_not_removed", t["gone"], "the fully removed entry's own content is still there", sig={"op": "exists"}))
    return out


def gen_oddcache_programs():
    """C15: a cache directory whose NAME is not valid UTF-8 (harness op `oddcache`): everything stays inside it."""
    return [Program(f"oddcache-{fl}", [f"oddcache {fl}"], model=False, tags={"oddcache": True, "variety": ("oddcache", fl)}) for fl in "sa"]


def mon_oddcache(rr):
    out = []
    if not rr.impl:
        return out
    t = toks(rr.impl[0])
    sig = {"op": "oddcache", "api": rr.prog.ops[0].split(" ")[1]}
    if t[0] != "ok" or len(t) < 3:
        return [Failure("oddcache_failed", 0, f"operations in a cache directory with a non-UTF-8 name -> {' '.join(t[:3])[:60]}", sig=sig)]
    done, steps = t[1].split("/")
    if done != steps:
        out.append(Failure("oddcache_failed", 0, f"only {t[1]} steps in a cache directory with a non-UTF-8 name answered ok", sig=sig))
    names = [bytes.fromhex(x) for x in t[2].split(",") if x]
    stray = [n for n in names if n not in (b"odd-\xff", b"out", b"tgt")]
    if stray:
        out.append(Failure("outside_cache_dir", 0, f"working in the cache directory b'odd-\\xff' created {stray[:3]} next to it", sig=sig))
    return out


def gen_abandon_programs(r, n):
    progs = []
    for i in range(n):
        ids = G.Ids()
        keys = [b"stay1", b"stay2", G.key(r, hostile=0.1)]
        ops = [w_oneshot("s", "sha256", b"stay1", b"one"), w_oneshot("a", "sha512", b"stay2", b"two")]
        ops.append("list c0"); base = len(ops) - 1
        fl = r.pick("sa")
        d = G.data(r, big=0.05)
        size = r.pick([None, None, len(d)])
        chunks = G.chunking(r, d) if size is None else ([d] if d else [])
        upto = r.randrange(0, len(chunks) + 1)
        keyed = r.chance(0.7)
        w, wops = w_stream(ids, fl, keys[2] if keyed else None, d, chunks[:upto], algo=r.pick(L.ALGOS), size=size, commit=False)
        ops += wops
        # interleave another successful operation while the writer is open
        if r.chance(0.5):
            ops.append(w_oneshot(r.pick("sa"), "sha256", b"stay1", b"one"))
        ops.append(f"wdrop {w}")
        ops.append("list c0"); after = len(ops) - 1
        ops.append(f"metadata s c0 {hx(keys[2])}"); m = len(ops) - 1
        ops.append("dump c0/tmp"); tmp = len(ops) - 1
        ops.append(f"exists s c0 {sri_tok('sha256', d)}")
        progs.append(Program(f"abandon{i}", ops, tags={"base": base, "after": after, "meta": m, "tmp": tmp, "keyed": keyed}))
    return progs


def strip_times(line):
    import re
    return re.sub(r"time=\d+", "time=T", norm(line))


def mon_abandon(rr):
    out = []
    t = rr.prog.tags
    if t["tmp"] >= len(rr.impl):
        return out
    if strip_times(rr.impl[t["base"]]) != strip_times(rr.impl[t["after"]]):
        out.append(Failure("abandoned_writer_visible", t["after"], "listing changed after a writer was dropped without commit"))
    if norm(rr.impl[t["meta"]]) != "ok none":
        out.append(Failure("abandoned_writer_visible", t["meta"], "key of a dropped writer is found"))
    if norm(rr.impl[t["tmp"]]) != "ok":
        out.append(Failure("tmp_left", t["tmp"], f"temp area not empty after drop: {norm(rr.impl[t['tmp']])[:60]}"))
    return out


# ---------------------------------------------------------------------------------------------
# C11: metadata fidelity and defaults
# ---------------------------------------------------------------------------------------------

def gen_metadata_programs(r, n):
    progs = []
    for i in range(n):
        ids = G.Ids()
        key = G.key(r, hostile=0.5)
        d = G.data(r, r.pick([0, 1, 5, 100, 1500]))
        algo = r.pick(L.ALGOS)
        fl = r.pick("sa")
        mode = r.pick(["oneshot", "stream_default", "stream_opts", "index_insert"])
        exp = {"key": key, "sri": L.sri_of(algo, d), "time": None, "size": len(d), "json": None, "raw": None}
        # sometimes the key already carries an older entry with other attachments: what comes back (from
        # lookups AND from the listing) must be the new write's, field by field
        prior = []
        if r.chance(0.35):
            pd = G.data(r, r.pick([1, 9, 200])) + b"-old"
            _, prior = w_stream(ids, r.pick("sa"), key, pd, [pd], algo=r.pick(L.ALGOS), time=r.pick([5, 2**70]),
                                meta={"old": [1, 2, {"x": None}]}, raw=b"old raw")
        if mode == "oneshot":
            ops = [w_oneshot(fl, algo, key, d)]
        elif mode == "stream_default":
            _, ops = w_stream(ids, fl, key, d, G.chunking(r, d), algo=algo)
        elif mode == "stream_opts":
            tm = r.pick([None, 0, 1, 1234567, 2**63, 2**64 - 1, 2**64, 2**64 + 1, 2**127, 2**128 - 1])
            md = G.jvalue(r) if r.chance(0.8) else NOMETA
            raw = r.pick([None, b"", bytes(range(256)), r.randbytes(40), b"\x00\xff"])
            sz = r.pick([None, len(d)])
            chunks = G.chunking(r, d) if sz is None else ([d] if d else [])
            # a supplied integrity is part of what must come back unchanged: single hash, or the data's
            # hash plus a weaker algorithm's hash (ssri sorts by strength; the writer's algorithm stays first)
            decl = None
            if algo in L.ALGOS and r.chance(0.4):
                weaker = [a for a in ("sha384", "sha256", "sha1") if L.ALL_ALGOS.index(a) > 0 and
                          ["sha512", "sha384", "sha256", "sha1"].index(a) > ["sha512", "sha384", "sha256", "sha1"].index(algo)]
                decl = L.sri_of(algo, d)
                if weaker and r.chance(0.6):
                    decl = decl + " " + L.sri_of(weaker[0], d)
            _, ops = w_stream(ids, fl, key, d, chunks, algo=algo, size=sz, sri=decl, time=tm, meta=md, raw=raw)
            exp.update(time=tm, json=(None if md is NOMETA else md), raw=raw)
            if decl:
                exp["sri"] = decl
        else:
            tm = r.pick([None, 0, 2**128 - 1, 99])
            md = G.jvalue(r) if r.chance(0.8) else NOMETA
            raw = r.pick([None, b"", bytes(range(256))])
            sz = r.pick([None, 0, 7, 2**63])
            ops = [f"index_insert {fl} c0 {hx(key)} sri={hx(exp['sri'].encode())} time={tm if tm is not None else '-'} "
                   f"size={sz if sz is not None else '-'} meta={hx(L.render_json(md).encode()) if md is not NOMETA else '-'} "
                   f"raw={hx(raw) if raw is not None else '-'}"]
            exp.update(time=tm, json=(None if md is NOMETA else md), raw=raw, size=(sz if sz is not None else 0))
        ops = prior + ops
        w = len(ops) - 1
        for f2 in "sa":
            ops.append(f"metadata {f2} c0 {hx(key)}")
        ops.append("list c0")
        progs.append(Program(f"meta{i}", ops, tags={"exp": exp, "write": w, "mode": mode, "variety": ("prior", bool(prior))}))
    # deep nesting around serde_json's recursion limit (parse: 128 levels; serialise: unlimited)
    for depth in (100, 120, 125, 126, 127):
        ids = G.Ids()
        v = None
        for _ in range(depth):
            v = [v]
        key = f"deep{depth}".encode()
        d = b"deep"
        _, ops = w_stream(ids, "s", key, d, [d], algo="sha256", time=1, meta=v)
        w = len(ops) - 1
        for f2 in "sa":
            ops.append(f"metadata {f2} c0 {hx(key)}")
        ops.append("list c0")
        exp = {"key": key, "sri": L.sri_of("sha256", d), "time": 1, "size": 4, "json": v, "raw": None}
        progs.append(Program(f"deepmeta{depth}", ops, tags={"exp": exp, "write": w, "mode": "deep", "json_depth": depth,
                                                            "variety": ("deep", depth)}))
    return progs


def mon_metadata(rr):
    import re
    out = []
    t = rr.prog.tags
    exp = t["exp"]
    w = t["write"]
    if w >= len(rr.impl):
        return out
    wl = rr.impl[w]
    sig = {"mode": t["mode"], "op": rr.prog.ops[w].split(" ")[0], "api": rr.prog.ops[w].split(" ")[1] if t["mode"] == "oneshot" else None}
    if "json_depth" in t:
        sig["json_depth"] = t["json_depth"]
    if t["mode"].startswith("stream"):
        sig.update(writer_sig(rr, w))
    if rclass(wl) != "ok":
        out.append(Failure("write_failed", w, f"{norm(wl)[:80]}", sig=sig))
        return out
    m_now = re.search(r"@now=(\d+) @fresh=(\d)", wl)
    metas = []
    for j in range(w + 1, min(len(rr.impl), w + 3)):
        metas.append((j, meta_of_line(rr.impl[j])))
    items = list_items(rr.impl[w + 3]) if w + 3 < len(rr.impl) else None
    if items is not None:
        for x in items:
            if x.startswith("meta "):
                metas.append((w + 3, parse_meta(x)))
    if len(metas) < 3:
        out.append(Failure("not_listed", w + 3, "entry missing from listing", sig=sig))
    for j, m in metas:
        if m in (None, "ERR"):
            out.append(Failure("lookup_failed", j, f"written entry not returned: {norm(rr.impl[j])[:60]}", sig=sig))
            continue
        if m["key"] != exp["key"]:
            out.append(Failure("key_changed", j, "key differs", sig=sig))
        if L.sri_parse(m["sri"]) != L.sri_parse(exp["sri"]):
            out.append(Failure("integrity_changed", j, f"integrity {m['sri'][:60]} != {exp['sri'][:60]}", sig=sig))
        if exp["time"] is not None:
            if m["time"] != exp["time"]:
                out.append(Failure("time_changed", j, f"time {m['time']} != {exp['time']}", sig=sig))
        else:
            if not m_now or m_now.group(2) != "1" or int(m_now.group(1)) != m["time"]:
                out.append(Failure("default_time_untruthful", j, "default timestamp is not the wall clock of the commit (ms)", sig=sig))
        if m["size"] != exp["size"]:
            out.append(Failure("size_wrong", j, f"size {m['size']} != {exp['size']}", sig=dict(sig, recorded=m["size"])))
        if m["json"] != exp["json"]:
            out.append(Failure("metadata_changed", j, "JSON metadata differs", sig=sig))
        if m["raw"] != exp["raw"]:
            out.append(Failure("raw_changed", j, "raw metadata differs", sig=sig))
    return out


# ---------------------------------------------------------------------------------------------
# C06 / C17: bucket files built by the reference encoder, damaged, read by the library
# ---------------------------------------------------------------------------------------------

def ref_history(r, nrec, keys=None, same_bucket=True):
    """A history of records with explicit times, as (key str, integrity or None, time, size, metadata, raw)."""
    keys = keys or ["k"]
    recs = []
    # time stamps are data, not order: position in the file decides what is current (clocks step back,
    # callers pass explicit times, other writers use other clocks)
    mono = r.chance(0.5)
    for j in range(nrec):
        k = r.pick(keys)
        tmj = 1000 + j if mono else r.pick([5000 - j, r.randrange(0, 3000), 2**64 + j, 0])
        if r.chance(0.2):
            recs.append((k, None, tmj, 0, None, None))
        else:
            d = bytes([j]) * r.pick([1, 3, 10])
            recs.append((k, L.sri_of(r.pick(L.ALGOS), d), tmj, len(d),
                         G.jvalue(r) if r.chance(0.5) else None, r.pick([None, b"\x00\xff", b"raw"])))
    return recs


def rec_frame(rec):
    k, integ, tm, sz, md, raw = rec
    return L.frame(L.record_json(k, integ, tm, sz, md, raw))


def damage_bucket(r, frames):
    """Damage one place of a bucket made of `frames`; returns (bytes, description)."""
    whole = b"".join(frames)
    kind = r.pick(["cut_last", "cut_any", "flip", "garbage_line", "nul_line", "invalid_utf8_line", "kill_newline",
                   "dup_fragment", "dup_fragment", "reorder", "crlf", "none", "overwrite_middle", "unicode_line",
                   "unicode_line", "tabbed_line", "checksum_bit", "checksum_bit"])
    if kind == "checksum_bit":
        # one bit of one character of a record's 64-character checksum (for a hex letter, bit 0x20 turns it
        # into its upper-case twin: still "the same digest" to a lenient comparison, but a damaged record)
        i = r.randrange(len(frames))
        fr = bytearray(frames[i])
        letters = [j for j in range(1, 65) if chr(fr[j]) in "abcdef"]
        if letters and r.chance(0.7):
            j = r.pick(letters); fr[j] ^= 0x20
        else:
            j = r.randrange(1, 65); fr[j] ^= 1 << r.randrange(8)
        return b"".join(frames[:i]) + bytes(fr) + b"".join(frames[i + 1:]), f"record {i} checksum character {j} altered"
    if kind == "cut_last":
        n = r.randrange(0, len(frames[-1]))
        return whole[:len(whole) - len(frames[-1]) + n], f"last record cut at {n}"
    if kind == "cut_any":
        i = r.randrange(len(frames)); n = r.randrange(0, len(frames[i]))
        return b"".join(frames[:i]) + frames[i][:n] + b"".join(frames[i + 1:]), f"record {i} cut at {n}"
    if kind == "flip":
        i = r.randrange(len(whole) * 8); b = bytearray(whole); b[i // 8] ^= 1 << (i % 8)
        return bytes(b), f"bit {i} flipped"
    if kind in ("garbage_line", "nul_line", "invalid_utf8_line"):
        line = {"garbage_line": b"\nnot a record at all", "nul_line": b"\n\x00\x00\x00",
                "invalid_utf8_line": b"\n\xff\xfe\xfd garbage \xc3"}[kind]
        i = r.randrange(len(frames) + 1)
        return b"".join(frames[:i]) + line + b"".join(frames[i:]), f"{kind} before record {i}"
    if kind == "unicode_line":
        # valid UTF-8, longer than a checksum, multi-byte characters at every alignment
        txt = ("#" * r.randrange(0, 4)) + "".join(r.pick(["\u00e9", "\u65e5", "\U0001f600", "\u2013", "x"]) for _ in range(r.randrange(25, 90)))
        i = r.randrange(len(frames) + 1)
        return b"".join(frames[:i]) + b"\n" + txt.encode() + b"".join(frames[i:]), f"unicode_line before record {i}"
    if kind == "tabbed_line":
        txt = "a" * r.randrange(60, 70) + "\t" + "\u00e9" * r.randrange(1, 40) + r.pick(["", "\t", "\tz"])
        i = r.randrange(len(frames) + 1)
        return b"".join(frames[:i]) + b"\n" + txt.encode() + b"".join(frames[i:]), f"tabbed_line before record {i}"
    if kind == "kill_newline" and len(frames) > 1:
        i = r.randrange(1, len(frames))
        return b"".join(frames[:i]) + b"X" + frames[i][1:] + b"".join(frames[i + 1:]), f"newline before record {i} overwritten"
    if kind == "dup_fragment":
        i = r.randrange(len(frames)); n = r.randrange(1, len(frames[i]))
        if r.chance(0.5):
            return whole + frames[i][:n], f"fragment of record {i} duplicated at the end"
        # a suffix fragment (starts anywhere inside the record, possibly inside a multi-byte character)
        return whole + b"\n" + frames[i][n:], f"suffix fragment of record {i} appended as a line"
    if kind == "reorder" and len(frames) > 1:
        fs = list(frames); r.shuffle(fs)
        return b"".join(fs), "records reordered"
    if kind == "crlf":
        return b"".join(f[:1] + f[1:] + b"\r" for f in frames), "CR before every newline"
    if kind == "overwrite_middle":
        i = r.randrange(len(frames)); a = r.randrange(1, len(frames[i])); n = r.randrange(1, 8)
        f = frames[i][:a] + r.randbytes(n).replace(b"\n", b"?") + frames[i][a + n:]
        return b"".join(frames[:i]) + f + b"".join(frames[i + 1:]), f"record {i} overwritten at {a}"
    return whole, "undamaged"


def gen_bucket_programs(r, n):
    progs = []
    for i in range(n):
        keys = r.pick([["k"], ["k"], ["é日本"], ["tab\tkey"], ["k", "k"], ["Überweisungsbeleg-für-März–日本語のキー"], ["ключ-😀-é"]])
        key = keys[0]
        recs = ref_history(r, r.randrange(1, 6), keys=[key])
        # a foreign key's record placed into the same bucket file
        if r.chance(0.3):
            recs.insert(r.randrange(len(recs) + 1), ("foreign", L.sri_of("sha256", b"f"), 5, 1, None, None))
        frames = [rec_frame(x) for x in recs]
        dmg, desc = damage_bucket(r, frames)
        bp = bucket_path(key.encode())
        ops = []
        if r.chance(0.5):
            # the same process has read the bucket while it was still intact: whatever it remembers about records
            # it has validated (checksums, parsed buckets) must not make it accept the damaged text afterwards
            ops += [f"put {bp} {hx(b''.join(frames))}", f"metadata s c0 {hx(key.encode())}", f"metadata a c0 {hx(key.encode())}", "list c0"]
        ops.append(f"put {bp} {hx(dmg)}")
        look = []
        for fl in "sa":
            ops.append(f"metadata {fl} c0 {hx(key.encode())}"); look.append(len(ops) - 1)
        ops.append("list c0"); look.append(len(ops) - 1)
        # further appends through the library, then look again
        d2 = b"appended"
        ops.append(f"index_insert {r.pick('sa')} c0 {hx(key.encode())} sri={hx(L.sri_of('sha256', d2).encode())} time=777 size=8 meta=- raw=-")
        ins = len(ops) - 1
        for fl in "sa":
            ops.append(f"metadata {fl} c0 {hx(key.encode())}")
        ops.append("list c0")
        ops.append(f"cat {bp}")
        progs.append(Program(f"bucket{i}", ops, tags={"bucket": dmg, "key": key, "look": look, "ins": ins, "damage": desc,
                                                       "variety": (desc.split(" at ")[0].split(" before ")[0], len(recs))}))
    return progs


def gen_bucket_shape_programs(deep=False):
    """Fixed bucket contents that random histories and random damage hit too rarely - all judged by the reference
    decoder (`mon_bucket`): a FOREIGN key's tombstone after the key's record; a byte-identical record appearing twice
    with something else in between (explicit equal times); damage confined to the FIRST line (bit 7 of the leading
    newline, garbage instead of the first record's newline, a bucket that does not start with a newline); a good
    record followed by a newer record of the same key whose integrity names an unknown algorithm (the fall-back);
    an empty bucket file."""
    key = "k"
    A = (key, L.sri_of("sha256", b"aaa"), 1, 3, None, None)
    B = (key, L.sri_of("sha512", b"bb"), 2, 2, {"v": 2}, b"raw")
    T = (key, None, 3, 0, None, None)
    F = ("foreign", L.sri_of("sha256", b"f"), 5, 1, None, None)
    FT = ("foreign", None, 6, 0, None, None)
    ODD = (key, "sha3-256-" + "QUJD" * 11, 9, 3, None, None)
    ODD2 = (key, "blake3-AAAA", 9, 3, None, None)
    fr = rec_frame
    shapes = [
        ("foreign-tombstone-last", fr(A) + fr(FT)),
        ("foreign-tombstone-between", fr(F) + fr(A) + fr(FT) + fr(F)),
        ("foreign-live-last", fr(A) + fr(F)),
        ("key-tombstone-then-foreign", fr(A) + fr(T) + fr(F)),
        ("identical-again", fr(A) + fr(B) + fr(A)),
        ("identical-after-tombstone", fr(A) + fr(T) + fr(A)),
        ("identical-tombstones", fr(T) + fr(A) + fr(T)),
        ("identical-adjacent", fr(A) + fr(A) + fr(B)),
        ("first-newline-bit7", b"\x8a" + fr(A)[1:] + fr(B)),
        ("first-line-garbage", b"\xff\xfe\x00garbage instead of the first record" + fr(B)),
        ("first-line-garbage-then-two", b"\xc3" + fr(A)[1:] + fr(B) + fr(T)),
        ("no-leading-newline", fr(A)[1:] + fr(B)),
        ("only-record-no-leading-newline", fr(A)[1:]),
        ("odd-after-good", fr(A) + fr(ODD)),
        ("odd-after-good-2", fr(A) + fr(B) + fr(ODD2)),
        ("odd-after-tombstone", fr(A) + fr(T) + fr(ODD)),
        ("good-after-odd", fr(ODD) + fr(B)),
        ("empty-file", b""),
        ("newline-only", b"\n"),
        # a line whose checksum field is EMPTY, or a strict prefix of the right checksum, is garbage
        ("empty-checksum-field", fr(A) + b"\n\t" + fr(B).split(b"\t", 1)[1]),
        ("prefix-checksum-field", fr(A) + b"\n" + fr(B)[1:11] + b"\t" + fr(B).split(b"\t", 1)[1]),
        ("fragment-from-its-tab", fr(A) + fr(T) + b"\n\t" + fr(A).split(b"\t", 1)[1]),
        # more than 1 MiB of damage in the middle of a bucket (a zeroed extent, a run of garbage lines): the records
        # after it count like any others
        ("megabyte-of-garbage-lines", fr(A) + b"\n" + b"\n".join([b"garbage line %06d " % j + b"#" * 80 for j in range(11000)]) + fr(B)),
        ("megabyte-of-nul", fr(A) + b"\n" + b"\x00" * (1100 * 1024) + fr(T)),
        # records of ANOTHER key between two records of the key (one bucket file serves every key with that SHA-1):
        # the key's records need not be adjacent
        ("key-foreign-key", fr(A) + fr(F) + fr(B)),
        ("key-foreign-tombstone", fr(A) + fr(F) + fr(T)),
        ("key-foreign-key-foreign-tombstone", fr(A) + fr(F) + fr(B) + fr(FT) + fr(T)),
        # a line with ONE tab whose checksum field is too short (a record whose front was overwritten, a fragment that
        # starts inside the checksum), FOLLOWED by good records: they count like any others
        ("short-checksum-then-good", fr(A) + b"\n" + fr(B)[1:11] + b"\t" + fr(B).split(b"\t", 1)[1] + fr(B)),
        ("short-checksum-then-tombstone", fr(A) + b"\nabc\tjunk" + fr(T)),
        ("empty-checksum-then-good", fr(A) + b"\n\t" + fr(B).split(b"\t", 1)[1] + fr(B)),
        ("long-checksum-then-good", fr(A) + b"\n" + b"0" * 70 + b"\tjunk" + fr(B)),
        # the separating newline became a TAB: the fused line has four fields - both records are void (not just the second)
        ("newline-became-tab", fr(A) + b"\t" + fr(B)[1:]),
        ("newline-became-tab-tombstone", fr(A) + fr(B) + b"\t" + fr(T)[1:]),
        ("newline-became-tab-then-good", fr(T) + b"\t" + fr(A)[1:] + fr(B)),
        ("tab-fragment-appended-to-line", fr(A) + fr(B) + b"\t" + fr(A).split(b"\t", 1)[1]),
    ]
    progs = []
    bp = bucket_path(key.encode())
    if deep:
        # tens of thousands of records at the END of the bucket that every reader passes over (an integrity naming an
        # algorithm this version does not know, records of another key): the lookup still answers - with the record
        # before them.  (Short programs: the model needs half a millisecond per record and operation.)
        for name, data in (("many-skipped-last", fr(A) + fr(ODD2) * 24000), ("many-foreign-last", fr(B) + fr(F) * 24000)):
            ops = [f"put {bp} {hx(data)}", f"metadata s c0 {hx(key.encode())}", f"metadata a c0 {hx(key.encode())}", "list c0"]
            progs.append(Program(f"shape-{name}", ops, tags={"bucket": data, "key": key, "look": [1, 2, 3], "ins": None,
                                                              "damage": "shape " + name, "variety": ("shape", name)}))
    for name, data in shapes:
        ops = [f"put {bp} {hx(data)}"]
        look = []
        for fl in "sa":
            ops.append(f"metadata {fl} c0 {hx(key.encode())}"); look.append(len(ops) - 1)
        ops.append("list c0"); look.append(len(ops) - 1)
        ops.append(f"index_insert s c0 {hx(key.encode())} sri={hx(L.sri_of('sha256', b'appended').encode())} time=777 size=8 meta=- raw=-")
        ins = len(ops) - 1
        for fl in "sa":
            ops.append(f"metadata {fl} c0 {hx(key.encode())}")
        ops.append("list c0")
        ops.append(f"cat {bp}")
        progs.append(Program(f"shape-{name}", ops, tags={"bucket": data, "key": key, "look": look, "ins": ins,
                                                          "damage": "shape " + name, "variety": ("shape", name)}))
    return progs


def ref_meta_tuple(rec):
    return (rec["key"], L.sri_parse(rec["integrity"]), rec["time"], rec["size"], rec["metadata"],
            None if rec.get("raw_metadata") is None else bytes(rec["raw_metadata"]))


def impl_meta_tuple(m):
    return (m["key"].decode(), L.sri_parse(m["sri"]), m["time"], m["size"], m["json"], m["raw"])


def mon_bucket(rr):
    """Lookups and listings of a damaged bucket must be what the reference decoder says the
    undamaged records imply, identically through both flavours, before and after a further append."""
    out = []
    t = rr.prog.tags
    key = t["key"]
    sig = {"damage": t["damage"].split(" ")[0]}

    def judge(bucket_bytes, idxs, stage):
        recs = L.decode_bucket(bucket_bytes)
        want = L.lookup(recs, key)
        for j in idxs:
            if j >= len(rr.impl):
                return
            opn = rr.prog.ops[j].split(" ")[0]
            if opn == "metadata":
                m = meta_of_line(rr.impl[j])
                if m == "ERR":
                    out.append(Failure("lookup_error", j, f"{stage}: lookup on damaged bucket -> {norm(rr.impl[j])[:60]}",
                                       sig=dict(sig, op="metadata", flavour_tok=rr.prog.ops[j].split(' ')[1])))
                elif want is None:
                    if m is not None:
                        out.append(Failure("forged_or_stale", j, f"{stage}: lookup returns an entry the undamaged records do not imply",
                                           sig=dict(sig, op="metadata")))
                elif m is None or impl_meta_tuple(m) != ref_meta_tuple(want):
                    out.append(Failure("damage_not_contained", j, f"{stage} ({t['damage']}): lookup {rr.prog.ops[j].split(' ')[1]} does not return the last undamaged record",
                                       sig=dict(sig, op="metadata", flavour_tok=rr.prog.ops[j].split(' ')[1])))
            elif opn == "list":
                items = list_items(rr.impl[j])
                if items is None:
                    out.append(Failure("list_failed", j, f"{stage}: {norm(rr.impl[j])[:60]}", sig=dict(sig, op="list")))
                    continue
                got = sorted((impl_meta_tuple(parse_meta(x)) for x in items if x.startswith("meta ")), key=repr)
                # a key is listed iff a lookup finds it, with the entry the lookup finds (records whose integrity
                # names no known algorithm count for neither: the entry before them stays current)
                live = {k_: L.lookup(recs, k_) for k_ in {rec["key"] for rec in recs}}
                wantl = sorted((ref_meta_tuple(v) for v in live.values() if v is not None), key=repr)
                if got != wantl:
                    out.append(Failure("damage_not_contained", j, f"{stage} ({t['damage']}): listing differs from what the undamaged records imply",
                                       sig=dict(sig, op="list")))
    judge(t["bucket"], t["look"], "before append")
    ins = t["ins"]
    if ins is not None and ins < len(rr.impl) and rclass(rr.impl[ins]) == "ok":
        rec = (key, L.sri_of("sha256", b"appended"), 777, 8, None, None)
        judge(t["bucket"] + rec_frame(rec), [ins + 1, ins + 2, ins + 3], "after append")
        cat = toks(rr.impl[ins + 4]) if ins + 4 < len(rr.impl) else ["?"]
        if cat[0] == "ok" and unhx(cat[1]) != t["bucket"] + rec_frame(rec):
            out.append(Failure("format", ins + 4, "the record the library appended is not byte-identical to the reference encoding", sig={"op": "index_insert"}))
    return out


# ---------------------------------------------------------------------------------------------
# C17: the layout, both directions
# ---------------------------------------------------------------------------------------------

def gen_layout_programs(r, n):
    progs = []
    for i in range(n):
        ids = G.Ids()
        ops, writes = [], []
        # direction 1: the library writes, the reference decodes the dumped tree
        for j in range(r.randrange(1, 4)):
            key = G.key(r, hostile=0.5)
            d = G.data(r, r.pick([0, 1, 10, 300]))
            algo = r.pick(L.ALL_ALGOS if i % 3 == 0 else L.ALGOS)
            tm = r.pick([0, 5, 2**64, 123456789])
            md = G.jvalue(r)
            raw = r.pick([None, b"\x01\x02"])
            _, w = w_stream(ids, r.pick("sa"), key, d, G.chunking(r, d), algo=algo, time=tm, meta=md, raw=raw)
            ops += w
            writes.append((key, algo, d, tm, md, raw))
            if r.chance(0.2):
                ops.append(f"index_insert s c0 {hx(key)} sri=- time=9 size=- meta=- raw=-")     # tombstone with explicit time
                writes.append((key, None, None, 9, None, None))
        ops.append("dump c0"); dump1 = len(ops) - 1
        # direction 2: the reference writes a cache c1, the library reads it
        recs = ref_history(r, r.randrange(1, 5), keys=[r.pick(["ref", "ключ", "a b"])])
        key2 = recs[0][0]
        frames = b"".join(rec_frame(x) for x in recs)
        d2 = b"reference content " + bytes([i % 256])
        algo2 = "xxh3" if i % 7 == 3 else r.pick(L.ALGOS)      # (xxh3's directory name and digest length matter too)
        # an integrity may name several algorithms: the data lives at the address of the STRONGEST one
        integ2 = L.sri_of(algo2, d2)
        weaker = L.ALGOS[:L.ALGOS.index(algo2)] if algo2 != "xxh3" else []
        if weaker and r.chance(0.4):
            integ2 = integ2 + " " + L.sri_of(r.pick(weaker), d2)
        recs2 = recs + [(key2, integ2, r.pick([4242, 1, 0, 2**70]), len(d2),
                         {"by": "reference", "z": [1, 2], "a": "\u00e9"}, None)]
        # the reference writer does not have to spell JSON the way serde_json does
        style = r.pick(["canonical", "python", "unsorted", "reordered", "spaced"])
        # ... and a shared cache may carry a line some other program left behind (torn inside a multi-byte
        # character, plain junk): every reader of the format skips it
        junk = r.pick([b"", b"", b"\nnot a record", b"\n\xe6\x97", b"\n" + rec_frame(recs[0])[1:40], b"\n\xff\xfe\tx"])
        frames = (b"".join(rec_frame(x) for x in recs2[:-1]) + junk +
                  L.frame(L.record_json_styled(*recs2[-1], style)))
        ops.append(f"put c1/{L.bucket_rel(key2.encode())} {hx(frames)}")
        ops.append(f"put c1/{L.content_rel(L.sri_of(algo2, d2))} {hx(d2)}")
        ref_at = len(ops)
        for fl in "sa":
            ops.append(f"metadata {fl} c1 {hx(key2.encode())}")
            ops.append(f"read {fl} c1 {hx(key2.encode())}")
        ops.append("list c1")
        progs.append(Program(f"layout{i}", ops, tags={"writes": writes, "dump": dump1, "ref_at": ref_at, "ref_rec": recs2[-1],
                                                       "ref_data": d2, "variety": style}))
    return progs


def parse_dump(line):
    items = list_items(line) or []
    files, links, dirs = {}, {}, set()
    for x in items:
        kind, _, rest = x.partition(":")
        if kind == "d":
            dirs.add(rest)
        else:
            p, _, v = rest.partition("=")
            if kind == "f":
                files[p] = unhx(v)
            else:
                links[p] = v
    return files, links, dirs


def mon_layout(rr):
    out = []
    t = rr.prog.tags
    if t["dump"] < len(rr.impl):
        files, links, dirs = parse_dump(rr.impl[t["dump"]])
        want_content, want_buckets = {}, {}
        for key, algo, d, tm, md, raw in t["writes"]:
            bp = "c0/" + L.bucket_rel(key)
            if algo is None:
                fr = L.frame(L.record_json(key.decode(), None, tm, 0, None, None))
            else:
                want_content["c0/" + L.content_rel(L.sri_of(algo, d))] = d
                fr = L.frame(L.record_json(key.decode(), L.sri_of(algo, d), tm, len(d), md, raw))
            want_buckets[bp] = want_buckets.get(bp, b"") + fr
        got_content = {p: b for p, b in files.items() if p.startswith("c0/content-v2/")}
        got_buckets = {p: b for p, b in files.items() if p.startswith("c0/index-v5/")}
        if got_content != want_content:
            out.append(Failure("layout_content", t["dump"], "content files differ from the fixed layout (path = algorithm / hex digest split 2/2/rest, bytes = data)",
                               sig={"op": "dump"}))
        if got_buckets != want_buckets:
            detail = "index files differ from the fixed layout"
            for p in want_buckets:
                if p in got_buckets and got_buckets[p] != want_buckets[p]:
                    detail += f"; first differing bucket {p}: got {got_buckets[p][:120]!r} want {want_buckets[p][:120]!r}"
                    break
            out.append(Failure("layout_index", t["dump"], detail[:400], sig={"op": "dump"}))
        other = [p for p in files if not (p.startswith("c0/content-v2/") or p.startswith("c0/index-v5/"))]
        if other or links:
            out.append(Failure("layout_extra", t["dump"], f"unexpected files {other[:3]} {list(links)[:3]}", sig={"op": "dump"}))
    a = t["ref_at"]
    rec = t["ref_rec"]
    want = (rec[0], L.sri_parse(rec[1]), rec[2], rec[3], rec[4], rec[5])
    for j in (a, a + 2):
        if j < len(rr.impl):
            m = meta_of_line(rr.impl[j])
            if m in (None, "ERR") or impl_meta_tuple(m) != want:
                out.append(Failure("reference_cache_misread", j, "library does not read the reference-written record identically", sig={"op": "metadata"}))
    for j in (a + 1, a + 3):
        if j < len(rr.impl):
            res = toks(rr.impl[j])
            if res[0] != "ok" or unhx(res[1]) != t["ref_data"]:
                out.append(Failure("reference_cache_misread", j, "library does not read the reference-written content", sig={"op": "read"}))
    return out


# ---------------------------------------------------------------------------------------------
# C19: link_to
# ---------------------------------------------------------------------------------------------

def gen_linkto_programs(r, n):
    progs = []
    for i in range(n):
        ids = G.Ids()
        d = G.data(r, r.pick([0, 1, 7, 8, 9, 100, 16384, 16385, 40000]))
        name = f"t{i}"
        key = G.key(r, hostile=0.2)
        form = r.pick(["abs", "abs", "rel"])
        tgt = f"{form}:tgt/{name}"
        fl = r.pick("sa")
        ops = [f"put tgt/{name} {hx(d)}"]
        tags = {"data": d, "key": key, "form": form}
        mode = r.pick(["oneshot", "oneshot_hash", "partial", "opts_bad_size", "opts_bad_sri", "preexisting", "partial_cd",
                       "opts_small_size", "relink", "relink_same", "relink_self", "two_cwds"])
        if mode == "opts_small_size" and len(d) == 0:
            mode = "opts_bad_size"
        if mode == "relink":
            # the same bytes were linked before from another file, which has since been removed, rewritten, or
            # left alone: the address holds a dangling / stale / good link.  Linking the (intact) new target must
            # succeed and the key must read back its bytes (F18: the old link used to be trusted)
            ops.append(f"put tgt/gone{i} {hx(d)}")
            ops.append(f"link_to {r.pick('sa')} c0 {hx(b'first-' + key.decode('utf-8', 'ignore')[:6].encode())} abs:tgt/gone{i}")
            how = r.pick(["del", "rewrite", "rewrite", "keep"])
            if how == "del":
                ops.append(f"del tgt/gone{i}")
            elif how == "rewrite":
                ops.append(f"put tgt/gone{i} {hx(d + b' rewritten by its owner')}")
            tags["relink"] = how
        if mode == "two_cwds":
            # the process links a relative path from one working directory and then - this program's link - the same
            # relative NAME from another one, where it is a different file: each link means the file named at ITS time
            ops.append("mkdir w1")
            ops.append(f"put w1/{name} {hx(b'the file of that name in the first directory')}")
            ops.append(f"link_to_cd {r.pick('sa')} c0 {hx(b'first-' + key.decode('utf-8', 'ignore')[:6].encode())} {name} w1")
            ops.append(f"link_to_cd {fl} c0 {hx(key)} {name} tgt")
            tags["form"] = "rel"
        if mode in ("relink_same", "relink_self"):
            # the file is linked already (under another key): linking it again - by its own path, or through the
            # cache's symlink for it - must answer ok, leave the address leading to the file (not to itself) and
            # write nothing it does not have to
            ops.append(f"link_to {r.pick('sa')} c0 {hx(b'first-' + key.decode('utf-8', 'ignore')[:6].encode())} abs:tgt/{name}")
            if mode == "relink_self":
                tgt = f"abs:c0/{L.content_rel(L.sri_of('sha256', d))}"
        if mode == "partial_cd":
            # the handle is opened (cache given as an absolute path), then the process' working directory
            # changes before the commit: a relative target still means the file named at open time
            ops.append("mkdir elsewhere")
            if r.chance(0.5):
                ops.append(f"put elsewhere/tgt/{name} {hx(d + b' (a different file of the same relative name)')}")
            l = ids.new("L")
            if r.chance(0.5):
                ops.append(f"lopen_auto_abs {fl} c0 {l} {hx(key)} {tgt}")
            else:
                ops.append(f"lopen_abs {fl} c0 {l} {hx(key)} {tgt} algo=sha256 size=- sri=-")
            for b in r.pick([[1], [3, 5], []]):
                ops.append(f"lread {l} {b}")
            ops.append(f"lcommit_cd {l} elsewhere")
        if mode == "preexisting":
            ops.append(w_oneshot("s", "sha256", b"regular", d))
        if mode in ("oneshot", "preexisting"):
            ops.append(f"link_to {fl} c0 {hx(key)} {tgt}")
        elif mode == "oneshot_hash":
            ops.append(f"link_to_hash {fl} c0 {tgt}")
        elif mode == "partial":
            l = ids.new("L")
            ops.append(f"lopen_auto {fl} c0 {l} {hx(key)} {tgt}")
            for b in r.pick([[1], [8], [3, 5], [16384], [100000], []]):
                ops.append(f"lread {l} {b}")
            ops.append(f"lcommit {l}")
        elif mode == "opts_bad_size":
            l = ids.new("L")
            kk = hx(key) if r.chance(0.6) else "-"
            ops.append(f"lopen {fl} c0 {l} {kk} {tgt} algo=sha256 size={len(d) + 1} sri=-")
            ops.append(f"lcommit {l}")
        elif mode == "opts_small_size":
            # a declared size SMALLER than the target, and exactly that many bytes read through the handle
            l = ids.new("L")
            kk = hx(key) if r.chance(0.6) else "-"
            n_decl = r.randrange(0, len(d))
            ops.append(f"lopen {fl} c0 {l} {kk} {tgt} algo=sha256 size={n_decl} sri=-")
            if n_decl > 0 and r.chance(0.8):
                ops.append(f"lread {l} {n_decl}")
            ops.append(f"lcommit {l}")
        elif mode in ("relink", "relink_same", "relink_self"):
            ops.append(f"link_to {fl} c0 {hx(key)} {tgt}")
        elif mode == "opts_bad_sri":
            l = ids.new("L")
            kk = hx(key) if r.chance(0.6) else "-"
            ops.append(f"lopen {fl} c0 {l} {kk} {tgt} algo=sha256 size=- sri={hx(L.sri_of('sha256', d + b'x').encode())}")
            ops.append(f"lcommit {l}")
        link = len(ops) - 1
        st = sri_tok("sha256", d)
        obs = len(ops)
        for f2 in "sa":
            ops.append(f"read {f2} c0 {hx(key)}")
            ops.append(f"read_hash {f2} c0 {st}")
            ops.append(f"metadata {f2} c0 {hx(key)}")
        ops.append(f"stat c0/{L.content_rel(L.sri_of('sha256', d))}")
        ops.append(f"cat tgt/{name}")
        # extracting the linked entry ONTO its own target (the destination is the file the cache links to)
        # must never modify the target
        onto = mode in ("oneshot", "partial") and r.chance(0.5)
        if onto:
            ops.append(f"{r.pick(['copy', 'copy_unchecked', 'copy_hash'])} {r.pick('sa')} c0 "
                       f"{hx(key) if True else ''} tgt/{name}".replace("copy_hash " + "s c0 " + hx(key), "copy_hash s c0 " + st).replace("copy_hash " + "a c0 " + hx(key), "copy_hash a c0 " + st))
            ops.append(f"cat tgt/{name}")
            tags["onto_target"] = len(ops) - 1
        # later change of the target
        change = r.pick(["modify", "remove", "none"])
        if change == "modify":
            ops.append(f"put tgt/{name} {hx(d + b'changed')}")
        elif change == "remove":
            ops.append(f"del tgt/{name}")
        late = len(ops)
        for f2 in "sa":
            ops.append(f"read {f2} c0 {hx(key)}")
            ops.append(f"read_hash {f2} c0 {st}")
        # extraction of the linked entry after the change: whatever the entry point (checked / unchecked copy and
        # hard link), success must leave the LINKED bytes at the destination; a vanished target is missing content
        ext = []
        if mode in ("oneshot", "partial", "relink", "oneshot_hash") and r.chance(0.7):
            for xi, xop in enumerate(r.sample(["hard_link_hash_unchecked s", "hard_link_hash s", "copy_hash_unchecked s",
                                               "copy_hash a", "hard_link_hash_unchecked s"], 2)):
                ops.append(f"{xop} c0 {st} out/x{i}_{xi}")
                ops.append(f"cat out/x{i}_{xi}")
                ops.append(f"stat out/x{i}_{xi}")
                ext.append(len(ops) - 3)
        tags["ext"] = ext
        tags.update(mode=mode, link=link, obs=obs, late=late, change=change)
        progs.append(Program(f"link{i}", ops, tags=tags))
    return progs


def gen_link_reader_programs():
    """The caller READS the target through the linker handle before committing, the way callers read: `read_exact` of a
    whole 3 MiB target (several polls over one buffer on the async side), `read_to_end` into a vector that already holds
    something, a few bytes and then the rest.  The commit's integrity is the digest of the target, the recorded size
    its length, and the key reads its bytes."""
    progs = []
    big = bytes((j * 5 + j // 253) % 256 for j in range(3 << 20))
    small = b"a small link target, read to the end"
    for fl in "sa":
        for name, d, how in (("exact-3mib", big, "exact"), ("readall-prefix", small, "all"), ("read-then-all", small, "some-all"),
                             ("undeclared-readall", small, "undeclared")):
            key = b"lr-" + name.encode()
            ops = [f"put tgt/{name}.bin {hx(d)}"]
            if how == "undeclared":
                ops.append(f"lopen {fl} c0 L1 {hx(key)} abs:tgt/{name}.bin algo=sha256 size=- sri=-")
            else:
                ops.append(f"lopen_auto {fl} c0 L1 {hx(key)} abs:tgt/{name}.bin")
            exp = []
            if how == "exact":
                ops.append(f"lreadexact L1 {len(d)}"); exp.append((len(ops) - 1, d))
            elif how == "some-all":
                ops.append("lread L1 4"); exp.append((len(ops) - 1, d[:4]))
                ops.append(f"lreadall L1 {hx(d[:4])}"); exp.append((len(ops) - 1, d[4:]))
            else:
                ops.append(f"lreadall L1 {hx(b'HEADER:' + d[:9])}"); exp.append((len(ops) - 1, d))
            ops.append("lcommit L1"); ci = len(ops) - 1
            ops += [f"metadata s c0 {hx(key)}", f"read {fl} c0 {hx(key)}", f"cat tgt/{name}.bin"]
            progs.append(Program(f"linkread-{name}-{fl}", ops, model=(d is not big),
                                 tags={"linkread": ci, "reads": exp, "data": d, "both_binaries": True, "variety": ("linkread", name, fl)}))
    return progs


def mon_link_reader(rr):
    out = []
    t = rr.prog.tags
    ci, d = t["linkread"], t["data"]
    if len(rr.impl) < len(rr.prog.ops):
        return out
    sig = {"mode": "linkread", "how": t["variety"][1]}
    for i, want in t["reads"]:
        res = toks(rr.impl[i])
        if res[0] != "ok" or unhx(res[1] if len(res) > 1 else "x") != want:
            out.append(Failure("wrong_bytes", i, f"`{rr.prog.ops[i][:30]}` through the linker -> {' '.join(res[:2])[:40]} instead of {len(want)} bytes", sig=sig))
    res = toks(rr.impl[ci])
    if res[0] != "ok":
        return out + [Failure("link_failed", ci, f"commit of a linker whose target was read through it -> {' '.join(res[:4])[:60]}", sig=sig)]
    if unhx(res[1]).decode(errors="replace") != L.sri_of("sha256", d):
        out.append(Failure("wrong_integrity", ci, "the commit's integrity is not the digest of the target", sig=sig))
    m = meta_of_line(rr.impl[ci + 1])
    if not isinstance(m, dict) or m.get("size") != len(d):
        out.append(Failure("wrong_size_recorded", ci + 1, f"the entry records size {m.get('size') if isinstance(m, dict) else m}, the target has {len(d)} bytes", sig=sig))
    rd = toks(rr.impl[ci + 2])
    if rd[0] != "ok" or unhx(rd[1]) != d:
        out.append(Failure("link_unreadable", ci + 2, f"read of the key after the commit -> {' '.join(rd[:3])[:50]}", sig=sig))
    return out


def gen_link_vs_written_programs():
    """Links next to WRITTEN content and next to other links of the same bytes - also when the link commit is REJECTED
    (the linker makes its symlink before the size / integrity checks): a regular content file is never turned into a
    link (its key survives the linked file's removal); a commit whose target leads INTO the address leaves the address
    alone (no link onto itself); of two hard-linked paths linked under two keys the second stays readable when the
    first path is removed."""
    progs = []
    d = b"bytes that are written AND linked"
    st = sri_tok("sha256", d)
    cp = "c0/" + L.content_rel(L.sri_of("sha256", d))
    def decl(kind):
        return {"ok": "algo=sha256 size=- sri=-", "size": f"algo=sha256 size={len(d) + 1} sri=-",
                "sri": f"algo=sha256 size=- sri={hx(L.sri_of('sha256', d + b'?').encode())}"}[kind]
    for fl in "sa":
        for kind in ("ok", "size", "sri"):
            # (a) written first, then linked (perhaps rejected), then the linked file goes away
            ops = [w_oneshot(fl, "sha256", b"written", d), f"put tgt/same.bin {hx(d)}",
                   f"lopen {fl} c0 L1 {hx(b'linked')} abs:tgt/same.bin {decl(kind)}", "lcommit L1"]; ci = len(ops) - 1
            ops += [f"stat {cp}", "del tgt/same.bin", f"read {fl} c0 {hx(b'written')}", f"read_hash {'a' if fl == 's' else 's'} c0 {st}"]
            progs.append(Program(f"linkvs-written-{kind}-{fl}", ops,
                                 tags={"linkvs": ci, "kind": kind, "data": d, "expect_stat": "file", "reads": [ci + 3, ci + 4],
                                       "variety": ("linkvs", "written", kind, fl)}))
            # (b) linked, then a commit whose target is the cache's own link for those bytes
            ops = [f"put tgt/orig.bin {hx(d)}", f"link_to {fl} c0 {hx(b'first')} abs:tgt/orig.bin",
                   f"lopen {fl} c0 L1 {hx(b'second')} abs:{cp} {decl(kind)}", "lcommit L1"]; ci = len(ops) - 1
            ops += [f"stat {cp}", "cat tgt/orig.bin", f"read {fl} c0 {hx(b'first')}", f"read_hash {'a' if fl == 's' else 's'} c0 {st}"]
            progs.append(Program(f"linkvs-into-address-{kind}-{fl}", ops,
                                 tags={"linkvs": ci, "kind": kind, "data": d, "expect_stat": "symlink", "reads": [ci + 3, ci + 4],
                                       "variety": ("linkvs", "into", kind, fl)}))
        # (c) two names of one file, linked under two keys; the first name is removed
        ops = [f"put a/file.bin {hx(d)}", "hardlink a/file.bin b/file.bin", f"link_to {fl} c0 {hx(b'k-a')} abs:a/file.bin",
               f"link_to {fl} c0 {hx(b'k-b')} abs:b/file.bin"]; ci = len(ops) - 1
        ops += [f"stat {cp}", "del a/file.bin", f"read {fl} c0 {hx(b'k-b')}", f"read_hash {'a' if fl == 's' else 's'} c0 {st}"]
        progs.append(Program(f"linkvs-twins-{fl}", ops, tags={"linkvs": ci, "kind": "ok", "data": d, "expect_stat": "symlink",
                                                              "reads": [ci + 3, ci + 4], "variety": ("linkvs", "twins", fl)}))
    return progs


def mon_link_vs_written(rr):
    out = []
    t = rr.prog.tags
    ci, d = t["linkvs"], t["data"]
    if len(rr.impl) < len(rr.prog.ops):
        return out
    sig = {"mode": "linkvs", "shape": t["variety"][1], "decl": t["kind"]}
    res = toks(rr.impl[ci])
    want = {"ok": ["ok"], "size": ["err", "size"], "sri": ["err", "integrity"]}[t["kind"]]
    if res[:len(want)] != want:
        out.append(Failure("wrong_commit_result", ci, f"link commit with a {t['kind']} declaration -> {' '.join(res[:3])[:40]}", sig=sig))
    if toks(rr.impl[ci + 1])[:2] != ["ok", t["expect_stat"]]:
        out.append(Failure("address_changed_kind", ci + 1, f"after the link commit the content address is {norm(rr.impl[ci + 1])[:30]}, "
                           f"expected a {t['expect_stat']}", sig=sig))
    for j in t["reads"]:
        r_ = toks(rr.impl[j])
        if r_[0] != "ok" or unhx(r_[1]) != d:
            out.append(Failure("stale_or_missing", j, f"`{rr.prog.ops[j][:34]}` after `{rr.prog.ops[ci + 2][:24]}` -> {' '.join(r_[:3])[:50]}", sig=sig))
            break
    return out


def gen_linked_removal_programs():
    """What a removal does to a LINKED entry (the content path is a symlink to the caller's file) and to an inode shared
    with an extraction: `remove_hash`, `remove_fully`, `remove` take away the cache's own names - the link, the record -
    and never touch what the link leads to; an extracted hard link keeps its bytes and its permission bits."""
    progs = []
    d = b"the caller's own file, linked into the cache"
    st = sri_tok("sha256", d)
    for fl in "sa":
        for how in ("remove_hash", "remove_fully", "remove", "remove_hash_twice"):
            key = b"linked-" + how.encode()
            ops = [f"put tgt/keep.bin {hx(d)}", f"link_to {fl} c0 {hx(key)} abs:tgt/keep.bin", f"read {fl} c0 {hx(key)}"]
            if how.startswith("remove_hash"):
                ops.append(f"remove_hash {fl} c0 {st}")
                if how.endswith("twice"):
                    ops.append(f"remove_hash {'a' if fl == 's' else 's'} c0 {st}")
            else:
                ops.append(f"{how} {fl} c0 {hx(key)}")
            chk = len(ops)
            ops += ["cat tgt/keep.bin", "stat tgt/keep.bin", f"exists {fl} c0 {st}", f"metadata {fl} c0 {hx(key)}"]
            progs.append(Program(f"linkrm-{how}-{fl}", ops, tags={"linkrm": chk, "how": how, "data": d, "variety": ("linkrm", how, fl)}))
        # an extraction shares its inode with the stored copy: write-protect it, then remove the entry from the cache
        for how in ("remove_hash", "remove_fully"):
            key = b"shared-inode"
            ops = [w_oneshot(fl, "sha256", key, d), f"hard_link_hash_unchecked s c0 {st} out/extracted", "chmod out/extracted 444",
                   (f"remove_hash {fl} c0 {st}" if how == "remove_hash" else f"remove_fully {fl} c0 {hx(key)}")]
            chk = len(ops)
            ops += ["cat out/extracted", "mode out/extracted"]
            progs.append(Program(f"inode-{how}-{fl}", ops, model=False,
                                 tags={"linkrm": chk, "how": "inode-" + how, "data": d, "variety": ("inode", how, fl)}))
    return progs


def mon_linked_removal(rr):
    out = []
    t = rr.prog.tags
    c, d = t["linkrm"], t["data"]
    if len(rr.impl) < len(rr.prog.ops):
        return out
    sig = {"how": t["how"]}
    cat = toks(rr.impl[c])
    if cat[0] != "ok" or unhx(cat[1]) != d:
        out.append(Failure("target_touched", c, f"after `{rr.prog.ops[c - 1][:40]}` the file outside the cache (link target / extracted hard link) "
                           f"-> {' '.join(cat[:3])[:50]}", sig=sig))
    if t["how"].startswith("inode-"):
        m = toks(rr.impl[c + 1])
        if m[:2] != ["ok", "444"]:
            out.append(Failure("target_touched", c + 1, f"after `{rr.prog.ops[c - 1][:40]}` the permission bits of the extracted file are "
                               f"{' '.join(m[:2])}, were 444", sig=sig))
        return out
    if toks(rr.impl[c + 1])[:3] != ["ok", "file", str(len(d))]:
        out.append(Failure("target_touched", c + 1, f"the link target is no longer the regular file it was: {norm(rr.impl[c + 1])[:40]}", sig=sig))
    if t["how"].startswith("remove_hash") and norm(rr.impl[c + 2]) != "ok false":
        out.append(Failure("stale_or_missing", c + 2, f"after remove_hash of a linked entry `exists` answers {norm(rr.impl[c + 2])[:30]}", sig=sig))
    if t["how"] in ("remove_fully", "remove") and norm(rr.impl[c + 3]) != "ok none":
        out.append(Failure("stale_or_missing", c + 3, f"after {t['how']} of a linked entry the key still answers {norm(rr.impl[c + 3])[:40]}", sig=sig))
    return out


def gen_symlink_chain_programs():
    """The content path is a link to a file that is itself a RELATIVE link (a `current -> real.bin` indirection, a linked
    `libfoo.so -> libfoo.so.1`): every extraction hands out the bytes that were verified - the file at the end of the
    chain - also when the destination directory holds a decoy of the inner link's name."""
    progs = []
    d, decoy = b"the file at the end of the chain", b"decoy: a file of the inner link's name next to the destination"
    st = sri_tok("sha256", d)
    cp = "c0/" + L.content_rel(L.sri_of("sha256", d))
    for op in ("hard_link_hash s", "hard_link_hash_unchecked s", "hard_link s", "hard_link a", "copy_hash s", "copy_hash a", "copy s"):
        for with_decoy in (True, False):
            key = b"chained"
            ops = [w_oneshot("s", "sha256", key, d), f"put tgt/real.bin {hx(d)}", "symlink tgt/current rel:real.bin",
                   f"symlink {cp} abs:tgt/current"]
            if with_decoy:
                ops.append(f"put out/real.bin {hx(decoy)}")
            byk = op.split(" ")[0] in ("hard_link", "copy")
            ops.append(f"{op} c0 {hx(key) if byk else st} out/dest"); xi = len(ops) - 1
            ops += ["cat out/dest", f"read s c0 {hx(key)}", "cat tgt/real.bin"]
            progs.append(Program(f"chain-{op.replace(' ', '-')}-{int(with_decoy)}", ops,
                                 tags={"chain": xi, "data": d, "variety": ("chain", op, with_decoy)}))
    return progs


def mon_symlink_chain(rr):
    out = []
    t = rr.prog.tags
    xi, d = t["chain"], t["data"]
    if len(rr.impl) < len(rr.prog.ops):
        return out
    sig = {"op": rr.prog.ops[xi].split(" ")[0], "mode": "chain"}
    res = toks(rr.impl[xi])
    if res[0] == "ok":
        cat = toks(rr.impl[xi + 1])
        if cat[0] != "ok" or unhx(cat[1]) != d:
            out.append(Failure("wrong_bytes", xi, f"{sig['op']} of an entry behind a chain of links succeeded but the destination "
                               f"-> {' '.join(cat[:2])[:40]}", sig=sig))
    rd = toks(rr.impl[xi + 2])
    if rd[0] != "ok" or unhx(rd[1]) != d:
        out.append(Failure("stale_or_missing", xi + 2, "the entry behind the chain no longer reads", sig=sig))
    src = toks(rr.impl[xi + 3])
    if src[0] != "ok" or unhx(src[1]) != d:
        out.append(Failure("target_touched", xi + 3, "the file at the end of the chain changed", sig=sig))
    return out


def gen_link_dotdot_programs():
    """Targets whose path goes THROUGH a symlinked directory and back up (`short/../file` with `short` a link to a
    directory elsewhere): the file the kernel opens - the one that is hashed - is `<where short leads>/../file`, not the
    lexically folded `file`.  Whatever link text is written, the key and the address must read the bytes of the file
    that was linked.  (Implementation only: the model resolves links at the last path component.)"""
    progs = []
    real, decoy = b"the file behind the symlinked directory", b"a decoy at the lexically folded path"
    for fl in "sa":
        for form in ("abs", "rel"):
            for with_decoy in (True, False):
                key = b"dotdot-" + form.encode()
                ops = ["mkdir data/deep/nest", f"put data/deep/payload.bin {hx(real)}", "symlink short abs:data/deep/nest"]
                if with_decoy:
                    ops.append(f"put payload.bin {hx(decoy)}")
                ops.append(f"link_to {fl} c0 {hx(key)} {form}:short/../payload.bin"); li = len(ops) - 1
                for f2 in "sa":
                    ops.append(f"read {f2} c0 {hx(key)}")
                    ops.append(f"read_hash {f2} c0 {sri_tok('sha256', real)}")
                ops.append("cat data/deep/payload.bin")
                progs.append(Program(f"dotdot-{fl}-{form}-{int(with_decoy)}", ops, model=False,
                                     tags={"dotdot": li, "data": real, "variety": ("dotdot", fl, form, with_decoy)}))
    return progs


def mon_link_dotdot(rr):
    out = []
    li, d = rr.prog.tags["dotdot"], rr.prog.tags["data"]
    if len(rr.impl) < len(rr.prog.ops):
        return out
    sig = {"mode": "dotdot", "form": rr.prog.tags["variety"][2]}
    res = toks(rr.impl[li])
    if res[0] != "ok":
        return [Failure("link_failed", li, f"link_to of an existing file named through a symlinked directory -> {' '.join(res[:3])}", sig=sig)]
    if unhx(res[1]).decode(errors="replace") != L.sri_of("sha256", d):
        out.append(Failure("wrong_integrity", li, "link_to answers an integrity that is not the digest of the linked file", sig=sig))
    for j in range(li + 1, li + 5):
        r_ = toks(rr.impl[j])
        if r_[0] != "ok" or unhx(r_[1]) != d:
            out.append(Failure("link_unreadable", j, f"`{rr.prog.ops[j][:30]}` after linking `short/../payload.bin` (short -> a directory "
                               f"elsewhere) -> {' '.join(r_[:3])[:60]}", sig=sig))
            break
    c = toks(rr.impl[-1])
    if c[0] != "ok" or unhx(c[1]) != d:
        out.append(Failure("target_modified", len(rr.impl) - 1, "the linked file changed", sig=sig))
    return out


def mon_linkto(rr):
    out = []
    t = rr.prog.tags
    d = t["data"]
    li = t["link"]
    if li >= len(rr.impl):
        return out
    res = toks(rr.impl[li])
    sig = {"form": t["form"], "mode": t["mode"], "op": rr.prog.ops[li].split(" ")[0]}
    if t["mode"] == "relink":
        sig["relink"] = t["relink"]
    keyed = t["mode"] != "oneshot_hash"
    if t["mode"] in ("opts_bad_size", "opts_bad_sri", "opts_small_size"):
        want = ["err", "integrity"] if t["mode"] == "opts_bad_sri" else ["err", "size"]
        if res[:2] != want:
            out.append(Failure("link_opts_not_enforced", li, f"link with wrong declaration -> {' '.join(res[:3])}", sig=sig))
        m = meta_of_line(rr.impl[t["obs"] + 2])
        if m is not None:
            out.append(Failure("rejected_link_mapped", t["obs"] + 2, "rejected link is visible under the key", sig=sig))
        return out
    if res[0] != "ok":
        out.append(Failure("link_failed", li, f"link_to of an existing file -> {' '.join(res[:3])}", sig=sig))
        return out
    if unhx(res[1]).decode() != L.sri_of("sha256", d):
        out.append(Failure("wrong_address", li, "link_to returned an integrity that is not the digest of the target", sig=sig))
    o = t["obs"]
    for k in range(2):
        rk, rh, mk = o + 3 * k, o + 3 * k + 1, o + 3 * k + 2
        if keyed:
            r1 = toks(rr.impl[rk])
            if r1[0] != "ok" or unhx(r1[1]) != d:
                out.append(Failure("link_unreadable", rk, f"read by key after link_to ({t['form']} target) -> {' '.join(r1[:3])[:50]}", sig=sig))
            m = meta_of_line(rr.impl[mk])
            if m in (None, "ERR") or m["size"] != len(d):
                out.append(Failure("link_size", mk, "linked entry does not record the target's size", sig=sig))
        r2 = toks(rr.impl[rh])
        if r2[0] != "ok" or unhx(r2[1]) != d:
            out.append(Failure("link_unreadable", rh, f"read by address after link_to ({t['form']} target) -> {' '.join(r2[:3])[:50]}", sig=sig))
    st = norm(rr.impl[o + 6])
    if t["mode"] != "preexisting" and st != "ok symlink":
        out.append(Failure("link_copied", o + 6, f"content node is not a symlink: {st}", sig=sig))
    cat = toks(rr.impl[o + 7])
    if cat[0] != "ok" or unhx(cat[1]) != d:
        out.append(Failure("target_modified", o + 7, "target file changed by link_to", sig=sig))
    ot = t.get("onto_target")
    if ot is not None and ot < len(rr.impl):
        c2 = toks(rr.impl[ot])
        if c2[0] != "ok" or unhx(c2[1]) != d:
            got = "missing" if c2[0] != "ok" else f"{len(unhx(c2[1]))} bytes"
            out.append(Failure("target_modified", ot, f"{rr.prog.ops[ot - 1].split(' ')[0]} of the linked entry onto its own target left the target {got}", sig=sig))
    for j in t.get("ext", []):
        if j + 2 >= len(rr.impl):
            break
        xr, xc, xs = toks(rr.impl[j]), toks(rr.impl[j + 1]), norm(rr.impl[j + 2])
        xsig = dict(sig, op=rr.prog.ops[j].split(" ")[0], change=t["change"])
        unchecked = "unchecked" in rr.prog.ops[j].split(" ")[0]
        if unchecked and t["change"] == "modify":
            continue          # an unchecked extraction hands out whatever the (changed) target holds now
        if xr[0] == "ok":
            if xc[0] != "ok" or unhx(xc[1]) != d:
                got = "nothing readable" if xc[0] != "ok" else "other bytes"
                out.append(Failure("extraction_wrong", j, f"{rr.prog.ops[j].split(' ')[0]} of a linked entry (target: {t['change']}) "
                                   f"answered ok but the destination holds {got} ({xs})", sig=xsig))
        elif xs != "ok absent":
            out.append(Failure("extraction_left_behind", j, f"{rr.prog.ops[j].split(' ')[0]} of a linked entry failed "
                               f"({' '.join(xr[:3])}) but left {xs} at the destination", sig=xsig))
    if t["change"] != "none" and t["mode"] != "preexisting":
        for j in range(t["late"], min(len(rr.impl), t["late"] + 4)):
            rj = toks(rr.impl[j])
            if rj[0] == "ok" and unhx(rj[1]) != d:
                out.append(Failure("wrong_bytes", j, "read after target change returned different bytes", sig=sig))
    return out


# ---------------------------------------------------------------------------------------------
# C15: confinement, key opacity, read-only purity (API-level; the strace leg adds syscalls)
# ---------------------------------------------------------------------------------------------

READONLY = ("read", "read_hash", "metadata", "exists", "list", "ropen", "ropen_hash", "rread", "rreadall", "rcheck", "rdrop",
            "index_find")


def gen_confine_programs(r, n):
    progs = []
    for i in range(n):
        ids = G.Ids()
        keys = r.sample(G.KEYS_HOSTILE, 4)
        ops = ["put sentinel/a x73656e74696e656c", "put tgt/keep x6b656570", "dump out", "dump tgt", "dump sentinel"]
        vals = {}
        algos = {}
        for ki, k in enumerate(keys):
            d = b"value of " + k[:20] + b"#%d" % ki
            vals[k] = d
            w, algos[k] = random_write(r, ids, k, d)
            ops += w
        marks = []
        # sometimes one entry's content is damaged first (torn, flipped, replaced, gone): the read-only
        # calls then fail for it — and must still change nothing (no "self-healing" deletions)
        damaged = None
        if r.chance(0.5):
            damaged = keys[3]
            cp = content_path(algos[damaged], vals[damaged])
            dv = vals[damaged]
            ops.append(r.pick([f"truncate {cp} {r.randrange(len(dv))}",
                               f"put {cp} {hx(bytes([dv[0] ^ 1]) + dv[1:])}",
                               f"put {cp} {hx(dv + b'extra')}",
                               f"del {cp}"]))
        ops.append("dump c0"); 
        for k in keys:
            for fl in "sa":
                ops.append(f"read {fl} c0 {hx(k)}"); marks.append((len(ops) - 1, k))
                ops.append(f"metadata {fl} c0 {hx(k)}")
            rid = ids.new("R")
            ops += [f"ropen {r.pick('sa')} c0 {rid} {hx(k)}", f"rreadall {rid}", f"rcheck {rid}"]
            ops.append(f"exists s c0 {sri_tok('sha256', vals[k])}")
        ops.append("list c0")
        ops.append("dump c0"); ro_end = len(ops) - 1
        k = keys[0]
        ops.append(f"copy {r.pick('sa')} c0 {hx(k)} out/dest1")
        ops.append(f"remove {r.pick('sa')} c0 {hx(keys[1])}")
        ops.append(f"remove_fully {r.pick('sa')} c0 {hx(keys[2])}")
        ops += ["dump out", "dump tgt", "dump sentinel"]
        progs.append(Program(f"confine{i}", ops, tags={"keys": keys, "vals": vals, "marks": marks, "ro_end": ro_end,
                                                       "damaged": damaged, "variety": ("damaged", damaged is not None)}))
    return progs


def mon_confine(rr):
    out = []
    t = rr.prog.tags
    n = len(rr.impl)
    if n < len(rr.prog.ops):
        return out
    # everything outside c0 is as before, except the explicit destination
    first = {"out": norm(rr.impl[2]), "tgt": norm(rr.impl[3]), "sentinel": norm(rr.impl[4])}
    last = {"out": norm(rr.impl[-3]), "tgt": norm(rr.impl[-2]), "sentinel": norm(rr.impl[-1])}
    if first["tgt"] != last["tgt"] or first["sentinel"] != last["sentinel"]:
        out.append(Failure("escaped_cache_dir", n - 1, "a directory outside the cache changed", sig={"op": "dump"}))
    lo = list_items(rr.impl[-3]) or []
    if [x.split("=")[0] for x in lo] not in ([], ["f:out/dest1"]):
        out.append(Failure("escaped_cache_dir", n - 3, f"unexpected files next to the destination: {lo[:3]}", sig={"op": "dump"}))
    # read-only calls changed nothing
    dumps = [i for i, o in enumerate(rr.prog.ops) if o == "dump c0"]
    if len(dumps) >= 2 and norm(rr.impl[dumps[0]]) != norm(rr.impl[dumps[1]]):
        out.append(Failure("readonly_mutated", dumps[1], "read-only calls changed the cache directory", sig={"op": "dump"}))
    # keys are opaque and independent: each key reads back its own value
    for i, k in t["marks"]:
        res = toks(rr.impl[i])
        if k == t.get("damaged"):
            continue          # its content was damaged on purpose: what reads of it answer is C01's business
        if res[0] != "ok" or unhx(res[1]) != t["vals"][k]:
            out.append(Failure("keys_not_independent", i, f"key {k[:20]!r} does not read back its own value", sig={"op": "read"}))
    return out


# ---------------------------------------------------------------------------------------------
# C12: the same program through the sync and the async API of each runtime
# ---------------------------------------------------------------------------------------------

SYNC_ONLY = ("hard_link_unchecked", "hard_link_hash", "hard_link_hash_unchecked", "reflink_hash_unchecked")
HAS_FLAVOUR = ("write", "write_hash", "wopen", "wcreate", "remove_opts", "read", "read_hash", "ropen", "ropen_hash", "copy", "copy_unchecked",
               "copy_hash", "copy_hash_unchecked", "hard_link", "reflink", "reflink_unchecked", "reflink_hash", "metadata",
               "exists", "remove", "remove_hash", "remove_fully", "clear", "index_insert", "index_find", "index_delete",
               "link_to", "link_to_hash", "lopen", "lopen_auto")


def with_flavour(ops, fl):
    out = []
    for o in ops:
        t = o.split(" ")
        if t[0] in HAS_FLAVOUR:
            t[1] = fl
        out.append(" ".join(t))
    return out


def canon_for_flavour_compare(op, line):
    import re
    s = norm(line)
    s = re.sub(r" @now=\d+", " @now=T", s)
    if op.split(" ")[0] in ("write", "wcommit", "remove", "index_insert", "index_delete", "link_to", "lcommit", "metadata",
                            "index_find", "list"):
        s = re.sub(r"time=\d{13}\b", "time=T", s)
    return s


# ---------------------------------------------------------------------------------------------
# C20: hostile on-disk states (foreign records, wrong node kinds)
# ---------------------------------------------------------------------------------------------

FOREIGN_INTEGRITIES = {
    "unparsable_algo": "md5-abc",
    "no_dash": "sha256",
    "empty": "",
    "bad_base64": "sha256-!!!",
    "empty_digest": "sha256-",
    "one_byte_digest": "sha256-YQ==",
    "unpadded": "sha256-abc",
    "ok_but_missing": "sha1-deadbeef",
    "whitespace_only": "   ",
}


def gen_hostile_state_programs(r, n):
    progs = []
    kinds = list(FOREIGN_INTEGRITIES.items())
    for i in range(n):
        name, integ = kinds[i % len(kinds)]
        k = f"fk{i}"
        fr = L.frame(L.record_json(k, integ, 1, 0, None, None))
        ops = [f"put c0/{L.bucket_rel(k.encode())} {hx(fr)}"]
        kb = hx(k.encode())
        for fi, fl in enumerate("sa"):
            ops += [f"metadata {fl} c0 {kb}", f"read {fl} c0 {kb}", f"copy {fl} c0 {kb} out/d{fl}{i}",
                    f"hard_link {fl} c0 {kb} out/h{fl}{i}", f"ropen {fl} c0 R{2 * i + fi + 1} {kb}"]
        ops += [f"remove_fully s c0 {kb}", "list c0", w_oneshot("s", "sha256", k.encode(), b"v"), f"read a c0 {kb}"]
        progs.append(Program(f"foreign-{name}", ops, tags={"foreign_integrity": name, "variety": name}))
    # a valid entry followed by a foreign record for the SAME key (sync and async lookups must agree;
    # `find` keeps the earlier entry when the later integrity does not parse)
    for i, (name, integ) in enumerate(kinds):
        k = f"vk{i}".encode()
        d = b"valid " + name.encode()
        fr = L.frame(L.record_json(k.decode(), integ, 99, 0, None, None))
        ops = [w_oneshot("s", "sha256", k, d), f"append c0/{L.bucket_rel(k)} {hx(fr)}"]
        for fi, fl in enumerate("sa"):
            ops += [f"metadata {fl} c0 {hx(k)}", f"read {fl} c0 {hx(k)}", f"copy {fl} c0 {hx(k)} out/v{fl}{i}",
                    f"hard_link {fl} c0 {hx(k)} out/w{fl}{i}"]
        ops += ["list c0", w_oneshot("a", "sha256", k, d + b"2"), f"read s c0 {hx(k)}"]
        progs.append(Program(f"foreign-after-valid-{name}", ops, tags={"foreign_integrity": name, "variety": ("after", name)}))
    # an index record whose size field is absurd (nothing ties it to the content): whole-buffer reads,
    # streamed reads and extractions of that key must not try to honour it
    for j, huge in enumerate([2**63 - 1, 2**63, 2**64 - 1, 2**60, 2**40]):
        k = f"huge{j}".encode()
        d = b"small content %d" % j
        ops = [f"write_hash s c0 sha256 {hx(d)}",
               f"index_insert {'sa'[j % 2]} c0 {hx(k)} sri={sri_tok('sha256', d)} time=1 size={huge} meta=- raw=-"]
        for fi, fl in enumerate("sa"):
            ops += [f"metadata {fl} c0 {hx(k)}", f"read {fl} c0 {hx(k)}", f"copy {fl} c0 {hx(k)} out/hz{fl}{j}",
                    f"ropen {fl} c0 R{2 * j + fi + 1} {hx(k)}", f"rreadall R{2 * j + fi + 1}", f"rcheck R{2 * j + fi + 1}"]
        ops += ["list c0"]
        progs.append(Program(f"huge-size-{huge}", ops, tags={"variety": ("huge", huge)}))
    # a writer whose temp file (or the whole temp area) disappears between its last write and the commit:
    # the commit must answer an error, not spin
    for j, (fl, how) in enumerate([(fl_, how_) for fl_ in "sa" for how_ in ("clear", "rmtree_tmp", "rmtree_cache")]):
        k = f"vanish{j}".encode()
        wid = f"W{j + 1}"
        ops = [w_oneshot("s", "sha256", b"keep", b"kept"),
               f"wopen {fl} c0 {wid} {hx(k)} algo=sha256 size=- sri=- time=- meta=- raw=-", f"wwrite {wid} {hx(b'will vanish %d' % j)}",
               {"clear": f"clear {fl} c0", "rmtree_tmp": "rmtree c0/tmp", "rmtree_cache": "rmtree c0"}[how],
               f"wcommit {wid}", f"metadata s c0 {hx(k)}", w_oneshot(fl, "sha256", k, b"afterwards"), f"read s c0 {hx(k)}"]
        progs.append(Program(f"vanish-{fl}-{how}", ops, tags={"variety": ("vanish", fl, how)}))
    # wrong node kinds where files are expected
    for j, (what, mk) in enumerate([
            ("dir_at_bucket", lambda: [f"mkdir c0/{L.bucket_rel(b'k')}"]),
            ("dir_at_content", lambda: [f"mkdir c0/{L.content_rel(L.sri_of('sha256', b'v'))}"]),
            ("file_at_index", lambda: ["put c0/index-v5 x61"]),
            ("file_at_tmp", lambda: ["put c0/tmp x61"]),
            ("file_at_content", lambda: ["put c0/content-v2 x61"]),
            ("file_in_index", lambda: ["put c0/index-v5/zz x6e6f74206120627563" , "put c0/index-v5/aa/bb x0a"]),
            ("file_top_level", lambda: [w_oneshot("s", "sha256", b"k", b"v"), "put c0/stray x61"])]):
        ops = mk()
        for fl in "sa":
            ops += [f"metadata {fl} c0 x6b", f"read {fl} c0 x6b", w_oneshot(fl, "sha256", b"k", b"v"),
                    f"read_hash {fl} c0 {sri_tok('sha256', b'v')}", f"remove {fl} c0 x6b"]
        ops += ["list c0", "clear s c0", "list c0"]
        # a regular file where a directory is expected (ENOTDIR / EEXIST details) is outside the model:
        # those programs are judged by the panic / hang monitor only
        progs.append(Program(f"hostile-{what}", ops, model=not what.startswith("file_"), tags={"variety": what}))
    return progs


def gen_size_matrix(r):
    """Every writer kind x declared-size relation x chunk shape (small, deterministic matrix):
    the shapes in which the memory-mapped writers differ from the plain ones."""
    progs = []
    n = 0
    for fl in "sa":
        for keyed in (True, False):
            for rel in ("eq", "lt", "gt"):
                for shape in ("one", "two", "straddle", "decreasing"):
                    ids = G.Ids()
                    d = r.randbytes(r.pick([10, 24, 4096 + 7]))
                    size = {"eq": len(d), "lt": len(d) - 3, "gt": len(d) + 5}[rel]
                    if shape == "one":
                        chunks = [d]
                    elif shape == "two":
                        chunks = [d[:len(d) // 2], d[len(d) // 2:]]
                    elif shape == "straddle":
                        cut = max(1, min(len(d) - 1, size - 2))
                        chunks = [d[:cut], d[cut:]]
                    else:
                        a = (2 * len(d)) // 3
                        chunks = [d[:a], d[a:a + (len(d) - a) // 2], d[a + (len(d) - a) // 2:]]
                    algo = r.pick(L.ALGOS)
                    key = f"m{n}".encode()
                    _, ops = w_stream(ids, fl, key if keyed else None, d, chunks, algo=algo, size=size)
                    commit = len(ops) - 1
                    st = sri_tok(algo, d)
                    ops += [f"read_hash s c0 {st}", f"read_hash a c0 {st}", "dump c0/content-v2", "dump c0/tmp"]
                    progs.append(Program(f"matrix{n}", ops, tags={"variety": (fl, keyed, rel, shape), "matrix": (rel, commit, algo, d)}))
                    n += 1
            # a size declared and NOTHING written, while another key holds the empty value: the rejected
            # writer's preallocated zeros must not land on the address of the empty string
            for decl in (1, 16, 4096):
                ids = G.Ids()
                algo = r.pick(L.ALGOS)
                key = f"m{n}".encode()
                pre = [w_oneshot(r.pick("sa"), algo, b"holds-empty", b"")]
                _, ops = w_stream(ids, fl, key if keyed else None, b"", [], algo=algo, size=decl)
                ops = pre + ops
                commit = len(ops) - 1
                st = sri_tok(algo, b"")
                ops += [f"read_hash s c0 {st}", f"read_hash a c0 {st}", "dump c0/content-v2", "dump c0/tmp",
                        f"read s c0 {hx(b'holds-empty')}"]
                progs.append(Program(f"matrix{n}", ops, tags={"variety": (fl, keyed, "gt-empty", decl), "matrix": ("gt", commit, algo, b""),
                                                              "holds_empty": len(ops) - 1}))
                n += 1
            # the zero boundary: a declared size of 0 is a declaration like any other - non-empty data is rejected
            # (in one chunk and in several), empty data is accepted
            for d in (b"x", b"twelve bytes", b""):
                ids = G.Ids()
                algo = r.pick(L.ALGOS)
                key = f"m{n}".encode()
                chunks = [d] if len(d) < 2 else [d[:1], d[1:]]
                _, ops = w_stream(ids, fl, key if keyed else None, d, [c for c in chunks if c], algo=algo, size=0)
                commit = len(ops) - 1
                st = sri_tok(algo, d)
                ops += [f"read_hash s c0 {st}", f"read_hash a c0 {st}", "dump c0/content-v2", "dump c0/tmp"]
                progs.append(Program(f"matrix{n}", ops, tags={"variety": (fl, keyed, "zero", len(d)),
                                                              "matrix": ("lt" if d else "eq", commit, algo, d)}))
                n += 1
            # declared sizes at and beyond the mapping threshold with far fewer bytes supplied: whatever
            # preallocation the writer did must not reach the content area
            for big in (G.MMAP, G.MMAP + 1, 3 * G.MMAP):
                ids = G.Ids()
                d = r.randbytes(r.pick([1, 1000, 70000]))
                chunks = [d] if r.chance(0.5) else [d[:len(d) // 2], d[len(d) // 2:]]
                algo = r.pick(L.ALGOS)
                key = f"m{n}".encode()
                _, ops = w_stream(ids, fl, key if keyed else None, d, [c for c in chunks if c], algo=algo, size=big)
                commit = len(ops) - 1
                st = sri_tok(algo, d)
                ops += [f"read_hash s c0 {st}", f"read_hash a c0 {st}", "dump c0/content-v2", "dump c0/tmp"]
                progs.append(Program(f"matrix{n}", ops, tags={"variety": (fl, keyed, "gt", big), "matrix": ("gt", commit, algo, d)}))
                n += 1
    return progs


def mon_size_matrix(rr):
    out = []
    if "matrix" not in rr.prog.tags:
        return out
    rel, commit, algo, d = rr.prog.tags["matrix"]
    if commit >= len(rr.impl):
        return out
    res = toks(rr.impl[commit])
    sig = writer_sig(rr, commit)
    sig["rel"] = rel
    if rel == "eq":
        if res[0] != "ok":
            out.append(Failure("good_commit_rejected", commit, f"correctly declared size, chunks {sig.get('chunks')} -> {' '.join(res[:3])}", sig=sig))
        for j in (commit + 1, commit + 2):
            rd = toks(rr.impl[j])
            if rd[0] != "ok" or unhx(rd[1]) != d:
                out.append(Failure("readback", j, f"read by address after a correctly sized write -> {' '.join(rd[:2])[:40]}", sig=sig))
    else:
        if res[:2] != ["err", "size"]:
            out.append(Failure("not_rejected", commit, f"declared size {rel} data -> {' '.join(res[:3])}", sig=sig))
        # whatever was published under the data's address must be the data (a read must not fail its check)
        for j in (commit + 1, commit + 2):
            rd = toks(rr.impl[j])
            if rd[:2] == ["err", "integrity"] or (rd[0] == "ok" and unhx(rd[1]) != d):
                out.append(Failure("partial_or_wrong_content_file", j, "the content published by a size-mismatching write does not match its address", sig=sig))
    if norm(rr.impl[commit + 4]) != "ok":
        out.append(Failure("tmp_left", commit + 4, "temp file left behind", sig=sig))
    he = rr.prog.tags.get("holds_empty")
    if he is not None and he < len(rr.impl):
        rd = toks(rr.impl[he])
        if rd[0] != "ok" or (len(rd) > 1 and unhx(rd[1]) != b""):
            out.append(Failure("rejected_commit_broke_other_key", he, f"a key holding the empty value reads {' '.join(rd[:2])[:40]} "
                               "after a rejected declared-size commit that wrote nothing", sig=sig))
    return out
