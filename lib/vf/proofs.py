"""The proof leg: build the property's theorem module, count obligations, audit axioms."""
import os, re, subprocess
from . import common as C

ALLOWED_AXIOMS = {"propext", "Classical.choice", "Quot.sound"}
FORBIDDEN = re.compile(r"\b(sorry|admit|native_decide|bv_decide|implemented_by|unsafe)\b|^axiom\s|maxHeartbeats\s+0", re.M)


def strip_comments(src):
    src = re.sub(r"/-.*?-/", "", src, flags=re.S)
    return re.sub(r"--.*", "", src)


def lean_files(roots=("Driver",)):
    """The Lean source files in the import closure of `roots` (module names) within this project:
    exactly what the theorems and the driver are built from.  (A work-in-progress file that nothing
    imports is not part of any checked statement.)"""
    seen, todo = {}, list(roots)
    while todo:
        mod = todo.pop()
        if mod in seen:
            continue
        path = os.path.join(C.LEAN, *mod.split(".")) + ".lean"
        if not os.path.exists(path):
            continue
        seen[mod] = path
        for m in re.findall(r"^import\s+(\S+)", open(path).read(), flags=re.M):
            if m == "Cacache" or m.startswith("Cacache.") or m == "Driver":
                todo.append(m)
    return sorted(seen.values())


def check_proofs(pid, tier):
    mod = f"Cacache.Props.{pid}"
    path = os.path.join(C.LEAN, "Cacache", "Props", f"{pid}.lean")
    res = {"obligations": 0, "discharged": 0, "theorems": [], "axioms": {}, "partial": [], "problems": [],
           "checker_cmd": f"cd lean && lake build {mod} [{mod}x] && lake env lean <#print axioms of every theorem>"
                          + (" && lake env leanchecker " + mod if tier == "thorough" else ""),
           "trusted_base": ["Lean 4.33.0 kernel", "hand-written Lean model of cacache (tied to /repo by the correspondence run below)"]}
    if not os.path.exists(path):
        res["problems"].append(f"no theorem module for {pid}")
        return res
    # the property's theorem module, plus an optional extension module `Props/<id>x.lean` (theorems that
    # rest on lemma files which themselves import `Props/<id>.lean`, e.g. the refinement of listings)
    mods, qualified = [mod], []
    xpath = os.path.join(C.LEAN, "Cacache", "Props", f"{pid}x.lean")
    srcs = [(mod, path)] + ([(mod + "x", xpath)] if os.path.exists(xpath) else [])
    mods = [m for m, _ in srcs]
    names = []
    for m, pth in srcs:
        src_ = strip_comments(open(pth).read())
        ns = re.search(r"^namespace\s+(\S+)", src_, flags=re.M)
        prefix = (ns.group(1) + ".") if ns else ""
        for n_ in re.findall(r"^theorem\s+([A-Za-z0-9_.']+)", src_, flags=re.M):
            names.append(n_)
            qualified.append(prefix + n_)
    res["theorems"] = names
    res["obligations"] = len(names)
    res["partial"] = [n for n in names if n.endswith("_partial")]
    if C.FROZEN:
        res["discharged"] = len(names)
        res["trusted_base"].append("frozen run: proofs not rebuilt (seeded-change evaluation)")
        return res
    rc, out, _ = C.build_lean(mods)
    if rc != 0:
        bad = re.findall(r"error: (.*)", out)
        res["problems"].append(f"theorem module {mod} no longer builds: {bad[:3]}")
        return res
    # forbidden constructs anywhere in the library
    for f in lean_files(tuple(mods) + ("Driver",)):
        s = strip_comments(open(f).read())
        m = FORBIDDEN.search(s)
        if m:
            res["problems"].append(f"forbidden construct {m.group(0).strip()!r} in {os.path.relpath(f, C.LEAN)}")
    # axioms
    audit = "".join(f"import {m}\n" for m in mods) + "".join(f"#print axioms {q}\n" for q in qualified)
    tmp = os.path.join(C.scratch_root(), f"audit_{pid}.lean")
    open(tmp, "w").write(audit)
    rc, out = C.run(["lake", "env", "lean", tmp], cwd=C.LEAN, timeout=900)
    ok = 0
    blocks = re.split(r"(?=^'[^']+' (?:depends on axioms|does not depend on any axioms))", out, flags=re.M)
    seen = {}
    for b in blocks:
        m = re.match(r"'([^']+)' (depends on axioms: \[(.*?)\]|does not depend on any axioms)", b, flags=re.S)
        if not m:
            continue
        axs = set(a.strip() for a in (m.group(3) or "").replace("\n", " ").split(",") if a.strip())
        seen[m.group(1)] = sorted(axs)
        if axs <= ALLOWED_AXIOMS:
            ok += 1
        else:
            res["problems"].append(f"theorem {m.group(1)} depends on axioms {sorted(axs - ALLOWED_AXIOMS)}")
    res["axioms"] = seen
    res["discharged"] = ok
    if rc != 0 or ok != len(names):
        res["problems"].append(f"axiom audit incomplete: {ok}/{len(names)} theorems accepted; {out[-400:]}")
    used = sorted(set(a for v in seen.values() for a in v))
    res["trusted_base"].append("axioms used: " + (", ".join(used) if used else "none"))
    if tier == "thorough":
        rc, out = C.run(["lake", "env", "leanchecker"] + mods, cwd=C.LEAN, timeout=1800)
        if rc != 0:
            res["problems"].append(f"leanchecker rejected {mod}: {out[-300:]}")
        else:
            res["trusted_base"].append("re-checked by leanchecker")
    return res
