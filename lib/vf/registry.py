"""Which generators / monitors / extra legs decide which property."""
import os
from . import common as C
from . import props as P
from . import props2 as P2
from . import gen as G
from .engine import Program, rclass, opname
from . import legs as LG

mon_generic = P.mon_no_panic


def corpus_programs(pid):
    out = []
    d = os.path.join(C.VERIF, "corpus", pid)
    if os.path.isdir(d):
        for f in sorted(os.listdir(d)):
            if f.endswith(".ops"):
                ops = open(os.path.join(d, f)).read().splitlines()
                model = not any(l.startswith("#!nomodel") for l in ops)
                out.append(Program("corpus/" + f, ops, model=model, tags={"monitor": True}))
    return out


def N(tier, quick, thorough):
    return quick if tier == "quick" else thorough


def has(rr, ops=(), classes=()):
    for o, r in zip(rr.prog.ops, rr.impl):
        if (not ops or opname(o) in ops) and (not classes or rclass(r) in classes):
            return True
    return False


REGISTRY = {}


def link_aware(base):
    """Dispatch the link-program monitors by tag, everything else to `base`."""
    def m(rr):
        t = rr.prog.tags
        if "linkvs" in t:
            return P.mon_link_vs_written(rr)
        if "linkread" in t:
            return P.mon_link_reader(rr)
        if "linkrm" in t:
            return P.mon_linked_removal(rr)
        return base(rr)
    return m


# fixed program families of props2 (added after round 9 of the seeded changes): which property runs which, and the
# monitor that judges each (a program of a family is judged by its own monitor only)
FAMILY_MONITORS = (("held", P2.mon_held_writer), ("cd", P2.mon_cd_commit), ("grow", P2.mon_grow),
                   ("bigrec", P2.mon_big_record), ("weaker", P2.mon_weaker_hash), ("emptydecl", P2.mon_empty_declaration),
                   ("dangling", P2.mon_dangling_link_removal), ("linkedbucket", P2.mon_linked_bucket),
                   ("gonecwd", P2.mon_gone_cwd_link), ("foreigndecl", P2.mon_foreign_declaration),
                   ("linksize", P2.mon_link_size), ("mixeddecl", P2.mon_mixed_declaration), ("removedkey", P2.mon_removed_key_extraction),
                   ("laws", P2.mon_laws))
FAMILIES_FOR = {
    "C01": [P2.gen_weaker_hash_programs, P2.gen_foreign_declaration_programs],
    "C02": [P2.gen_cd_commit_programs, P2.gen_grow_programs, P2.gen_held_writer_programs],
    "C04": [P2.gen_cd_commit_programs, P2.gen_held_writer_programs],
    "C05": [P2.gen_held_writer_programs, P2.gen_big_record_programs, lambda: P2.gen_law_programs(("shadow",))],
    "C07": [P2.gen_held_writer_programs],
    "C08": [P2.gen_grow_programs, P2.gen_empty_declaration_programs],
    "C03": [P2.gen_link_size_programs],
    "C09": [P2.gen_dangling_link_removal_programs, lambda: P2.gen_law_programs(("commute", "idempotent"))],
    "C10": [P2.gen_linked_bucket_programs],
    "C11": [P2.gen_big_record_programs, P2.gen_grow_programs],
    "C12": [P2.gen_held_writer_programs],
    "C14": [P2.gen_held_writer_programs, P2.gen_empty_declaration_programs],
    "C15": [P2.gen_big_record_programs, lambda: P2.gen_law_programs(("reads",))],
    "C16": [P2.gen_cd_commit_programs, P2.gen_grow_programs],
    "C17": [P2.gen_mixed_declaration_programs],
    "C18": [P2.gen_removed_key_extraction_programs],
    "C19": [P2.gen_gone_cwd_link_programs, P2.gen_link_size_programs],
    "C20": [P2.gen_big_record_programs, P2.gen_grow_programs],
}


def family_monitor(rr):
    for tag, m in FAMILY_MONITORS:
        if tag in rr.prog.tags:
            return m(rr)
    return []


def _not_family(m):
    return lambda rr: [] if any(tag in rr.prog.tags for tag, _ in FAMILY_MONITORS) else m(rr)


def reg(pid, **kw):
    kw.setdefault("monitors", [])
    kw["monitors"] = [mon_generic, family_monitor] + [_not_family(m) for m in kw["monitors"]]
    fams = FAMILIES_FOR.get(pid, [])
    if fams:
        g = kw["gen"]
        kw["gen"] = lambda seed, tier, g=g, fams=fams: g(seed, tier) + [p for f in fams for p in f()]
    kw.setdefault("nontrivial", lambda rr: True)
    kw.setdefault("rule", "")
    REGISTRY[pid] = kw


reg("C01",
    gen=lambda seed, tier: (P.gen_damage_programs(G.Rng(seed), N(tier, 60, 600), big=N(tier, 0.02, 0.05)) +
                            P.gen_extraction_programs(G.Rng(seed + 1001), N(tier, 30, 300)) +
                            P.gen_symlink_chain_programs() +
                            [p for p in P.gen_streamed_readback_programs() if p.name.startswith(("read-exact", "streamed"))]),
    monitors=[lambda rr: (P.mon_symlink_chain(rr) if "chain" in rr.prog.tags else
                          P.mon_streamed_readback(rr) if "sread" in rr.prog.tags else
                          P.mon_extraction(rr) if "steps" in rr.prog.tags else P.mon_checked_retrieval(rr))],
    nontrivial=lambda rr: has(rr, ("read", "read_hash", "rcheck", "copy", "copy_hash", "hard_link", "hard_link_hash"),
                              ("err integrity", "ok")),
    rule="programs: two entries written (random algorithm, size incl. mmap/buffer edges), one damage of the victim's "
         "content file (bit flip / truncate / extend / empty / random / other entry's bytes / symlink) or none, then "
         "every checked retrieval entry point in both API flavours; distinct = distinct sequence of (op, result class); "
         "non-trivial = at least one checked retrieval answered ok or integrity error")

reg("C18",
    gen=lambda seed, tier: (P.gen_damage_programs(G.Rng(seed + 18), N(tier, 60, 600), big=N(tier, 0.02, 0.05)) +
                            P.gen_extraction_programs(G.Rng(seed + 181), N(tier, 60, 600)) +
                            P.gen_symlink_chain_programs() + P.gen_missing_content_programs() +
                            P.gen_unsized_record_programs()),
    monitors=[lambda rr: (P.mon_symlink_chain(rr) if "chain" in rr.prog.tags else
                          P.mon_extraction(rr) if "steps" in rr.prog.tags else P.mon_checked_retrieval(rr))],
    nontrivial=lambda rr: has(rr, ("copy", "copy_hash", "hard_link", "hard_link_hash", "reflink"), ()),
    rule="as C01, judged on the extraction calls and the destination file afterwards; plus extraction SEQUENCES over "
         "pristine content that reuse destinations (the same path twice, a path that already is a hard link of the content, "
         "a longer old file), name a destination whose parent directory does not exist, and follow a remove_hash (a fixed family does "
         "so for EVERY entry point and API, onto a fresh destination and onto an existing file, which must stay as it was): ok => the "
         "destination holds exactly the stored bytes (and the count), missing content / parent => error and nothing created, "
         "the cache entries still read back")

reg("C02",
    gen=lambda seed, tier: (P.gen_roundtrip_programs(G.Rng(seed + 2), N(tier, 120, 1500), big=N(tier, 0.03, 0.08)) +
                            P.gen_streamed_readback_programs() +
                            [p for p in P.gen_link_vs_written_programs() if "written" in p.name]),
    monitors=[link_aware(lambda rr: P.mon_streamed_readback(rr) if "sread" in rr.prog.tags else P.mon_roundtrip(rr))],
    extra=lambda seed, tier, flavours: merge(
        LG.leg_resumed_writer(flavours if tier == "thorough" else flavours[:1]),
        LG.leg_skeleton(P.gen_roundtrip_programs(G.Rng(seed + 21), N(tier, 6, 40)) + P2.skeleton_sample(), flavours[0])),
    nontrivial=lambda rr: has(rr, ("write", "write_hash", "wcommit"), ("ok",)),
    rule="(streamed in arbitrary chunk sizes: incl. a REAL short write on the open handle - a file-size limit inside the "
         "process cuts one write short, is lifted, the caller supplies the rest and commits: the commit answers the digest "
         "of the acknowledged bytes and they read back; the system-call skeleton of every op equals the model's call trace) "
         "programs: 1-3 writes through a random entry point (one-shot / streamed with random chunking / declared "
         "size, keyed / by address, sync / async, four SHA algorithms, hostile keys, sizes incl. 0 and 1 MiB±1) each "
         "followed by reads by key and by address in both flavours; non-trivial = a write succeeded")

reg("C16",
    gen=lambda seed, tier: (P.gen_roundtrip_programs(G.Rng(seed + 16), N(tier, 120, 1500), big=N(tier, 0.03, 0.08)) +
                            P.gen_coexist_programs(G.Rng(seed + 161), N(tier, 60, 600)) +
                            P.gen_commit_programs(G.Rng(seed + 162), N(tier, 60, 600), big=N(tier, 0.03, 0.1)) +
                            P.gen_size_matrix(G.Rng(seed + 163)) +
                            P.gen_history_programs(G.Rng(seed + 164), N(tier, 30, 300), maxlen=N(tier, 12, 30)) +
                            P.gen_link_reader_programs() + P.gen_link_vs_written_programs() +
                            P.gen_cancel_programs(G.Rng(seed + 165))),
    monitors=[link_aware(lambda rr: (P.mon_cancel(rr) if "cancel" in rr.prog.tags else
                          P.mon_size_matrix(rr) if "matrix" in rr.prog.tags else
                          P.mon_commit(rr) if "commit" in rr.prog.tags else
                          P.mon_history(rr) if "steps" in rr.prog.tags and "keys" in rr.prog.tags else
                          P.mon_roundtrip(rr) + P.mon_coexist(rr))),
              lambda rr: mon_content_valid(rr)],
    extra=lambda seed, tier, flavours: merge(
        LG.leg_resumed_writer(flavours if tier == "thorough" else flavours[:1]),
        LG.leg_writer_faults(flavours[0], tier),
        LG.leg_skeleton(P.gen_rewrite_same_programs(), flavours[0])),
    nontrivial=lambda rr: has(rr, ("write", "write_hash", "wcommit"), ("ok",)),
    rule="(plus: the same bytes stored twice through every entry point, 0 B .. 70 kB, under strace: the system-call skeleton "
         "of the second write equals the model's - nothing opens, truncates or writes the stored copy; "
         "plus: a streamed writer whose write is cut short / fails and whose caller carries on - real short writes under "
         "a file-size limit, injected EINTR/EIO/ENOSPC - must commit the digest of the acknowledged bytes, one copy) as C02; the returned integrity is compared with hashlib's digest; plus histories storing the SAME bytes under "
         "2-5 algorithms through mixed entry points: each address is the asked algorithm's digest whatever the cache holds, "
         "all copies read back, and remove_hash of one algorithm's copy leaves the others present and readable; plus the "
         "commit programs and the declared-size matrix of C08 (declared integrity of another algorithm, short / overlong "
         "streams through the mapped writers): after every program every file in the content area hashes to its address; plus "
         "histories re-writing a few values over a few keys (A, B, A again ...): every key resolves to the address of its "
         "latest write")

reg("C05",
    gen=lambda seed, tier: (P.gen_history_programs(G.Rng(seed + 5), N(tier, 60, 600), maxlen=N(tier, 14, 40)) +
                            P.gen_bucket_programs(G.Rng(seed + 51), N(tier, 60, 600)) + P.gen_bucket_shape_programs(deep=True) +
                            P.gen_shared_removal_programs(G.Rng(seed + 52), N(tier, 20, 200)) +
                            P.gen_key_matrix_programs(G.Rng(seed + 53)) +
                            P.gen_attach_rewrite_programs(G.Rng(seed + 55))),
    monitors=[lambda rr: (P.mon_attach(rr) if "attach" in rr.prog.tags else
                          P.mon_bucket(rr) if "damage" in rr.prog.tags else
                          P.mon_shared_removal(rr) if "removals" in rr.prog.tags else P.mon_history(rr))],
    extra=lambda seed, tier, flavours: LG.leg_skeleton(
        P.gen_history_programs(G.Rng(seed + 54), N(tier, 4, 20), maxlen=8), flavours[0]),
    nontrivial=lambda rr: has(rr, ("remove", "remove_opts"), ("ok",)) and has(rr, ("write", "wcommit"), ("ok",)),
    rule="(system-call skeleton of writes and removals = the model's call trace: one record = one write(2) on an O_APPEND "
         "descriptor - what makes 'the most recent successful write' well defined under concurrent appenders) "
         "random histories of keyed writes (all entry points, mixed flavours) and removals over 2-5 keys and 3 values; "
         "after every step metadata+read of every key (and sometimes a listing) are judged by a dictionary model; "
         "plus histories whose bucket carries a torn / damaged record in the middle (what crashes leave behind): the lookup "
         "still returns the last undamaged record of the key, before and after a further append; "
         "non-trivial = at least one write and one removal succeeded")

reg("C09",
    gen=lambda seed, tier: (P.gen_history_programs(G.Rng(seed + 9), N(tier, 60, 600), maxlen=N(tier, 14, 40), full=True) +
                            P.gen_shard_programs(G.Rng(seed + 91), N(tier, 8, 40)) +
                            P.gen_shared_removal_programs(G.Rng(seed + 94), N(tier, 20, 200)) +
                            P.gen_key_matrix_programs(G.Rng(seed + 95)) +
                            P.gen_multihash_removal_programs(G.Rng(seed + 96)) +
                            P.gen_linked_removal_programs()),
    extra=lambda seed, tier, flavours: merge(LG.leg_skeleton(
        P.gen_shard_programs(G.Rng(seed + 92), N(tier, 4, 16)) +
        P.gen_history_programs(G.Rng(seed + 93), N(tier, 3, 12), maxlen=10, full=True), flavours[0]),
        LG.leg_fault_injection(LG.fault_cases_removals(), flavours[0], tier)),
    monitors=[lambda rr: (P.mon_shared_removal(rr) if "removals" in rr.prog.tags else
                          P.mon_linked_removal(rr) if "linkrm" in rr.prog.tags else
                          P.mon_expect_reads(rr) if "expect_reads" in rr.prog.tags else P.mon_history(rr))],
    nontrivial=lambda rr: has(rr, ("remove", "remove_opts", "remove_hash", "remove_fully", "clear"), ("ok",)),
    rule="as C05 plus remove_hash, remove_fully and clear; plus shared-content removal programs (see C10); "
         "non-trivial = some removal succeeded")

reg("C10",
    gen=lambda seed, tier: (P.gen_history_programs(G.Rng(seed + 10), N(tier, 40, 400), maxlen=N(tier, 14, 40)) +
                            P.gen_history_programs(G.Rng(seed + 101), N(tier, 40, 400), maxlen=N(tier, 14, 40), full=True) +
                            P.gen_shared_removal_programs(G.Rng(seed + 102), N(tier, 30, 300)) +
                            P.gen_foreign_listing_programs(G.Rng(seed + 103)) +
                            P.gen_block_boundary_programs(G.Rng(seed + 104)) + P.gen_bucket_shape_programs()),
    monitors=[lambda rr: (P.mon_shared_removal(rr) if "removals" in rr.prog.tags else
                          P.mon_list_agrees_with_lookup(rr) if rr.prog.tags.get("listing_only") else
                          P.mon_bucket(rr) if "bucket" in rr.prog.tags else
                          P.mon_history(rr) + P.mon_list_agrees_with_lookup(rr))],
    extra=lambda seed, tier, flavours: LG.leg_fault_injection(LG.fault_cases_list(G.Rng(seed + 105)), flavours[0], tier),
    nontrivial=lambda rr: has(rr, ("list",), ("ok",)),
    rule="(plus errno injection into every system call of a listing over three live buckets: the listing may contain error "
         "items but never silently leaves out a live entry) as C05 and C09 (histories with remove, remove_hash, remove_fully, clear over keys that share content); every "
         "listing is compared item by item with the lookups of all keys issued just before it; plus programs in which 2-3 "
         "keys share one content file that disappears through one of them before the others are removed: a removal that "
         "answers ok has removed the key from lookups and listings, one that answers an error has left it; plus buckets "
         "holding checksummed records with odd integrity texts (unknown algorithm, empty, no hash, undecodable digest) alone, "
         "before / after a valid record and after a tombstone: lookup and listing must make the same of them")

reg("C20",
    gen=lambda seed, tier: (P.gen_hostile_state_programs(G.Rng(seed + 23), N(tier, 18, 36)) +
                            P.gen_roundtrip_programs(G.Rng(seed + 20), N(tier, 60, 400)) +
                            P.gen_history_programs(G.Rng(seed + 21), N(tier, 30, 200), full=True) +
                            P.gen_damage_programs(G.Rng(seed + 22), N(tier, 30, 200)) +
                            P.gen_commit_programs(G.Rng(seed + 24), N(tier, 40, 400), big=N(tier, 0.03, 0.1)) +
                            P.gen_size_matrix(G.Rng(seed + 25)) +
                            P.gen_abandon_programs(G.Rng(seed + 26), N(tier, 20, 200)) +
                            P.gen_bucket_programs(G.Rng(seed + 27), N(tier, 30, 300)) + P.gen_bucket_shape_programs(deep=True) +
                            P.gen_metadata_programs(G.Rng(seed + 28), N(tier, 30, 300)) +
                            P.gen_cancel_programs(G.Rng(seed + 29)) + P.gen_link_cycle_programs()),
    monitors=[],
    extra=lambda seed, tier, flavours: LG.leg_mmap_failure(
        P.gen_msync_programs(), flavours, [P.mon_survives, lambda rr: mon_content_valid(rr)], fail_env="FAIL_MSYNC"),
    rule="(plus mapped writers whose caller carries on after failed writes while EVERY msync(2) fails - LD_PRELOAD shim: the "
         "process must answer every operation: no SIGBUS from a store through a mapping whose file was cut) "
         "every program of the other streams plus hostile on-disk states (foreign checksummed records with 9 kinds of "
         "odd integrity text, directories / files where the other is expected), judged on panic / hang and compared with "
         "the model (which has the same panics as explicit results)")

reg("C08",
    gen=lambda seed, tier: (P.gen_commit_programs(G.Rng(seed + 8), N(tier, 120, 1500), big=N(tier, 0.05, 0.1)) +
                            P.gen_size_matrix(G.Rng(seed + 81)) + P.gen_link_vs_written_programs()),
    monitors=[link_aware(lambda rr: P.mon_size_matrix(rr) if "matrix" in rr.prog.tags else P.mon_commit(rr))],
    nontrivial=lambda rr: has(rr, ("wcommit",), ("err integrity", "err size", "ok")),
    rule="programs: prior state of the key (absent / present / removed), then a writer (sync/async, keyed/by address, "
         "four algorithms, data incl. 0 B and 1 MiB±1, random chunking) with declared size in {none, =, <, >} and declared "
         "integrity in {none, correct, wrong, other algorithm, multi-hash correct, multi-hash wrong}; commit; lookups, "
         "listing, temp area; non-trivial = the commit was reached and answered ok / integrity / size")

reg("C14",
    gen=lambda seed, tier: (P.gen_abandon_programs(G.Rng(seed + 14), N(tier, 80, 800)) +
                            P.gen_commit_programs(G.Rng(seed + 15), N(tier, 40, 400)) +
                            P.gen_size_matrix(G.Rng(seed + 142)) +
                            [p for p in P.gen_link_vs_written_programs() if "-size-" in p.name or "-sri-" in p.name]),
    monitors=[link_aware(lambda rr: (P.mon_abandon(rr) if "base" in rr.prog.tags else
                          P.mon_size_matrix(rr) if "matrix" in rr.prog.tags else P.mon_commit(rr, readable=False)))],
    extra=lambda seed, tier, flavours: merge(
        LG.leg_fault_injection(LG.fault_cases_writes(G.Rng(seed + 141)), flavours[0], tier),
        LG.leg_writer_faults(flavours[0], tier)),
    nontrivial=lambda rr: has(rr, ("wdrop", "wcommit"), ()),
    rule="programs: two committed entries, then a writer (sync/async, keyed/by address, mapped/plain) dropped after "
         "0..all of its chunks, optionally with another successful write in between; plus the rejected-commit programs "
         "of C08 and its declared-size matrix (incl. a size declared and nothing written while another key holds the empty "
         "value); listing, lookup and temp area afterwards; plus commits that FAIL because of an injected errno (strace) at "
         "every syscall class of a sync / async write: once the call has returned, the temp area holds no file")

reg("C11",
    gen=lambda seed, tier: (P.gen_metadata_programs(G.Rng(seed + 11), N(tier, 150, 2000)) +
                            P.gen_attach_rewrite_programs(G.Rng(seed + 111)) +
                            P.gen_cancel_programs(G.Rng(seed + 112)) + P.gen_link_reader_programs()),
    monitors=[lambda rr: (P.mon_attach(rr) if "attach" in rr.prog.tags else
                          P.mon_link_reader(rr) if "linkread" in rr.prog.tags else
                          P.mon_cancel(rr) if "cancel" in rr.prog.tags else P.mon_metadata(rr))],
    nontrivial=lambda rr: has(rr, ("metadata",), ("ok",)),
    rule="programs: one write through write / streamed writer / index insert with explicit or default time, metadata "
         "(type-directed JSON without floats), raw metadata and size; lookups in both flavours and listing compared "
         "field by field with what was supplied")

reg("C06",
    gen=lambda seed, tier: (P.gen_bucket_programs(G.Rng(seed + 6), N(tier, 150, 3000)) + P.gen_bucket_shape_programs() +
                            P.gen_block_boundary_programs(G.Rng(seed + 61))),
    monitors=[P.mon_bucket],
    extra=lambda seed, tier, flavours: LG.leg_fault_injection(LG.fault_cases_inserts(), flavours[0], tier),
    nontrivial=lambda rr: rr.prog.tags.get("damage", "undamaged") != "undamaged",
    rule="programs: a bucket file produced by the Python reference encoder (1-5 records, tombstones, foreign-key records, "
         "non-ASCII keys), damaged in one place (record cut at a random length, bit flip, garbage / NUL / invalid-UTF-8 "
         "line, separator destroyed, duplicated fragment, reordering, CR, overwrite) and stored with `put`; lookups in "
         "both flavours and listing before and after one further append through the library, judged by the reference decoder; "
         "plus errno injection into every system call (fsync / fdatasync included, should there be any) of a keyed write and of "
         "a rewrite: an insert that answers an error has not made its entry visible")

reg("C17",
    gen=lambda seed, tier: (P.gen_layout_programs(G.Rng(seed + 17), N(tier, 80, 800)) +
                            P.gen_attach_rewrite_programs(G.Rng(seed + 171)) +
                            P.gen_block_boundary_programs(G.Rng(seed + 172)) +
                            P.gen_bucket_shape_programs()),
    monitors=[lambda rr: (P.mon_attach(rr) if "attach" in rr.prog.tags else
                          P.mon_bucket(rr) if "bucket" in rr.prog.tags else P.mon_layout(rr))],
    nontrivial=lambda rr: has(rr, ("dump",), ("ok",)),
    rule="direction 1: library writes entries with explicit times, the dumped tree is compared byte for byte with the "
         "tree the Python reference encoder predicts; direction 2: the reference encoder writes a cache, the library "
         "looks up, reads and lists it")

reg("C19",
    gen=lambda seed, tier: (P.gen_linkto_programs(G.Rng(seed + 19), N(tier, 100, 1000)) + P.gen_link_dotdot_programs() +
                            P.gen_linked_removal_programs() + P.gen_symlink_chain_programs() + P.gen_link_reader_programs() +
                            P.gen_link_vs_written_programs()),
    monitors=[lambda rr: (P.mon_link_dotdot(rr) if "dotdot" in rr.prog.tags else
                          P.mon_link_reader(rr) if "linkread" in rr.prog.tags else
                          P.mon_link_vs_written(rr) if "linkvs" in rr.prog.tags else
                          P.mon_linked_removal(rr) if "linkrm" in rr.prog.tags else
                          P.mon_symlink_chain(rr) if "chain" in rr.prog.tags else P.mon_linkto(rr))],
    nontrivial=lambda rr: has(rr, ("link_to", "link_to_hash", "lcommit"), ("ok",)),
    rule="programs: a target file (0 B .. 40 kB), link_to by absolute or relative path (one-shot, by address, partial "
         "reads before commit, wrong declared size / integrity, address already present as regular content, working directory "
         "changed between opening the handle and committing it), reads and "
         "metadata in both flavours, node kind, target unchanged, then target modified / removed and reads again")

reg("C15",
    gen=lambda seed, tier: (P.gen_confine_programs(G.Rng(seed + 15), N(tier, 40, 400)) +
                            P.gen_extraction_programs(G.Rng(seed + 153), N(tier, 30, 300)) +
                            P.gen_oddcache_programs() +
                            [p for p in P.gen_key_matrix_programs(G.Rng(seed + 154)) if p.name.startswith("siblings")] +
                            P.gen_linked_removal_programs()),
    monitors=[lambda rr: (P.mon_oddcache(rr) if "oddcache" in rr.prog.tags else
                          P.mon_linked_removal(rr) if "linkrm" in rr.prog.tags else
                          P.mon_history(rr) if rr.prog.name.startswith("siblings") else
                          P.mon_extraction(rr) if "steps" in rr.prog.tags else P.mon_confine(rr))],
    nontrivial=lambda rr: True,
    rule="programs over 4 hostile keys (path-like, '..', NUL, controls, case / normalisation variants, 4 KiB): writes, "
         "every read-only call, a copy, removals; the directories next to the cache and the cache itself are dumped "
         "before and after; in half of the programs one entry's content file is first torn / flipped / replaced / deleted, so "
         "that the read-only calls run into verification failures - and must still leave the directory as it was; plus "
         "errno injection at every syscall class of sync / async writes (the error and retry paths): under strace no "
         "mutating system call of the operation names a path outside the scratch directory")


# ---------------------------------------------------------------------------------------------
# properties with system-call level legs
# ---------------------------------------------------------------------------------------------

def merge(*parts):
    out = {"failures": [], "disagreements": [], "evaluations": 0, "distinct_nontrivial": 0, "samples": []}
    for p in parts:
        for k, v in p.items():
            if k in ("failures", "disagreements", "samples"):
                out[k] += v
            elif k in ("evaluations", "distinct_nontrivial"):
                out[k] += v
            elif isinstance(v, dict) and isinstance(out.get(k), dict):
                out[k] = dict(out[k], **v)
            else:
                out[k] = v
    return out


def gen_content_programs(seed, tier):
    """Writes of every shape followed by a dump of the content area (judged by hashlib)."""
    progs = P.gen_roundtrip_programs(G.Rng(seed + 3), N(tier, 60, 600), big=N(tier, 0.03, 0.08))
    progs += P.gen_commit_programs(G.Rng(seed + 33), N(tier, 40, 400))
    for p in progs:
        p.ops.append("dump c0/content-v2")
    progs += P.gen_size_matrix(G.Rng(seed + 34))
    progs += P.gen_extraction_programs(G.Rng(seed + 35), N(tier, 30, 300))      # extractions never harm the content area
    progs += P.gen_cancel_programs(G.Rng(seed + 36))       # async writers with a cancelled write future (implementation only)
    return progs


def mon_content_valid(rr):
    out = []
    for i, (o, l) in enumerate(zip(rr.prog.ops, rr.impl)):
        if o.startswith("dump c0/content-v2") or o == "dump c0":
            out += LG.content_valid_monitor(l, f"after op {i}")
    for f in out:
        f.idx = len(rr.prog.ops) - 1
    return out


reg("C03",
    gen=gen_content_programs,
    monitors=[mon_content_valid, P.mon_size_matrix, lambda rr: P.mon_extraction(rr) if "steps" in rr.prog.tags else [],
              lambda rr: P.mon_cancel(rr) if "cancel" in rr.prog.tags else []],
    extra=lambda seed, tier, flavours: merge(
        LG.leg_skeleton(P.gen_roundtrip_programs(G.Rng(seed + 31), N(tier, 10, 60)), flavours[0]),
        LG.leg_kill_sweep(LG.kill_cases(G.Rng(seed + 32), N(tier, 4, 24)), flavours[0], max_points=N(tier, 14, 200)),
        LG.leg_fault_injection(LG.fault_cases_writes(G.Rng(seed + 33)), flavours[0], tier),
        LG.leg_writer_faults(flavours[0], tier)),
    nontrivial=lambda rr: has(rr, ("dump",), ("ok",)),
    rule="(a) API: writes of every shape (one-shot / streamed / declared size right and wrong / keyed / by address / both "
         "flavours / sizes around 1 MiB), content area dumped and every file's digest recomputed with hashlib; "
         "(b) skeleton: the real mutation-syscall sequence of every op equals the model's call trace; (c) kill sweep: the "
         "real process is SIGKILLed on entry to its N-th mutating syscall for every N, a fresh process inspects the "
         "directory; (d) errno injection at every syscall class of sync / async writes (the error paths of publication): "
         "no content path is ever created or filled in place, the content area stays valid; CRASH / FAULT CORRESPONDENCE: "
         "the tree found after every real SIGKILL is one of the model's crash states (`crashset`: every call index x every "
         "torn length) and every injected-errno outcome is one of the model's single-fault outcomes (`faultset`); "
         "distinct = distinct (op, result-class) sequences / syscall skeletons / post-kill trees / fault classes")

reg("C04",
    gen=lambda seed, tier: (P.gen_bucket_programs(G.Rng(seed + 4), N(tier, 100, 2000)) + P.gen_bucket_shape_programs() +
                            P.gen_attach_rewrite_programs(G.Rng(seed + 43))),      # "later writes ... become visible"
    monitors=[lambda rr: P.mon_attach(rr) if "attach" in rr.prog.tags else P.mon_bucket(rr)],
    extra=lambda seed, tier, flavours: merge(
        LG.leg_kill_sweep(LG.kill_cases(G.Rng(seed + 41), N(tier, 6, 40)), flavours[0], max_points=N(tier, 16, 200)),
        LG.leg_fault_injection(LG.fault_cases_writes(G.Rng(seed + 42)), flavours[0], tier)),
    nontrivial=lambda rr: rr.prog.tags.get("damage", "").startswith(("last record cut", "record")) or "attach" in rr.prog.tags,
    rule="(a) torn appends: reference-encoded buckets with a record cut at every sampled byte length (incl. inside "
         "multi-byte UTF-8), lookups in both flavours, a further append, lookups again; (b) kill sweep over keyed writes, "
         "overwrites, index inserts with non-ASCII metadata and removals: SIGKILL at every mutating syscall, then a fresh "
         "process checks old-or-new for the key, other keys intact, visible => readable, later write visible; (c) errno "
         "injection at every syscall class of keyed writes (sync / async), each real post-kill tree / fault outcome also "
         "compared with the model's crash states / single-fault outcomes: a write that answers ok has its content stored "
         "(no entry made visible by swallowing a failed publication), a failed one leaves the old state, the retry works")

def R_corpus(pid):
    return corpus_programs(pid)


reg("C13",
    gen=lambda seed, tier: P.gen_roundtrip_programs(G.Rng(seed + 13), N(tier, 20, 100)),
    monitors=[P.mon_roundtrip],
    extra=lambda seed, tier, flavours: merge(
        LG.leg_fault_injection(LG.fault_cases(G.Rng(seed + 13)), flavours[0], tier),
        LG.leg_short_write(G.Rng(seed + 131), flavours[0], N(tier, 8, 60)),
        LG.leg_resumed_writer(flavours if tier == "thorough" else flavours[:1]),
        *[LG.leg_writer_faults(fl, tier) for fl in (flavours if tier == "thorough" else flavours[:1])],
        LG.leg_mmap_failure(P.gen_size_matrix(G.Rng(seed + 132)) + R_corpus("C13"), flavours,
                            [mon_generic, P.mon_size_matrix, lambda rr: mon_content_valid(rr)]),
        LG.leg_mmap_failure(P.gen_msync_programs(), flavours, [P.mon_survives, lambda rr: mon_content_valid(rr)],
                            fail_env="FAIL_MSYNC")),
    nontrivial=lambda rr: True,
    rule="errno injection with strace: for write / write (async) / write_hash / read / metadata / copy / remove / list, "
         "every syscall class x (first, middle, last occurrence in quick; every occurrence in thorough) x {EIO, ENOSPC "
         "(+EACCES, EMFILE thorough)}; judged: error or truthful success, no panic/hang, content area valid, other entry "
         "intact, retry without fault succeeds and reads back; distinct = (op, syscall, errno, result class); plus real "
         "SHORT WRITES: a file-size limit (RLIMIT_FSIZE, SIGXFSZ ignored) cuts the index append / temp-file write at several "
         "byte offsets so that write(2) returns short and the retry fails with EFBIG; FAILING mmap(2): the declared-size "
         "matrix (sync/async x keyed/by address x size =,<,> data x chunk shapes, incl. 1 MiB and beyond) under an LD_PRELOAD "
         "shim that fails every file-backed shared mapping, judged by the same monitors; PERSISTENT CALLER: streamed writers "
         "(no declared size / exact / too small = the mapping is left mid-stream / too large) x sync/async whose caller tries a "
         "failed write(...) again with the unacknowledged bytes and then commits, with {EINTR, EIO, ENOSPC} at every occurrence "
         "of write / ftruncate / msync / lseek / fallocate / rename / mkdir / openat: content area valid, commit ok <=> the key "
         "reads back the whole stream, no temp file left; FAULT CORRESPONDENCE: the outcome of every "
         "real injection (result class + every file and link of the cache afterwards, bucket checksums/times masked) must be "
         "one of the outcomes the model's runFault produces for a single failing call of that operation (driver op "
         "`faultset`: every call index x error kind x partial-write length incl. 'all bytes written, error reported')")

reg("C07",
    gen=lambda seed, tier: (P.gen_history_programs(G.Rng(seed + 7), N(tier, 20, 100)) +
                            [p for p in P.gen_streamed_readback_programs() if p.name.startswith("read-exact")]),
    monitors=[lambda rr: P.mon_streamed_readback(rr) if "sread" in rr.prog.tags else P.mon_history(rr)],
    all_flavours=True,
    extra=lambda seed, tier, flavours: merge(
        LG.leg_concurrent(G.Rng(seed + 71), N(tier, 4, 40), flavours, procs=N(tier, 6, 12), ops_per_proc=N(tier, 60, 150)),
        LG.leg_skeleton(gen_big_record_programs(seed, tier), "tokio" if "tokio" in flavours else flavours[0]),
        LG.leg_skeleton(P.gen_roundtrip_programs(G.Rng(seed + 73), N(tier, 6, 40)), flavours[0]),
        *[LG.leg_observer_sweep(fl, tier) for fl in (flavours if tier == "thorough" else flavours[:1])],
        *[LG.leg_pause_interfere(fl, tier) for fl in (flavours if tier == "thorough" else flavours[:1])],
        LG.leg_cold_start_race(flavours, N(tier, 12, 80))),
    nontrivial=lambda rr: True,
    rule="(f) PAUSE AND INTERFERE - two MUTATING operations of two processes: the victim (write, write_hash, remove, "
         "remove_hash; sync and async) is stopped by an injected SIGSTOP after its N-th system call of every mutating class, "
         "the interferer (remove_hash of the same content, remove / write of the same key, a write of the same content under "
         "another key, write_hash) runs to completion in another process, the victim is continued: both answers and every "
         "lookup / read / listing afterwards must be those of one of the two serial orders; (a) real concurrency: 6-12 processes (sync + async API, async-std and tokio binaries) on one cache: writers "
         "of the same key, of different keys with equal content, removers, readers, listers; every read must be a "
         "written value, every successful write must have a whole record, content valid; (b) single-write skeleton: an "
         "index insert is exactly one write(2) on an O_APPEND descriptor, also for records of several MiB; (c) the whole "
         "syscall skeleton of writes (atomic publication = one plain rename of the temp file) equals the model's; (d) OBSERVER "
         "SWEEP - two-operation interleavings at system-call granularity, one of the two read-only: a first write / "
         "write_hash on a cold cache, an overwrite, a write of content another key holds, a remove, a remove_hash (sync and "
         "async) is stopped on entry to each of its mutating system calls, and metadata / read / list / exists / read_hash "
         "(sync and async) run on the directory as it stands: every answer must be the observer's answer before the "
         "operation or after it; (e) COLD START RACE: 8 processes (sync and async API, both runtime binaries) released at the "
         "same instant make their first writes into one cold cache - every write succeeds and reads back")


def gen_big_record_programs(seed, tier):
    """Index records of growing size (raw metadata up to several MiB): one append = one write(2)?"""
    r = G.Rng(seed + 72)
    progs = []
    for n in ([100, 70000, 600000] if tier == "quick" else [100, 70000, 600000, 1100000]):
        raw = r.randbytes(n)
        for fl in "sa":
            ops = [f"index_insert {fl} c0 x6b sri={G.hx(P.L.sri_of('sha256', b'x').encode())} time=1 size=1 meta=- raw={G.hx(raw)}"]
            progs.append(Program(f"bigrec{n}{fl}", ops, tags={"variety": (n, fl)}))
    return progs


REGISTRY["C15"]["extra"] = lambda seed, tier, flavours: merge(
    LG.leg_skeleton(P.gen_confine_programs(G.Rng(seed + 151), N(tier, 6, 40)) + P2.skeleton_sample(), flavours[0]),
    LG.leg_fault_injection(LG.fault_cases_writes(G.Rng(seed + 152)), flavours[0], tier))
REGISTRY["C15"]["rule"] += "; plus the strace leg: every mutating system call of every op (hostile keys) is compared with the model's call and any path outside the scratch cache directory is reported (incl. writers held across other operations, commits from another working directory, removals of dangling links, symlinked buckets)"


def gen_c12(seed, tier):
    r = G.Rng(seed + 12)
    progs = (P.gen_damage_programs(r, N(tier, 8, 60)) + P.gen_commit_programs(r, N(tier, 10, 100)) +
             P.gen_metadata_programs(r, N(tier, 10, 100)) + P.gen_history_programs(r, N(tier, 8, 60), full=True) +
             P.gen_bucket_programs(r, N(tier, 10, 100)) + P.gen_bucket_shape_programs() +
             [p for p in P.gen_hostile_state_programs(r, N(tier, 9, 18)) if p.name.startswith("foreign")] +
             P.gen_size_matrix(G.Rng(seed + 121)) +    # every declared-size relation x chunk shape, deterministically
             P.gen_stray_root_programs() + P.gen_unset_option_programs() + P.gen_async_protocol_programs())
    # sync-only entry points have no async twin: drop them from the comparison programs
    for p in progs:
        p.ops = [o for o in p.ops if o.split(" ")[0] not in P.SYNC_ONLY and not o.startswith("dump")]
    return progs


reg("C12",
    gen=lambda seed, tier: P.gen_history_programs(G.Rng(seed + 120), N(tier, 20, 200), full=True),
    monitors=[P.mon_history],
    all_flavours=True,
    extra=lambda seed, tier, flavours: LG.leg_flavours(gen_c12(seed, tier), flavours),
    nontrivial=lambda rr: True,
    rule="each program (damaged content + every retrieval, commits with all declaration combinations, metadata fidelity, "
         "histories with all removals, damaged buckets, the declared-size matrix (size =,<,> data x chunk shapes x keyed/by address, the zero boundary), foreign checksummed records with odd integrity texts alone and after a "
         "valid record of the same key) is executed in four forms - all sync, all async, sync-then-async, "
         "async-then-sync - on the async-std and the tokio binary (8 executions); the canonical result streams (default "
         "times masked) must be equal step by step; plus the model correspondence of histories on both binaries")
