"""Source extractors: read /repo's current sources on every run and compare what the model
assumes about them (constants, shared state, panic sites)."""
import os, re
from . import common as C

EXPECTED_CONSTANTS = {
    "MAX_MMAP_SIZE": "1024 * 1024",
    "INDEX_VERSION": '"5"',
    "CONTENT_VERSION": '"2"',
    "BUF_SIZE": "16 * 1024",
    "PROBE_SIZE": "8",
}


def sources():
    out = {}
    root = os.path.join(C.REPO, "src")
    for d, _, files in os.walk(root):
        for f in files:
            if f.endswith(".rs"):
                p = os.path.join(d, f)
                out[os.path.relpath(p, C.REPO)] = open(p).read()
    return out


def non_test(src):
    i = src.find("#[cfg(test)]")
    return src if i < 0 else src[:i]


def run_extractors(pid):
    res = {"constants": {}, "problems": []}
    srcs = sources()
    allsrc = "\n".join(non_test(s) for s in srcs.values())
    for name, want in EXPECTED_CONSTANTS.items():
        m = re.search(r"const\s+" + name + r"\s*:\s*[^=]+=\s*([^;]+);", allsrc)
        if not m:
            res["problems"].append(f"constant {name} not found in src/ (model assumes {want})")
            continue
        res["constants"][name] = m.group(1).strip()
        if m.group(1).strip() != want:
            res["problems"].append(f"constant {name} = {m.group(1).strip()} but the model assumes {want}")
    if pid in ("C07", "C20", "C12"):
        for pat in (r"\bstatic\s+(mut\s+)?[A-Z_]+\s*:", r"lazy_static!", r"thread_local!", r"OnceCell", r"OnceLock"):
            if re.search(pat, allsrc):
                res["problems"].append(f"shared process state ({pat}) appeared in src/: the model assumes operations "
                                       f"communicate only through the filesystem")
    return res
