"""Correspondence engine: run an ops program on the real library (harness) and on the Lean model
(driver), diff the two result streams; run property monitors on the implementation's output."""
import os, re, subprocess, shutil, itertools, time, threading
from concurrent.futures import ThreadPoolExecutor
from . import common as C

NOW_RE = re.compile(r" @now=(\d+)")
FRESH_RE = re.compile(r" @fresh=(\d)")

_counter = itertools.count()


class Program:
    """A list of op lines plus bookkeeping.  `model=False` means monitors only (e.g. xxh3)."""

    def __init__(self, name, ops, flavours=None, model=True, tags=None):
        self.name = name
        self.ops = [o for o in ops if o.strip() and not o.startswith("#")]
        self.flavours = flavours          # None = let the tier decide
        self.model = model
        self.tags = tags or {}

    def text(self):
        return "\n".join(self.ops) + "\n"


class RunResult:
    def __init__(self, prog, flavour, impl, model, annotated):
        self.prog, self.flavour, self.impl, self.model, self.annotated = prog, flavour, impl, model, annotated

    def disagreements(self):
        """Indices where model and implementation print different result lines."""
        if self.model is None:
            return []
        out = []
        for i, (a, b) in enumerate(zip(self.impl, self.model)):
            if norm(a) != norm(b):
                out.append(i)
        if len(self.impl) != len(self.model):
            out.append(min(len(self.impl), len(self.model)))
        return out


def norm(line):
    return FRESH_RE.sub("", line).strip()


def run_impl(flavour, ops_text, timeout=300, wrapper=None, scratch=None, reuse=False):
    d = scratch or os.path.join(C.scratch_root(), f"s{next(_counter)}")
    if not reuse:
        shutil.rmtree(d, ignore_errors=True)
    cmd = [C.drive_bin(flavour), d]
    if wrapper:
        cmd = wrapper + cmd
    env = dict(os.environ)
    env.pop("DRIVE_REUSE", None)
    if reuse:
        env["DRIVE_REUSE"] = "1"
    try:
        p = subprocess.run(cmd, input=ops_text.encode(), stdout=subprocess.PIPE, stderr=subprocess.PIPE,
                           timeout=timeout, cwd=C.scratch_root(), env=env)
        out = p.stdout.decode(errors="replace").splitlines()
        rc = p.returncode
    except subprocess.TimeoutExpired as e:
        out = (e.stdout or b"").decode(errors="replace").splitlines() + ["hang"]
        rc = -9
    finally:
        if scratch is None:
            shutil.rmtree(d, ignore_errors=True)
    return out, rc


def annotate(ops, impl_lines):
    out = []
    for i, o in enumerate(ops):
        m = NOW_RE.search(impl_lines[i]) if i < len(impl_lines) else None
        out.append(o + (f" @now={m.group(1)}" if m else ""))
    return out


def run_model(annotated_ops, timeout=300):
    p = subprocess.run([C.DRIVER], input=("\n".join(annotated_ops) + "\n").encode(),
                       stdout=subprocess.PIPE, stderr=subprocess.PIPE, timeout=timeout)
    return p.stdout.decode(errors="replace").splitlines()


def xxh3_oracle_lines(ops):
    """`oracle xxh3 DATA DIGEST` lines for every blob the program writes under xxh3 (the model has
    no XXH3 of its own).  Returns [] when the program does not use xxh3."""
    from . import layout as L
    blobs, writers = [], {}
    for o in ops:
        t = o.split(" ")
        if t[0] == "write" and len(t) > 5 and t[3] == "xxh3":
            blobs.append(bytes.fromhex(t[5][1:]))
        elif t[0] == "write_hash" and len(t) > 4 and t[3] == "xxh3":
            blobs.append(bytes.fromhex(t[4][1:]))
        elif t[0] == "wopen" and "algo=xxh3" in t:
            writers[t[3]] = b""
        elif t[0] == "wcreate" and len(t) > 5 and t[5] == "xxh3":
            writers[t[3]] = b""
        elif t[0] in ("wwrite", "wwrite1") and t[1] in writers:
            writers[t[1]] += bytes.fromhex(t[2][1:])
        elif t[0] == "wwritev" and t[1] in writers:
            writers[t[1]] += b"".join(bytes.fromhex(x[1:]) for x in t[2:])
        elif t[0] == "put" and len(t) > 2 and "/content-v2/xxh3/" in t[1]:
            blobs.append(bytes.fromhex(t[2][1:]))       # content another implementation stored under xxh3
        elif t[0] == "link_to" or t[0] == "lopen":
            pass
    blobs += list(writers.values())
    seen, out = set(), []
    for b in blobs:
        if b not in seen:
            seen.add(b)
            out.append(f"oracle xxh3 x{b.hex()} x{L.xxh3(b).hex()}")
    return out


def run_program(prog, flavour):
    pre = xxh3_oracle_lines(prog.ops) if any("xxh3" in o for o in prog.ops) else []
    ops = pre + prog.ops
    impl, rc = run_impl(flavour, "\n".join(ops) + "\n")
    ann = annotate(ops, impl)
    model = run_model(ann) if prog.model else None
    k = len(pre)
    return RunResult(prog, flavour, impl[k:], model[k:] if model is not None else None, ann[k:])


def run_all(progs, flavours, jobs=16):
    tasks = []
    for p in progs:
        for fl in (p.flavours or flavours):
            tasks.append((p, fl))
    with ThreadPoolExecutor(max_workers=jobs) as ex:
        return list(ex.map(lambda t: run_program(*t), tasks))


def opname(line):
    return line.split(" ", 1)[0]


def rclass(line):
    """Result class of an output line, without payload."""
    t = norm(line).split(" ")
    if not t:
        return "?"
    if t[0] == "ok":
        return "ok"
    if t[0] == "err":
        return " ".join(t[:3]) if len(t) > 2 and t[1] in ("io", "stdio") else " ".join(t[:2])
    return t[0]


def signature(rr):
    base = tuple((opname(o), rclass(r)) for o, r in zip(rr.prog.ops, rr.impl))
    v = rr.prog.tags.get("variety")
    return base + ((("variety", str(v)),) if v is not None else ())


def shrink(prog, flavour, still_fails, budget_s=60):
    """Greedy one-line-at-a-time minimisation of a failing program."""
    ops = list(prog.ops)
    t0 = time.time()
    changed = True
    while changed and time.time() - t0 < budget_s:
        changed = False
        i = len(ops) - 1
        while i >= 0 and time.time() - t0 < budget_s:
            cand = ops[:i] + ops[i + 1:]
            if cand and still_fails(Program(prog.name, cand, model=prog.model, tags=prog.tags), flavour):
                ops = cand
                changed = True
            i -= 1
    return Program(prog.name, ops, model=prog.model, tags=prog.tags)
