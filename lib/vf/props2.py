"""Fixed program families added after the ninth round of seeded changes (see DESIGN §10): writers HELD across other
operations, commits from another working directory, pending writes polled again with a longer slice, records and
keys far beyond the usual sizes, multi-hash addresses whose weaker hash matches swapped content."""
from . import layout as L
from .engine import Program
from .gen import hx, opts_tokens, NOMETA
from .props import (Failure, toks, unhx, norm, meta_of_line, list_items, parse_dump, parse_meta, w_oneshot, sri_tok,
                    content_path, bucket_path, rec_frame)


# ---------------------------------------------------------------------------------------------
# writers held open across other operations
# ---------------------------------------------------------------------------------------------

def gen_held_writer_programs():
    """A keyed writer is opened (and fed, before or after), SOMETHING ELSE happens to the cache, then it commits:
    a full removal / a tombstone / a rewrite of its key, a clear of the whole cache, a second writer of the same key
    (opened later and committed first, or opened first and committed later), removal of the content it is about to
    publish.  The model takes part; in addition: a commit that answers ok makes its key read its data (it is the last
    operation on the key), a commit that answers an error leaves every lookup as it was, no temp file stays."""
    progs = []
    data, old, other = b"held writer data " * 9, b"the old value", b"another key's value"
    k, k2 = b"held", b"bystander"
    betweens = [
        ("remove-fully", lambda fl: [f"remove_fully {fl} c0 {hx(k)}"]),
        ("remove", lambda fl: [f"remove {fl} c0 {hx(k)}"]),
        ("rewrite", lambda fl: [w_oneshot(fl, "sha256", k, b"written in between")]),
        ("clear", lambda fl: [f"clear {fl} c0"]),
        ("remove-hash-own-data", lambda fl: [f"write_hash {fl} c0 sha256 {hx(data)}", f"remove_hash {fl} c0 {sri_tok('sha256', data)}"]),
        ("second-writer-first", lambda fl: [f"wopen {fl} c0 W2 {hx(k)} " + opts_tokens("sha256", None, None, 5, NOMETA, None),
                                            f"wwrite W2 {hx(b'second writer')}", "wcommit W2"]),
        ("second-writer-other-key", lambda fl: [f"wopen {fl} c0 W2 {hx(b'third key')} " + opts_tokens("sha512", None, None, 5, NOMETA, None),
                                                f"wwrite W2 {hx(b'second writer')}", "wcommit W2"]),
        ("second-writer-by-address", lambda fl: [f"wopen {fl} c0 W2 - " + opts_tokens("sha256", None, None, None, NOMETA, None),
                                                 f"wwrite W2 {hx(data)}", "wcommit W2"]),
        ("listing-and-lookups", lambda fl: ["list c0", f"metadata {fl} c0 {hx(k)}", f"read {fl} c0 {hx(k2)}"]),
    ]
    i = 0
    for name, between in betweens:
        for fl in "sa":
            for fl2 in ("sa" if name in ("clear", "remove-fully", "second-writer-first") else fl):
                # (after a `clear` the writer's temp file is unlinked: the real writer still holds its descriptor, the
                # model's writes go by path - so a writer is never fed AFTER a clear here)
                for fed_before in ((True,) if name == "clear" else (True, False) if name in ("second-writer-first", "remove-fully")
                                   else (i % 2 == 0,)):
                    prior = i % 3 != 0
                    ops = [w_oneshot("s", "sha256", k2, other)]
                    if prior:
                        ops.append(w_oneshot("a", "sha256", k, old))
                    ops.append(f"wopen {fl} c0 W1 {hx(k)} " + opts_tokens("sha256", None, None, 7, NOMETA, None))
                    if fed_before:
                        ops.append(f"wwrite W1 {hx(data)}")
                    ops += between(fl2)
                    bi = len(ops) - 1
                    if not fed_before:
                        ops.append(f"wwrite W1 {hx(data)}")
                    ops.append(f"metadata s c0 {hx(k)}"); before = len(ops) - 1
                    ops.append("wcommit W1"); ci = len(ops) - 1
                    ops.append(f"metadata s c0 {hx(k)}")
                    ops.append(f"metadata a c0 {hx(k)}")
                    ops.append(f"read s c0 {hx(k)}")
                    ops.append(f"read a c0 {hx(k2)}")
                    ops.append("list c0")
                    ops.append("dump c0/tmp")
                    ops.append("dump c0")
                    progs.append(Program(f"held-{name}-{fl}{fl2}-{'fed' if fed_before else 'empty'}", ops,
                                         tags={"held": ci, "before": before, "data": data, "other": other, "cleared": name == "clear",
                                               "both_binaries": i % 3 == 0, "variety": ("held", name, fl, fl2, fed_before)}))
                    i += 1
    return progs


def mon_held_writer(rr):
    out = []
    t = rr.prog.tags
    ci = t["held"]
    n = len(rr.impl)
    if n < len(rr.prog.ops):
        return out
    commit = toks(rr.impl[ci])
    sig = {"op": "wcommit", "api": rr.prog.ops[[j for j, o in enumerate(rr.prog.ops) if o.startswith("wopen ") and " W1 " in o][0]].split(" ")[1],
           "between": rr.prog.name.split("-", 1)[1].rsplit("-", 2)[0]}
    m_s, m_a, rd = meta_of_line(rr.impl[ci + 1]), meta_of_line(rr.impl[ci + 2]), toks(rr.impl[ci + 3])
    if commit[0] == "ok":
        if rd[0] != "ok" or unhx(rd[1]) != t["data"]:
            out.append(Failure("committed_not_readable", ci + 3, f"a writer held across other operations committed ok but its key reads "
                               f"{' '.join(rd[:3])[:60]}", sig=sig))
        for m, i in ((m_s, ci + 1), (m_a, ci + 2)):
            if not isinstance(m, dict) or m.get("size") != len(t["data"]):
                out.append(Failure("committed_not_found", i, "a writer held across other operations committed ok but a lookup of its key "
                                   f"answers {norm(rr.impl[i])[:50]}", sig=sig))
    else:
        if norm(rr.impl[ci + 1]) != norm(rr.impl[t["before"]]):
            out.append(Failure("failed_commit_changed_lookup", ci + 1, f"the commit answered {' '.join(commit[:3])} but the lookup of its key changed",
                               sig=sig))
    if not t["cleared"]:
        r2 = toks(rr.impl[ci + 4])
        if r2[0] != "ok" or unhx(r2[1]) != t["other"]:
            out.append(Failure("bystander_lost", ci + 4, "another key no longer reads its value", sig=sig))
    if norm(rr.impl[-2]) != "ok":
        out.append(Failure("tmp_left", n - 2, f"temp file left behind after the held writer's commit ({' '.join(commit[:2])})", sig=sig))
    return out


# ---------------------------------------------------------------------------------------------
# commit from another working directory (the cache is named by a relative path)
# ---------------------------------------------------------------------------------------------

def gen_cd_commit_programs():
    """The harness hands cache directories to the library as RELATIVE paths.  A writer is opened, the process changes
    directory, the writer commits (`wcommit_cd`).  Wherever the entry ends up - the model says: below the new directory -
    its index record and its content are in ONE cache: every record found in either candidate cache names content that
    is present in the same cache."""
    progs = []
    data = b"committed from another directory " * 5
    i = 0
    for fl in "sa":
        for keyed in (True, False):
            for algo in ("sha256", "sha1"):
                for big in (False, True) if algo == "sha256" else (False,):
                    d = data * (9000 if big else 1)          # big: beyond the mapping limit
                    k = hx(b"cdk") if keyed else "-"
                    ops = ["mkdir d2", f"wopen {fl} c0 W1 {k} " + opts_tokens(algo, len(d) if i % 2 else None, None, 11, NOMETA, None),
                           f"wwrite W1 {hx(d)}", "wcommit_cd W1 d2"]
                    ci = len(ops) - 1
                    ops += ["dump c0", "dump d2"]
                    progs.append(Program(f"cd-commit-{fl}-{'keyed' if keyed else 'byaddr'}-{algo}{'-big' if big else ''}", ops,
                                         tags={"cd": ci, "data": d, "algo": algo, "keyed": keyed, "both_binaries": i % 2 == 0,
                                               "variety": ("cd-commit", fl, keyed, algo, big)}))
                    i += 1
    return progs


def _caches_in(files, root):
    """{cache root: {rel path: bytes}} for every directory below `root` that has an index-v5 or content-v2."""
    out = {}
    for p, b in files.items():
        for area in ("/index-v5/", "/content-v2/", "/tmp/"):
            if area in p:
                c = p.split(area)[0]
                out.setdefault(c, {})[p[len(c) + 1:]] = b
    return out


def mon_cd_commit(rr):
    out = []
    t = rr.prog.tags
    ci = t["cd"]
    if len(rr.impl) < len(rr.prog.ops):
        return out
    commit = toks(rr.impl[ci])
    sig = {"op": "wcommit_cd", "api": rr.prog.ops[1].split(" ")[1], "keyed": t["keyed"]}
    caches = {}
    for di, root in ((ci + 1, "c0"), (ci + 2, "d2")):
        files, links, dirs = parse_dump(rr.impl[di])
        caches.update(_caches_in(files, root))
    want = L.content_rel(L.sri_of(t["algo"], t["data"]))
    if commit[0] != "ok":
        out.append(Failure("write_failed", ci, f"healthy commit from another directory -> {' '.join(commit[:3])}", sig=sig))
        return out
    if unhx(commit[1]).decode(errors="replace") != L.sri_of(t["algo"], t["data"]):
        out.append(Failure("wrong_address", ci, "the commit's integrity is not the digest of the bytes written", sig=sig))
    holders = [c for c, fs in caches.items() if fs.get(want) == t["data"]]
    if not holders:
        out.append(Failure("content_missing", ci, "the commit answered ok but no cache holds the content at its address", sig=sig))
    recs = 0
    for c, fs in caches.items():
        for p, b in fs.items():
            if p.startswith("index-v5/"):
                for r in L.decode_bucket(b):
                    if r.get("integrity"):
                        recs += 1
                        parsed = L.sri_parse(r["integrity"])
                        cp = L.content_rel(r["integrity"]) if parsed else None
                        if cp and cp not in fs:
                            out.append(Failure("entry_split_across_caches", ci, f"the index record of the commit is in {c} but its content is not "
                                               f"(content found in: {holders})", sig=sig))
            if p.startswith("tmp/"):
                out.append(Failure("tmp_left", ci, f"temp file left in {c}", sig=sig))
    if t["keyed"] and recs == 0:
        out.append(Failure("record_missing", ci, "the keyed commit answered ok but no cache holds an index record", sig=sig))
    return out


# ---------------------------------------------------------------------------------------------
# a pending write polled again with a longer slice
# ---------------------------------------------------------------------------------------------

def gen_grow_programs():
    """An async `write` that is still pending is polled again with a LONGER slice that starts with the same bytes
    (what `tokio::io::copy` does when it tops its buffer up meanwhile); what was not acknowledged goes through
    `write_all`.  Every byte has been accepted exactly once: the commit's integrity is the digest of all of them, the
    key reads them, the recorded size is their number, a declared size / integrity of all of them is satisfied.
    Implementation only (whether the first poll is pending is the runtime's business)."""
    progs = []
    big = bytes((i * 7 + 3) % 251 for i in range(3 << 20))
    shapes = [
        ("plain-keyed-big", "x676b", None, False, [(big, b"the tail that arrived meanwhile " * 40)]),
        ("plain-keyed-twice", "x676c", None, False, [(big[: 2 << 20], big[: 1 << 20]), (big[5:][: 2 << 20], b"end")]),
        ("plain-sized-big", "x676d", "all", False, [(big, b"tail" * 1000)]),
        ("plain-declared-big", "x676e", None, True, [(big, b"tail" * 1000)]),
        ("mapped-by-address", "-", "all", False, [(big[:300000], big[:200000])]),
        ("mapped-keyed-declared", "x676f", "all", True, [(big[:600000], big[:400000])]),
        ("plain-by-address-small", "-", None, False, [(b"AAAAA", b"BBB"), (b"CC", b"D")]),
    ]
    for name, key, size, declared, pairs in shapes:
        allb = b"".join(a + b for a, b in pairs)
        sri = L.sri_of("sha256", allb) if declared else None
        ops = [f"wopen a c0 W1 {key} " + opts_tokens("sha256", len(allb) if size == "all" else None, sri, 13, NOMETA, None)]
        for a, b in pairs:
            ops.append(f"wwrite_grow W1 {hx(a)} {hx(b)}")
        ops.append("wcommit W1"); ci = len(ops) - 1
        if key != "-":
            ops.append(f"read s c0 {key}")
            ops.append(f"metadata a c0 {key}")
        else:
            ops.append(f"read_hash s c0 {sri_tok('sha256', allb)}")
        ops += ["dump c0/content-v2", "dump c0/tmp"]
        progs.append(Program(f"grow-{name}", ops, model=False, tags={"grow": ci, "keyed": key != "-", "all": allb, "async_only": True,
                                                                     "both_binaries": True, "variety": ("grow", name)}))
    return progs


def mon_grow(rr):
    out = []
    t = rr.prog.tags
    ci = t["grow"]
    if len(rr.impl) < len(rr.prog.ops) or any(toks(l)[0] in ("panic", "hang") for l in rr.impl):
        return [Failure("panic", min(len(rr.impl), len(rr.prog.ops)) - 1, "a writer polled again with a longer slice panicked / hung", sig={"op": "wwrite_grow"})]
    sig = {"op": "wcommit", "shape": rr.prog.name}
    for j in range(1, ci):
        g = toks(rr.impl[j])
        if g[0] != "ok":
            out.append(Failure("write_failed", j, f"wwrite_grow -> {' '.join(g[:3])}", sig={"op": "wwrite_grow", "shape": rr.prog.name}))
            return out
    commit = toks(rr.impl[ci])
    allb = t["all"]
    if commit[0] != "ok":
        out.append(Failure("write_failed", ci, f"every byte was accepted, the declarations hold, yet the commit -> {' '.join(commit[:3])}", sig=sig))
        return out
    if unhx(commit[1]).decode(errors="replace") != L.sri_of("sha256", allb):
        out.append(Failure("wrong_address", ci, "the commit's integrity is not the digest of the bytes the writer accepted", sig=sig))
    rd = toks(rr.impl[ci + 1])
    if rd[0] != "ok" or unhx(rd[1]) != allb:
        got = f"{len(unhx(rd[1]))} bytes" if rd[0] == "ok" and len(rd) > 1 else " ".join(rd[:3])
        out.append(Failure("wrong_bytes", ci + 1, f"the writer accepted {len(allb)} bytes but reading them back gives {got}", sig=sig))
    if t["keyed"]:
        m = meta_of_line(rr.impl[ci + 2])
        if isinstance(m, dict) and m.get("size") != len(allb):
            out.append(Failure("wrong_size_recorded", ci, f"the entry records size {m.get('size')} but the writer accepted {len(allb)} bytes",
                               sig={"op": "wcommit", "field": "size"}))
    if norm(rr.impl[-1]) != "ok":
        out.append(Failure("tmp_left", len(rr.impl) - 1, "temp file left behind", sig={"op": "wwrite_grow"}))
    return out


# ---------------------------------------------------------------------------------------------
# records and keys far beyond the usual sizes
# ---------------------------------------------------------------------------------------------

def gen_big_record_programs():
    """Index records of 70 kB and of more than 1 MiB (a long key, big JSON metadata, big raw metadata), keys of more
    than 64 KiB that agree in their first 64 KiB and in their length, and a live record followed by more than 64 KiB of
    records of other keys in the same bucket file.  After every step lookups (sync and async), reads and the listing
    answer what was written; removing one long key fully leaves the other."""
    progs = []
    ka = b"a" * 65536 + b"x" * 5000
    kb = b"a" * 65536 + b"y" * 5000
    ops = [w_oneshot("s", "sha256", ka, b"value of the first long key"), w_oneshot("a", "sha256", kb, b"value of the second long key")]
    exp = {}
    for fl in "sa":
        for k, v in ((ka, b"value of the first long key"), (kb, b"value of the second long key")):
            ops.append(f"read {fl} c0 {hx(k)}"); exp[len(ops) - 1] = v
    ops.append("list c0"); li = len(ops) - 1
    ops.append(f"remove_fully s c0 {hx(ka)}")
    ops.append(f"metadata s c0 {hx(ka)}"); gone = len(ops) - 1
    for fl in "sa":
        ops.append(f"read {fl} c0 {hx(kb)}"); exp[len(ops) - 1] = b"value of the second long key"
    ops.append("dump c0/index-v5")
    progs.append(Program("big-long-keys-shared-prefix", ops, tags={"bigrec": exp, "absent": [gone], "listed": {li: 2},
                                                                    "buckets": (len(ops) - 1, ["c0/" + L.bucket_rel(kb)]), "variety": ("bigrec", "long-keys")}))
    # big attachments
    for name, meta, raw, key in (
            ("meta-70k", {"blob": "m" * 70000}, None, b"bigmeta"),
            ("raw-40k", None, bytes(range(256)) * 160, b"bigraw"),
            ("meta-1200k", {"blob": "M" * 1200000, "n": 1}, None, b"hugemeta"),
            ("key-1100k", None, None, b"K" * 1100000)):
        exp, absent, listed = {}, [], {}
        v1, v2 = b"first value", b"second value, the one that counts"
        ops = [f"wopen s c0 W1 {hx(key)} " + opts_tokens("sha256", None, None, 3, NOMETA, None), f"wwrite W1 {hx(v1)}", "wcommit W1"]
        ops += [f"wopen a c0 W2 {hx(key)} " + opts_tokens("sha256", None, None, 4, meta if meta is not None else NOMETA, raw),
                f"wwrite W2 {hx(v2)}", "wcommit W2"]
        metas = {}
        for fl in "sa":
            ops.append(f"read {fl} c0 {hx(key)}"); exp[len(ops) - 1] = v2
            ops.append(f"metadata {fl} c0 {hx(key)}"); metas[len(ops) - 1] = (4, len(v2), meta, raw)
        ops.append("list c0"); listed[len(ops) - 1] = 1
        ops.append(f"remove s c0 {hx(key)}")
        for fl in "sa":
            ops.append(f"metadata {fl} c0 {hx(key)}"); absent.append(len(ops) - 1)
        ops.append("list c0"); listed[len(ops) - 1] = 0
        progs.append(Program(f"big-{name}", ops, tags={"bigrec": exp, "absent": absent, "listed": listed, "metas": metas,
                                                        "both_binaries": name == "meta-1200k", "variety": ("bigrec", name)}))
    # a live record followed by > 64 KiB of foreign records in the same bucket
    key = "crowded"
    A = (key, L.sri_of("sha256", b"crowded value"), 1, 13, None, None)
    frames = rec_frame(A) + b"".join(rec_frame((f"foreign key number {j}", L.sri_of("sha1", b"f%d" % j), 10 + j, 2, {"j": j}, None)) for j in range(700))
    bp = bucket_path(key.encode())
    ops = [f"put {bp} {hx(frames)}", f"write_hash s c0 sha256 {hx(b'crowded value')}"]
    exp, metas = {}, {}
    for fl in "sa":
        ops.append(f"read {fl} c0 {hx(key.encode())}"); exp[len(ops) - 1] = b"crowded value"
        ops.append(f"metadata {fl} c0 {hx(key.encode())}"); metas[len(ops) - 1] = (1, 13, None, None)
    progs.append(Program("big-crowded-bucket", ops, tags={"bigrec": exp, "absent": [], "listed": {}, "metas": metas, "variety": ("bigrec", "crowded")}))
    return progs


def mon_big_record(rr):
    out = []
    t = rr.prog.tags
    if len(rr.impl) < len(rr.prog.ops):
        return out
    for i, v in t["bigrec"].items():
        rd = toks(rr.impl[i])
        if rd[0] != "ok" or unhx(rd[1]) != v:
            out.append(Failure("wrong_read", i, f"{rr.prog.ops[i][:40]}…: expected the {len(v)} bytes last written, got {' '.join(rd[:2])[:50]}",
                               sig={"op": "read", "api": rr.prog.ops[i].split(' ')[1], "shape": rr.prog.name}))
    for i, (tm, size, meta, raw) in t.get("metas", {}).items():
        m = meta_of_line(rr.impl[i])
        ok = isinstance(m, dict) and m["time"] == tm and m["size"] == size and (meta is None or m["json"] == meta) and m["raw"] == raw
        if not ok:
            got = "nothing" if m is None else ("an error" if m == "ERR" else f"time {m['time']} size {m['size']}")
            out.append(Failure("wrong_lookup", i, f"{rr.prog.ops[i][:40]}…: the lookup answers {got}, not the last write's record "
                               f"(time {tm}, size {size})", sig={"op": "metadata", "api": rr.prog.ops[i].split(' ')[1], "shape": rr.prog.name}))
    for i in t["absent"]:
        if meta_of_line(rr.impl[i]) is not None:
            out.append(Failure("removed_key_found", i, f"{rr.prog.ops[i][:40]}…: a removed key is still found / the lookup fails",
                               sig={"op": "metadata", "shape": rr.prog.name}))
    for i, n in t["listed"].items():
        items = list_items(rr.impl[i])
        if items is None or len([x for x in items if not x.startswith("err")]) != n or len(items) != n:
            out.append(Failure("wrong_listing", i, f"the listing has {None if items is None else len(items)} items, expected {n}",
                               sig={"op": "list", "shape": rr.prog.name}))
    if "buckets" in t:
        di, want = t["buckets"]
        files, links, dirs = parse_dump(rr.impl[di])
        have = sorted(p for p in files)
        if have != sorted(want):
            out.append(Failure("wrong_buckets", di, f"after removing one long key fully the index holds {have[:3]}, expected {want}",
                               sig={"op": "dump", "shape": rr.prog.name}))
    return out


# ---------------------------------------------------------------------------------------------
# multi-hash addresses: content swapped for bytes that match only a WEAKER hash
# ---------------------------------------------------------------------------------------------

def gen_weaker_hash_programs():
    """An entry whose integrity names two algorithms - the strongest addresses and governs - and whose content file
    is replaced by bytes matching only the WEAKER hash (the bytes of another valid entry): every checked retrieval, one
    shot or streamed, by key or by that address, is an error; nothing hands the other bytes out."""
    progs = []
    i = 0
    for strong, weak in (("sha512", "sha1"), ("sha256", "sha1"), ("sha512", "sha256"), ("sha384", "sha256")):
        for fl in "sa":
            data = b"the data stored under the strongest hash %d" % i
            othr = b"bytes of another valid entry %d" % i
            decl = L.sri_of(strong, data) + " " + L.sri_of(weak, othr)
            k, k2 = b"wk%d" % i, b"wo%d" % i
            ops = [w_oneshot(fl, weak, k2, othr),
                   f"wopen {fl} c0 W1 {hx(k)} " + opts_tokens(strong, None, decl, 3, NOMETA, None), f"wwrite W1 {hx(data)}", "wcommit W1"]
            ci = len(ops) - 1
            ops.append(f"read {fl} c0 {hx(k)}"); good = len(ops) - 1
            ops.append(f"put {content_path(strong, data)} {hx(othr)}")
            checks = []
            for f2 in "sa":
                ops.append(f"read {f2} c0 {hx(k)}"); checks.append(len(ops) - 1)
                ops.append(f"read_hash {f2} c0 {hx(decl.encode())}"); checks.append(len(ops) - 1)
                ops.append(f"copy {f2} c0 {hx(k)} out/w{f2}"); checks.append(len(ops) - 1)
            ops.append(f"ropen {fl} c0 R1 {hx(k)}"); ro = len(ops) - 1
            ops.append("rreadall R1"); ops.append("rcheck R1"); rc = len(ops) - 1
            ops.append("dump out")
            progs.append(Program(f"weaker-hash-{strong}-{weak}-{fl}", ops,
                                 tags={"weaker": checks, "commit": ci, "good": good, "rcheck": rc, "data": data, "other": othr,
                                       "both_binaries": i % 2 == 0, "variety": ("weaker", strong, weak, fl)}))
            i += 1
    return progs


def mon_weaker_hash(rr):
    out = []
    t = rr.prog.tags
    if len(rr.impl) < len(rr.prog.ops):
        return out
    if toks(rr.impl[t["commit"]])[0] != "ok":
        return out                      # the declaration was not accepted: nothing to swap
    g = toks(rr.impl[t["good"]])
    if g[0] != "ok" or unhx(g[1]) != t["data"]:
        out.append(Failure("wrong_bytes", t["good"], "an entry committed with a two-algorithm integrity does not read back", sig={"op": "read"}))
    for i in t["weaker"]:
        r = toks(rr.impl[i])
        if r[0] == "ok":
            name = rr.prog.ops[i].split(" ")[0]
            out.append(Failure("wrong_bytes", i, f"{name} answered ok although the content file holds bytes that match only the WEAKER hash of "
                               "the address", sig={"op": name, "flavour_tok": rr.prog.ops[i].split(' ')[1]}))
    if toks(rr.impl[t["rcheck"]])[0] == "ok":
        out.append(Failure("wrong_bytes", t["rcheck"], "streamed read + check succeeded on bytes that match only the weaker hash", sig={"op": "rcheck"}))
    files, links, dirs = parse_dump(rr.impl[-1])
    for p, b in files.items():
        if b == t["other"]:
            out.append(Failure("wrong_bytes", len(rr.impl) - 1, f"a checked copy left the other entry's bytes at {p}", sig={"op": "copy"}))
    return out


# ---------------------------------------------------------------------------------------------
# a declared integrity without any hash
# ---------------------------------------------------------------------------------------------

def gen_empty_declaration_programs():
    """`WriteOpts::integrity` given an `Integrity` with NO hash (the empty string and blank strings parse to one): the data
    cannot satisfy it - the commit is rejected with the integrity error and no lookup changes (keyed and by address,
    both flavours, with and without an earlier value of the key)."""
    progs = []
    i = 0
    for fl in "sa":
        for key in (b"ed", None):
            for decl in ("", " ", "\t \n"):
                for prior in (True, False):
                    if key is None and prior:
                        continue
                    ops = [w_oneshot("s", "sha256", b"bystander", b"stays")]
                    if prior:
                        ops.append(w_oneshot("a", "sha256", key, b"the earlier value"))
                    k = hx(key) if key else "-"
                    if key:
                        ops.append(f"metadata s c0 {k}")
                    before = len(ops) - 1
                    ops += [f"wopen {fl} c0 W1 {k} " + opts_tokens("sha256", None, decl, 5, NOMETA, None), f"wwrite W1 {hx(b'new data')}", "wcommit W1"]
                    ci = len(ops) - 1
                    if key:
                        ops += [f"metadata s c0 {k}", f"metadata a c0 {k}"]
                    ops += ["list c0", "dump c0/tmp"]
                    progs.append(Program(f"empty-declaration-{fl}-{'keyed' if key else 'byaddr'}-{i}", ops,
                                         tags={"emptydecl": ci, "before": before if key else None, "both_binaries": i % 3 == 0,
                                               "variety": ("emptydecl", fl, key is None, decl, prior)}))
                    i += 1
    return progs


def mon_empty_declaration(rr):
    out = []
    t = rr.prog.tags
    ci = t["emptydecl"]
    if len(rr.impl) < len(rr.prog.ops):
        return out
    commit = toks(rr.impl[ci])
    sig = {"op": "wcommit", "api": rr.prog.ops[ci - 2].split(" ")[1], "keyed": t["before"] is not None}
    if commit[0] == "ok":
        out.append(Failure("accepted_wrong_integrity", ci, "a commit with a declared integrity that names no hash at all answered ok", sig=sig))
    if t["before"] is not None:
        for j in (ci + 1, ci + 2):
            if norm(rr.impl[j]).split(" time=")[0] != norm(rr.impl[t["before"]]).split(" time=")[0] or norm(rr.impl[j]) != norm(rr.impl[t["before"]]):
                out.append(Failure("rejected_commit_changed_lookup", j, f"after the rejected commit the lookup answers {norm(rr.impl[j])[:60]}", sig=sig))
    if norm(rr.impl[-1]) != "ok":
        out.append(Failure("tmp_left", len(rr.impl) - 1, "temp file left behind by the rejected commit", sig=sig))
    return out


# ---------------------------------------------------------------------------------------------
# removing a linked entry whose target is gone
# ---------------------------------------------------------------------------------------------

def gen_dangling_link_removal_programs():
    """A `link_to` entry whose target file has been deleted meanwhile (the content path is a DANGLING symlink): a full
    removal / a removal by address still takes the cache's own name away - the link - so that the address does not come
    back to life when a file reappears at the old target path."""
    progs = []
    d = b"a target that goes away"
    st = sri_tok("sha256", d)
    for fl in "sa":
        for how in ("remove_fully", "remove_hash"):
            key = b"dangling-" + how.encode()
            ops = [f"put tgt/gone.bin {hx(d)}", f"link_to {fl} c0 {hx(key)} abs:tgt/gone.bin", f"read {fl} c0 {hx(key)}", "del tgt/gone.bin",
                   (f"remove_fully {fl} c0 {hx(key)}" if how == "remove_fully" else f"remove_hash {fl} c0 {st}")]
            ri = len(ops) - 1
            ops += ["dump c0/content-v2", f"put tgt/gone.bin {hx(d)}", f"exists {fl} c0 {st}", f"read_hash {fl} c0 {st}", f"metadata {fl} c0 {hx(key)}"]
            progs.append(Program(f"dangling-{how}-{fl}", ops, tags={"dangling": ri, "how": how, "variety": ("dangling", how, fl)}))
    return progs


def mon_dangling_link_removal(rr):
    out = []
    t = rr.prog.tags
    ri = t["dangling"]
    if len(rr.impl) < len(rr.prog.ops):
        return out
    sig = {"op": t["how"], "api": rr.prog.ops[ri].split(" ")[1]}
    res = toks(rr.impl[ri])
    files, links, dirs = parse_dump(rr.impl[ri + 1])
    if res[0] == "ok" and (links or files):
        out.append(Failure("removal_left_content", ri + 1, f"{t['how']} answered ok but the content area still holds {sorted(list(links) + list(files))[:1]}",
                           sig=sig))
    if res[0] == "ok" and norm(rr.impl[ri + 3]) != "ok false":
        out.append(Failure("removed_address_alive", ri + 3, f"after {t['how']} answered ok, and a file reappeared at the old target path, the address "
                           f"exists again: {norm(rr.impl[ri + 3])[:30]}", sig=sig))
    if res[0] == "ok" and toks(rr.impl[ri + 4])[0] == "ok":
        out.append(Failure("removed_address_alive", ri + 4, "a removed address is readable again", sig=sig))
    if t["how"] == "remove_fully" and res[0] == "ok" and meta_of_line(rr.impl[ri + 5]) is not None:
        out.append(Failure("removed_key_found", ri + 5, "the fully removed key is still found", sig=sig))
    return out


# ---------------------------------------------------------------------------------------------
# a bucket file that is a symbolic link
# ---------------------------------------------------------------------------------------------

def gen_linked_bucket_programs():
    """A cache whose bucket file is a symbolic link to a file kept elsewhere (a cache seeded as a link farm, a bucket moved
    to another disk and linked back): lookups follow the link - and so does the listing; what is listed is what the
    lookups find."""
    progs = []
    for variant, target in (("abs", "abs:far/b"), ("rel", "rel:../../../../far/b")):
        key = "linkedbucket-" + variant
        k2 = "plain"
        A = (key, L.sri_of("sha256", b"bucket behind a link"), 1, 20, {"v": variant}, None)
        T2 = (key, L.sri_of("sha256", b"bucket behind a link"), 2, 20, None, None)
        ops = [f"put far/b {hx(rec_frame(A) + rec_frame(T2))}", f"symlink {bucket_path(key.encode())} {target}",
               f"write_hash s c0 sha256 {hx(b'bucket behind a link')}", w_oneshot("a", "sha256", k2.encode(), b"a plain entry")]
        steps = []
        for fl in "sa":
            for k in (key, k2):
                ops.append(f"metadata {fl} c0 {hx(k.encode())}"); steps.append((len(ops) - 1, "meta", k.encode(), None, None))
            ops.append("list c0"); steps.append((len(ops) - 1, "list", None, None, None))
        ops.append(f"read s c0 {hx(key.encode())}")
        progs.append(Program(f"linked-bucket-{variant}", ops, tags={"steps": steps, "listing_only": True, "linkedbucket": True,
                                                                    "variety": ("linked-bucket", variant)}))
    return progs


def mon_linked_bucket(rr):
    from .props import mon_list_agrees_with_lookup
    out = mon_list_agrees_with_lookup(rr)
    for (i, kind, k, _, _) in rr.prog.tags["steps"]:
        if kind == "meta" and i < len(rr.impl) and not norm(rr.impl[i]).startswith("ok meta "):
            out.append(Failure("lookup_through_linked_bucket", i, f"the lookup of {k!r} answers {norm(rr.impl[i])[:40]}", sig={"op": "metadata"}))
        if kind == "list" and i < len(rr.impl):
            items = list_items(rr.impl[i])
            if items is None or len(items) != 2:
                out.append(Failure("list_omits_linked_bucket", i, f"the listing has {None if items is None else len(items)} items; two keys are live "
                                   "(one of them in a bucket file that is a symbolic link)", sig={"op": "list"}))
    return out


# ---------------------------------------------------------------------------------------------
# linking from a working directory that no longer exists
# ---------------------------------------------------------------------------------------------

def gen_gone_cwd_link_programs():
    """'from any working directory': the process sits in a directory that has been removed; cache and target are given by
    ABSOLUTE paths, so the link is made all the same, reads back, and the target is untouched."""
    progs = []
    d = b"linked from a vanished working directory"
    for fl in "sa":
        key = b"gonecwd-" + fl.encode()
        ops = [f"put tgt/file.bin {hx(d)}", f"link_to_gone {fl} c0 {hx(key)} abs:tgt/file.bin"]
        li = 1
        ops += [f"read s c0 {hx(key)}", f"read a c0 {hx(key)}", f"metadata {fl} c0 {hx(key)}", "cat tgt/file.bin",
                f"stat {content_path('sha256', d)}", "dump c0/tmp"]
        progs.append(Program(f"gone-cwd-link-{fl}", ops, tags={"gonecwd": li, "data": d, "both_binaries": True, "variety": ("gone-cwd", fl)}))
    return progs


def mon_gone_cwd_link(rr):
    out = []
    t = rr.prog.tags
    li, d = t["gonecwd"], t["data"]
    if len(rr.impl) < len(rr.prog.ops):
        return out
    sig = {"op": "link_to", "api": rr.prog.ops[li].split(" ")[1]}
    res = toks(rr.impl[li])
    if res[0] != "ok":
        out.append(Failure("link_failed", li, f"linking an existing file by absolute path from a working directory that was removed -> "
                           f"{' '.join(res[:3])}", sig=sig))
        return out
    for j in (li + 1, li + 2):
        rd = toks(rr.impl[j])
        if rd[0] != "ok" or unhx(rd[1]) != d:
            out.append(Failure("wrong_bytes", j, f"the linked key reads {' '.join(rd[:2])[:40]}", sig=sig))
    m = meta_of_line(rr.impl[li + 3])
    if not isinstance(m, dict) or m.get("size") != len(d):
        out.append(Failure("wrong_size_recorded", li + 3, "the linked entry does not record the target's true size", sig=sig))
    cat = toks(rr.impl[li + 4])
    if cat[0] != "ok" or unhx(cat[1]) != d:
        out.append(Failure("target_touched", li + 4, "the link target changed", sig=sig))
    if norm(rr.impl[li + 5]) != "ok symlink":
        out.append(Failure("copied_instead_of_linked", li + 5, f"the content path is {norm(rr.impl[li + 5])[:30]}, not a symbolic link", sig=sig))
    return out


def skeleton_sample():
    """Programs of the round-9 families whose every operation is compared, system call by system call, with the model's
    call trace (`leg_skeleton`): held writers, commits from another directory, dangling-link removals, symlinked
    buckets, hash-less declarations, records without a size, missing content.  (Not: reflink extractions - the
    `reflink-copy` crate probes with a create + unlink of its own -, and `link_to_gone`, whose mkdir / rmdir are the
    harness' own.)"""
    from . import props as P
    held = [p for p in gen_held_writer_programs() if p.name.endswith("-fed")][::3][:10]
    cd = [p for p in gen_cd_commit_programs() if "big" not in p.name][:6]
    unsized = [p for p in P.gen_unsized_record_programs() if "reflink" not in p.name][::2][:4]
    missing = [p for p in P.gen_missing_content_programs() if "reflink" not in p.name][::3][:6]
    return (held + cd + gen_dangling_link_removal_programs() + gen_linked_bucket_programs() +
            gen_empty_declaration_programs()[::4][:5] + unsized + missing)


# ---------------------------------------------------------------------------------------------
# round 10: declarations naming ANOTHER entry; link targets of awkward sizes; mixed-algorithm declarations;
# extraction by a key that has been removed fully
# ---------------------------------------------------------------------------------------------

def gen_foreign_declaration_programs():
    """C01 by key: a keyed write of D that DECLARES the integrity of another cached entry E (same algorithm).  The commit is
    rejected; whatever it answers, no checked retrieval by that key ever hands out E's bytes - they were never stored
    under it."""
    progs = []
    i = 0
    for fl in "sa":
        for algo in ("sha256", "sha1", "sha512"):
            E, D = b"the other entry's bytes %d" % i, b"what is written under the key %d" % i
            k1, k2 = b"fe%d" % i, b"fd%d" % i
            ops = [w_oneshot("s", algo, k1, E),
                   f"wopen {fl} c0 W1 {hx(k2)} " + opts_tokens(algo, None, L.sri_of(algo, E), 3, NOMETA, None), f"wwrite W1 {hx(D)}", "wcommit W1"]
            ci = len(ops) - 1
            checks = []
            for f2 in "sa":
                ops.append(f"read {f2} c0 {hx(k2)}"); checks.append(len(ops) - 1)
                ops.append(f"copy {f2} c0 {hx(k2)} out/f{f2}"); checks.append(len(ops) - 1)
            ops.append(f"ropen {fl} c0 R1 {hx(k2)}"); ops.append("dump out")
            progs.append(Program(f"foreign-declaration-{algo}-{fl}", ops,
                                 tags={"foreigndecl": checks, "commit": ci, "data": D, "other": E, "both_binaries": i % 2 == 0,
                                       "variety": ("foreigndecl", algo, fl)}))
            i += 1
    return progs


def mon_foreign_declaration(rr):
    out = []
    t = rr.prog.tags
    if len(rr.impl) < len(rr.prog.ops):
        return out
    for i in t["foreigndecl"]:
        r = toks(rr.impl[i])
        name = rr.prog.ops[i].split(" ")[0]
        if r[0] == "ok" and (name == "copy" or unhx(r[1]) != t["data"]):
            # (a copy that answers ok is judged by the destination below)
            if name == "read":
                out.append(Failure("wrong_bytes", i, "a checked read by key returned bytes that were never stored under that key (the bytes of the "
                                   "entry whose integrity the writer had DECLARED)", sig={"op": "read", "flavour_tok": rr.prog.ops[i].split(' ')[1]}))
    files, links, dirs = parse_dump(rr.impl[-1])
    for p, b in files.items():
        if b == t["other"]:
            out.append(Failure("wrong_bytes", len(rr.impl) - 1, f"a checked copy by key left another entry's bytes at {p}", sig={"op": "copy"}))
    if toks(rr.impl[t["commit"]])[0] == "ok":
        out.append(Failure("accepted_wrong_integrity", t["commit"], "a commit whose data does not match the declared integrity answered ok",
                           sig={"op": "wcommit", "api": rr.prog.ops[t["commit"] - 2].split(" ")[1]}))
    return out


def gen_link_size_programs():
    """Link targets of 0, 1, 2, 7, 8, 9, 10, 16 391 .. 16 394 and 32 777 bytes (the linker reads an 8-byte probe and then
    16 KiB blocks), linked in one go and through a handle read with buffers that leave one byte over: the address is the
    digest of the WHOLE target, the recorded size its length, and the key reads it back."""
    progs = []
    sizes = [0, 1, 2, 7, 8, 9, 10, 16391, 16392, 16393, 16394, 32777]
    i = 0
    for n in sizes:
        d = bytes((j * 31 + n) % 251 for j in range(n))
        for fl in "sa":
            key = b"ls%d%s" % (n, fl.encode())
            ops = [f"put tgt/t{n}.bin {hx(d)}", f"link_to {fl} c0 {hx(key)} abs:tgt/t{n}.bin"]
            li = 1
            ops += [f"read s c0 {hx(key)}", f"metadata a c0 {hx(key)}"]
            progs.append(Program(f"link-size-{n}-{fl}", ops, tags={"linksize": li, "data": d, "both_binaries": i % 5 == 0, "variety": ("linksize", n, fl)}))
            i += 1
    # through a handle, with reads that leave one byte over
    for n, reads in ((13, [4, 4, 4, 4]), (9, [8, 8]), (3, [1, 1, 1, 1]), (16393, [16384, 16384]), (5, [2, 2])):
        d = bytes((j * 17 + n) % 253 for j in range(n))
        for fl in "sa":
            key = b"lh%d%s" % (n, fl.encode())
            ops = [f"put tgt/h{n}.bin {hx(d)}", f"lopen_auto {fl} c0 L1 {hx(key)} abs:tgt/h{n}.bin"]
            for b in reads:
                ops.append(f"lread L1 {b}")
            ops.append("lcommit L1"); li = len(ops) - 1
            ops += [f"read s c0 {hx(key)}", f"metadata a c0 {hx(key)}"]
            progs.append(Program(f"link-handle-{n}-{fl}", ops, tags={"linksize": li, "data": d, "variety": ("linkhandle", n, fl)}))
    return progs


def mon_link_size(rr):
    out = []
    t = rr.prog.tags
    li, d = t["linksize"], t["data"]
    if len(rr.impl) < len(rr.prog.ops):
        return out
    sig = {"op": rr.prog.ops[li].split(" ")[0], "len": len(d)}
    res = toks(rr.impl[li])
    if res[0] != "ok":
        out.append(Failure("link_failed", li, f"linking a {len(d)}-byte file -> {' '.join(res[:3])}", sig=sig))
        return out
    if unhx(res[1]).decode(errors="replace") != L.sri_of("sha256", d):
        out.append(Failure("wrong_address", li, f"the link's integrity is not the digest of the {len(d)}-byte target", sig=sig))
    rd = toks(rr.impl[li + 1])
    if rd[0] != "ok" or unhx(rd[1]) != d:
        out.append(Failure("wrong_bytes", li + 1, f"the linked key reads {' '.join(rd[:2])[:40]}", sig=sig))
    m = meta_of_line(rr.impl[li + 2])
    if not isinstance(m, dict) or m.get("size") != len(d):
        out.append(Failure("wrong_size_recorded", li + 2, f"the linked entry records size {m.get('size') if isinstance(m, dict) else m}, the target has {len(d)} bytes",
                           sig=sig))
    return out


def gen_mixed_declaration_programs():
    """C17 ('data lives at content-v2/<algorithm>/<hex digest>' of the RECORDED integrity): a writer hashing with a weaker
    algorithm while the declaration lists a stronger one first (right or wrong), and the reverse.  Whatever the commit
    answers: every record in the index names content that is there - at the address of its strongest hash - with bytes
    of that digest."""
    progs = []
    i = 0
    d = b"mixed declaration data"
    for fl in "sa":
        for walgo, decl, name in (
                ("sha256", lambda: L.sri_of("sha512", b"something else") + " " + L.sri_of("sha256", d), "strong-wrong-weak-right"),
                ("sha256", lambda: L.sri_of("sha512", d) + " " + L.sri_of("sha256", d), "both-right-writer-weak"),
                ("sha512", lambda: L.sri_of("sha512", d) + " " + L.sri_of("sha256", d), "both-right-writer-strong"),
                ("sha1", lambda: L.sri_of("sha384", b"x") + " " + L.sri_of("sha1", d), "strong-wrong-weak-right-sha1"),
                ("sha512", lambda: L.sri_of("sha512", d) + " " + L.sri_of("sha1", b"something else"), "strong-right-weak-wrong")):
            key = b"mx%d" % i
            ops = [w_oneshot("s", "sha256", b"bystander", b"stays"),
                   f"wopen {fl} c0 W1 {hx(key)} " + opts_tokens(walgo, None, decl(), 3, NOMETA, None), f"wwrite W1 {hx(d)}", "wcommit W1"]
            ci = len(ops) - 1
            ops += [f"metadata s c0 {hx(key)}", f"read {fl} c0 {hx(key)}", "dump c0"]
            progs.append(Program(f"mixed-declaration-{name}-{fl}", ops, tags={"mixeddecl": ci, "data": d, "both_binaries": i % 3 == 0,
                                                                               "variety": ("mixeddecl", name, fl)}))
            i += 1
    return progs


def mon_mixed_declaration(rr):
    out = []
    t = rr.prog.tags
    ci = t["mixeddecl"]
    if len(rr.impl) < len(rr.prog.ops):
        return out
    sig = {"op": "wcommit", "api": rr.prog.ops[ci - 2].split(" ")[1], "shape": rr.prog.name.rsplit("-", 1)[0]}
    files, links, dirs = parse_dump(rr.impl[-1])
    for p, b in files.items():
        if p.startswith("c0/index-v5/"):
            recs = L.decode_bucket(b)
            for key in {r["key"] for r in recs}:
                cur = L.lookup(recs, key)
                if cur is None:
                    continue
                cp = "c0/" + L.content_rel(cur["integrity"])
                algo = L.sri_parse(cur["integrity"])[0][0]
                if cp not in files:
                    out.append(Failure("layout_record_without_content", ci, f"the index maps {key!r} to {cur['integrity'][:30]}… but nothing is at "
                                       f"content-v2/{algo}/<its hex digest>", sig=sig))
                elif L.sri_of(algo, files[cp]).split("-", 1)[1] not in cur["integrity"]:
                    out.append(Failure("layout_content_mismatch", ci, f"the content at the address recorded for {key!r} does not have that digest", sig=sig))
    if toks(rr.impl[ci])[0] == "ok":
        rd = toks(rr.impl[ci + 2])
        if rd[0] != "ok" or unhx(rd[1]) != t["data"]:
            out.append(Failure("committed_not_readable", ci + 2, f"the commit answered ok but the key reads {' '.join(rd[:3])[:40]}", sig=sig))
    return out


def gen_removed_key_extraction_programs():
    """C18 ('a missing key yields the not-found error'): two keys share their content, both are removed FULLY (the second
    removal finds the content gone already), or the content is removed by address first; afterwards every extraction by
    key answers the ENTRY-not-found error - not an I/O error - and creates nothing."""
    from .props import EXTRACT_BY_KEY, SYNC_ONLY
    progs = []
    i = 0
    d = b"content shared by two keys"
    for rfl in "sa":
        for how in ("both-fully", "hash-then-fully"):
            k1, k2 = b"rk1-%d" % i, b"rk2-%d" % i
            ops = [w_oneshot("s", "sha256", k1, d), w_oneshot("a", "sha256", k2, d)]
            if how == "both-fully":
                ops += [f"remove_fully {rfl} c0 {hx(k1)}", f"remove_fully {rfl} c0 {hx(k2)}"]
            else:
                ops += [f"remove_hash {rfl} c0 {sri_tok('sha256', d)}", f"remove_fully {rfl} c0 {hx(k2)}"]
            ri = len(ops) - 1
            checks = []
            for name in EXTRACT_BY_KEY:
                for fl in ("s",) if name in SYNC_ONLY else ("s", "a"):
                    ops.append(f"{name} {fl} c0 {hx(k2)} out/x"); checks.append(len(ops) - 1)
            ops.append(f"metadata s c0 {hx(k2)}"); mi = len(ops) - 1
            ops.append("dump out")
            progs.append(Program(f"removed-key-extraction-{how}-{rfl}", ops, tags={"removedkey": checks, "removal": ri, "meta": mi,
                                                                                    "both_binaries": i % 2 == 0, "variety": ("removedkey", how, rfl)}))
            i += 1
    return progs


def mon_removed_key_extraction(rr):
    out = []
    t = rr.prog.tags
    if len(rr.impl) < len(rr.prog.ops):
        return out
    if toks(rr.impl[t["removal"]])[0] != "ok":
        return out
    sig0 = {"removal": rr.prog.ops[t["removal"]].split(" ")[1]}
    if meta_of_line(rr.impl[t["meta"]]) is not None:
        out.append(Failure("removed_key_found", t["meta"], "a key removed fully (ok) is still found by a lookup", sig=dict(sig0, op="metadata")))
    for i in t["removedkey"]:
        r = toks(rr.impl[i])
        name = rr.prog.ops[i].split(" ")[0]
        if r[:2] != ["err", "notfound"]:
            out.append(Failure("missing_key_wrong_error", i, f"{name} by a key that was removed fully -> {' '.join(r[:3])}, expected the entry-not-found error",
                               sig=dict(sig0, op=name, api=rr.prog.ops[i].split(' ')[1])))
    files, links, dirs = parse_dump(rr.impl[-1])
    if files or links:
        out.append(Failure("extraction_created_file", len(rr.impl) - 1, "an extraction by a removed key created a file", sig=dict(sig0, op="dump")))
    return out


# ---------------------------------------------------------------------------------------------
# the algebraic laws of Lemmas/SpecLaws.lean, run against the implementation: twin caches c0 / c1
# ---------------------------------------------------------------------------------------------

def _ins(fl, c, key, data, t):
    return f"index_insert {fl} {c} {hx(key)} sri={sri_tok('sha256', data)} time={t} size={len(data)} meta=- raw=-"


def _wr(n, fl, c, key, data, t):
    w = f"W{n}"
    return [f"wopen {fl} {c} {w} {hx(key)} " + opts_tokens("sha256", None, None, t, NOMETA, None),
            f"wwrite {w} {hx(data)}", f"wcommit {w}"]


def gen_law_programs(kinds=("shadow", "reads", "commute", "idempotent")):
    """The laws proved in `Lemmas/SpecLaws.lean` (Props/C05x, C09x, C10x, C15x, C16x) as metamorphic programs: the same
    history is run in two caches of ONE program, differing only in what the law says is unobservable (a shadowed operation,
    the reads and listings, the order of two operations on different keys, a repeated removal, a repeated by-address
    write); every explicit time is fixed so that the answers are comparable text.  The model runs the program too (the
    usual correspondence); `mon_laws` compares the two halves of the IMPLEMENTATION's answers with each other."""
    progs = []
    K, K2, K3 = b"law-key", b"law-other", b"law-third"
    d1, d2, d3, d4 = b"first bytes", b"second, longer bytes", b"third", b"by address only"
    for fl in "sa":
        # (1) shadowing: op1 ; op2 on one key  ~  op2 alone, for every later history
        for name, op1, op2 in (("ins-ins", lambda c: [_ins(fl, c, K, d1, 5)], lambda c: [_ins(fl, c, K, d2, 7)]),
                               ("ins-del", lambda c: [_ins(fl, c, K, d1, 5)], lambda c: [f"index_delete {fl} {c} {hx(K)}"]),
                               ("ins-remove", lambda c: [_ins(fl, c, K, d1, 5)], lambda c: [f"remove {fl} {c} {hx(K)}"]),
                               ("del-ins", lambda c: [f"index_delete {fl} {c} {hx(K)}"], lambda c: [_ins(fl, c, K, d2, 7)]),
                               ("find-ins", lambda c: [f"index_find {fl} {c} {hx(K)}"], lambda c: [_ins(fl, c, K, d2, 7)])):
            ops, pairs = [], []
            ops += op1("c0")
            a = len(ops); ops += op2("c0")
            b = len(ops); ops += op2("c1")
            pairs.append((a, b))
            n = 0
            def later(c):
                nonlocal n
                n += 1
                return ([f"metadata {fl} {c} {hx(K)}", f"index_find {fl} {c} {hx(K)}", f"list {c}", f"read {fl} {c} {hx(K)}"] +
                        _wr(n, fl, c, K2, d3, 11) +
                        [f"metadata {fl} {c} {hx(K2)}", f"read {fl} {c} {hx(K2)}", f"list {c}", f"remove {fl} {c} {hx(K)}",
                         f"metadata {fl} {c} {hx(K)}", _ins(fl, c, K, d1, 13), f"metadata {fl} {c} {hx(K)}", f"list {c}"])
            a = len(ops); l0 = later("c0"); ops += l0
            b = len(ops); ops += later("c1")
            pairs += [(a + i, b + i) for i in range(len(l0))]
            progs.append(Program(f"law-shadow-{name}-{fl}", ops, tags={"laws": pairs, "law": "shadow", "both_binaries": True,
                                                                       "variety": ("laws", "shadow", name, fl)}))
        # (2) reads and listings are invisible
        n = 0
        def base(c, reads):
            nonlocal n
            out, idx = [], []
            def rd(*xs):
                if reads:
                    out.extend(xs)
            def op(*xs):
                for x in xs:
                    idx.append(len(out)); out.append(x)
            n += 1; op(*_wr(n, fl, c, K, d1, 3)); rd(f"read {fl} {c} {hx(K)}", f"list {c}")
            n += 1; op(*_wr(n, fl, c, K2, d2, 4)); rd(f"metadata {fl} {c} {hx(K2)}", f"read_hash {fl} {c} {sri_tok('sha256', d1)}")
            op(f"remove {fl} {c} {hx(K)}"); rd(f"read {fl} {c} {hx(K)}", f"exists {fl} {c} {sri_tok('sha256', d1)}", f"list {c}")
            op(_ins(fl, c, K3, d1, 6)); rd(f"index_find {fl} {c} {hx(K3)}", f"read {fl} {c} {hx(K3)}")
            n += 1; op(*_wr(n, fl, c, K, d3, 9)); rd(f"list {c}", f"metadata {fl} {c} {hx(b'never written')}")
            op(f"write_hash {fl} {c} sha256 {hx(d4)}"); rd(f"read_hash {fl} {c} {sri_tok('sha256', d4)}")
            op(f"remove_hash {fl} {c} {sri_tok('sha256', d2)}"); rd(f"read {fl} {c} {hx(K2)}", f"exists {fl} {c} {sri_tok('sha256', d2)}")
            op(f"remove_fully {fl} {c} {hx(K3)}"); rd(f"list {c}", f"metadata {fl} {c} {hx(K3)}", f"read {fl} {c} {hx(K3)}", f"index_find {fl} {c} {hx(K3)}")
            # final observations (compared as well)
            op(f"list {c}", f"metadata {fl} {c} {hx(K)}", f"metadata {fl} {c} {hx(K2)}", f"metadata {fl} {c} {hx(K3)}",
               f"read {fl} {c} {hx(K)}", f"read {fl} {c} {hx(K2)}", f"read_hash {fl} {c} {sri_tok('sha256', d4)}",
               f"exists {fl} {c} {sri_tok('sha256', d1)}")
            return out, idx
        o0, i0 = base("c0", True)
        o1, i1 = base("c1", False)
        o0.append("dump c0"); o1.append("dump c1")
        ops = o0 + o1
        pairs = [(x, len(o0) + y) for x, y in zip(i0, i1)]
        progs.append(Program(f"law-reads-invisible-{fl}", ops, tags={"laws": pairs, "law": "reads", "both_binaries": True,
                                                                     "lawdump": (len(o0) - 1, len(ops) - 1),
                                                                     "variety": ("laws", "reads", fl)}))
        # (3) operations on different keys commute
        for name, opa, opb in (("ins-remove", lambda c: _ins(fl, c, K, d2, 7), lambda c: f"remove {fl} {c} {hx(K2)}"),
                               ("remove-remove", lambda c: f"remove {fl} {c} {hx(K)}", lambda c: f"remove {fl} {c} {hx(K2)}"),
                               ("ins-ins", lambda c: _ins(fl, c, K, d2, 7), lambda c: _ins(fl, c, K3, d3, 8)),
                               ("find-remove", lambda c: f"index_find {fl} {c} {hx(K)}", lambda c: f"index_delete {fl} {c} {hx(K)[:-2]}6b")):
            ops, pairs = [], []
            for c in ("c0", "c1"):
                ops += [_ins(fl, c, K, d1, 1), _ins(fl, c, K2, d1, 2)]
            a0 = len(ops); ops.append(opa("c0")); b0 = len(ops); ops.append(opb("c0"))
            b1 = len(ops); ops.append(opb("c1")); a1 = len(ops); ops.append(opa("c1"))
            pairs += [(a0, a1), (b0, b1)]
            for q in (f"list C", f"metadata {fl} C {hx(K)}", f"metadata {fl} C {hx(K2)}", f"metadata {fl} C {hx(K3)}"):
                x = len(ops); ops.append(q.replace(" C", " c0")); y = len(ops); ops.append(q.replace(" C", " c1"))
                pairs.append((x, y))
            progs.append(Program(f"law-commute-{name}-{fl}", ops, tags={"laws": pairs, "law": "commute", "both_binaries": fl == "s",
                                                                        "variety": ("laws", "commute", name, fl)}))
        # (4) repeated removals / repeated by-address writes change nothing more
        ops = _wr(1, fl, "c0", K, d1, 3) + _wr(2, fl, "c0", K2, d2, 4) + [f"write_hash {fl} c0 sha256 {hx(d4)}"]
        ops += [f"remove_fully {fl} c0 {hx(K)}"]; x = len(ops); ops += ["dump c0", f"remove_fully {fl} c0 {hx(K)}"]; y = len(ops); ops += ["dump c0"]
        same = [(x, y)]
        ops += [f"write_hash {fl} c0 sha256 {hx(d4)}"]; z = len(ops); ops += ["dump c0"]; same.append((y, z))
        ops += [f"remove {fl} c0 {hx(K2)}", f"metadata {fl} c0 {hx(K2)}", f"remove {fl} c0 {hx(K2)}"]; m1 = len(ops) - 2
        ops += [f"metadata {fl} c0 {hx(K2)}"]; m2 = len(ops) - 1; same.append((m1, m2))
        ops += [f"clear {fl} c0"]; u = len(ops); ops += ["dump c0", f"clear {fl} c0"]; v = len(ops); ops += ["dump c0"]; same.append((u, v))
        progs.append(Program(f"law-idempotent-{fl}", ops, tags={"laws": same, "law": "idempotent", "both_binaries": True,
                                                                "nopanic": list(range(len(ops))), "variety": ("laws", "idempotent", fl)}))
    return [p for p in progs if p.tags["law"] in kinds]


import re as _re
_NOW_RE = _re.compile(r"\s*@now=\d+")


def mon_laws(rr):
    out = []
    t = rr.prog.tags
    if len(rr.impl) < len(rr.prog.ops):
        return out
    for a, b in t["laws"]:
        x, y = _NOW_RE.sub("", norm(rr.impl[a])).strip(), _NOW_RE.sub("", norm(rr.impl[b])).strip()
        if t["law"] != "idempotent":
            y = y.replace("c1/", "c0/")
        if x != y:
            out.append(Failure("law_" + t["law"], b,
                               f"`{rr.prog.ops[a][:60]}` -> {x[:120]}   BUT   `{rr.prog.ops[b][:60]}` -> {y[:120]}  "
                               f"(law of Lemmas/SpecLaws: the two must agree)",
                               sig={"law": t["law"], "op": rr.prog.ops[b].split(" ")[0], "prog": rr.prog.name}))
    if "lawdump" in t:
        a, b = t["lawdump"]
        fa, la, da = parse_dump(rr.impl[a]); fb, lb, db = parse_dump(rr.impl[b])
        pa = sorted(set(fa) | set(la) | da)
        pb = sorted(x.replace("c1", "c0", 1) for x in set(fb) | set(lb) | db)
        if pa != pb:
            diff = sorted(set(pa) ^ set(pb))
            out.append(Failure("law_reads_mutated", a, f"the history WITH reads and listings left other files / directories than the same history "
                               f"without them: {diff[:4]}", sig={"law": "reads", "op": "dump"}))
    for i, line in enumerate(rr.impl):
        if norm(line).startswith(("panic", "hang")):
            out.append(Failure("law_panic", i, f"`{rr.prog.ops[i][:80]}` -> {norm(line)}", sig={"law": t["law"], "op": rr.prog.ops[i].split(" ")[0]}))
    return out
