"""System-call trace leg (see /verif/TRACE.md).

Runs the harness under `strace -f -y`, cuts the log into per-op slices with the `@@OP i` /
`@@END i` markers the harness writes when DRIVE_MARK=1, and reduces every slice to canonical
mutation events (`mkdir P`, `mktemp D/*`, `write P n`, `rename P Q`, ...).

    run_traced(flavour, ops, scratch=None, inject=None, timeout=120, keep=False) -> TraceResult
    skeleton(events_i, drop_tmp_writes=True) -> list[str]
    count_syscalls(flavour, ops, names) -> int
    python3 lib/vf/trace.py --selftest [flavour ...]

Only the standard library is used.  Nothing in the parser raises on strange strace output; lines
that cannot be understood are collected in `TraceResult.unparsed`.
"""
import os, re, sys, shutil, signal, subprocess, itertools, time
from dataclasses import dataclass, field

if __package__ in (None, ""):                      # run as a script: python3 lib/vf/trace.py
    sys.path.insert(0, os.path.dirname(os.path.dirname(os.path.abspath(__file__))))
    from vf import common as C
else:
    from . import common as C

# The set asked for by TRACE.md ...
TRACE_SET = ["mkdir", "mkdirat", "open", "openat", "creat", "write", "pwrite64", "writev", "fallocate",
             "ftruncate", "truncate", "mmap", "rename", "renameat", "renameat2", "link", "linkat",
             "symlink", "symlinkat", "unlink", "unlinkat", "rmdir", "copy_file_range", "sendfile",
             "chmod", "fchmod", "utimensat", "close"]
# ... plus what turned out to be needed: chdir/fchdir (to resolve the relative paths of the non-`at`
# calls; the harness chdirs into the scratch dir), fchmodat and openat2 (other spellings of calls
# already in the set; never seen so far, but a libc/std update must not make mutations invisible).
TRACE_EXTRA = ["chdir", "fchdir", "fchmodat", "openat2", "pwritev", "pwritev2"]

_counter = itertools.count()


@dataclass
class TraceResult:
    impl_lines: list            # stdout of the harness, one result line per op
    events: list                # events[i] = canonical events of op i (list of str)
    raw_path: str               # the strace log (None if it was removed: keep=False and nothing odd)
    rc: int                     # exit status of the harness (negative = -signal)
    killed: bool                # the harness died from a signal
    unparsed: list = field(default_factory=list)     # strace lines the parser did not understand
    prelude: list = field(default_factory=list)      # events before `@@OP 0` (scratch dir set-up)
    after: dict = field(default_factory=dict)        # i -> events between `@@END i` and the next `@@OP`
    unfinished: list = field(default_factory=list)   # calls that never returned (killed run)
    counts: dict = field(default_factory=dict)       # syscall name -> number of calls entered (all threads)
    counts_by_pid: dict = field(default_factory=dict)  # pid -> {name -> n}; strace's when=N counts PER THREAD
    op_ended: list = field(default_factory=list)     # op_ended[i]: the `@@END i` marker was seen
    stderr: str = ""            # stderr of the harness (diagnostics and the markers)
    scratch: str = ""           # the scratch directory that was used
    timed_out: bool = False
    paused: bool = False        # pause_hook ran (the process was stopped by an injected SIGSTOP and continued)

    def __iter__(self):         # allows  impl, events, raw, rc, killed = run_traced(...)
        return iter((self.impl_lines, self.events, self.raw_path, self.rc, self.killed))


# ---------------------------------------------------------------------------------------------
# strace line syntax
# ---------------------------------------------------------------------------------------------

_LINE_RE = re.compile(r"^(?:\[pid\s+)?(\d+)\]?\s+(.*)$")
_RESUMED_RE = re.compile(r"^<\.\.\. (\w+) resumed>\s?(.*)$")
_CALL_RE = re.compile(r"^(\w+)\((.*)$", re.S)
_RET_RE = re.compile(r"^\s*=\s*(\?|-?\d+|0x[0-9a-fA-F]+)(?:<(.*?)>)?"
                     r"(?:\s+([A-Z][A-Z0-9_]+)(?:\s+\(.*?\))?)?\s*(\(INJECTED\))?\s*$")
_MARK_RE = re.compile(r'"@@(OP|END) (\d+)\\n"')
_FD_RE = re.compile(r"^(-?\d+|AT_FDCWD)(?:<(.*)>)?$", re.S)
_UNFINISHED = " <unfinished ...>"
_OCT = "01234567"
_ESC = {"n": 10, "t": 9, "r": 13, "v": 11, "f": 12, "a": 7, "b": 8, "e": 27, '"': 34, "\\": 92, "'": 39}


def _scan_call(text):
    """`a, "b, c", 3</x (deleted)>, {..}) = 0 ...` -> ([raw args], text after the closing paren).
    Returns None if the closing parenthesis is missing."""
    args, cur, depth, i, n = [], [], 0, 0, len(text)
    while i < n:
        ch = text[i]
        if ch == '"':                                   # quoted string with C escapes
            j = i + 1
            while j < n and text[j] != '"':
                j += 2 if text[j] == "\\" else 1
            cur.append(text[i:j + 1])
            i = j + 1
            continue
        if ch == "<" and cur and (cur[-1][-1:].isdigit() or "".join(cur[-8:]).endswith("AT_FDCWD")):
            # fd annotation of `-y`; may contain parentheses (" (deleted)") and commas
            j = i + 1
            while j < n and not (text[j] == ">" and (j + 1 == n or text[j + 1] in ",)"
                                                        or text.startswith("(deleted)", j + 1))):
                j += 1
            cur.append(text[i:j + 1])
            i = j + 1
            if text.startswith("(deleted)", i):         # strace 6.x: `3</path>(deleted)`
                i += 9
            continue
        if ch in "([{":
            depth += 1
        elif ch in "]}" or (ch == ")" and depth > 0):
            depth -= 1
        elif ch == ")":                                 # the end of the argument list
            last = "".join(cur).strip()
            if last or args:
                args.append(last)
            return args, text[i + 1:]
        elif ch == "," and depth == 0:
            args.append("".join(cur).strip())
            cur = []
            i += 1
            continue
        cur.append(ch)
        i += 1
    return None


def _unquote(tok):
    """strace string literal -> str (None if `tok` is not a complete literal, e.g. NULL or an address)."""
    tok = tok.strip()
    if tok.endswith("..."):
        tok = tok[:-3]
    if len(tok) < 2 or tok[0] != '"' or tok[-1] != '"':
        return None
    s, out, i = tok[1:-1], bytearray(), 0
    while i < len(s):
        ch = s[i]
        if ch != "\\" or i + 1 >= len(s):
            out += ch.encode("utf-8", "surrogateescape")
            i += 1
            continue
        nx = s[i + 1]
        if nx in _OCT:
            j = i + 1
            while j < len(s) and j < i + 4 and s[j] in _OCT:
                j += 1
            out.append(int(s[i + 1:j], 8) & 0xFF)
            i = j
        elif nx == "x" and i + 3 < len(s) + 1:
            try:
                out.append(int(s[i + 2:i + 4], 16))
                i += 4
            except ValueError:
                out += b"\\x"
                i += 2
        else:
            out.append(_ESC.get(nx, ord(nx) & 0xFF))
            i += 2
    return out.decode("utf-8", "surrogateescape")


def _int(tok, default=None):
    try:
        return int(tok.strip(), 0) if not re.fullmatch(r"0[0-7]+", tok.strip()) else int(tok.strip(), 8)
    except (ValueError, AttributeError):
        return default


def _flags(tok):
    return [f for f in re.split(r"\s*\|\s*", tok.strip()) if f]


# ---------------------------------------------------------------------------------------------
# canonicalisation
# ---------------------------------------------------------------------------------------------

_NOT_FILES = ("pipe:", "socket:", "anon_inode:", "/dev/", "/proc/", "/sys/", "net:", "mnt:")
_ACC = ("O_RDONLY", "O_WRONLY", "O_RDWR")
_OPEN_ORDER = ["O_CREAT", "O_EXCL", "O_TRUNC", "O_APPEND", "O_TMPFILE", "O_DIRECTORY", "O_NOFOLLOW",
               "O_SYNC", "O_DSYNC", "O_DIRECT", "O_PATH"]
_OPEN_DROP = {"O_CLOEXEC", "O_LARGEFILE", "O_NONBLOCK", "O_NOCTTY", "O_NOATIME"}


class _Parser:
    def __init__(self, scratch, cwd):
        self.scratch = scratch.rstrip("/") or "/"
        self.cwd = cwd
        self.pending = {}           # pid -> text of an unfinished call
        self.fds = {}               # fallback fd table (only used when -y gave no annotation)
        self.prelude, self.events, self.after = [], [], {}
        self.op_ended = []
        self.cur, self.in_op = -1, False
        self.unparsed, self.counts, self.by_pid = [], {}, {}
        self.main_pid, self.killed_sig, self.exit_rc = None, None, None
        self.never_returned = []
        self.links = {}             # absolute path of a symlink created in this run -> its text

    # ---- paths ----
    def _strip_deleted(self, p):
        return p[:-10] if p.endswith(" (deleted)") else p

    def rel(self, p):
        """absolute path -> path relative to scratch (with temp names masked), or None if outside."""
        p = self._strip_deleted(p)
        if p == self.scratch:
            return "."
        if not p.startswith(self.scratch + "/"):
            return None
        r = p[len(self.scratch) + 1:]
        m = re.match(r"^(c\d+/tmp)/[^/]+$", r)
        return m.group(1) + "/*" if m else r

    def absolute(self, base, p):
        if p is None:
            return None
        if not p.startswith("/"):
            p = os.path.join(base or self.cwd, p)
        return os.path.normpath(p)

    def fd(self, tok):
        """`7</a/b>` -> (7, '/a/b');  `AT_FDCWD</cwd>` -> ('AT_FDCWD', '/cwd');  `7` -> (7, table or None)."""
        m = _FD_RE.match(tok.strip())
        if not m:
            return None, None
        num = m.group(1) if m.group(1) == "AT_FDCWD" else int(m.group(1))
        path = m.group(2)
        if num == "AT_FDCWD":
            if path:
                self.cwd = path
            return num, path or self.cwd
        if path is None:
            path = self.fds.get(num)
        return num, (self._strip_deleted(path) if path else None)

    def at(self, dirtok, pathtok):
        _, base = self.fd(dirtok)
        return self.absolute(base, _unquote(pathtok))

    # ---- event sink ----
    def sink(self):
        if self.cur < 0:
            return self.prelude
        return self.events[self.cur] if self.in_op else self.after.setdefault(self.cur, [])

    def emit(self, ev):
        lst = self.sink()
        if ev.startswith("OUTSIDE ") and lst and lst[-1] == ev:
            return                                      # same finding from the name and from the fd
        lst.append(ev)

    def mut(self, call, abspath):
        """canonical name of the target of a mutating call; emits OUTSIDE and returns None if outside."""
        if abspath is None:
            return None
        r = self.rel(abspath)
        if r is None:
            self.emit(f"OUTSIDE {call} {self._strip_deleted(abspath)}")
            return None
        real = self.through_links(abspath)
        if real != abspath and self.rel(real) is None:  # lexically inside, but a directory component
            self.emit(f"OUTSIDE {call} {real}")         # is a symlink (made in this run) that leaves
        return r

    def through_links(self, p):
        """Resolve the DIRECTORY components of `p` through the symlinks created during this run
        (strace shows path names as given; only fd annotations are resolved by the kernel)."""
        if not self.links:
            return p
        for _ in range(40):
            comps = p.strip("/").split("/")
            pre, hit = "", False
            for k, c in enumerate(comps[:-1]):
                pre += "/" + c
                if pre in self.links:
                    t = self.links[pre]
                    base = t if t.startswith("/") else os.path.join(os.path.dirname(pre), t)
                    p = os.path.normpath(os.path.join(base, *comps[k + 1:]))
                    hit = True
                    break
            if not hit:
                break
        return p

    def src(self, abspath):
        r = self.rel(abspath) if abspath else None
        return r if r is not None else f"OUTSIDE:{abspath}"

    # ---- log lines ----
    def feed(self, line):
        line = line.rstrip("\n")
        if not line.strip():
            return
        m = _LINE_RE.match(line)
        if not m:
            self.unparsed.append(line)
            return
        pid, rest = int(m.group(1)), m.group(2)
        if self.main_pid is None:
            self.main_pid = pid
        if rest.startswith("+++"):
            k = re.match(r"\+\+\+ killed by (\w+)", rest)
            x = re.match(r"\+\+\+ exited with (\d+)", rest)
            if k:                                       # a fatal signal takes the whole process down
                self.killed_sig = k.group(1)
            elif x and pid == self.main_pid:
                self.exit_rc = int(x.group(1))
            return
        if rest.startswith("---"):                      # signal delivery
            return
        r = _RESUMED_RE.match(rest)
        if r:
            head = self.pending.pop(pid, None)
            if head is None:
                self.unparsed.append(line)
                return
            rest = head + r.group(2)
        elif rest.endswith(_UNFINISHED):
            text = rest[:-len(_UNFINISHED)]
            self.pending[pid] = text
            c = _CALL_RE.match(text)
            if c:
                self.count(pid, c.group(1))
            return
        c = _CALL_RE.match(rest)
        if not c:
            self.unparsed.append(line)
            return
        name = c.group(1)
        if not r:
            self.count(pid, name)
        try:
            scanned = _scan_call(c.group(2))
            ret = _RET_RE.match(scanned[1]) if scanned else None
            if not ret:
                self.unparsed.append(line)
                return
            self.call(name, scanned[0], ret.group(1), ret.group(2), ret.group(3), bool(ret.group(4)), f"{pid} {rest}")
        except Exception as e:                          # never raise on odd input
            self.unparsed.append(f"{line}    [parser: {type(e).__name__}: {e}]")

    def count(self, pid, name):
        self.counts[name] = self.counts.get(name, 0) + 1
        d = self.by_pid.setdefault(pid, {})
        d[name] = d.get(name, 0) + 1

    def finish(self):
        return self.never_returned + [f"{pid} {t}" for pid, t in self.pending.items()]

    # ---- one complete system call ----
    def call(self, name, a, ret, ret_path, errno, injected, line):
        if name in ("write", "pwrite64", "writev", "pwritev", "pwritev2") and len(a) >= 2:
            mk = _MARK_RE.search(a[1]) if a[0].split("<")[0].strip() == "2" else None
            if mk:
                i = int(mk.group(2))
                if mk.group(1) == "OP":
                    while len(self.events) <= i:
                        self.events.append([])
                        self.op_ended.append(False)
                    self.cur, self.in_op = i, True
                else:
                    if i < len(self.op_ended):
                        self.op_ended[i] = True
                    self.in_op = False
                return
        if injected:
            # a fault injected into a call on a descriptor that is no file (the runtime's eventfd / wake-up pipe, a
            # socket) is no fault of "a filesystem operation issued on behalf of a cache call": reported under another
            # name, so that the fault legs do not count the run
            m = re.match(r"^\s*(\d+)<([^/].*)>\s*$", a[0]) if a else None
            if m and m.group(1) in ("1", "2"):
                self.emit(f"stdio-injected {name} {errno or ret}")          # the harness's own diagnostics
            elif m:
                self.emit(f"nonfs-injected {name} {errno or ret} {m.group(2)[:40]}")
            else:
                self.emit(f"injected {name} {errno or ret}")
            return
        if ret == "?":                                  # the process died inside the call
            self.never_returned.append(line)
            return
        if errno or ret.startswith("-"):
            return                                      # failed: no event
        val = _int(ret, 0)
        h = getattr(self, "sc_" + name, None)
        if h is None:
            return                                      # traced for bookkeeping only / unknown
        h(a, val, ret_path)

    # open family
    def _open(self, call, path, flagtok, val, ret_path):
        fl = _flags(flagtok)
        real = self._strip_deleted(ret_path) if ret_path else None
        if real or path:
            self.fds[val] = real or path
        acc = next((f for f in fl if f in _ACC), "O_RDONLY")
        mutating = acc != "O_RDONLY" or "O_CREAT" in fl or "O_TRUNC" in fl or "O_TMPFILE" in fl
        if not mutating or "O_PATH" in fl:
            return
        if "O_DIRECTORY" in fl and "O_TMPFILE" not in fl and "O_CREAT" not in fl:
            return
        if real and real.startswith(_NOT_FILES) and (path is None or self.rel(path) is None):
            return                                      # /dev/null, /proc/..., not a regular file
        p = self.mut(call, path)
        if p is None:
            return
        if real and self.rel(real) is None and not real.startswith(_NOT_FILES):
            self.emit(f"OUTSIDE {call} {real}")         # went through a symlink that leaves the scratch dir
        if "O_CREAT" in fl and "O_EXCL" in fl and os.path.basename(os.path.dirname(path)) == "tmp":
            d = self.rel(os.path.dirname(path))
            self.emit(f"mktemp {d}/*")
        elif "O_CREAT" in fl and "O_APPEND" in fl:
            self.emit(f"open-append-create {p}")
        else:
            rest = [f for f in _OPEN_ORDER if f in fl]
            rest += sorted(f for f in fl if f not in _ACC and f not in _OPEN_ORDER and f not in _OPEN_DROP)
            self.emit(f"open-create {p} " + "|".join([acc] + rest))

    def sc_openat(self, a, val, rp):
        self._open("openat", self.at(a[0], a[1]), a[2] if len(a) > 2 else "", val, rp)

    def sc_open(self, a, val, rp):
        self._open("open", self.absolute(None, _unquote(a[0])), a[1] if len(a) > 1 else "", val, rp)

    def sc_creat(self, a, val, rp):
        self._open("creat", self.absolute(None, _unquote(a[0])), "O_WRONLY|O_CREAT|O_TRUNC", val, rp)

    def sc_openat2(self, a, val, rp):
        m = re.search(r"flags=([A-Z_|0-9x]+)", a[2] if len(a) > 2 else "")
        self._open("openat2", self.at(a[0], a[1]), m.group(1) if m else "", val, rp)

    def sc_close(self, a, val, rp):
        num, _ = self.fd(a[0])
        self.fds.pop(num, None)

    def sc_chdir(self, a, val, rp):
        self.cwd = self.absolute(None, _unquote(a[0]))

    def sc_fchdir(self, a, val, rp):
        _, p = self.fd(a[0])
        if p:
            self.cwd = p

    # directories
    def sc_mkdir(self, a, val, rp):
        p = self.mut("mkdir", self.absolute(None, _unquote(a[0])))
        if p is not None:
            self.emit(f"mkdir {p}")

    def sc_mkdirat(self, a, val, rp):
        p = self.mut("mkdirat", self.at(a[0], a[1]))
        if p is not None:
            self.emit(f"mkdir {p}")

    def sc_rmdir(self, a, val, rp):
        p = self.mut("rmdir", self.absolute(None, _unquote(a[0])))
        if p is not None:
            self.emit(f"rmdir {p}")

    def sc_unlink(self, a, val, rp):
        path = self.absolute(None, _unquote(a[0]))
        p = self.mut("unlink", path)
        self.links.pop(path, None)
        if p is not None:
            self.emit(f"unlink {p}")

    def sc_unlinkat(self, a, val, rp):
        what = "rmdir" if len(a) > 2 and "AT_REMOVEDIR" in a[2] else "unlink"
        path = self.at(a[0], a[1])
        p = self.mut("unlinkat", path)
        self.links.pop(path, None)
        if p is not None:
            self.emit(f"{what} {p}")

    # data
    def _write(self, call, a, val):
        num, path = self.fd(a[0])
        if val <= 0 or num in (0, 1, 2) or path is None or path.startswith(_NOT_FILES):
            return
        p = self.mut(call, path)
        if p is not None:
            self.emit(f"write {p} {val}")

    def sc_write(self, a, val, rp):
        self._write("write", a, val)

    def sc_pwrite64(self, a, val, rp):
        self._write("pwrite64", a, val)

    def sc_writev(self, a, val, rp):
        self._write("writev", a, val)

    def sc_pwritev(self, a, val, rp):
        self._write("pwritev", a, val)

    def sc_pwritev2(self, a, val, rp):
        self._write("pwritev2", a, val)

    def sc_fallocate(self, a, val, rp):
        _, path = self.fd(a[0])
        p = self.mut("fallocate", path)
        if p is not None:
            off, ln = _int(a[2], 0), _int(a[3], 0)
            mode = "" if a[1].strip() == "0" else " " + a[1].strip()
            self.emit(f"fallocate {p} {ln}" + (f" off={off}" if off else "") + mode)

    def sc_ftruncate(self, a, val, rp):
        _, path = self.fd(a[0])
        p = self.mut("ftruncate", path)
        if p is not None:
            self.emit(f"truncate {p} {_int(a[1], a[1])}")

    def sc_truncate(self, a, val, rp):
        p = self.mut("truncate", self.absolute(None, _unquote(a[0])))
        if p is not None:
            self.emit(f"truncate {p} {_int(a[1], a[1])}")

    def sc_mmap(self, a, val, rp):
        if len(a) < 5 or "PROT_WRITE" not in a[2] or "MAP_SHARED" not in a[3]:
            return
        num, path = self.fd(a[4])
        if num == -1 or path is None or path.startswith(_NOT_FILES):
            return
        p = self.mut("mmap", path)
        if p is not None:
            self.emit(f"mmap-write {p} {_int(a[1], a[1])}")

    def _copy(self, call, src_tok, dst_tok, val):
        _, s = self.fd(src_tok)
        _, d = self.fd(dst_tok)
        if d is None or d.startswith(_NOT_FILES):
            return
        q = self.mut(call, d)
        if q is None:
            return
        head = f"copy {self.src(s)} {q} "
        lst = self.sink()
        if lst and lst[-1].startswith(head) and lst[-1][len(head):].isdigit():
            lst[-1] = head + str(int(lst[-1][len(head):]) + val)
        else:
            lst.append(head + str(val))

    def sc_copy_file_range(self, a, val, rp):
        self._copy("copy_file_range", a[0], a[2], val)

    def sc_sendfile(self, a, val, rp):
        self._copy("sendfile", a[1], a[0], val)

    # names
    def _rename(self, call, old, new, flags=""):
        for x in (old, new):
            if x and self.rel(x) is None:
                self.emit(f"OUTSIDE {call} {x}")
            elif x and self.rel(self.through_links(x)) is None:
                self.emit(f"OUTSIDE {call} {self.through_links(x)}")
        if old in self.links:
            self.links[new] = self.links.pop(old)
        else:
            self.links.pop(new, None)
        if (old and self.rel(old) is not None) or (new and self.rel(new) is not None):
            fl = flags.strip()
            self.emit(f"rename {self.src(old)} {self.src(new)}" + (f" {fl}" if fl not in ("", "0") else ""))

    def sc_rename(self, a, val, rp):
        self._rename("rename", self.absolute(None, _unquote(a[0])), self.absolute(None, _unquote(a[1])))

    def sc_renameat(self, a, val, rp):
        self._rename("renameat", self.at(a[0], a[1]), self.at(a[2], a[3]))

    def sc_renameat2(self, a, val, rp):
        self._rename("renameat2", self.at(a[0], a[1]), self.at(a[2], a[3]), a[4] if len(a) > 4 else "")

    def _link(self, call, old, new):
        q = self.mut(call, new)
        if q is not None:
            self.emit(f"link {self.src(old)} {q}")

    def sc_link(self, a, val, rp):
        self._link("link", self.absolute(None, _unquote(a[0])), self.absolute(None, _unquote(a[1])))

    def sc_linkat(self, a, val, rp):
        self._link("linkat", self.at(a[0], a[1]), self.at(a[2], a[3]))

    def _symlink(self, call, text, new):
        q = self.mut(call, new)
        if q is None:
            return
        if text is not None and text.startswith(self.scratch + "/"):
            t = "abs:" + text[len(self.scratch) + 1:]
        else:
            t = f"rel:{text}"
        if text is not None:
            self.links[new] = text
        self.emit(f"symlink {t} {q}")

    def sc_symlink(self, a, val, rp):
        self._symlink("symlink", _unquote(a[0]), self.absolute(None, _unquote(a[1])))

    def sc_symlinkat(self, a, val, rp):
        self._symlink("symlinkat", _unquote(a[0]), self.at(a[1], a[2]))

    # attributes
    def _chmod(self, call, path, modetok):
        p = self.mut(call, path)
        if p is not None:
            m = _int(modetok)
            self.emit(f"chmod {p} " + (f"{m & 0o7777:04o}" if m is not None else modetok.strip()))

    def sc_chmod(self, a, val, rp):
        self._chmod("chmod", self.absolute(None, _unquote(a[0])), a[1])

    def sc_fchmod(self, a, val, rp):
        self._chmod("fchmod", self.fd(a[0])[1], a[1])

    def sc_fchmodat(self, a, val, rp):
        self._chmod("fchmodat", self.at(a[0], a[1]), a[2])

    def sc_utimensat(self, a, val, rp):
        path = self.fd(a[0])[1] if a[1].strip() == "NULL" else self.at(a[0], a[1])
        p = self.mut("utimensat", path)
        if p is not None:
            self.emit(f"utimens {p}")                   # not in TRACE.md's table; skeleton() drops it


def parse_log(log_path, scratch, cwd):
    """Parse a strace log; returns the _Parser (events, prelude, after, unparsed, counts, ...)."""
    ps = _Parser(scratch, cwd)
    try:
        with open(log_path, "r", errors="surrogateescape") as f:
            for line in f:
                try:
                    ps.feed(line)
                except Exception as e:
                    ps.unparsed.append(f"{line.rstrip()}    [parser: {type(e).__name__}: {e}]")
    except OSError as e:
        ps.unparsed.append(f"[cannot read {log_path}: {e}]")
    return ps


# ---------------------------------------------------------------------------------------------
# running
# ---------------------------------------------------------------------------------------------

def _ops_text(ops):
    if isinstance(ops, (list, tuple)):
        return "\n".join(ops) + "\n"
    return ops if ops.endswith("\n") or not ops else ops + "\n"


def _wait_stopped(pid, deadline):
    while time.time() < deadline:
        try:
            with open(f"/proc/{pid}/stat") as fh:
                st = fh.read().rsplit(")", 1)[1].split()[0]
        except OSError:
            return False
        if st in ("T", "t"):
            return True
        time.sleep(0.002)
    return False


def _all_stopped(pid):
    """Every thread of the process is in a stop state (group stop after SIGSTOP, with or without a tracer)."""
    try:
        tasks = os.listdir(f"/proc/{pid}/task")
        if not tasks:
            return False
        for t in tasks:
            with open(f"/proc/{pid}/task/{t}/stat") as fh:
                if fh.read().rsplit(")", 1)[1].split()[0] not in ("T", "t"):
                    return False
        return True
    except OSError:
        return False


def run_traced(flavour, ops, scratch=None, inject=None, timeout=120, keep=False, reuse=False,
               extra_trace=(), env_extra=None, attach=None, pause_hook=None):
    """Run `ops` (text or list of lines) on the `flavour` build under strace.

    scratch   directory to use (removed first unless reuse=True); default: a fresh one below
              common.scratch_root(), removed afterwards unless keep=True.  An explicitly given
              scratch directory is never removed afterwards.
    inject    raw strace expression, `inject=renameat,renameat2:error=ENOSPC:when=1` (the leading
              `inject=` may be omitted); a list gives several -e options.
              NOTE: strace counts `when=N` per thread (tracee), not per process.
    reuse     keep the existing content of `scratch` and set DRIVE_REUSE=1.
    """
    n = next(_counter)
    root = C.scratch_root()
    auto = scratch is None
    d = scratch or os.path.join(root, f"t{n}")
    if not reuse:
        shutil.rmtree(d, ignore_errors=True)
    os.makedirs(os.path.dirname(os.path.abspath(d)), exist_ok=True)
    real = os.path.join(os.path.realpath(os.path.dirname(os.path.abspath(d))), os.path.basename(d.rstrip("/")))
    log = os.path.join(root, f"strace-{os.getpid()}-{n}.log")
    names = list(dict.fromkeys(TRACE_SET + TRACE_EXTRA + list(extra_trace)))
    cmd = ["strace", "-f", "-y", "-s", "64", "-o", log, "-e", "trace=" + ",".join(names)]
    for inj in ([inject] if isinstance(inject, str) else list(inject or [])):
        cmd += ["-e", inj if inj.startswith(("inject=", "fault=")) else "inject=" + inj]
    env = dict(os.environ, DRIVE_MARK="1")
    env.pop("DRIVE_REUSE", None)
    if reuse:
        env["DRIVE_REUSE"] = "1"
    env.update(env_extra or {})
    if attach is None:
        # worker-mode runs (the fault / kill legs) are traced from AFTER the process start-up: strace counts
        # `when=N` per thread and per system call from the moment it traces, and the loader's and runtime's own
        # openat / read / stat calls on the main thread would otherwise use up the first few N of every sweep
        attach = env.get("DRIVE_WORKER") == "1" and os.environ.get("VERIF_ATTACH", "1") == "1"
    timed_out = False
    st = None
    if attach:
        env["DRIVE_ATTACH"] = "1"
        p = subprocess.Popen([C.drive_bin(flavour), d], stdin=subprocess.PIPE, stdout=subprocess.PIPE,
                             stderr=subprocess.PIPE, cwd=root, env=env, start_new_session=True)
        if _wait_stopped(p.pid, time.time() + 20):
            st = subprocess.Popen(cmd + ["-p", str(p.pid)], stdout=subprocess.DEVNULL, stderr=subprocess.PIPE, cwd=root)
            # strace says "Process <pid> attached" once it holds the (still stopped) process
            t_end = time.time() + 20
            buf = b""
            os.set_blocking(st.stderr.fileno(), False)
            while time.time() < t_end and b"attached" not in buf and st.poll() is None:
                try:
                    chunk = st.stderr.read()
                except OSError:
                    chunk = None
                if chunk:
                    buf += chunk
                else:
                    time.sleep(0.002)
        try:
            os.kill(p.pid, signal.SIGCONT)
        except OSError:
            pass
    else:
        p = subprocess.Popen(cmd + [C.drive_bin(flavour), d], stdin=subprocess.PIPE, stdout=subprocess.PIPE,
                             stderr=subprocess.PIPE, cwd=root, env=env, start_new_session=True)
    paused = False
    if pause_hook is not None:
        # `inject=<call>:signal=SIGSTOP:when=N`: the whole process stops (group stop) once that call has been made;
        # while it is stopped `pause_hook()` runs (another process works on the same cache), then it is continued
        t_run = time.time() + 10
        while attach and _all_stopped(p.pid) and time.time() < t_run:      # the start-up stop of attach mode is over first
            time.sleep(0.002)
        p.stdin.write(_ops_text(ops).encode()); p.stdin.close(); p.stdin = None
        t_end = time.time() + timeout
        while p.poll() is None and time.time() < t_end:
            if _all_stopped(p.pid):
                time.sleep(0.03)
                if _all_stopped(p.pid):
                    # (strace counts `when=N` per thread: another thread's N-th call stops the process again later -
                    # the hook runs at the first stop only, every stop is continued)
                    try:
                        if not paused:
                            paused = True
                            pause_hook()
                    finally:
                        try:
                            os.kill(p.pid, signal.SIGCONT)
                        except OSError:
                            pass
            time.sleep(0.004)
    try:
        out, err = p.communicate(None if pause_hook is not None else _ops_text(ops).encode(),
                                 timeout=max(1, timeout if pause_hook is None else t_end - time.time()))
    except subprocess.TimeoutExpired:
        timed_out = True
        try:
            os.killpg(p.pid, signal.SIGKILL)
        except OSError:
            pass
        out, err = p.communicate()
    rc = p.returncode
    if st is not None:
        try:
            st.wait(timeout=20)
        except subprocess.TimeoutExpired:
            st.kill(); st.wait()
    impl = out.decode(errors="replace").splitlines()
    if timed_out:
        impl.append("hang")

    # an attached tracer has not seen the harness chdir into its scratch directory
    ps = parse_log(log, real, real if attach and st is not None else os.path.realpath(root))
    unfinished = ps.finish()
    killed = ps.killed_sig is not None or (rc < 0 and not timed_out)
    if ps.killed_sig is not None:
        rc = -getattr(signal, ps.killed_sig, signal.SIGKILL)
    elif ps.exit_rc is not None and not timed_out:
        rc = ps.exit_rc
    events, after = ps.events, ps.after
    if (killed or timed_out) and events and (len(events) - 1) in after:
        events[-1].extend(after.pop(len(events) - 1))    # TRACE.md: trailing calls of a killed run -> last op

    odd = bool(ps.unparsed) or timed_out
    if auto and not keep:
        shutil.rmtree(d, ignore_errors=True)
    raw = log
    if not keep and not odd:
        try:
            os.remove(log)
        except OSError:
            pass
        raw = None
    return TraceResult(impl_lines=impl, events=events, raw_path=raw, rc=rc, killed=killed,
                       unparsed=ps.unparsed, prelude=ps.prelude, after=after, unfinished=unfinished,
                       counts=ps.counts, counts_by_pid=ps.by_pid, op_ended=ps.op_ended,
                       stderr=err.decode(errors="replace"), scratch=d, timed_out=timed_out, paused=paused)


_TMP_RE = re.compile(r"^c\d+/tmp/\*$")


def skeleton(events_i, drop_tmp_writes=True, merge_writes=False):
    """Comparison form of one op's events: drops `mmap-write`, `chmod`, `utimens`, `open-create` of
    temp files and (by default) `write c<n>/tmp/* n`.  Consecutive writes to the same path are merged
    only if merge_writes=True (a record split into two writes must stay visible)."""
    out = []
    for ev in events_i:
        w = ev.split(" ")
        kind = w[0]
        if kind in ("mmap-write", "chmod", "utimens"):
            continue
        if kind == "open-create" and len(w) > 1 and _TMP_RE.match(w[1]):
            continue
        if kind == "write" and len(w) == 3:
            if drop_tmp_writes and _TMP_RE.match(w[1]):
                continue
            if merge_writes and out:
                pw = out[-1].split(" ")
                if len(pw) == 3 and pw[0] == "write" and pw[1] == w[1] and pw[2].isdigit() and w[2].isdigit():
                    out[-1] = f"write {w[1]} {int(pw[2]) + int(w[2])}"
                    continue
        out.append(ev)
    return out


def count_syscalls(flavour, ops, names, by_thread=False):
    """How many system calls from `names` the run enters (all threads, from process start, including
    failing calls and the harness' own marker writes: exactly what strace's `when=N` counts when the
    run is repeated by run_traced with `inject=<names>:...:when=N`).

    strace keeps the `when=` counter PER THREAD.  The sync API runs entirely on the main thread, so
    there the total is the number to sweep over; for the async flavours a sweep 1..total is a
    superset of what can fire (by_thread=True returns {pid: count} instead, main thread first)."""
    if isinstance(names, str):
        names = [x for x in names.split(",") if x]
    r = run_traced(flavour, ops, extra_trace=names)
    if by_thread:
        return {pid: sum(c.get(x, 0) for x in names) for pid, c in r.counts_by_pid.items()
                if any(c.get(x, 0) for x in names)}
    return sum(r.counts.get(x, 0) for x in names)


# ---------------------------------------------------------------------------------------------
# self-test
# ---------------------------------------------------------------------------------------------

SELFTEST_OPS = [
    "write s c0 sha256 x6b x68656c6c6f",
    "write a c0 sha256 x6b32 x68656c6c6f",
    "write_hash s c0 sha256 x68656c6c6f21",
    "read s c0 x6b",
    "remove s c0 x6b",
    "copy s c0 x6b32 out/d1",
    "clear s c0",
]


def _show(r, ops, title):
    print(f"== {title}: rc={r.rc} killed={r.killed} ops={len(r.events)} unparsed={len(r.unparsed)}")
    if r.prelude:
        print("   prelude: " + "; ".join(r.prelude))
    for i, op in enumerate(ops):
        impl = r.impl_lines[i] if i < len(r.impl_lines) else "<no result line>"
        if len(impl) > 100:
            impl = impl[:60] + "..." + impl[-36:]
        print(f"[{i}] {op}\n      -> {impl}")
        if i >= len(r.events):
            print("      (op not started)")
            continue
        for ev in r.events[i]:
            print(f"      {ev}")
        if i < len(r.op_ended) and not r.op_ended[i]:
            print("      (no @@END marker)")
        for ev in r.after.get(i, []):
            print(f"      [after END] {ev}")
    for u in r.unfinished:
        print(f"   unfinished: {u[:160]}")
    for u in r.unparsed[:20]:
        print(f"   UNPARSED: {u[:200]}")


def selftest(flavours):
    bad = 0
    for fl in flavours:
        r = run_traced(fl, SELFTEST_OPS)
        _show(r, SELFTEST_OPS, f"{fl}: plain run")
        print("   skeleton of op 1: " + "; ".join(skeleton(r.events[1] if len(r.events) > 1 else [])))
        bad += bool(r.unparsed) or r.rc != 0 or len(r.events) != len(SELFTEST_OPS)
        n = count_syscalls(fl, SELFTEST_OPS[:1], ["rename", "renameat", "renameat2"])
        print(f"   count_syscalls(first op, rename*) = {n}")
        bad += n != 1

        inj = "inject=renameat,renameat2,rename:error=ENOSPC:when=1"
        r = run_traced(fl, SELFTEST_OPS[:1], inject=inj)
        _show(r, SELFTEST_OPS[:1], f"{fl}: {inj}")
        bad += not any(e.startswith("injected rename") for e in (r.events[0] if r.events else []))
        bad += bool(r.unparsed)

        inj = "inject=write:signal=SIGKILL:when=3"
        r = run_traced(fl, SELFTEST_OPS[:2], inject=inj)
        _show(r, SELFTEST_OPS[:2], f"{fl}: {inj}")
        bad += not r.killed or bool(r.unparsed)
        print()
    print("selftest: " + ("FAILED" if bad else "ok"))
    return 1 if bad else 0


if __name__ == "__main__":
    if len(sys.argv) >= 2 and sys.argv[1] == "--selftest":
        try:
            code = selftest(sys.argv[2:] or ["async-std"])
        finally:
            C.cleanup_scratch()
        sys.exit(code)
    print(__doc__)
    sys.exit(2)
